#!/usr/bin/env python3
"""Runs the claimed checks against the seeded breaking changes under /verif/seeded/<id>/.

  tools/run_seeded.py [--tier quick] [--only ID ...] [--inplace]

Default mode applies each patch in a scratch git worktree of /repo (outside /repo and /verif) and runs
`VERIF_REPO=<worktree> ./check <prop>`; --inplace applies it to /repo itself (git apply), runs the check and
undoes it (git checkout -- .) — only use that when nothing else is reading /repo.  Results are written to
seeded/RESULTS.json (which check caught which change, exit code, VIOLATION line)."""
import argparse, json, os, subprocess, sys, time
here = os.path.dirname(os.path.dirname(os.path.abspath(__file__)))
REPO = "/repo"

def sh(cmd, **kw):
    return subprocess.run(cmd, capture_output=True, text=True, **kw)

def save(resp, sid, val):
    """merge one result into RESULTS.json under a lock (several run_seeded.py may run side by side)"""
    import fcntl
    with open(resp + ".lock", "w") as lk:
        fcntl.flock(lk, fcntl.LOCK_EX)
        cur = json.load(open(resp)) if os.path.exists(resp) else {}
        cur[sid] = val
        tmp = resp + ".tmp"
        json.dump(cur, open(tmp, "w"), indent=1, sort_keys=True)
        os.replace(tmp, resp)


def main():
    ap = argparse.ArgumentParser()
    ap.add_argument("--tier", default="quick")
    ap.add_argument("--only", nargs="*")
    ap.add_argument("--inplace", action="store_true")
    a = ap.parse_args()
    sdir = os.path.join(here, "seeded")
    ids = sorted(d for d in os.listdir(sdir) if os.path.isdir(os.path.join(sdir, d)))
    if a.only:
        ids = [i for i in ids if i in a.only]
    resp = os.path.join(sdir, "RESULTS.json")
    results = json.load(open(resp)) if os.path.exists(resp) else {}
    for sid in ids:
        meta = json.load(open(os.path.join(sdir, sid, "meta.json")))
        patch = os.path.join(sdir, sid, "patch.diff")
        props = meta["properties"] if "properties" in meta else [meta["property"]]
        wt = None
        env = dict(os.environ)
        try:
            if a.inplace:
                r = sh(["git", "-C", REPO, "apply", patch])
                target = REPO
            else:
                wt = "/tmp/seeded_wt_%s_%d" % (sid, os.getpid())
                sh(["git", "-C", REPO, "worktree", "add", "--detach", wt, "HEAD"])
                r = sh(["git", "-C", wt, "apply", patch])
                env["VERIF_REPO"] = wt
                target = wt
            if r.returncode != 0:
                results[sid] = {"error": "patch does not apply: " + r.stderr[-300:]}
                save(resp, sid, results[sid])
                continue
            out = {}
            for p in props:
                t0 = time.time()
                c = sh([os.path.join(here, "check"), p, "--tier", a.tier], cwd=here, env=env)
                vio = [l for l in c.stdout.splitlines() if l.startswith("VIOLATION")]
                out[p] = {"rc": c.returncode, "violation": vio[:2], "wall_s": round(time.time() - t0, 1),
                          "caught": c.returncode == 1 and bool(vio)}
            results[sid] = {"property": props, "checks": out, "caught": all(v["caught"] for v in out.values())}
            print(sid, json.dumps(results[sid]["checks"]), flush=True)
            save(resp, sid, results[sid])
        finally:
            if a.inplace:
                sh(["git", "-C", REPO, "checkout", "--", "."])
            elif wt:
                sh(["git", "-C", REPO, "worktree", "remove", "--force", wt])
    # restore generated Lean to /repo's state
    sh([sys.executable, os.path.join(here, "translate", "regen_all.py")])

if __name__ == "__main__":
    main()
