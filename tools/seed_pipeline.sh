#!/bin/bash
# confirm a seeded change delivered by a seeding agent (/tmp/<sid>_scratch/out) and run the property's check against it
cd "$(dirname "$0")/.."
mkdir -p .cache/logs
for sid in "$@"; do
  python3 tools/confirm_seeded.py "$sid" > .cache/logs/pipe_$sid.log 2>&1
  if python3 -c "import json,sys; sys.exit(0 if json.load(open('seeded/$sid/meta.json')).get('confirmed',{}).get('ok') else 1)"; then
    python3 tools/run_seeded.py --only "$sid" >> .cache/logs/pipe_$sid.log 2>&1
  fi
done
