#!/usr/bin/env python3
"""Imports an independently written breaking change from /tmp/<sid>_scratch/out into seeded/<sid>/ and confirms it:
demo passes on the unchanged tree, fails with the patch, the pinned test suite still passes with the patch.
  tools/confirm_seeded.py <sid> [...]"""
import json, os, shutil, subprocess, sys
here = os.path.dirname(os.path.dirname(os.path.abspath(__file__)))
def sh(cmd, **kw):
    return subprocess.run(cmd, capture_output=True, text=True, **kw)
for sid in sys.argv[1:]:
    src = "/tmp/%s_scratch/out" % sid
    dst = os.path.join(here, "seeded", sid)
    if os.path.isdir(src):
        os.makedirs(dst, exist_ok=True)
        for f in os.listdir(src):
            p = os.path.join(src, f)
            if os.path.isfile(p) and os.path.getsize(p) < 2_000_000:
                shutil.copy(p, os.path.join(dst, f))
            elif os.path.isdir(p) and sum(len(fs) for _, _, fs in os.walk(p)) < 50:
                # small helper directories of a demonstration (e.g. a stand-in python module)
                shutil.copytree(p, os.path.join(dst, f), dirs_exist_ok=True,
                                ignore=shutil.ignore_patterns("__pycache__", "*.o", "*.so", "*.a"))
    meta = json.load(open(os.path.join(dst, "meta.json")))
    wt = "/tmp/confirm_wt_%s" % sid
    sh(["git", "-C", "/repo", "worktree", "remove", "--force", wt])
    sh(["git", "-C", "/repo", "worktree", "add", "--detach", wt, "HEAD"])
    try:
        demo = os.path.join(dst, "run_demo.sh")
        os.chmod(demo, 0o755)
        r0 = sh(["bash", demo, wt], cwd=dst, timeout=1800)
        ap = sh(["git", "-C", wt, "apply", os.path.join(dst, "patch.diff")])
        r1 = sh(["bash", demo, wt], cwd=dst, timeout=1800) if ap.returncode == 0 else None
        t = sh(["/venv/bin/python", "-m", "pytest", "-q", "-p", "no:cacheprovider", "--timeout=900", "--continue-on-collection-errors"], cwd=wt, timeout=1800)
        npass = [l for l in t.stdout.splitlines() if " passed" in l][-1:] 
        meta["confirmed"] = {"patch_applies": ap.returncode == 0, "demo_rc_unchanged": r0.returncode,
                             "demo_rc_patched": r1.returncode if r1 else None, "pytest_with_patch": npass,
                             "ok": ap.returncode == 0 and r0.returncode == 0 and r1 is not None and r1.returncode != 0 and bool(npass) and "86 passed" in npass[0],
                             "repo_head": sh(["git", "-C", "/repo", "rev-parse", "--short", "HEAD"]).stdout.strip()}
        json.dump(meta, open(os.path.join(dst, "meta.json"), "w"), indent=1)
        print(sid, meta["confirmed"])
    finally:
        sh(["git", "-C", "/repo", "worktree", "remove", "--force", wt])
