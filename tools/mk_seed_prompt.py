#!/usr/bin/env python3
"""prints the prompt for an independent seeding agent: mk_seed_prompt.py Cxx <seedid> [<earlier seedid> ...]; also creates
the worktree.  Earlier seed ids: their one-sentence summaries are quoted so that the new change targets a different clause /
function of the property (nothing else from /verif is shown to the agent)."""
import json, os, subprocess, sys
pid, sid = sys.argv[1], sys.argv[2]
here = os.path.dirname(os.path.dirname(os.path.abspath(__file__)))
prop = [json.loads(l) for l in open(os.path.join(here, "properties.jsonl")) if json.loads(l)["id"] == pid][0]
wt = "/tmp/seedwt_" + sid
if not os.path.exists(wt):
    subprocess.run(["git", "-C", "/repo", "worktree", "add", "--detach", wt, "HEAD"], capture_output=True)
text = "Title: %s\nStatement: %s\nQuantified over: %s\nCode areas involved: %s" % (
    prop["title"], prop["statement"], prop["quantifier"]["text"], ", ".join(prop["anchors"]["files"]))
t = open(os.path.join(here, "tools", "seed_prompt.txt")).read()
t = t.replace("WORKTREE", wt).replace("SEEDID", sid).replace("PROPERTY_TEXT", text).replace("CXX", pid)
prev = []
for old in sys.argv[3:]:
    mp = os.path.join(here, "seeded", old, "meta.json")
    if os.path.exists(mp):
        prev.append("- " + json.load(open(mp)).get("summary", ""))
if prev:
    t += ("\n\nIMPORTANT — earlier exercises already produced the following change(s) for this property.  Yours must be DIFFERENT in kind: "
          "target a different clause of the property statement and a different function (preferably a different file) than these:\n"
          + "\n".join(prev) + "\n")
print(t)
