import MjProof.Lemmas.RealNum
import MjProof.Gen.Kernels
import Mathlib.Tactic.Ring
import Mathlib.Tactic.Linarith
import Mathlib.Tactic.NormNum
open MjProof MjProof.Gen

theorem t1 (a0 a1 a2 a3 b0 b1 b2 b3 c0 c1 c2 c3 : ℝ) :
    let ab := mju_mulQuat a0 a1 a2 a3 b0 b1 b2 b3
    let bc := mju_mulQuat b0 b1 b2 b3 c0 c1 c2 c3
    mju_mulQuat ab.1 ab.2.1 ab.2.2.1 ab.2.2.2 c0 c1 c2 c3 =
    mju_mulQuat a0 a1 a2 a3 bc.1 bc.2.1 bc.2.2.1 bc.2.2.2 := by
  simp only [mju_mulQuat, Prod.mk.injEq]
  refine ⟨?_, ?_, ?_, ?_⟩ <;> ring

example : (MjNum.ofSci 5 true 1 : ℝ) = 1/2 := by
  simp only [real_ofSci]; norm_num

theorem rot_formula (v0 v1 v2 q0 q1 q2 q3 : ℝ) :
    mju_rotVecQuat v0 v1 v2 q0 q1 q2 q3 =
      (v0 + 2 * (q2 * (q0*v2 + q1*v1 - q2*v0) - q3 * (q0*v1 + q3*v0 - q1*v2)),
       v1 + 2 * (q3 * (q0*v0 + q2*v2 - q3*v1) - q1 * (q0*v2 + q1*v1 - q2*v0)),
       v2 + 2 * (q1 * (q0*v1 + q3*v0 - q1*v2) - q2 * (q0*v0 + q2*v2 - q3*v1))) := by
  simp only [mju_rotVecQuat, real_beq, real_ofInt, decide_eq_true_eq, Bool.decide_and, Bool.and_eq_true]
  push_cast
  split_ifs with h1 h2
  · obtain ⟨⟨rfl, rfl⟩, rfl⟩ := h1; simp
  · obtain ⟨⟨⟨rfl, rfl⟩, rfl⟩, rfl⟩ := h2; simp
  · simp only [Prod.mk.injEq]; refine ⟨?_, ?_, ?_⟩ <;> ring
