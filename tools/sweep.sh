#!/bin/bash
# tools/sweep.sh <seed> <tier> <lanes> <ids...> : run checks on /repo, record rc + wall time in .cache/logs/sweep_<seed>_<tier>.txt
cd "$(dirname "$0")/.."
seed=$1; tier=$2; lanes=$3; shift 3
mkdir -p .cache/logs
out=.cache/logs/sweep_${seed}_${tier}.txt
printf '%s\n' "$@" | xargs -P "$lanes" -I{} bash -c "s=\$(date +%s); VERIF_SEED=$seed ./check {} --tier $tier > .cache/logs/{}.${seed}.${tier}.log 2>&1; rc=\$?; echo \"{} rc=\$rc \$(( \$(date +%s) - s ))s\" >> $out"
