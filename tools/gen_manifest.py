#!/usr/bin/env python3
"""Regenerates MANIFEST.json from checks/registry.py (single source of truth)."""
import json, os, sys
here = os.path.dirname(os.path.dirname(os.path.abspath(__file__)))
sys.path.insert(0, here)
from checks import registry

props = [json.loads(l) for l in open(os.path.join(here, "properties.jsonl"))]
checks, na = [], []
for p in props:
    pid = p["id"]
    c = registry.CHECKS.get(pid)
    if c is None:
        na.append({"property_id": pid, "reason": registry.NOT_APPLICABLE.get(pid, registry.DEFAULT_NA)})
        continue
    checks.append({
        "property_id": pid,
        "quick_cmd": "./check %s --tier quick" % pid,
        "thorough_cmd": "./check %s --tier thorough" % pid,
        "evidence_file": "/verif/evidence/%s.json" % pid,
        "replay_cmd_template": "./check %s --replay {path}" % pid,
        "engine": "lean4-proof+correspondence",
        "level_claimed": {"category": "proof", "text": c["text"], "design_ref": "DESIGN.md §5.%s" % pid},
        "level_note": c["note"],
        "technique": c["technique"],
    })
m = {
    "version": 1,
    "setup_cmd": "./setup.sh",
    "hooks": {
        "guard": "MUJOCO_VERIF",
        "enable": "no guarded source hooks exist: statics are reached by including the .c file into a harness TU, allocation via mju_user_malloc, so the tree is built unmodified (harness/build.py)",
        "baseline_off_cmd": "cd /repo && /venv/bin/python -m pytest -ra -q -p no:cacheprovider --timeout=900 --continue-on-collection-errors",
        "source_commits": registry.HOOK_COMMITS,
        "add_only": True,
    },
    "engines": [{
        "name": "lean4-proof+correspondence", "path": "/verif/check",
        "serves_properties": sorted(registry.CHECKS),
        "kind_free_text": "Lean 4 theorems over executable models (lean/MjProof), tied to /repo by translator-regenerated tables/kernels and by differential correspondence against a from-source build of the tree; property oracle searches for failing inputs",
    }],
    "checks": checks,
    "not_applicable": na,
    "notes": registry.NOTES,
}
json.dump(m, open(os.path.join(here, "MANIFEST.json"), "w"), indent=1)
print("checks:", len(checks), "not_applicable:", len(na))
