#!/usr/bin/env python3
"""Regenerates the generated blocks of DESIGN.md (between `<!-- BEGIN GENERATED:<name> -->` and
`<!-- END GENERATED:<name> -->`) from the files that are the source of truth:

  findings  <- known_findings.json
  asbuilt   <- checks/*.py META + THEOREMS, evidence/*.json
  seeded    <- seeded/*/meta.json + seeded/RESULTS.json
"""
import glob
import importlib
import json
import os
import re
import sys

here = os.path.dirname(os.path.dirname(os.path.abspath(__file__)))
sys.path.insert(0, here)


def esc(s):
    return str(s).replace("|", "\\|").replace("\n", " ")


def findings():
    k = json.load(open(os.path.join(here, "known_findings.json")))
    rows = ["| prop | key | status | what |", "|------|-----|--------|------|"]
    for e in sorted(k, key=lambda e: (e["property"], e["status"], e["key"])):
        st = e["status"] + ((" " + e["commit"]) if e.get("commit") else "")
        rows.append("| %s | `%s` | %s | %s |" % (e["property"], e["key"], st, esc(e["what"])[:260]))
    nk = sum(1 for e in k if e["status"] == "known")
    nf = sum(1 for e in k if e["status"] == "fixed")
    return "%d entries: %d known (printed as `KNOWN-FINDING:` on every run), %d fixed by a `fix:` commit in /repo.\n\n" % (
        len(k), nk, nf) + "\n".join(rows)


def asbuilt():
    from checks import registry
    rows = ["| id | theorems audited | obligations (quick) | evaluations (quick) | quick wall s | technique |",
            "|----|------------------|---------------------|---------------------|--------------|-----------|"]
    for pid in sorted(registry.ENABLED):
        mod = importlib.import_module("checks." + pid.lower())
        th = getattr(mod, "THEOREMS", [])
        evp = os.path.join(here, "evidence", pid + ".json")
        ob = ev = wall = "-"
        if os.path.exists(evp):
            e = json.load(open(evp))
            c = e["coverage"]
            ob = "%d/%d" % (c["discharged"], c["obligations"])
            ev = c["evaluations"]
            wall = round(e["wall_s"])
        rows.append("| %s | %d | %s | %s | %s | %s |" % (pid, len(th), ob, ev, wall, esc(mod.META["technique"])))
    return "\n".join(rows)


def seeded():
    resp = os.path.join(here, "seeded", "RESULTS.json")
    res = json.load(open(resp)) if os.path.exists(resp) else {}
    hp = os.path.join(here, "seeded", "HISTORY.json")
    hist = json.load(open(hp)) if os.path.exists(hp) else {}
    rows = ["| seeded change | property | what it does | needs, to manifest | caught by | history |",
            "|---------------|----------|--------------|--------------------|-----------|---------|"]
    n = c = 0
    for d in sorted(glob.glob(os.path.join(here, "seeded", "s_*"))):
        sid = os.path.basename(d)
        m = json.load(open(os.path.join(d, "meta.json")))
        r = res.get(sid, {})
        if not m.get("confirmed", {}).get("ok"):
            continue
        n += 1
        caught = []
        vio = ""
        for p, v in r.get("checks", {}).items():
            if v.get("caught"):
                caught.append("`./check %s` (%ss)" % (p, v.get("wall_s")))
                vio = (v.get("violation") or [""])[0]
        if r.get("caught"):
            c += 1
        rows.append("| %s | %s | %s | %s | %s | %s |" % (
            sid, m.get("property"), esc(m.get("summary", ""))[:300], esc(m.get("needs_to_manifest", ""))[:200],
            ", ".join(caught) if caught else ("**missed**" if r else "not run yet"),
            esc(hist.get(sid, "caught by the check as first built"
                         + (" (`no-failing-input-found`: tie/proof broke, search found no input)" if "no-failing-input-found" in vio else "")))))
    nm = sum(1 for k, v in hist.items() if k in res and "missed at first" in v)
    return ("%d confirmed seeded changes; %d are caught by the check of their property (quick tier, seed 0) as the checks stand now; "
            "%d of them were MISSED when first run and led to the strengthening described in the last column.\n\n" % (n, c, nm)
            + "\n".join(rows))


def main():
    p = os.path.join(here, "DESIGN.md")
    s = open(p).read()
    for name, fn in (("findings", findings), ("asbuilt", asbuilt), ("seeded", seeded)):
        pat = re.compile(r"(<!-- BEGIN GENERATED:%s -->\n).*?(<!-- END GENERATED:%s -->)" % (name, name), re.S)
        if not pat.search(s):
            print("no block", name)
            continue
        body = fn()
        s = pat.sub(lambda m: m.group(1) + body + "\n" + m.group(2), s)
    tmp = p + ".tmp"
    open(tmp, "w").write(s)
    os.replace(tmp, p)


if __name__ == "__main__":
    main()
