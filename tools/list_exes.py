#!/usr/bin/env python3
"""Driver executables of the claimed checks (built by setup.sh)."""
import glob, os, sys
here = os.path.dirname(os.path.dirname(os.path.abspath(__file__)))
sys.path.insert(0, here)
from checks import registry
out = ["drv_kernels"]
for p in sorted(glob.glob(os.path.join(here, "lean", "Drivers", "C[0-9]*.lean"))):
    n = os.path.basename(p)[:-5]
    if n[:3] in registry.ENABLED:
        out.append("drv_" + n.lower())
print(" ".join(out))
