#!/usr/bin/env python3
import re, os
t = open(os.path.join(os.path.dirname(os.path.dirname(os.path.abspath(__file__))), "lean", "lakefile.toml")).read()
print(" ".join(re.findall(r'\[\[lean_exe\]\]\s*name = "([^"]+)"', t)))
