"""Enumerator values parsed from /repo/include/mujoco/*.h (so generators follow the tree's own numbering)."""
import os
import re

REPO = os.environ.get("VERIF_REPO", "/repo")
_CACHE = {}


def load():
    if _CACHE:
        return _CACHE
    for h in ("mjtype.h", "mjmodel.h", "mjdata.h", "mjspec.h", "mjvisualize.h", "mjplugin.h"):
        p = os.path.join(REPO, "include", "mujoco", h)
        if not os.path.exists(p):
            continue
        src = re.sub(r"//[^\n]*", "", open(p).read())
        for m in re.finditer(r"typedef\s+enum\s+\w*\s*\{(.*?)\}\s*(\w+)\s*;", src, re.S):
            nxt = 0
            for item in m.group(1).split(","):
                item = item.strip()
                if not item:
                    continue
                if "=" in item:
                    name, val = [" ".join(x.split()) for x in item.split("=", 1)]
                    val = re.sub(r"\b(mj[A-Za-z_0-9]+)\b", lambda mm: str(_CACHE.get(mm.group(1), mm.group(1))), val)
                    try:
                        v = int(eval(val, {"__builtins__": {}}))
                    except Exception:
                        continue
                else:
                    name, v = item, nxt
                _CACHE[name] = v
                nxt = v + 1
    return _CACHE


def E(name):
    return load()[name]
