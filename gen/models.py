"""Seeded generator of MuJoCo model descriptions in the line format of harness/mjbuild.h (DESIGN.md §3.6).

    g = ModelGen(rng, profile={...}); mdl = g.make()
    mdl.lines  -> list of description lines (without the final "end")
    mdl.nq, mdl.nv, mdl.na, mdl.nu, mdl.nmocap, mdl.nbody, joints, geoms, ... (what the description contains)
    mdl.random_state(rng) -> dict(qpos, qvel, act, ctrl, mocap_pos, mocap_quat, qfrc_applied, xfrc_applied)

Everything random comes from the caller's `rng` so a case replays from one seed.  `profile` switches
features on/off (probabilities in [0,1]); unknown keys are rejected so typos do not silently disable a feature.
"""
import math

from .enums import E

DEFAULT_PROFILE = {
    "nbody": (1, 6),          # number of moving bodies (inclusive range)
    "free": 0.3,              # probability that a top-level body gets a free joint
    "ball": 0.15, "slide": 0.25,   # otherwise hinge; per joint
    "multi_joint": 0.2,       # second joint on a body
    "static_body": 0.1,       # body without joints
    "mocap": 0.1,             # top-level static mocap body
    "plane": 0.7,             # ground plane
    "geoms": (1, 2),          # geoms per body
    "geom_types": ("sphere", "capsule", "ellipsoid", "cylinder", "box"),
    "contacts": 1.0,          # geoms collide (contype/conaffinity non-zero)
    "limits": 0.3, "damping": 0.4, "stiffness": 0.3, "armature": 0.3, "frictionloss": 0.2,
    "gravcomp": 0.0,
    "actuators": (0, 3), "actuator_kinds": ("motor", "position", "velocity", "intvelocity", "damper", "cylinder", "muscle", "general"),
    "tendons": 0.3, "equalities": 0.2, "sensors": (0, 4), "sites": 0.6, "cameras": 0.2,
    "pairs": 0.1, "excludes": 0.1, "keys": 0.3, "numeric": 0.2,
    "integrators": ("Euler", "RK4", "implicit", "implicitfast"),
    "solvers": ("PGS", "CG", "Newton"), "cones": ("pyramidal", "elliptic"), "jacobians": ("dense", "sparse", "auto"),
    "islands": 0.7, "sleep": 0.0, "multiccd": 0.8, "gravity": 0.9, "energy": 0.3,
    "no_eulerdamp": 0.1, "no_warmstart": 0.1, "no_filterparent": 0.1, "no_midphase": 0.1,
    "timestep": (0.0005, 0.005),
    "condim": (1, 3, 4, 6),
    "memory": None,
}


def unit_quat(rng):
    while True:
        q = [rng.gauss(0, 1) for _ in range(4)]
        n = math.sqrt(sum(x * x for x in q))
        if n > 1e-3:
            return [x / n for x in q]


def unit_vec(rng):
    while True:
        v = [rng.gauss(0, 1) for _ in range(3)]
        n = math.sqrt(sum(x * x for x in v))
        if n > 1e-3:
            return [x / n for x in v]


def fmt(v):
    return " ".join(repr(float(x)) for x in v) if isinstance(v, (list, tuple)) else repr(float(v))


class Model:
    def __init__(self):
        self.lines = []
        self.joints = []      # dict(name, type, body, qposadr, dofadr, limited, range)
        self.bodies = []      # dict(name, handle, parent, mocap)
        self.geoms = []
        self.sites = []
        self.actuators = []
        self.sensors = []
        self.tendons = []
        self.equalities = []
        self.nq = self.nv = self.na = self.nu = self.nmocap = 0
        self.options = {}

    def text(self):
        return "\n".join(self.lines + ["end"]) + "\n"

    def random_state(self, rng, scale=1.0, perturb=True):
        qpos = []
        for j in self.joints:
            if j["type"] == "free":
                qpos += [rng.uniform(-1, 1) * scale, rng.uniform(-1, 1) * scale, rng.uniform(0.0, 1.5)] + unit_quat(rng)
            elif j["type"] == "ball":
                qpos += unit_quat(rng)
            elif j["limited"] and rng.random() < 0.7:
                lo, hi = j["range"]
                r = rng.random()
                qpos.append(lo + (hi - lo) * rng.random() if r < 0.6 else (lo - 0.05 if r < 0.8 else hi + 0.05))
            else:
                qpos.append(rng.uniform(-1.5, 1.5) * scale)
        st = {"qpos": qpos,
              "qvel": [rng.gauss(0, 1) * scale for _ in range(self.nv)],
              "act": [rng.uniform(-0.5, 1.0) for _ in range(self.na)],
              "ctrl": [rng.uniform(-1.5, 1.5) for _ in range(self.nu)],
              "mocap_pos": [rng.uniform(-1, 1) for _ in range(3 * self.nmocap)],
              "mocap_quat": [x for _ in range(self.nmocap) for x in unit_quat(rng)],
              "qfrc_applied": [rng.gauss(0, 1) if perturb and rng.random() < 0.3 else 0.0 for _ in range(self.nv)],
              "xfrc_applied": [rng.gauss(0, 1) if perturb and rng.random() < 0.15 else 0.0 for _ in range(6 * (len(self.bodies) + 1))]}
        return st


class ModelGen:
    def __init__(self, rng, profile=None):
        self.rng = rng
        self.p = dict(DEFAULT_PROFILE)
        for k, v in (profile or {}).items():
            if k not in self.p:
                raise KeyError("unknown profile key " + k)
            self.p[k] = v
        self.h = 0

    def newh(self):
        self.h += 1
        return self.h

    def chance(self, key):
        return self.rng.random() < self.p[key]

    def rint(self, key):
        lo, hi = self.p[key]
        return self.rng.randint(lo, hi)

    def make(self):
        rng, p, m = self.rng, self.p, Model()
        L = m.lines.append
        # ---- options
        integ = rng.choice(p["integrators"])
        solver = rng.choice(p["solvers"])
        cone = rng.choice(p["cones"])
        jac = rng.choice(p["jacobians"])
        m.options = {"integrator": integ, "solver": solver, "cone": cone, "jacobian": jac}
        L("option timestep %r" % rng.uniform(*p["timestep"]))
        L("option integrator %d" % E("mjINT_" + integ.upper()))
        L("option solver %d" % E("mjSOL_" + solver.upper()))
        L("option cone %d" % E("mjCONE_" + cone.upper()))
        L("option jacobian %d" % E("mjJAC_" + jac.upper()))
        if not self.chance("gravity"):
            L("option gravity 0 0 0")
        enable = 0
        disable = 0
        if not self.chance("islands"):
            disable |= E("mjDSBL_ISLAND")
        if not self.chance("multiccd"):
            disable |= E("mjDSBL_MULTICCD")
        if self.chance("sleep"):
            enable |= E("mjENBL_SLEEP")
        if self.chance("energy"):
            enable |= E("mjENBL_ENERGY")
        for flag, key in (("mjDSBL_EULERDAMP", "no_eulerdamp"), ("mjDSBL_WARMSTART", "no_warmstart"),
                          ("mjDSBL_FILTERPARENT", "no_filterparent"), ("mjDSBL_MIDPHASE", "no_midphase")):
            if self.chance(key):
                disable |= E(flag)
        m.options["enableflags"] = enable
        m.options["disableflags"] = disable
        L("option enableflags %d" % enable)
        L("option disableflags %d" % disable)
        if p["memory"]:
            L("spec memory %d" % p["memory"])
        # ---- ground
        if self.chance("plane"):
            h = self.newh()
            L("geom %d 0" % h)
            L("set %d type %d" % (h, E("mjGEOM_PLANE")))
            L("set %d size 5 5 0.1" % h)
            L("name %d floor" % h)
            m.geoms.append({"name": "floor", "type": "plane", "body": 0})
        # ---- bodies
        nb = self.rint("nbody")
        handles = [0]
        for bi in range(nb):
            parent_i = 0 if (bi == 0 or rng.random() < 0.35) else rng.randrange(1, len(handles))
            ph = handles[parent_i]
            h = self.newh()
            handles.append(h)
            name = "b%d" % (bi + 1)
            L("body %d %d" % (h, ph))
            L("name %d %s" % (h, name))
            toplevel = ph == 0
            pos = [rng.uniform(-0.6, 0.6), rng.uniform(-0.6, 0.6), rng.uniform(0.1, 1.0) if toplevel else rng.uniform(-0.5, 0.5)]
            L("set %d pos %s" % (h, fmt(pos)))
            if rng.random() < 0.5:
                L("set %d quat %s" % (h, fmt(unit_quat(rng))))
            binfo = {"name": name, "handle": h, "parent": parent_i, "mocap": False, "toplevel": toplevel}
            m.bodies.append(binfo)
            if p["gravcomp"] and rng.random() < p["gravcomp"]:
                L("set %d gravcomp %r" % (h, rng.choice((1.0, 0.5, rng.uniform(0, 1.5)))))
            # joints
            if toplevel and self.chance("mocap"):
                L("set %d mocap 1" % h)
                binfo["mocap"] = True
                m.nmocap += 1
            elif self.chance("static_body"):
                pass
            elif toplevel and self.chance("free"):
                jh = self.newh()
                L("freejoint %d %d" % (jh, h))
                jn = "j%d" % (len(m.joints) + 1)
                L("name %d %s" % (jh, jn))
                m.joints.append({"name": jn, "type": "free", "body": name, "qposadr": m.nq, "dofadr": m.nv, "limited": False, "range": (0, 0), "handle": jh})
                m.nq += 7
                m.nv += 6
            else:
                nj = 2 if self.chance("multi_joint") else 1
                first = self.add_joint(m, h, name)
                if nj == 2 and first != "ball":
                    self.add_joint(m, h, name, allow_ball=False)
            # geoms
            for _ in range(self.rint("geoms")):
                self.add_geom(m, h, name)
            if self.chance("sites"):
                sh = self.newh()
                sn = "s%d" % (len(m.sites) + 1)
                L("site %d %d" % (sh, h))
                L("name %d %s" % (sh, sn))
                L("set %d pos %s" % (sh, fmt([rng.uniform(-0.2, 0.2) for _ in range(3)])))
                if rng.random() < 0.5:
                    L("set %d quat %s" % (sh, fmt(unit_quat(rng))))
                m.sites.append({"name": sn, "body": name})
            if self.chance("cameras"):
                ch = self.newh()
                L("camera %d %d" % (ch, h))
                L("name %d cam%d" % (ch, ch))
                L("set %d pos %s" % (ch, fmt([rng.uniform(-0.2, 0.2) for _ in range(3)])))
                L("set %d quat %s" % (ch, fmt(unit_quat(rng))))
        # bodies with no mass: mujoco requires moving bodies to have mass -> every body has >= 1 geom with density
        self.add_actuators(m)
        self.add_tendons(m)
        self.add_equalities(m)
        self.add_sensors(m)
        self.add_pairs(m)
        self.add_keys(m)
        if self.chance("numeric"):
            nh = self.newh()
            L("numeric %d" % nh)
            L("name %d num1" % nh)
            L("set %d size 3" % nh)
            L("set %d data 1.5 -2" % nh)
        return m

    def add_joint(self, m, bh, bname, allow_ball=True):
        rng, L = self.rng, m.lines.append
        r = rng.random()
        jt = "ball" if (r < self.p["ball"] and allow_ball) else "slide" if r < self.p["ball"] + self.p["slide"] else "hinge"
        jh = self.newh()
        jn = "j%d" % (len(m.joints) + 1)
        L("joint %d %d" % (jh, bh))
        L("name %d %s" % (jh, jn))
        L("set %d type %d" % (jh, E("mjJNT_" + jt.upper())))
        L("set %d pos %s" % (jh, fmt([rng.uniform(-0.2, 0.2) for _ in range(3)])))
        if jt != "ball":
            L("set %d axis %s" % (jh, fmt(unit_vec(rng))))
        limited, rg = False, (0.0, 0.0)
        if self.chance("limits"):
            limited = True
            if jt == "ball":
                rg = (0.0, rng.uniform(0.3, 1.5))
            else:
                lo = rng.uniform(-1.5, 0.2)
                rg = (lo, lo + rng.uniform(0.2, 2.0))
            L("set %d limited %d" % (jh, E("mjLIMITED_TRUE")))
            L("set %d range %s" % (jh, fmt(rg)))
        if self.chance("damping"):
            L("set %d damping %r" % (jh, rng.uniform(0.01, 2.0)))
        if self.chance("stiffness"):
            L("set %d stiffness %r" % (jh, rng.uniform(0.1, 20.0)))
            if jt != "ball":
                L("set %d springref %r" % (jh, rng.uniform(-0.5, 0.5)))
        if self.chance("armature"):
            L("set %d armature %r" % (jh, rng.uniform(0.001, 0.5)))
        if self.chance("frictionloss"):
            L("set %d frictionloss %r" % (jh, rng.uniform(0.01, 1.0)))
        if jt != "ball" and rng.random() < 0.15:
            L("set %d ref %r" % (jh, rng.uniform(-0.3, 0.3)))
        m.joints.append({"name": jn, "type": jt, "body": bname, "qposadr": m.nq, "dofadr": m.nv, "limited": limited, "range": rg, "handle": jh})
        m.nq += 4 if jt == "ball" else 1
        m.nv += 3 if jt == "ball" else 1
        return jt

    def add_geom(self, m, bh, bname):
        rng, L = self.rng, m.lines.append
        gt = rng.choice(self.p["geom_types"])
        gh = self.newh()
        gn = "g%d" % (len(m.geoms) + 1)
        L("geom %d %d" % (gh, bh))
        L("name %d %s" % (gh, gn))
        L("set %d type %d" % (gh, E("mjGEOM_" + gt.upper())))
        a, b, c = (rng.uniform(0.04, 0.25) for _ in range(3))
        size = {"sphere": [a], "capsule": [a, b], "cylinder": [a, b], "ellipsoid": [a, b, c], "box": [a, b, c]}[gt]
        L("set %d size %s" % (gh, fmt(size)))
        L("set %d pos %s" % (gh, fmt([rng.uniform(-0.15, 0.15) for _ in range(3)])))
        if rng.random() < 0.6:
            L("set %d quat %s" % (gh, fmt(unit_quat(rng))))
        if not self.chance("contacts"):
            L("set %d contype 0" % gh)
            L("set %d conaffinity 0" % gh)
        else:
            if rng.random() < 0.3:
                L("set %d contype %d" % (gh, rng.choice((1, 2, 3, 4))))
                L("set %d conaffinity %d" % (gh, rng.choice((1, 2, 3, 7))))
            L("set %d condim %d" % (gh, rng.choice(self.p["condim"])))
            if rng.random() < 0.3:
                L("set %d friction %s" % (gh, fmt([rng.uniform(0.2, 1.5), rng.uniform(0.001, 0.05), rng.uniform(0.0001, 0.01)])))
            if rng.random() < 0.2:
                L("set %d margin %r" % (gh, rng.uniform(0.0, 0.05)))
            if rng.random() < 0.1:
                L("set %d priority %d" % (gh, rng.choice((0, 1, 2))))
        if rng.random() < 0.3:
            L("set %d density %r" % (gh, rng.uniform(200, 3000)))
        if rng.random() < 0.3:
            L("set %d group %d" % (gh, rng.randint(0, 5)))
        m.geoms.append({"name": gn, "type": gt, "body": bname, "size": size, "handle": gh})

    def add_actuators(self, m):
        rng, L = self.rng, m.lines.append
        targets = [j for j in m.joints if j["type"] in ("hinge", "slide")]
        if not targets:
            return
        for _ in range(self.rint("actuators")):
            kind = rng.choice(self.p["actuator_kinds"])
            j = rng.choice(targets)
            ah = self.newh()
            an = "a%d" % (len(m.actuators) + 1)
            L("actuator %d" % ah)
            L("name %d %s" % (ah, an))
            L("set %d trntype %d" % (ah, E("mjTRN_JOINT")))
            L("set %d target %s" % (ah, j["name"]))
            L("set %d gear %r" % (ah, rng.choice((1.0, rng.uniform(-3, 3) or 1.0))))
            na = 0
            if kind == "motor":
                pass
            elif kind == "position":
                kp = rng.uniform(1, 50)
                L("set %d gainprm %r" % (ah, kp))
                L("set %d biastype %d" % (ah, E("mjBIAS_AFFINE")))
                L("set %d biasprm 0 %r %r" % (ah, -kp, -rng.uniform(0, 2)))
            elif kind == "velocity":
                kv = rng.uniform(0.1, 5)
                L("set %d gainprm %r" % (ah, kv))
                L("set %d biastype %d" % (ah, E("mjBIAS_AFFINE")))
                L("set %d biasprm 0 0 %r" % (ah, -kv))
            elif kind == "intvelocity":
                kp = rng.uniform(1, 20)
                L("set %d dyntype %d" % (ah, E("mjDYN_INTEGRATOR")))
                L("set %d gainprm %r" % (ah, kp))
                L("set %d biastype %d" % (ah, E("mjBIAS_AFFINE")))
                L("set %d biasprm 0 %r 0" % (ah, -kp))
                L("set %d actlimited %d" % (ah, E("mjLIMITED_TRUE")))
                L("set %d actrange -1 1" % ah)
                na = 1
            elif kind == "damper":
                kv = rng.uniform(0.1, 3)
                L("set %d gaintype %d" % (ah, E("mjGAIN_AFFINE")))
                L("set %d gainprm 0 0 %r" % (ah, -kv))
                L("set %d ctrllimited %d" % (ah, E("mjLIMITED_TRUE")))
                L("set %d ctrlrange 0 2" % ah)
            elif kind == "cylinder":
                L("set %d dyntype %d" % (ah, E("mjDYN_FILTER")))
                L("set %d dynprm %r" % (ah, rng.uniform(0.01, 0.5)))
                L("set %d gainprm %r" % (ah, rng.uniform(0.5, 3)))
                L("set %d biastype %d" % (ah, E("mjBIAS_AFFINE")))
                L("set %d biasprm %r %r %r" % (ah, rng.uniform(-1, 1), rng.uniform(-1, 0), rng.uniform(-1, 0)))
                na = 1
            elif kind == "muscle":
                L("set %d dyntype %d" % (ah, E("mjDYN_MUSCLE")))
                L("set %d gaintype %d" % (ah, E("mjGAIN_MUSCLE")))
                L("set %d biastype %d" % (ah, E("mjBIAS_MUSCLE")))
                prm = [0.75, 1.05, rng.choice((-1.0, rng.uniform(5, 100))), rng.uniform(50, 300), 0.5, 1.6, 1.5, 1.3, 1.2]
                L("set %d gainprm %s" % (ah, fmt(prm)))
                L("set %d biasprm %s" % (ah, fmt(prm)))
                L("set %d dynprm %s" % (ah, fmt([rng.uniform(0.005, 0.05), rng.uniform(0.02, 0.1), rng.choice((0.0, 0.5))])))
                L("set %d lengthrange %s" % (ah, fmt([0.5, 1.5])))
                L("set %d ctrllimited %d" % (ah, E("mjLIMITED_TRUE")))
                L("set %d ctrlrange 0 1" % ah)
                na = 1
            else:  # general
                L("set %d gaintype %d" % (ah, E("mjGAIN_AFFINE")))
                L("set %d gainprm %s" % (ah, fmt([rng.uniform(0.5, 3), rng.uniform(-1, 1), rng.uniform(-1, 0)])))
                L("set %d biastype %d" % (ah, E("mjBIAS_AFFINE")))
                L("set %d biasprm %s" % (ah, fmt([rng.uniform(-1, 1), rng.uniform(-1, 0), rng.uniform(-1, 0)])))
                if rng.random() < 0.5:
                    dt = rng.choice(("INTEGRATOR", "FILTER", "FILTEREXACT"))
                    L("set %d dyntype %d" % (ah, E("mjDYN_" + dt)))
                    L("set %d dynprm %r" % (ah, rng.uniform(0.02, 0.5)))
                    na = 1
                    if rng.random() < 0.5:
                        L("set %d actlimited %d" % (ah, E("mjLIMITED_TRUE")))
                        L("set %d actrange -0.7 0.9" % ah)
            if kind not in ("damper", "muscle") and rng.random() < 0.5:
                L("set %d ctrllimited %d" % (ah, E("mjLIMITED_TRUE")))
                L("set %d ctrlrange %s" % (ah, fmt([-rng.uniform(0.2, 1), rng.uniform(0.2, 1)])))
            if rng.random() < 0.4:
                L("set %d forcelimited %d" % (ah, E("mjLIMITED_TRUE")))
                L("set %d forcerange %s" % (ah, fmt([-rng.uniform(0.5, 5), rng.uniform(0.5, 5)])))
            if rng.random() < 0.2:
                L("set %d group %d" % (ah, rng.randint(0, 3)))
            m.actuators.append({"name": an, "kind": kind, "joint": j["name"], "na": na})
            m.nu += 1
            m.na += na

    def add_tendons(self, m):
        rng, L = self.rng, m.lines.append
        sj = [j for j in m.joints if j["type"] in ("hinge", "slide")]
        if len(sj) >= 2 and self.chance("tendons"):
            th = self.newh()
            tn = "t%d" % (len(m.tendons) + 1)
            L("tendon %d" % th)
            L("name %d %s" % (th, tn))
            for j in rng.sample(sj, 2):
                L("wrap %d joint %s %r" % (th, j["name"], rng.uniform(-2, 2) or 1.0))
            if rng.random() < 0.5:
                L("set %d stiffness %r" % (th, rng.uniform(0.5, 10)))
            if rng.random() < 0.5:
                L("set %d damping %r" % (th, rng.uniform(0.05, 1)))
            if rng.random() < 0.3:
                L("set %d limited %d" % (th, E("mjLIMITED_TRUE")))
                L("set %d range -0.5 0.5" % th)
            if rng.random() < 0.2:
                L("set %d frictionloss %r" % (th, rng.uniform(0.01, 0.5)))
            m.tendons.append({"name": tn, "kind": "fixed"})
        if len(m.sites) >= 2 and self.chance("tendons"):
            th = self.newh()
            tn = "t%d" % (len(m.tendons) + 1)
            L("tendon %d" % th)
            L("name %d %s" % (th, tn))
            for s in rng.sample(m.sites, 2):
                L("wrap %d site %s" % (th, s["name"]))
            if rng.random() < 0.5:
                L("set %d stiffness %r" % (th, rng.uniform(0.5, 10)))
                L("set %d springlength %r %r" % (th, 0.3, 0.3))
            if rng.random() < 0.5:
                L("set %d damping %r" % (th, rng.uniform(0.05, 1)))
            m.tendons.append({"name": tn, "kind": "spatial"})

    def add_equalities(self, m):
        rng, L = self.rng, m.lines.append
        if not self.chance("equalities"):
            return
        movers = [b for b in m.bodies if not b["mocap"]]
        sj = [j for j in m.joints if j["type"] in ("hinge", "slide")]
        kind = rng.choice(("connect", "weld", "joint"))
        eh = self.newh()
        if kind == "joint" and len(sj) >= 2:
            a, b = rng.sample(sj, 2)
            L("equality %d" % eh)
            L("set %d type %d" % (eh, E("mjEQ_JOINT")))
            L("set %d objtype %d" % (eh, E("mjOBJ_JOINT")))
            L("set %d name1 %s" % (eh, a["name"]))
            L("set %d name2 %s" % (eh, b["name"]))
            L("set %d data %s" % (eh, fmt([rng.uniform(-0.2, 0.2), rng.uniform(0.5, 1.5), 0, 0, 0])))
            m.equalities.append({"kind": "joint"})
        elif len(movers) >= 1:
            a = rng.choice(movers)
            L("equality %d" % eh)
            L("set %d type %d" % (eh, E("mjEQ_CONNECT") if kind != "weld" else E("mjEQ_WELD")))
            L("set %d objtype %d" % (eh, E("mjOBJ_BODY")))
            L("set %d name1 %s" % (eh, a["name"]))
            others = [b for b in movers if b is not a]
            if others and rng.random() < 0.6:
                L("set %d name2 %s" % (eh, rng.choice(others)["name"]))
            else:
                L("set %d name2 world" % eh)
            if kind == "weld":
                L("set %d data 0 0 0 0 0 0 1 0 0 0 1" % eh)
            else:
                L("set %d data %s" % (eh, fmt([rng.uniform(-0.1, 0.1) for _ in range(3)])))
            m.equalities.append({"kind": kind})
        name = "eq%d" % len(m.equalities)
        if m.equalities:
            L("name %d %s" % (eh, name))

    def add_sensors(self, m):
        rng, L = self.rng, m.lines.append
        for _ in range(self.rint("sensors")):
            opts = []
            sj = [j for j in m.joints if j["type"] in ("hinge", "slide")]
            if sj:
                opts += ["JOINTPOS", "JOINTVEL"]
            if m.actuators:
                opts += ["ACTUATORFRC", "ACTUATORPOS", "ACTUATORVEL"]
            if m.sites:
                opts += ["ACCELEROMETER", "VELOCIMETER", "GYRO", "FRAMEPOS", "FRAMEQUAT", "FRAMELINVEL", "FRAMEANGVEL", "FORCE", "TORQUE", "TOUCH", "FRAMEXAXIS"]
            if m.bodies:
                opts += ["SUBTREECOM", "SUBTREELINVEL", "SUBTREEANGMOM"]
            if m.tendons:
                opts += ["TENDONPOS", "TENDONVEL"]
            opts += ["CLOCK"]
            st = rng.choice(opts)
            sh = self.newh()
            sn = "sens%d" % (len(m.sensors) + 1)
            L("sensor %d" % sh)
            L("name %d %s" % (sh, sn))
            L("set %d type %d" % (sh, E("mjSENS_" + st)))
            if st.startswith("JOINT"):
                L("set %d objtype %d" % (sh, E("mjOBJ_JOINT")))
                L("set %d objname %s" % (sh, rng.choice(sj)["name"]))
            elif st.startswith("ACTUATOR"):
                L("set %d objtype %d" % (sh, E("mjOBJ_ACTUATOR")))
                L("set %d objname %s" % (sh, rng.choice(m.actuators)["name"]))
            elif st.startswith("TENDON"):
                L("set %d objtype %d" % (sh, E("mjOBJ_TENDON")))
                L("set %d objname %s" % (sh, rng.choice(m.tendons)["name"]))
            elif st.startswith("SUBTREE"):
                L("set %d objtype %d" % (sh, E("mjOBJ_BODY")))
                L("set %d objname %s" % (sh, rng.choice(m.bodies)["name"]))
            elif st == "CLOCK":
                pass
            else:
                L("set %d objtype %d" % (sh, E("mjOBJ_SITE")))
                L("set %d objname %s" % (sh, rng.choice(m.sites)["name"]))
                if st.startswith("FRAME") and len(m.sites) >= 2 and rng.random() < 0.4:
                    L("set %d reftype %d" % (sh, E("mjOBJ_SITE")))
                    L("set %d refname %s" % (sh, rng.choice(m.sites)["name"]))
            if rng.random() < 0.3 and st not in ("FRAMEQUAT", "FRAMEXAXIS"):
                L("set %d cutoff %r" % (sh, rng.uniform(0.1, 5)))
            m.sensors.append({"name": sn, "type": st})

    def add_pairs(self, m):
        rng, L = self.rng, m.lines.append
        gs = [g for g in m.geoms if g["type"] != "plane"]
        if len(gs) >= 2 and self.chance("pairs"):
            a, b = rng.sample(gs, 2)
            if a["body"] != b["body"]:
                ph = self.newh()
                L("pair %d" % ph)
                L("set %d geomname1 %s" % (ph, a["name"]))
                L("set %d geomname2 %s" % (ph, b["name"]))
                L("set %d condim %d" % (ph, rng.choice((1, 3, 4, 6))))
        bs = m.bodies
        if len(bs) >= 2 and self.chance("excludes"):
            a, b = rng.sample(bs, 2)
            xh = self.newh()
            L("exclude %d" % xh)
            L("set %d bodyname1 %s" % (xh, a["name"]))
            L("set %d bodyname2 %s" % (xh, b["name"]))

    def add_keys(self, m):
        rng, L = self.rng, m.lines.append
        if not self.chance("keys"):
            return
        st = m.random_state(rng)
        kh = self.newh()
        L("key %d" % kh)
        L("name %d key1" % kh)
        L("set %d time %r" % (kh, rng.uniform(0, 2)))
        if m.nq:
            L("set %d qpos %s" % (kh, fmt(st["qpos"])))
        if m.nv:
            L("set %d qvel %s" % (kh, fmt(st["qvel"])))
        if m.na:
            L("set %d act %s" % (kh, fmt(st["act"])))
        if m.nu:
            L("set %d ctrl %s" % (kh, fmt(st["ctrl"])))
        if m.nmocap:
            L("set %d mpos %s" % (kh, fmt(st["mocap_pos"])))
            L("set %d mquat %s" % (kh, fmt(st["mocap_quat"])))
