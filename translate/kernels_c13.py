"""C13 kernels: raw primitive colliders of engine_collision_primitive.c / engine_collision_box.c.

Translated (struct-pointer parameter `mjPreContact* con`: fields appear as con0_dist, con0_normal_k, con0_pos_k,
con0_tangent_k results, and as inputs where a path leaves them unwritten):
  mjraw_SphereSphere, mjraw_PlaneSphere, mjraw_SphereCapsule (inlines mjraw_SphereSphere, calls mju_clip),
  mju_clampVec specialised to n = 3 (closest point of a box in its local frame: the core of mjraw_SphereBox).
mju_makeFrame is in the shared list translate/kernels.py.

Tried and refused by c2lean (covered by the engine oracle of checks/c13.py instead):
  mjraw_CapsuleCapsule   parallel-axes branch indexes `con + n1` with a data-dependent offset
  mjraw_SphereBox        `nearest[k/2]` with data-dependent k (and k is uninitialised on the path the translator explores)
  mjraw_CapsuleBox       data-dependent indices / int-encoded case analysis
  mjc_* wrappers         take mjModel* / mjData* (pointer-valued struct members)
"""
PRIM = "src/engine/engine_collision_primitive.c"
BOX = "src/engine/engine_collision_box.c"
KERNELS = [
    # mju_clip is listed here too (another list may or may not have it): the generated colliders must *call* it
    # rather than inline it, whatever the other lists contain, so that the proofs see a stable shape
    {"name": "mju_clip", "file": "src/engine/engine_util_misc.c"},
    {"name": "mjraw_SphereSphere", "file": PRIM, "static": True},
    {"name": "mjraw_PlaneSphere", "file": PRIM, "static": True},
    {"name": "mjraw_SphereCapsule", "file": PRIM, "static": True},
    {"name": "mju_clampVec", "file": BOX, "static": True, "fix": {"n": 3}, "lean": "mju_clampVec3"},
]
INLINE_FILES = [PRIM, BOX]
