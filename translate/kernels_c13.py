"""C13 kernels: raw primitive colliders (seed list; the C13 owner extends it)."""
PRIM = "src/engine/engine_collision_primitive.c"
KERNELS = [
    {"name": "mjraw_SphereSphere", "file": PRIM, "static": True},
    {"name": "mjraw_PlaneSphere", "file": PRIM, "static": True},
    {"name": "mjraw_SphereCapsule", "file": PRIM, "static": True},
]
INLINE_FILES = [PRIM]
