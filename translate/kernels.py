"""Whitelist of C kernels translated by c2lean (DESIGN.md §3.5).  `fix` specialises scalar parameters
(e.g. a loop bound) or sets an optional pointer to NULL (value None); `lean` overrides the Lean name;
`static` means the function is file-static and the validation harness #includes the .c file."""

SPATIAL = "src/engine/engine_util_spatial.c"
BLAS = "src/engine/engine_util_blas.c"
MISC = "src/engine/engine_util_misc.c"

KERNELS = [
    # ---- 3/4-vector BLAS used by the spatial kernels
    {"name": "mju_normalize3", "file": BLAS},
    {"name": "mju_normalize4", "file": BLAS},
    {"name": "mju_norm3", "file": BLAS},
    {"name": "mju_dot3", "file": BLAS},
    {"name": "mju_dist3", "file": BLAS},
    {"name": "mju_mulMatVec3", "file": BLAS},
    {"name": "mju_mulMatTVec3", "file": BLAS},
    # ---- engine_util_spatial.c
    {"name": "mju_rotVecQuat", "file": SPATIAL},
    {"name": "mju_negQuat", "file": SPATIAL},
    {"name": "mju_mulQuat", "file": SPATIAL},
    {"name": "mju_mulQuatAxis", "file": SPATIAL},
    {"name": "mju_axisAngle2Quat", "file": SPATIAL},
    {"name": "mju_quat2Vel", "file": SPATIAL},
    {"name": "mju_subQuat", "file": SPATIAL},
    {"name": "mju_quat2Mat", "file": SPATIAL},
    {"name": "mju_mat2Quat", "file": SPATIAL},
    {"name": "mju_derivQuat", "file": SPATIAL},
    {"name": "mju_quatIntegrate", "file": SPATIAL},
    {"name": "mju_quatZ2Vec", "file": SPATIAL},
    {"name": "mju_mulPose", "file": SPATIAL},
    {"name": "mju_negPose", "file": SPATIAL},
    {"name": "mju_trnVecPose", "file": SPATIAL},
    {"name": "mju_cross", "file": SPATIAL},
    {"name": "mju_crossMotion", "file": SPATIAL},
    {"name": "mju_crossForce", "file": SPATIAL},
    {"name": "mju_inertCom", "file": SPATIAL},
    {"name": "mju_mulInertVec", "file": SPATIAL},
    {"name": "mju_dofCom", "file": SPATIAL},
    {"name": "mju_transformSpatial", "file": SPATIAL},
    {"name": "mju_makeFrame", "file": SPATIAL},
    # ---- engine_derivative.c (C24: analytic derivatives of the quaternion utilities)
    {"name": "mjd_subQuat", "file": "src/engine/engine_derivative.c"},
    {"name": "mjd_quatIntegrate", "file": "src/engine/engine_derivative.c"},
]

# files whose functions may be inlined when called from a kernel
INLINE_FILES = [BLAS, SPATIAL, MISC]


# Per-property kernel lists live in translate/kernels_cXX.py (each defines KERNELS and optionally
# INLINE_FILES) so that concurrent work never edits this file; they are merged here, duplicates by
# (name, lean, fix) dropped.
import glob as _glob
import importlib.util as _ilu
import os as _os


def _merge():
    seen = {(k["name"], k.get("lean"), str(k.get("fix"))) for k in KERNELS}
    here = _os.path.dirname(_os.path.abspath(__file__))
    for path in sorted(_glob.glob(_os.path.join(here, "kernels_c[0-9][0-9]*.py"))):
        spec = _ilu.spec_from_file_location(_os.path.basename(path)[:-3], path)
        mod = _ilu.module_from_spec(spec)
        try:
            spec.loader.exec_module(mod)
        except Exception as e:  # a list under construction must not break the others
            print("warning: %s not loadable: %s" % (path, e))
            continue
        for k in getattr(mod, "KERNELS", []):
            key = (k["name"], k.get("lean"), str(k.get("fix")))
            if key not in seen:
                seen.add(key)
                KERNELS.append(k)
        for f in getattr(mod, "INLINE_FILES", []):
            if f not in INLINE_FILES:
                INLINE_FILES.append(f)


_merge()
