"""C05 kernels: scalar helpers of the activation update (mj_nextActivation) and the position integration.
mj_nextActivation / mj_integratePosInd / mj_advance themselves read through pointer members of mjModel / mjData
(outside c2lean's subset: pointer-valued struct members, data-dependent indices) and are hand-modelled in
lean/MjProof/Model/Integrate.lean on top of these generated kernels (tie: bitwise differential against the
real functions, checks/c05.py).  The quaternion kernels (mju_quatIntegrate, mju_normalize3/4,
mju_axisAngle2Quat, mju_mulQuat) are already in the shared list."""
MISC = "src/engine/engine_util_misc.c"
BLAS = "src/engine/engine_util_blas.c"
KERNELS = [
    {"name": "mju_clip", "file": MISC},
    {"name": "mju_max", "file": MISC},
    {"name": "mju_min", "file": MISC},
    {"name": "mj_lugreStribeck", "file": MISC},
]
INLINE_FILES = [MISC]
