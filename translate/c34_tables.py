#!/usr/bin/env python3
"""C34 translator: regenerates lean/MjProof/Gen/NameOrder.lean from the source tree.

Reads (repository root = $VERIF_REPO, default /repo):
  src/engine/engine_name.c   _getnumadr      -> the fall-through chain: per block the case labels, the count
                                               subtracted from *mapadr and assigned to num, and the name_*adr field
                             mj_hashString   -> initial value and shift of the hash; body must match the modelled loop
                             mj_name2id, mj_id2name -> bodies must match the token templates that
                                               lean/MjProof/Model/Name.lean models (probe loop, strncmp, NULL rule)
  src/user/user_model.cc     namelist, addtolist -> bodies must match the modelled templates (linear probing insert)
                             mjCModel::CopyNames -> order of the namelist calls (list variable, name_*adr field)
                                               and of the map_adr increments
  src/engine/engine_io.c     mj_makeModel... -> the counts summed into nnames_map
  src/engine/engine_io.h, engine_memory.h    -> every `#define mjLOAD_MULTIPLE`
  include/mujoco/mjxmacro.h  MJMODEL_POINTERS -> dimension (count) of every name_*adr array
  include/mujoco/mjtype.h|mjmodel.h           -> enum mjtObj values

Nothing about the orders is hard-coded.  Refuses (exit 3 + message on stderr) whenever a construct is outside
the understood shape.

usage: c34_tables.py [--stdout]
"""
import os
import re
import sys

VERIF = os.path.dirname(os.path.dirname(os.path.abspath(__file__)))
REPO = os.environ.get("VERIF_REPO", "/repo")
OUT = os.path.join(VERIF, "lean", "MjProof", "Gen", "NameOrder.lean")


class Refuse(Exception):
    pass


def read(rel):
    p = os.path.join(REPO, rel)
    if not os.path.exists(p):
        raise Refuse("missing source file %s" % p)
    with open(p, encoding="utf-8", errors="replace") as f:
        return f.read()


def strip_comments(s):
    s = re.sub(r"/\*.*?\*/", " ", s, flags=re.S)
    s = re.sub(r"//[^\n]*", " ", s)
    return s


TOK = re.compile(r"[A-Za-z_][A-Za-z_0-9]*|\d+|->|<<|>>|<=|>=|==|!=|\+\+|--|\+=|-=|&&|\|\||\"(?:[^\"\\]|\\.)*\"|\S")


def norm(s):
    """canonical token stream: comments stripped, tokens separated by single spaces"""
    return " ".join(TOK.findall(strip_comments(s)))


def function_body(src, header_re, what):
    """text between the braces of the unique function whose header matches header_re"""
    ms = list(re.finditer(header_re, src))
    if len(ms) != 1:
        raise Refuse("%s: expected exactly one definition, found %d" % (what, len(ms)))
    i = src.index("{", ms[0].end() - 1)
    depth, j = 0, i
    while j < len(src):
        c = src[j]
        if c == "{":
            depth += 1
        elif c == "}":
            depth -= 1
            if depth == 0:
                return src[i + 1:j]
        j += 1
    raise Refuse("%s: unbalanced braces" % what)


def expect_template(body, template, what):
    """body (raw C) must equal the template token for token; template holes <NAME> capture one token"""
    bt = TOK.findall(strip_comments(body))
    tt = template.split()
    cap = {}
    if len(bt) != len(tt):
        raise Refuse("%s: body has %d tokens, the modelled template has %d; body = %s" % (what, len(bt), len(tt), " ".join(bt)[:400]))
    for k, (b, t) in enumerate(zip(bt, tt)):
        if t.startswith("<") and t.endswith(">") and len(t) > 2:
            if t in cap and cap[t] != b:
                raise Refuse("%s: hole %s bound to both %s and %s" % (what, t, cap[t], b))
            cap[t] = b
        elif b != t:
            raise Refuse("%s: token %d is `%s`, the modelled template has `%s` (context: %s)"
                         % (what, k, b, t, " ".join(bt[max(0, k - 6):k + 6])))
    return cap


# ------------------------------------------------------------------------------------------ enum mjtObj
def parse_objenum():
    for rel in ("include/mujoco/mjtype.h", "include/mujoco/mjmodel.h"):
        p = os.path.join(REPO, rel)
        if not os.path.exists(p):
            continue
        src = strip_comments(read(rel))
        m = re.search(r"typedef\s+enum\s+mjtObj_?\s*\{(.*?)\}\s*mjtObj\s*;", src, re.S)
        if not m:
            continue
        vals, nxt = {}, 0
        for item in m.group(1).split(","):
            item = item.strip()
            if not item:
                continue
            mm = re.fullmatch(r"([A-Za-z_][A-Za-z_0-9]*)(?:\s*=\s*(\d+))?", item)
            if not mm:
                raise Refuse("enum mjtObj: cannot parse enumerator `%s`" % item)
            if mm.group(2) is not None:
                nxt = int(mm.group(2))
            vals[mm.group(1)] = nxt
            nxt += 1
        if "mjNOBJECT" not in vals:
            raise Refuse("enum mjtObj: mjNOBJECT not found")
        return vals
    raise Refuse("enum mjtObj not found in include/mujoco/mjtype.h or mjmodel.h")


# ------------------------------------------------------------------------------------------ mjxmacro
def parse_xmacro():
    src = strip_comments(read("include/mujoco/mjxmacro.h"))
    out = {}
    for m in re.finditer(r"\bX\w*\s*\(\s*int\s*,\s*(name_\w+adr)\s*,\s*(\w+)\s*,\s*1\s*\)", src):
        if m.group(1) in out and out[m.group(1)] != m.group(2):
            raise Refuse("mjxmacro.h: %s declared with two dimensions" % m.group(1))
        out[m.group(1)] = m.group(2)
    if not out:
        raise Refuse("mjxmacro.h: no name_*adr arrays found")
    if len(set(out.values())) != len(out):
        raise Refuse("mjxmacro.h: two name_*adr arrays share a dimension: %s" % out)
    return out


# ------------------------------------------------------------------------------------------ _getnumadr
def parse_getnumadr(src):
    body = norm(function_body(src, r"static\s+int\s+_getnumadr\s*\(\s*const\s+mjModel\s*\*\s*m\s*,\s*mjtObj\s+type\s*,"
                                   r"\s*int\s*\*\*\s*padr\s*,\s*int\s*\*\s*mapadr\s*\)\s*\{", "_getnumadr"))
    pre = "int num = - 1 ; * mapadr = m -> nnames_map ; switch ( type ) { "
    post = " default : if ( num < 0 ) { * padr = 0 ; num = 0 ; } } return num ;"
    if not body.startswith(pre):
        raise Refuse("_getnumadr: prologue is not `int num = -1; *mapadr = m->nnames_map; switch (type) {`: " + body[:120])
    if not body.endswith(post):
        raise Refuse("_getnumadr: epilogue is not `default: if (num < 0) {*padr = 0; num = 0;} } return num;`: " + body[-160:])
    mid = body[len(pre):len(body) - len(post)].strip()
    blk = re.compile(
        r"((?:case \w+ : )+)"
        r"\* mapadr -= mjLOAD_MULTIPLE \* m -> (\w+) ; "
        r"(?:if \( num < 0 \) \{ \* padr = m -> (\w+) ; num = m -> (\w+) ; \}|\* padr = m -> (\w+) ; num = m -> (\w+) ;) "
        r"mjFALLTHROUGH ; ?")
    pos, chain = 0, []
    while pos < len(mid):
        m = blk.match(mid, pos)
        if not m:
            raise Refuse("_getnumadr: block %d does not have the shape `case L: *mapadr -= mjLOAD_MULTIPLE*m->nX; "
                         "[if (num < 0)] {*padr = m->name_Xadr; num = m->nX;} mjFALLTHROUGH;` near: %s"
                         % (len(chain), mid[pos:pos + 160]))
        cases = re.findall(r"case (\w+) :", m.group(1))
        dec = m.group(2)
        adr = m.group(3) or m.group(5)
        num = m.group(4) or m.group(6)
        uncond = m.group(5) is not None
        if uncond and chain:
            raise Refuse("_getnumadr: block %d (%s) assigns num unconditionally but is not the first block" % (len(chain), cases))
        if dec != num:
            raise Refuse("_getnumadr: block %s subtracts mjLOAD_MULTIPLE*m->%s from *mapadr but sets num = m->%s" % (cases, dec, num))
        chain.append((cases, num, adr))
        pos = m.end()
    if not chain:
        raise Refuse("_getnumadr: empty switch")
    labels = [c for cs, _, _ in chain for c in cs]
    if len(set(labels)) != len(labels):
        raise Refuse("_getnumadr: duplicate case label")
    return chain


# ------------------------------------------------------------------------------------------ templates of the modelled loops
T_HASH = ("uint64_t h = <INIT> ; int c ; while ( ( c = * s ++ ) ) { h = ( ( h << <SHIFT> ) + h ) ^ c ; } return h % n ;")
T_NAME2ID = ("int mapadr ; int * adr = 0 ; int num = mjLOAD_MULTIPLE * _getnumadr ( m , type , & adr , & mapadr ) ; "
             "if ( num ) { uint64_t hash = mj_hashString ( name , num ) ; uint64_t i = hash ; "
             "do { int j = m -> names_map [ mapadr + i ] ; if ( j < 0 ) { return - 1 ; } "
             "if ( ! strncmp ( name , m -> names + adr [ j ] , m -> nnames - adr [ j ] ) ) { return j ; } "
             "if ( ( ++ i ) == num ) i = 0 ; } while ( i != hash ) ; } return - 1 ;")
T_ID2NAME = ("int mapadr ; int * adr = 0 ; int num = _getnumadr ( m , type , & adr , & mapadr ) ; "
             "if ( id >= 0 && id < num && m -> names [ adr [ id ] ] ) { return m -> names + adr [ id ] ; } return NULL ;")
T_NAMELIST = ("int map_size = mjLOAD_MULTIPLE * list . size ( ) ; "
              "for ( unsigned int i = 0 ; i < list . size ( ) ; i ++ ) { "
              "if ( list [ i ] -> name . empty ( ) ) { continue ; } "
              "uint64_t j = mj_hashString ( list [ i ] -> name . c_str ( ) , map_size ) ; "
              "for ( ; map [ j ] != - 1 ; j = ( j + 1 ) % map_size ) { } map [ j ] = i ; } "
              "for ( unsigned int i = 0 ; i < list . size ( ) ; i ++ ) { "
              "adr = addtolist ( list [ i ] -> name , adr , & name_adr [ i ] , names ) ; } return adr ;")
T_ADDTOLIST = ("* output_adr_field = adr ; memcpy ( output_buffer + adr , input . c_str ( ) , input . size ( ) ) ; "
               "adr += ( int ) input . size ( ) ; output_buffer [ adr ] = 0 ; adr ++ ; return adr ;")


def parse_copynames(src):
    body = norm(function_body(src, r"void\s+mjCModel::CopyNames\s*\(\s*mjModel\s*\*\s*m\s*\)\s*\{", "mjCModel::CopyNames"))
    pre = ("int adr = ( int ) modelname_ . size ( ) + 1 ; int * map_adr = m -> names_map ; "
           "mju_strncpy ( m -> names , modelname_ . c_str ( ) , m -> nnames ) ; "
           "memset ( m -> names_map , - 1 , sizeof ( int ) * m -> nnames_map ) ; ")
    if not body.startswith(pre):
        raise Refuse("CopyNames: prologue differs from the modelled one (adr = modelname size + 1, map_adr = names_map, "
                     "strncpy of the model name, memset(names_map, -1)): " + body[:260])
    rest = body[len(pre):]
    call = re.compile(r"adr = namelist \( (\w+) , adr , m -> (\w+) , m -> names , map_adr \) ; ")
    inc = re.compile(r"map_adr \+= mjLOAD_MULTIPLE \* (\w+) \. size \( \) ; ")
    pos, chain = 0, []
    while True:
        m = call.match(rest, pos)
        if not m:
            break
        lst, adr = m.group(1), m.group(2)
        pos = m.end()
        mi = inc.match(rest, pos)
        if mi:
            if mi.group(1) != lst:
                raise Refuse("CopyNames: namelist(%s, ..., %s) is followed by map_adr += mjLOAD_MULTIPLE*%s.size()"
                             % (lst, adr, mi.group(1)))
            pos = mi.end()
            chain.append((lst, adr, True))
        else:
            chain.append((lst, adr, False))
    tail = rest[pos:].strip()
    if not re.fullmatch(r"if \( adr != nnames \) \{ throw mjCError \( .* \) ; \}", tail):
        raise Refuse("CopyNames: after the namelist calls expected only the `adr != nnames` check, found: " + tail[:200])
    if not chain:
        raise Refuse("CopyNames: no namelist calls found")
    for k, (lst, adr, hasinc) in enumerate(chain):
        if not hasinc and k != len(chain) - 1:
            raise Refuse("CopyNames: namelist(%s) is not followed by a map_adr increment and is not the last call" % lst)
    if len({a for _, a, _ in chain}) != len(chain) or len({l for l, _, _ in chain}) != len(chain):
        raise Refuse("CopyNames: a list or a name_*adr field is used by two namelist calls")
    return [(l, a) for l, a, _ in chain]


def parse_makemodel_sum(src):
    s = norm(src)
    ms = list(re.finditer(r"long nnames_map = \( long \) ((?:\w+ \+ )*\w+) ;", s))
    if len(ms) != 1:
        raise Refuse("engine_io.c: expected exactly one `long nnames_map = (long)n1 + n2 + ...;`, found %d" % len(ms))
    terms = ms[0].group(1).split(" + ")
    if len(re.findall(r"m -> nnames_map = mjLOAD_MULTIPLE \* nnames_map ;", s)) != 1:
        raise Refuse("engine_io.c: expected exactly one `m->nnames_map = mjLOAD_MULTIPLE * nnames_map;`")
    if not re.search(r"if \( nnames_map >= INT_MAX / mjLOAD_MULTIPLE \)", s):
        raise Refuse("engine_io.c: the INT_MAX guard on nnames_map is missing")
    return terms


def parse_load_multiple():
    vals = []
    d = os.path.join(REPO, "src")
    for dp, dn, fn in sorted(os.walk(d)):
        dn.sort()
        for f in sorted(fn):
            if f.endswith((".h", ".c", ".cc", ".hpp", ".inc")):
                rel = os.path.relpath(os.path.join(dp, f), REPO)
                for m in re.finditer(r"^[ \t]*#[ \t]*define[ \t]+mjLOAD_MULTIPLE[ \t]+(\S+)[ \t]*$", strip_comments(read(rel)), re.M):
                    if not re.fullmatch(r"\d+", m.group(1)):
                        raise Refuse("%s: mjLOAD_MULTIPLE is defined as `%s`, not an integer literal" % (rel, m.group(1)))
                    vals.append((rel, int(m.group(1))))
    if not vals:
        raise Refuse("no #define mjLOAD_MULTIPLE found under src/")
    return vals


def lean_str(s):
    return '"' + s.replace("\\", "\\\\").replace('"', '\\"') + '"'


def generate():
    name_c = read("src/engine/engine_name.c")
    model_cc = read("src/user/user_model.cc")
    io_c = read("src/engine/engine_io.c")
    objenum = parse_objenum()
    xm = parse_xmacro()                       # adr field -> count name
    cnt2adr = {v: k for k, v in xm.items()}
    fields = sorted(xm)                       # field id = index in this list
    fid = {f: i for i, f in enumerate(fields)}

    chain = parse_getnumadr(name_c)
    g_rows = []
    for cases, cnt, adr in chain:
        for c in cases:
            if c not in objenum:
                raise Refuse("_getnumadr: case label %s is not an enumerator of mjtObj" % c)
        if adr not in fid:
            raise Refuse("_getnumadr: *padr = m->%s is not a name_*adr array of mjxmacro.h" % adr)
        if cnt not in cnt2adr:
            raise Refuse("_getnumadr: count m->%s is not the dimension of any name_*adr array in mjxmacro.h" % cnt)
        g_rows.append(([objenum[c] for c in cases], fid[cnt2adr[cnt]], fid[adr], cases, cnt, adr))

    hcap = expect_template(function_body(name_c, r"uint64_t\s+mj_hashString\s*\(\s*const\s+char\s*\*\s*s\s*,\s*uint64_t\s+n\s*\)\s*\{",
                                         "mj_hashString"), T_HASH, "mj_hashString")
    for k in ("<INIT>", "<SHIFT>"):
        if not re.fullmatch(r"\d+", hcap[k]):
            raise Refuse("mj_hashString: %s is `%s`, not a decimal literal" % (k, hcap[k]))
    if int(hcap["<SHIFT>"]) >= 64 or int(hcap["<INIT>"]) >= 2 ** 64:
        raise Refuse("mj_hashString: constants out of uint64 range")
    expect_template(function_body(name_c, r"int\s+mj_name2id\s*\(\s*const\s+mjModel\s*\*\s*m\s*,\s*int\s+type\s*,\s*const\s+char\s*\*\s*name\s*\)\s*\{",
                                  "mj_name2id"), T_NAME2ID, "mj_name2id")
    expect_template(function_body(name_c, r"const\s+char\s*\*\s*mj_id2name\s*\(\s*const\s+mjModel\s*\*\s*m\s*,\s*int\s+type\s*,\s*int\s+id\s*\)\s*\{",
                                  "mj_id2name"), T_ID2NAME, "mj_id2name")
    expect_template(function_body(model_cc, r"static\s+int\s+namelist\s*\(\s*vector\s*<\s*T\s*\*\s*>\s*&\s*list\s*,\s*int\s+adr\s*,\s*int\s*\*\s*name_adr\s*,"
                                            r"\s*char\s*\*\s*names\s*,\s*int\s*\*\s*map\s*\)\s*\{", "namelist"), T_NAMELIST, "namelist")
    expect_template(function_body(model_cc, r"static\s+int\s+addtolist\s*\(\s*const\s+std::string\s*&\s*input\s*,\s*int\s+adr\s*,\s*int\s*\*\s*output_adr_field\s*,"
                                            r"\s*char\s*\*\s*output_buffer\s*\)\s*\{", "addtolist"), T_ADDTOLIST, "addtolist")

    cn = parse_copynames(model_cc)
    for lst, adr in cn:
        if adr not in fid:
            raise Refuse("CopyNames: namelist(%s) writes m->%s which is not a name_*adr array of mjxmacro.h" % (lst, adr))
    terms = parse_makemodel_sum(io_c)
    for t in terms:
        if t not in cnt2adr:
            raise Refuse("engine_io.c: nnames_map sums %s which is not the dimension of any name_*adr array" % t)
    lms = parse_load_multiple()

    L = []
    L.append("/- GENERATED by translate/c34_tables.py from the working tree. Do not edit.")
    L.append("   sources: src/engine/engine_name.c (_getnumadr, mj_hashString), src/user/user_model.cc (CopyNames),")
    L.append("            src/engine/engine_io.c (nnames_map), include/mujoco/mjxmacro.h, mjtObj enum, mjLOAD_MULTIPLE -/")
    L.append("namespace MjProof.Gen.NameOrder")
    L.append("")
    L.append("/-- name_*adr arrays of mjModel (mjxmacro.h), sorted; a *field id* is an index into this list -/")
    L.append("def fieldNames : List String := [" + ", ".join(lean_str(f) for f in fields) + "]")
    L.append("/-- dimension of each name_*adr array according to mjxmacro.h, by field id -/")
    L.append("def countNames : List String := [" + ", ".join(lean_str(xm[f]) for f in fields) + "]")
    L.append("")
    L.append("/-- `_getnumadr` fall-through chain in source order:")
    L.append("    (values of the case labels, field id whose count is subtracted/assigned to num, field id of *padr) -/")
    L.append("def getnumadrChain : List (List Nat × Nat × Nat) := [")
    for k, (vals, cf, af, cases, cnt, adr) in enumerate(g_rows):
        L.append("  ([%s], %d, %d)%s  -- %s: m->%s, m->%s" % (", ".join(map(str, vals)), cf, af, "," if k < len(g_rows) - 1 else "",
                                                          "/".join(cases), cnt, adr))
    L.append("]")
    L.append("")
    L.append("/-- `mjCModel::CopyNames`: field id written by each `namelist` call, in call order (= layout order of the")
    L.append("    name segments in `names` and of the map segments in `names_map`) -/")
    L.append("def copyNamesChain : List Nat := [" + ", ".join(str(fid[a]) for _, a in cn) + "]")
    L.append("/-- list variable of each `namelist` call (documentation) -/")
    L.append("def copyNamesLists : List String := [" + ", ".join(lean_str(l) for l, _ in cn) + "]")
    L.append("")
    L.append("/-- fields whose counts are summed into `nnames_map` (engine_io.c), in source order -/")
    L.append("def makeModelSum : List Nat := [" + ", ".join(str(fid[cnt2adr[t]]) for t in terms) + "]")
    L.append("")
    L.append("/-- every `#define mjLOAD_MULTIPLE` under src/ : " + ", ".join("%s=%d" % x for x in lms) + " -/")
    L.append("def loadMultiples : List Nat := [" + ", ".join(str(v) for _, v in lms) + "]")
    L.append("")
    L.append("/-- `mj_hashString`: `uint64_t h = hashInit; ... h = ((h << hashShift) + h) ^ c; ... return h % n` -/")
    L.append("def hashInit : Nat := " + hcap["<INIT>"])
    L.append("def hashShift : Nat := " + hcap["<SHIFT>"])
    L.append("")
    L.append("/-- `mjNOBJECT` -/")
    L.append("def nobject : Nat := %d" % objenum["mjNOBJECT"])
    L.append("/-- enumerators of `mjtObj` -/")
    L.append("def objEnum : List (String × Nat) := [" + ", ".join("(%s, %d)" % (lean_str(k), v) for k, v in objenum.items()) + "]")
    L.append("")
    L.append("end MjProof.Gen.NameOrder")
    return "\n".join(L) + "\n"


def main():
    try:
        text = generate()
    except Refuse as e:
        print("c34_tables: REFUSED: %s" % e, file=sys.stderr)
        return 3
    if "--stdout" in sys.argv:
        sys.stdout.write(text)
        return 0
    os.makedirs(os.path.dirname(OUT), exist_ok=True)
    if not (os.path.exists(OUT) and open(OUT).read() == text):
        tmp = OUT + ".tmp%d" % os.getpid()
        with open(tmp, "w") as f:
            f.write(text)
        os.replace(tmp, OUT)
        print("c34_tables: wrote %s" % OUT)
    else:
        print("c34_tables: %s up to date" % OUT)
    return 0


if __name__ == "__main__":
    sys.exit(main())
