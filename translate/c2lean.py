#!/usr/bin/env python3
"""c2lean: translate straight-line numeric C kernels of /repo into Lean 4 definitions (DESIGN.md §3.5).

The C source is parsed by clang (`-ast-dump=json`, so macros are expanded and types resolved exactly as
the compiler sees them) and each whitelisted function is *symbolically executed*: arrays are
scalarised (every array cell is a Lean variable), loops with compile-time trip counts are unrolled,
data-dependent `if`s evaluate both branches and select per cell, calls to other kernels are either
emitted as calls to their generated Lean definition (when no output aliases an input at that call
site) or inlined exactly (aliasing is then reproduced by the shared memory model).  The result is one
`let`-chain per kernel over the law-free number class `MjNum α`, in source evaluation order, so the
`Float` instance is bit-comparable with the gcc build (`-ffp-contract=off`).

Anything outside the subset (data-dependent loops, pointer arithmetic with symbolic offsets, struct
access, function pointers, goto, float->int casts ...) makes the translator REFUSE the kernel with a
message; callers record a refusal as a failed tie obligation.
"""
import copy
import hashlib
import json
import os
import re
import subprocess
import sys

REPO = os.environ.get("VERIF_REPO", "/repo")
sys.setrecursionlimit(20000)


class Refuse(Exception):
    pass


# ------------------------------------------------------------------------------------------ AST loading
_AST_CACHE = {}


def load_ast(path, extra_flags=()):
    key = (path, tuple(extra_flags))
    if key in _AST_CACHE:
        return _AST_CACHE[key]
    lang = ["-x", "c++", "-std=c++20"] if path.endswith((".cc", ".cpp")) else []
    cmd = ["clang", "-fsyntax-only", "-Xclang", "-ast-dump=json", "-w",
           "-I" + os.path.join(REPO, "include"), "-I" + os.path.join(REPO, "src"),
           "-I" + os.path.join(os.path.dirname(os.path.dirname(os.path.abspath(__file__))), "harness", "stubs"),
           "-DMJ_STATIC", "-D_GNU_SOURCE", "-DNDEBUG"] + lang + list(extra_flags) + [path]
    r = subprocess.run(cmd, capture_output=True, text=True)
    if not r.stdout.strip():
        raise Refuse("clang could not parse %s: %s" % (path, r.stderr[-400:]))
    ast = json.loads(r.stdout)
    funcs = {}

    def walk(n, ns=""):
        for c in n.get("inner", []):
            k = c.get("kind")
            if k == "FunctionDecl" and any(x.get("kind") == "CompoundStmt" for x in c.get("inner", [])):
                funcs[c["name"]] = c
                if ns:
                    funcs[ns + "::" + c["name"]] = c
            elif k in ("NamespaceDecl", "LinkageSpecDecl"):
                walk(c, (ns + "::" + c.get("name", "")).strip(":") if k == "NamespaceDecl" else ns)
    walk(ast)
    gvars = {c["id"]: c for c in ast.get("inner", []) if c.get("kind") == "VarDecl"}
    _AST_CACHE[key] = (funcs, gvars)
    return funcs, gvars


# ------------------------------------------------------------------------------------------ symbolic values
class Sym:
    __slots__ = ("kind", "v", "atom")

    def __init__(self, kind, v, atom=False):
        self.kind, self.v, self.atom = kind, v, atom  # kind: num | int | bool | ptr | func | void

    def __repr__(self):
        return "Sym(%s,%r)" % (self.kind, self.v)


def is_conc(s):
    return (s.kind == "int" and isinstance(s.v, int)) or (s.kind == "bool" and isinstance(s.v, bool))


def paren(e):
    return e if re.fullmatch(r"[A-Za-z_][A-Za-z_0-9.']*", e) else "(" + e + ")"


def num_lit_from_int(n):
    return Sym("num", "MjNum.ofInt %s" % (str(n) if n >= 0 else "(%d)" % n))


def float_literal(text):
    """clang prints FloatingLiteral values like 0.5, 1.0E-15, 1.0000000000000001E-15, 1.0E+10."""
    t = text.strip().lower()
    m = re.fullmatch(r"([0-9]*)\.?([0-9]*)(?:e([+-]?[0-9]+))?", t)
    if not m or (m.group(1) == "" and m.group(2) == ""):
        raise Refuse("unsupported floating literal %r" % text)
    ip, fp, ex = m.group(1) or "", m.group(2) or "", int(m.group(3) or 0)
    fp = fp.rstrip("0")
    mant = int((ip + fp) or "0")
    e10 = ex - len(fp)
    if mant == 0:
        return Sym("num", "MjNum.ofInt 0")
    if e10 >= 0:
        if e10 <= 15 and mant * 10 ** e10 < 2 ** 53:
            return Sym("num", "MjNum.ofInt %d" % (mant * 10 ** e10))
        return Sym("num", "MjNum.ofSci %d false %d" % (mant, e10))
    return Sym("num", "MjNum.ofSci %d true %d" % (mant, -e10))


LIBM1 = {"sqrt": "MjNum.sqrt", "sin": "MjNum.sin", "cos": "MjNum.cos", "tan": "MjNum.tan",
         "asin": "MjNum.asin", "acos": "MjNum.acos", "exp": "MjNum.exp", "log": "MjNum.log",
         "fabs": "MjNum.abs", "floor": "MjNum.floor", "ceil": "MjNum.ceil"}
LIBM2 = {"atan2": "MjNum.atan2"}


class State:
    def __init__(self):
        self.mem = {}    # arr_id -> {idx: Sym}
        self.meta = {}   # arr_id -> dict(name, elem, param(bool), const, shape)

    def copy(self):
        s = State()
        s.mem = {a: dict(c) for a, c in self.mem.items()}
        s.meta = self.meta  # shared, append-only
        return s


class Translator:
    """Translates one kernel (top-level function) by symbolic execution."""

    def __init__(self, registry, name, fdecl, gvars, fix=None):
        self.reg = registry
        self.name = name
        self.fdecl = fdecl
        self.gvars = gvars
        self.fix = fix or {}
        self.lets = []
        self.counter = {}
        self.inputs = []        # (leanName, kind) in first-read order; reordered at the end
        self.input_set = {}
        self.arr_counter = 0
        self.calls = set()
        self.struct_arrays = {}

    # ---- naming
    def fresh(self, base):
        base = re.sub(r"[^A-Za-z0-9_]", "_", base)
        n = self.counter.get(base, 0)
        self.counter[base] = n + 1
        return "%s_%d" % (base, n) if n else base + "_0"

    def let(self, base, sym):
        """bind a compound expression to a name; atoms are returned unchanged"""
        if sym.atom or sym.kind in ("ptr", "sptr", "func", "void") or is_conc(sym):
            return sym
        nm = self.fresh(base)
        if sym.kind == "bool":
            self.lets.append("let %s : Bool := decide (%s)" % (nm, sym.v))
            return Sym("bool", "%s = true" % nm, True)
        ty = "α" if sym.kind == "num" else "Int"
        self.lets.append("let %s : %s := %s" % (nm, ty, sym.v))
        return Sym(sym.kind, nm, True)

    # ---- memory
    def new_array(self, st, name, elem, shape=(), param=False, const=False):
        self.arr_counter += 1
        aid = "%s#%d" % (name, self.arr_counter)
        st.mem[aid] = {}
        st.meta[aid] = {"name": name, "elem": elem, "param": param, "const": const, "shape": shape}
        return aid

    def load(self, st, aid, idx):
        cells = st.mem.get(aid)
        if cells is None:
            if aid in st.meta and st.meta[aid].get("structfield"):
                cells = st.mem[aid] = {}
            else:
                raise Refuse("use of an array outside its scope (%s)" % aid)
        if idx in cells:
            return cells[idx]
        meta = st.meta[aid]
        if not meta["param"]:
            raise Refuse("read of uninitialised local %s[%d]" % (meta["name"], idx))
        return self.initial(aid, idx, meta)

    def initial(self, aid, idx, meta):
        if idx < 0:
            raise Refuse("negative index into parameter %s" % meta["name"])
        key = (aid, idx)
        if key not in self.input_set:
            nm = "%s_%d" % (meta["name"], idx) if meta.get("isarray", True) else meta["name"]
            self.input_set[key] = Sym(meta["elem"], nm, True)
            po = meta["porder"] if isinstance(meta["porder"], tuple) else (meta["porder"],)
            self.inputs.append((po, idx, nm, meta["elem"], self.cpath(meta, idx)))
        return self.input_set[key]

    @staticmethod
    def cpath(meta, idx):
        po = meta["porder"] if isinstance(meta["porder"], tuple) else (meta["porder"],)
        if "structfield" in meta:
            e, field, isarr = meta["structfield"]
            return "p%d[%d].%s%s" % (po[0], e, field, "[%d]" % idx if isarr else "")
        return "p%d[%d]" % (po[0], idx) if meta.get("isarray", True) else "p%d" % po[0]

    def struct_field(self, st, sp, field, qual):
        """array backing `param[elem].field` (created on first use)"""
        pname, elem, pi, const = sp
        key = ("sf", pname, elem, field)
        if key in self.struct_arrays:
            return self.struct_arrays[key]
        shape = self.array_shape(qual)
        kind = self.elem_kind(qual)
        aid = self.new_array(st, "%s%d_%s" % (pname, elem, field), kind, shape if len(shape) > 1 else (), param=True, const=const)
        st.meta[aid]["porder"] = (pi, elem, field)
        st.meta[aid]["isarray"] = bool(shape)
        st.meta[aid]["structfield"] = (elem, field, bool(shape))
        st.meta[aid]["flatshape"] = shape
        self.struct_arrays[key] = aid
        # make the array visible in every live state copy: arrays are looked up in st.mem, so register lazily
        return aid

    def store(self, st, aid, idx, sym):
        meta = st.meta[aid]
        if aid not in st.mem and meta.get("structfield"):
            st.mem[aid] = {}
        if meta["const"] and meta["param"]:
            raise Refuse("write through const parameter %s" % meta["name"])
        if sym.kind != meta["elem"]:
            sym = self.convert(sym, meta["elem"])
        base = "%s_%d" % (meta["name"], idx) if (meta["shape"] or meta["param"] and meta.get("isarray", True)) else meta["name"]
        st.mem[aid][idx] = self.let(base + "'" if False else base, sym)

    def convert(self, sym, kind):
        if sym.kind == kind:
            return sym
        if kind == "num" and sym.kind == "int":
            if isinstance(sym.v, int):
                return num_lit_from_int(sym.v)
            return Sym("num", "MjNum.ofInt %s" % paren(sym.v))
        if kind == "num" and sym.kind == "bool":
            if isinstance(sym.v, bool):
                return num_lit_from_int(int(sym.v))
            return Sym("num", "if %s then MjNum.ofInt 1 else MjNum.ofInt 0" % sym.v)
        if kind == "int" and sym.kind == "bool":
            if isinstance(sym.v, bool):
                return Sym("int", int(sym.v))
            return Sym("int", "if %s then (1:Int) else 0" % sym.v)
        if kind == "bool":
            return self.truth(sym)
        raise Refuse("unsupported conversion %s -> %s" % (sym.kind, kind))

    def truth(self, sym):
        if sym.kind == "bool":
            return sym
        if sym.kind == "int":
            if isinstance(sym.v, int):
                return Sym("bool", sym.v != 0)
            return Sym("bool", "%s ≠ 0" % paren(sym.v))
        if sym.kind == "num":
            return Sym("bool", "MjNum.beq %s (MjNum.ofInt 0) = false" % paren(sym.v))
        if sym.kind == "ptr":
            return Sym("bool", sym.v is not None)
        raise Refuse("condition of kind " + sym.kind)

    # ---- types
    @staticmethod
    def elem_kind(qual):
        q = qual.replace("const", "").replace("volatile", "").replace("__restrict", "").replace("restrict", "").strip()
        base = re.sub(r"[\[\]\*0-9 ]", "", q)
        if base in ("mjtNum", "double", "float"):
            return "num"
        if base in ("int", "mjtByte", "unsignedchar", "char", "unsigned", "unsignedint", "long", "size_t", "mjtSize",
                    "int64_t", "uint64_t", "_Bool", "bool", "short", "unsignedlong", "longlong", "mjtGeom", "mjtJoint"):
            return "int"
        if base.startswith("enum"):
            return "int"
        raise Refuse("unsupported element type %r" % qual)

    STRUCTS = ("mjPreContact", "mjContact")

    @staticmethod
    def struct_name(qual):
        base = re.sub(r"[\*\[\]0-9 ]", "", qual.replace("const", "").replace("restrict", "").replace("__restrict", "").replace("struct", ""))
        return base if base in Translator.STRUCTS else None

    @staticmethod
    def array_shape(qual):
        return tuple(int(x) for x in re.findall(r"\[(\d+)\]", qual))

    # ---- expressions ----------------------------------------------------------------------------
    def lvalue(self, n, st, env):
        """returns (aid, offset, shape)"""
        k = n["kind"]
        if k == "ParenExpr":
            return self.lvalue(n["inner"][0], st, env)
        if k == "DeclRefExpr":
            did = n["referencedDecl"]["id"]
            if did in env:
                aid = env[did]
                return (aid, 0, st.meta[aid]["shape"])
            if did in self.gvars:
                return self.global_var(did, st, env)
            raise Refuse("reference to unknown declaration %s" % n["referencedDecl"].get("name"))
        if k == "ArraySubscriptExpr":
            base, idx = n["inner"]
            i = self.rvalue(idx, st, env)
            if not (i.kind == "int" and isinstance(i.v, int)):
                raise Refuse("array index is not a compile-time constant")
            bq = base.get("type", {}).get("qualType", "")
            b = self.rvalue(base, st, env)
            if b.kind == "sptr":
                pname, elem, pi, const = b.v
                return ("struct", (pname, elem + i.v, pi, const), ())
            if b.kind != "ptr" or b.v is None:
                raise Refuse("subscript of a non-pointer")
            # a pointer Sym carries the shape of its *pointee* (() for a scalar element)
            aid, off, shape = b.v
            stride = 1
            for d in shape:
                stride *= d
            return (aid, off + i.v * stride, shape)
        if k == "UnaryOperator" and n["opcode"] == "*":
            p = self.rvalue(n["inner"][0], st, env)
            if p.kind == "sptr":
                return ("struct", p.v, ())
            if p.kind != "ptr" or p.v is None:
                raise Refuse("dereference of a non-pointer")
            aid, off, shape = p.v
            return (aid, off, shape)
        if k == "MemberExpr":
            base = n["inner"][0]
            if n.get("isArrow"):
                b = self.rvalue(base, st, env)
                if b.kind != "sptr":
                    raise Refuse("member access through a non-struct pointer (%s)" % n.get("name"))
                sp = b.v
            else:
                loc = self.lvalue(base, st, env)
                if loc[0] != "struct":
                    raise Refuse("member access on a local struct (%s)" % n.get("name"))
                sp = loc[1]
            q = n["type"]["qualType"]
            if "*" in q or "(" in q:
                raise Refuse("pointer-valued struct member %s" % n.get("name"))
            aid = self.struct_field(st, sp, n["name"], q)
            shape = st.meta[aid]["flatshape"]
            return (aid, 0, shape)
        raise Refuse("unsupported lvalue " + k)

    def global_var(self, did, st, env):
        key = "g:" + did
        if key in env:
            aid = env[key]
            return (aid, 0, st.meta[aid]["shape"])
        g = self.gvars[did]
        qual = g["type"]["qualType"]
        if "const" not in qual:
            raise Refuse("reference to mutable global %s" % g.get("name"))
        init = [c for c in g.get("inner", []) if "Expr" in c.get("kind", "") or "Literal" in c.get("kind", "")]
        if not init:
            raise Refuse("global %s has no initialiser" % g.get("name"))
        shape = self.array_shape(qual)
        aid = self.new_array(st, g["name"], self.elem_kind(qual), shape)
        env[key] = aid
        self.init_into(st, env, aid, 0, shape, init[0], self.elem_kind(qual))
        return (aid, 0, shape)

    def init_into(self, st, env, aid, off, shape, node, elem):
        if node["kind"] == "InitListExpr":
            if not shape:
                inner = node.get("inner", [])
                if len(inner) != 1:
                    raise Refuse("scalar brace initialiser")
                return self.init_into(st, env, aid, off, shape, inner[0], elem)
            stride = 1
            for d in shape[1:]:
                stride *= d
            items = node.get("inner", [])
            filler = None
            if "array_filler" in node:
                items = [c for c in node["array_filler"] if c.get("kind") != "ImplicitValueInitExpr"]
                filler = True
            for i in range(shape[0]):
                if i < len(items):
                    self.init_into(st, env, aid, off + i * stride, shape[1:], items[i], elem)
                else:
                    for j in range(stride):
                        st.mem[aid][off + i * stride + j] = Sym("int", 0) if elem == "int" else Sym("num", "MjNum.ofInt 0", True)
            return
        if node["kind"] == "ImplicitValueInitExpr":
            n = 1
            for d in shape:
                n *= d
            for j in range(n):
                st.mem[aid][off + j] = Sym("int", 0) if elem == "int" else Sym("num", "MjNum.ofInt 0", True)
            return
        if shape:
            raise Refuse("array initialised from a non-list expression")
        v = self.rvalue(node, st, env)
        self.store(st, aid, off, v)

    def rvalue(self, n, st, env):
        k = n["kind"]
        if k in ("ParenExpr", "ConstantExpr", "ExprWithCleanups", "MaterializeTemporaryExpr"):
            return self.rvalue(n["inner"][0], st, env)
        if k == "IntegerLiteral":
            return Sym("int", int(n["value"]))
        if k == "CharacterLiteral":
            return Sym("int", int(n["value"]))
        if k == "CXXBoolLiteralExpr":
            return Sym("int", 1 if n["value"] else 0)
        if k == "FloatingLiteral":
            s = float_literal(n["value"])
            s.atom = True
            return s
        if k in ("ImplicitCastExpr", "CStyleCastExpr", "CXXStaticCastExpr", "CXXFunctionalCastExpr"):
            ck = n.get("castKind")
            sub = n["inner"][0]
            if ck == "LValueToRValue":
                aid, off, shape = self.lvalue(sub, st, env)
                if aid == "struct":
                    raise Refuse("struct passed or copied by value")
                if shape:
                    raise Refuse("rvalue of an array")
                return self.load(st, aid, off)
            if ck == "ArrayToPointerDecay":
                aid, off, shape = self.lvalue(sub, st, env)
                if aid == "struct":
                    raise Refuse("array of structs decays to pointer")
                return Sym("ptr", (aid, off, shape[1:] if shape else ()))
            if ck == "FunctionToPointerDecay":
                return Sym("func", sub.get("referencedDecl", {}).get("name"))
            if ck == "IntegralToFloating":
                return self.convert(self.rvalue(sub, st, env), "num")
            if ck in ("FloatingCast", "NoOp", "IntegralCast", "BitCast"):
                v = self.rvalue(sub, st, env)
                if ck == "IntegralCast":
                    tq = n["type"]["qualType"]
                    if v.kind == "int" and isinstance(v.v, int) and "unsigned" in tq and v.v < 0:
                        raise Refuse("negative value cast to unsigned")
                    if v.kind == "bool":
                        v = self.convert(v, "int")
                return v
            if ck == "NullToPointer":
                return Sym("ptr", None)
            if ck in ("IntegralToBoolean", "FloatingToBoolean", "PointerToBoolean"):
                return self.truth(self.rvalue(sub, st, env))
            if ck == "ToVoid":
                self.rvalue(sub, st, env)
                return Sym("void", None)
            raise Refuse("unsupported cast " + str(ck))
        if k == "DeclRefExpr":
            rd = n["referencedDecl"]
            if rd.get("kind") == "EnumConstantDecl":
                return Sym("int", self.reg.enum_value(rd))
            if rd.get("kind") == "FunctionDecl":
                return Sym("func", rd["name"])
            aid, off, shape = self.lvalue(n, st, env)
            if shape:
                return Sym("ptr", (aid, off, shape[1:]))
            return self.load(st, aid, off)
        if k == "ArraySubscriptExpr":
            aid, off, shape = self.lvalue(n, st, env)
            if shape:
                return Sym("ptr", (aid, off, shape[1:]))
            return self.load(st, aid, off)
        if k == "UnaryOperator":
            return self.unary(n, st, env)
        if k == "BinaryOperator":
            return self.binary(n, st, env)
        if k == "CompoundAssignOperator":
            op = n["opcode"][:-1]
            loc = self.lvalue(n["inner"][0], st, env)
            cur = self.load(st, loc[0], loc[1])
            rhs = self.rvalue(n["inner"][1], st, env)
            val = self.arith(op, cur, rhs, n)
            self.store(st, loc[0], loc[1], val)
            return self.load(st, loc[0], loc[1])
        if k == "ConditionalOperator":
            c = self.truth(self.rvalue(n["inner"][0], st, env))
            if isinstance(c.v, bool):
                return self.rvalue(n["inner"][1 if c.v else 2], st, env)
            a = self.rvalue(n["inner"][1], st, env)
            b = self.rvalue(n["inner"][2], st, env)
            if a.kind == "ptr" or b.kind == "ptr":
                raise Refuse("data-dependent pointer selection")
            kind = "num" if "num" in (a.kind, b.kind) else a.kind
            a, b = self.convert(a, kind), self.convert(b, kind)
            if kind == "bool":
                return Sym("bool", "if %s then %s else %s" % (c.v, a.v, b.v))
            return Sym(kind, "if %s then %s else %s" % (c.v, self.tolean(a), self.tolean(b)))
        if k == "CallExpr":
            return self.call(n, st, env)
        if k == "UnaryExprOrTypeTraitExpr":
            if n.get("name") != "sizeof":
                raise Refuse("unsupported type trait " + str(n.get("name")))
            q = n.get("argType", {}).get("qualType") or (n["inner"][0].get("type", {}).get("qualType") if n.get("inner") else None)
            return Sym("int", self.sizeof(q))
        raise Refuse("unsupported expression " + k)

    SIZEOF = {"mjtNum": 8, "double": 8, "float": 4, "int": 4, "unsigned int": 4, "char": 1, "mjtByte": 1,
              "unsigned char": 1, "size_t": 8, "mjtSize": 8, "long": 8, "unsigned long": 8}

    def sizeof(self, q):
        if q is None:
            raise Refuse("sizeof of unknown type")
        q = q.replace("const", "").strip()
        dims = self.array_shape(q)
        base = re.sub(r"\[\d+\]", "", q).strip()
        if base not in self.SIZEOF:
            raise Refuse("sizeof(%s)" % q)
        n = self.SIZEOF[base]
        for d in dims:
            n *= d
        return n

    @staticmethod
    def pointee_size(node):
        """element size of the pointer expression before its conversion to void*"""
        x = node
        while x.get("kind") in ("ImplicitCastExpr", "CStyleCastExpr", "ParenExpr") and "void" in x.get("type", {}).get("qualType", ""):
            x = x["inner"][0]
        q = x.get("type", {}).get("qualType", "")
        base = re.sub(r"[\*\[\]0-9]", "", q.replace("const", "").replace("restrict", "").replace("__restrict", "")).strip()
        return Translator.SIZEOF.get(base)

    def tolean(self, s):
        if s.kind == "int" and isinstance(s.v, int):
            return str(s.v) if s.v >= 0 else "(%d)" % s.v
        return s.v

    def unary(self, n, st, env):
        op = n["opcode"]
        sub = n["inner"][0]
        if op in ("++", "--"):
            loc = self.lvalue(sub, st, env)
            cur = self.load(st, loc[0], loc[1])
            d = 1 if op == "++" else -1
            if cur.kind == "int" and isinstance(cur.v, int):
                new = Sym("int", cur.v + d)
            elif cur.kind == "ptr":
                a, o, sh = cur.v
                new = Sym("ptr", (a, o + d, sh))
            else:
                new = self.arith("+", cur, Sym("int", d), n)
            st.mem[loc[0]][loc[1]] = new if (new.kind == "ptr" or is_conc(new)) else self.let(st.meta[loc[0]]["name"], new)
            return cur if n.get("isPostfix") else st.mem[loc[0]][loc[1]]
        if op == "&":
            aid, off, shape = self.lvalue(sub, st, env)
            if aid == "struct":
                return Sym("sptr", off)
            return Sym("ptr", (aid, off, shape))
        if op == "*":
            aid, off, shape = self.lvalue(n, st, env)
            if shape:
                return Sym("ptr", (aid, off, shape[1:]))
            return self.load(st, aid, off)
        v = self.rvalue(sub, st, env)
        if op == "+":
            return v
        if op == "-":
            if v.kind == "int" and isinstance(v.v, int):
                return Sym("int", -v.v)
            if v.kind == "bool":
                v = self.convert(v, "int")
            return Sym(v.kind, "-%s" % paren(self.tolean(v)))
        if op == "!":
            t = self.truth(v)
            if isinstance(t.v, bool):
                return Sym("bool", not t.v)
            return Sym("bool", "¬ %s" % paren(t.v))
        raise Refuse("unsupported unary operator " + op)

    def arith(self, op, a, b, n):
        if a.kind == "sptr" and b.kind == "int" and isinstance(b.v, int) and op in ("+", "-"):
            pname, elem, pi, const = a.v
            return Sym("sptr", (pname, elem + (b.v if op == "+" else -b.v), pi, const))
        if a.kind == "sptr" or b.kind == "sptr":
            raise Refuse("unsupported struct-pointer arithmetic")
        if a.kind == "ptr" or b.kind == "ptr":
            if op in ("+", "-") and a.kind == "ptr" and b.kind == "int" and isinstance(b.v, int) and a.v is not None:
                aid, off, sh = a.v
                stride = 1
                for d in sh:
                    stride *= d
                return Sym("ptr", (aid, off + (b.v if op == "+" else -b.v) * stride, sh))
            if op == "+" and b.kind == "ptr" and a.kind == "int" and isinstance(a.v, int):
                return self.arith("+", b, a, n)
            raise Refuse("pointer arithmetic that is not pointer ± constant")
        if a.kind == "bool":
            a = self.convert(a, "int")
        if b.kind == "bool":
            b = self.convert(b, "int")
        if a.kind == "int" and b.kind == "int":
            if isinstance(a.v, int) and isinstance(b.v, int):
                if op == "+":
                    return Sym("int", a.v + b.v)
                if op == "-":
                    return Sym("int", a.v - b.v)
                if op == "*":
                    return Sym("int", a.v * b.v)
                if op in ("/", "%"):
                    if b.v == 0:
                        raise Refuse("integer division by zero")
                    q = abs(a.v) // abs(b.v) * (1 if (a.v >= 0) == (b.v >= 0) else -1)
                    return Sym("int", q if op == "/" else a.v - q * b.v)
                if op == "<<":
                    return Sym("int", a.v << b.v)
                if op == ">>":
                    return Sym("int", a.v >> b.v)
                if op == "&":
                    return Sym("int", a.v & b.v)
                if op == "|":
                    return Sym("int", a.v | b.v)
                if op == "^":
                    return Sym("int", a.v ^ b.v)
            if op in ("+", "-", "*"):
                return Sym("int", "%s %s %s" % (paren(self.tolean(a)), op, paren(self.tolean(b))))
            if op == "/":
                return Sym("int", "Int.tdiv %s %s" % (paren(self.tolean(a)), paren(self.tolean(b))))
            if op == "%":
                return Sym("int", "Int.tmod %s %s" % (paren(self.tolean(a)), paren(self.tolean(b))))
            if op in ("&", "|", "^", "<<", ">>"):
                f = {"&": "intLand", "|": "intLor", "^": "intXor", "<<": "Int.shiftLeft'", ">>": "Int.shiftRight'"}[op]
                if op in ("<<", ">>"):
                    raise Refuse("symbolic shift")
                return Sym("int", "%s %s %s" % (f, paren(self.tolean(a)), paren(self.tolean(b))))
            raise Refuse("unsupported integer operator " + op)
        a, b = self.convert(a, "num"), self.convert(b, "num")
        if op in ("+", "-", "*", "/"):
            return Sym("num", "%s %s %s" % (paren(a.v), op, paren(b.v)))
        raise Refuse("unsupported floating operator " + op)

    def binary(self, n, st, env):
        op = n["opcode"]
        l, r = n["inner"]
        if op == "=":
            loc = self.lvalue(l, st, env)
            v = self.rvalue(r, st, env)
            if loc[2]:
                raise Refuse("array assignment")
            if loc[0] == "struct":
                raise Refuse("whole-struct assignment")
            if v.kind in ("ptr", "sptr") or st.meta[loc[0]]["elem"] == "ptr":
                st.mem[loc[0]][loc[1]] = v
                return v
            self.store(st, loc[0], loc[1], v)
            return self.load(st, loc[0], loc[1])
        if op == ",":
            self.rvalue(l, st, env)
            return self.rvalue(r, st, env)
        if op in ("&&", "||"):
            a = self.truth(self.rvalue(l, st, env))
            if isinstance(a.v, bool):
                if (op == "&&" and not a.v) or (op == "||" and a.v):
                    return a
                return self.truth(self.rvalue(r, st, env))
            if self.has_side_effects(r):
                raise Refuse("side effect under a data-dependent short-circuit operator")
            b = self.truth(self.rvalue(r, st, env))
            if isinstance(b.v, bool):
                if op == "&&":
                    return a if b.v else Sym("bool", False)
                return Sym("bool", True) if b.v else a
            return Sym("bool", "%s %s %s" % (paren(a.v), "∧" if op == "&&" else "∨", paren(b.v)))
        a = self.rvalue(l, st, env)
        b = self.rvalue(r, st, env)
        if op in ("<", ">", "<=", ">=", "==", "!="):
            if a.kind == "ptr" or b.kind == "ptr":
                if op in ("==", "!=") and (a.kind == "ptr" and b.kind == "ptr"):
                    eq = a.v == b.v
                    return Sym("bool", eq if op == "==" else not eq)
                raise Refuse("pointer comparison")
            if a.kind == "bool":
                a = self.convert(a, "int")
            if b.kind == "bool":
                b = self.convert(b, "int")
            if a.kind == "int" and b.kind == "int":
                if isinstance(a.v, int) and isinstance(b.v, int):
                    return Sym("bool", {"<": a.v < b.v, ">": a.v > b.v, "<=": a.v <= b.v, ">=": a.v >= b.v,
                                        "==": a.v == b.v, "!=": a.v != b.v}[op])
                lop = {"<": "<", ">": ">", "<=": "≤", ">=": "≥", "==": "=", "!=": "≠"}[op]
                return Sym("bool", "(%s : Int) %s %s" % (paren(self.tolean(a)), lop, paren(self.tolean(b))))
            a, b = self.convert(a, "num"), self.convert(b, "num")
            x, y = paren(a.v), paren(b.v)
            if op == "<":
                return Sym("bool", "%s < %s" % (x, y))
            if op == ">":
                return Sym("bool", "%s < %s" % (y, x))
            if op == "<=":
                return Sym("bool", "%s ≤ %s" % (x, y))
            if op == ">=":
                return Sym("bool", "%s ≤ %s" % (y, x))
            if op == "==":
                return Sym("bool", "MjNum.beq %s %s = true" % (x, y))
            return Sym("bool", "MjNum.beq %s %s = false" % (x, y))
        return self.arith(op, a, b, n)

    def has_side_effects(self, n):
        k = n.get("kind")
        if k in ("CallExpr", "CompoundAssignOperator"):
            if k == "CallExpr":
                f = n["inner"][0]
                while f.get("kind") in ("ImplicitCastExpr", "ParenExpr"):
                    f = f["inner"][0]
                if f.get("referencedDecl", {}).get("name") in LIBM1 or f.get("referencedDecl", {}).get("name") in LIBM2:
                    return any(self.has_side_effects(c) for c in n["inner"][1:])
            return True
        if k == "BinaryOperator" and n.get("opcode") == "=":
            return True
        if k == "UnaryOperator" and n.get("opcode") in ("++", "--"):
            return True
        return any(self.has_side_effects(c) for c in n.get("inner", []))

    # ---- calls ------------------------------------------------------------------------------------
    def call(self, n, st, env):
        f = self.rvalue(n["inner"][0], st, env)
        if f.kind != "func":
            raise Refuse("call through a function pointer")
        fname = f.v
        args = n["inner"][1:]
        if fname in LIBM1:
            a = self.convert(self.rvalue(args[0], st, env), "num")
            return Sym("num", "%s %s" % (LIBM1[fname], paren(a.v)))
        if fname in LIBM2:
            a = self.convert(self.rvalue(args[0], st, env), "num")
            b = self.convert(self.rvalue(args[1], st, env), "num")
            return Sym("num", "%s %s %s" % (LIBM2[fname], paren(a.v), paren(b.v)))
        if fname in ("fmax", "fmin"):
            raise Refuse("fmax/fmin")
        if fname in ("memcpy", "memmove", "__builtin_memcpy", "memset", "__builtin_memset"):
            dst = self.rvalue(args[0], st, env)
            cnt = self.rvalue(args[2], st, env)
            esz = self.pointee_size(args[0])
            if dst.kind != "ptr" or dst.v is None or not (cnt.kind == "int" and isinstance(cnt.v, int)) or not esz or cnt.v % esz:
                raise Refuse("%s with a non-constant or unaligned size" % fname)
            n_el = cnt.v // esz
            if "memset" in fname:
                val = self.rvalue(args[1], st, env)
                if not (val.kind == "int" and val.v == 0):
                    raise Refuse("memset with a non-zero byte")
                for i in range(n_el):
                    elem = st.meta[dst.v[0]]["elem"]
                    self.store(st, dst.v[0], dst.v[1] + i, Sym("int", 0) if elem == "int" else Sym("num", "MjNum.ofInt 0", True))
                return dst
            src = self.rvalue(args[1], st, env)
            if src.kind != "ptr" or src.v is None or self.pointee_size(args[1]) != esz:
                raise Refuse("memcpy between different element types")
            vals = [self.load(st, src.v[0], src.v[1] + i) for i in range(n_el)]
            for i, v in enumerate(vals):
                self.store(st, dst.v[0], dst.v[1] + i, v)
            return dst
        argv = [self.rvalue(a, st, env) for a in args]
        summ = self.reg.summary_for_call(fname, argv)
        if summ is not None:
            r = self.try_emit_call(fname, summ, argv, st)
            if r is not None:
                return r
        callee, gv = self.reg.find_function(fname)
        if callee is None:
            raise Refuse("call to %s, which is neither a translated kernel nor available for inlining" % fname)
        return self.inline(callee, gv, argv, st)

    def try_emit_call(self, fname, summ, argv, st):
        """emit `let r := callee args` when no output cell aliases an input cell of another parameter"""
        in_cells, out_cells = [], []
        if any(q.get("struct") for q in summ["params"]):
            return None
        for (po, idx, nm, kind, _cp) in summ["inputs"]:
            pi = po[0]
            a = argv[pi]
            if summ["params"][pi]["isarray"]:
                if a.kind != "ptr" or a.v is None:
                    return None
                in_cells.append((pi, (a.v[0], a.v[1] + idx)))
            else:
                in_cells.append((pi, None))
        for (po, idx) in summ["outputs"]:
            pi = po[0]
            a = argv[pi]
            if a.kind != "ptr" or a.v is None:
                return None
            out_cells.append((pi, (a.v[0], a.v[1] + idx)))
        ins = {c for _, c in in_cells if c}
        outs = [c for _, c in out_cells]
        # aliasing between an output and an input of a *different* parameter, or between two outputs -> inline
        for (po, c) in out_cells:
            for (pi, ci) in in_cells:
                if ci == c and pi != po:
                    return None
        if len(set(outs)) != len(outs):
            return None
        argstrs = []
        for (po, idx, nm, kind, _cp) in summ["inputs"]:
            pi = po[0]
            a = argv[pi]
            if summ["params"][pi]["isarray"]:
                v = self.load(st, a.v[0], a.v[1] + idx)
            else:
                v = a
            v = self.convert(v, kind)
            argstrs.append(paren(self.tolean(v)))
        self.calls.add(summ["lean"])
        callexpr = "%s %s" % (summ["lean"], " ".join(argstrs)) if argstrs else summ["lean"] + " (α := α)"
        nres = len(summ["outputs"]) + (1 if summ["ret"] else 0) + (1 if summ["err"] is not None else 0)
        if nres == 0:
            return Sym("void", None)
        if nres == 1:
            projs = [callexpr]
        else:
            r = self.fresh("r_" + fname)
            self.lets.append("let %s := %s" % (r, callexpr))
            projs = []
            for i in range(nres):
                p = r + ".2" * i + (".1" if i < nres - 1 else "")
                projs.append(p)
        k = 0
        ret = Sym("void", None)
        if summ["err"] is not None:
            self.err_used = True
            cur = st.mem[self.err_aid][0]
            st.mem[self.err_aid][0] = self.let("err", Sym("int", "if (%s : Int) ≠ 0 then 1 else %s" % (projs[0], self.tolean(cur))))
            k = 1
        if summ["ret"]:
            ret = self.let(fname + "_ret", Sym(summ["ret"], projs[k]))
            k += 1
        for (po, idx) in summ["outputs"]:
            pi = po[0]
            a = argv[pi]
            self.store(st, a.v[0], a.v[1] + idx, Sym(summ["params"][pi]["elem"], projs[k]))
            k += 1
        return ret

    def inline(self, callee, gv, argv, st):
        saved_gvars = self.gvars
        self.gvars = gv
        try:
            ret = self.run_body(callee, argv, st)
        finally:
            self.gvars = saved_gvars
        return ret

    # ---- statements (CPS inside one function body) -----------------------------------------------
    def run_body(self, fdecl, argv, st):
        """execute fdecl's body on st (mutated in place to the merged final memory); returns ret Sym"""
        env = {}
        params = [c for c in fdecl["inner"] if c["kind"] == "ParmVarDecl"]
        body = [c for c in fdecl["inner"] if c["kind"] == "CompoundStmt"][0]
        if len(params) != len(argv):
            raise Refuse("arity mismatch calling %s" % fdecl["name"])
        for p, a in zip(params, argv):
            q = p["type"]["qualType"]
            if a.kind == "sptr" or "*" in q or "[" in q:
                aid = self.new_array(st, p.get("name", "arg"), "ptr")
                st.mem[aid][0] = a
            else:
                kind = self.elem_kind(q)
                aid = self.new_array(st, p.get("name", "arg"), kind)
                st.mem[aid][0] = self.let(p.get("name", "arg"), self.convert(a, kind)) if a.kind != "void" else a
            env[p["id"]] = aid
        live_before = set(st.mem.keys())
        retkind = self.ret_kind(fdecl)

        def kret(s, val):
            return (s, val)

        res_st, res_val = self.exec_block(body.get("inner", []), st, env, lambda s, e: kret(s, None), kret, None, None)
        # write the merged memory back into st (arrays that existed before the call)
        for aid in list(st.mem.keys()):
            if aid in res_st.mem:
                st.mem[aid] = res_st.mem[aid]
        for aid in res_st.mem:
            if aid not in st.mem and st.meta.get(aid, {}).get("structfield"):
                st.mem[aid] = res_st.mem[aid]
        if isinstance(res_val, str):  # every path ends in an error
            res_val = None if retkind is None else (Sym("int", 0) if retkind != "num" else num_lit_from_int(0))
        if retkind is None:
            return Sym("void", None)
        if res_val is None:
            raise Refuse("non-void function %s may fall off its end" % fdecl["name"])
        return self.convert(res_val, retkind)

    def ret_kind(self, fdecl):
        q = fdecl["type"]["qualType"].split("(")[0].strip()
        if q == "void":
            return None
        if "*" in q:
            raise Refuse("pointer-returning function " + fdecl["name"])
        return self.elem_kind(q)

    @staticmethod
    def contains(n, kinds):
        if n.get("kind") in kinds:
            return True
        return any(Translator.contains(c, kinds) for c in n.get("inner", []))

    def merge_states(self, c, a, b, base):
        """cell-wise selection `if c then a else b` over the arrays that exist in `base`"""
        out = base.copy()
        aids = list(base.mem.keys())
        for x in (a, b):
            for aid in x.mem:
                if aid not in base.mem and base.meta.get(aid, {}).get("structfield") and aid not in aids:
                    aids.append(aid)
        for aid in aids:
            ca, cb = a.mem.get(aid, {}), b.mem.get(aid, {})
            cells = {}
            for idx in sorted(set(ca) | set(cb)):
                va, vb = ca.get(idx), cb.get(idx)
                meta = base.meta[aid]
                if va is None or vb is None:
                    if not meta["param"]:
                        # defined on one path only: keep it undefined unless later read (then Refuse)
                        continue
                    init = self.initial(aid, idx, meta)
                    va = va or init
                    vb = vb or init
                cells[idx] = self.select(c, va, vb, meta, idx)
            out.mem[aid] = cells
        return out

    def select(self, c, va, vb, meta, idx):
        if va.kind == vb.kind and va.v == vb.v:
            return va
        if va.kind == "ptr" or vb.kind == "ptr":
            raise Refuse("data-dependent pointer value in %s" % meta["name"])
        kind = meta["elem"] if meta["elem"] in ("num", "int") else ("num" if "num" in (va.kind, vb.kind) else va.kind)
        va, vb = self.convert(va, kind), self.convert(vb, kind)
        base = "%s_%d" % (meta["name"], idx) if (meta["shape"] or meta["param"] and meta.get("isarray", True)) else meta["name"]
        return self.let(base, Sym(kind, "if %s then %s else %s" % (c, self.tolean(va), self.tolean(vb))))

    def merge_results(self, c, ra, rb, base):
        sa, va = ra
        sb, vb = rb
        st = self.merge_states(c, sa, sb, base)
        if isinstance(va, str) and isinstance(vb, str):
            return (st, "error")
        if isinstance(va, str):
            return (st, vb)
        if isinstance(vb, str):
            return (st, va)
        if va is None and vb is None:
            return (st, None)
        if va is None or vb is None:
            raise Refuse("function returns a value on one path only")
        if va.kind == vb.kind and va.v == vb.v:
            return (st, va)
        kind = "num" if "num" in (va.kind, vb.kind) else ("int" if "int" in (va.kind, vb.kind) else va.kind)
        va, vb = self.convert(va, kind), self.convert(vb, kind)
        if kind == "bool":
            return (st, self.let("ret", Sym("bool", "if %s then %s else %s" % (c, va.v, vb.v))))
        return (st, self.let("ret", Sym(kind, "if %s then %s else %s" % (c, self.tolean(va), self.tolean(vb)))))

    def exec_block(self, stmts, st, env, k, kret, kbreak, kcont):
        """CPS: returns (final_state, ret)"""
        if not stmts:
            return k(st, env)
        s, rest = stmts[0], stmts[1:]
        cont = lambda s2, e2: self.exec_block(rest, s2, e2, k, kret, kbreak, kcont)
        kind = s["kind"]
        if kind == "CompoundStmt" and self.is_error_stmt(s) and not self.contains(s, ("IfStmt", "ForStmt", "WhileStmt", "ReturnStmt")):
            return self.error_exit(st, kret)
        if kind == "CompoundStmt":
            outer_env = env
            return self.exec_block(s.get("inner", []), st, dict(env), lambda s2, e2: cont(s2, outer_env), kret, kbreak, kcont)
        if kind == "NullStmt":
            return cont(st, env)
        if kind == "DeclStmt":
            for d in s.get("inner", []):
                if d["kind"] != "VarDecl":
                    continue
                self.declare(d, st, env)
            return cont(st, env)
        if kind == "ReturnStmt":
            inner = s.get("inner", [])
            val = self.rvalue(inner[0], st, env) if inner else None
            if val is not None and val.kind not in ("void",):
                val = self.let("ret", val) if not is_conc(val) else val
            return kret(st, val)
        if kind == "BreakStmt":
            if kbreak is None:
                raise Refuse("break outside a loop")
            return kbreak(st, env)
        if kind == "ContinueStmt":
            if kcont is None:
                raise Refuse("continue outside a loop")
            return kcont(st, env)
        if kind == "IfStmt":
            inner = s["inner"]
            cond = self.truth(self.rvalue(inner[0], st, env))
            then_s = [inner[1]]
            else_s = [inner[2]] if len(inner) > 2 else []
            if isinstance(cond.v, bool):
                return self.exec_block((then_s if cond.v else else_s), st, dict(env), lambda s2, e2: cont(s2, env), kret, kbreak, kcont)
            c = self.let("c", cond).v
            jumps = self.contains(s, ("ReturnStmt", "BreakStmt", "ContinueStmt", "GotoStmt"))
            if not jumps:
                ident = lambda s2, e2: (s2, None)
                sa, _ = self.exec_block(then_s, st.copy(), dict(env), ident, kret, kbreak, kcont)
                sb, _ = self.exec_block(else_s, st.copy(), dict(env), ident, kret, kbreak, kcont)
                merged = self.merge_states(c, sa, sb, st)
                return cont(merged, env)
            ra = self.exec_block(then_s, st.copy(), dict(env), lambda s2, e2: cont(s2, env), kret, kbreak, kcont)
            rb = self.exec_block(else_s, st.copy(), dict(env), lambda s2, e2: cont(s2, env), kret, kbreak, kcont)
            return self.merge_results(c, ra, rb, st)
        if kind in ("ForStmt", "WhileStmt", "DoStmt"):
            return self.exec_loop(s, st, env, cont, kret)
        if kind == "SwitchStmt":
            return self.exec_switch(s, st, env, cont, kret, kcont)
        if kind in ("GotoStmt", "LabelStmt"):
            raise Refuse("goto")
        if self.is_error_stmt(s):
            # mjERROR(...) / mju_error(...): the function does not return normally
            return self.error_exit(st, kret)
        # expression statement
        self.rvalue(s, st, env)
        return cont(st, env)

    ERROR_CALLS = ("mju_message", "mju_error", "mju_error_i", "mju_error_s", "mju_error_raw", "abort", "__assert_fail")

    def is_error_stmt(self, n):
        if n.get("kind") == "CallExpr":
            f = n["inner"][0]
            while f.get("kind") in ("ImplicitCastExpr", "ParenExpr"):
                f = f["inner"][0]
            if f.get("referencedDecl", {}).get("name") in self.ERROR_CALLS:
                return True
        return any(self.is_error_stmt(c) for c in n.get("inner", []))

    def error_exit(self, st, kret):
        self.err_used = True
        st.mem[self.err_aid][0] = Sym("int", 1)
        return kret(st, "error")

    def declare(self, d, st, env):
        q = d["type"]["qualType"]
        init = [c for c in d.get("inner", []) if c.get("kind") not in ("FullComment",)]
        if "*" in q and "[" not in q:
            aid = self.new_array(st, d["name"], "ptr")
            env[d["id"]] = aid
            if init:
                st.mem[aid][0] = self.rvalue(init[0], st, env)
            return
        if "(*" in q:
            raise Refuse("function-pointer variable")
        shape = self.array_shape(q)
        if "[" in q and not shape:
            raise Refuse("variable-length array " + d["name"])
        elem = self.elem_kind(q)
        aid = self.new_array(st, d["name"], elem, shape)
        env[d["id"]] = aid
        if init:
            self.init_into(st, env, aid, 0, shape, init[0], elem)

    def exec_loop(self, s, st, env, cont, kret):
        kind = s["kind"]
        inner = s["inner"]
        loop_env = dict(env)
        if kind == "ForStmt":
            init, _condvar, cond, inc, body = inner
            if init and init.get("kind"):
                if init["kind"] == "DeclStmt":
                    for d in init.get("inner", []):
                        self.declare(d, st, loop_env)
                else:
                    self.rvalue(init, st, loop_env)
        elif kind == "WhileStmt":
            cond, body = inner[-2], inner[-1]
            inc = None
        else:
            body, cond = inner
            inc = None
        budget = [100000]

        def test(s2):
            if not cond or not cond.get("kind"):
                return True
            c = self.truth(self.rvalue(cond, s2, loop_env))
            if not isinstance(c.v, bool):
                raise Refuse("data-dependent loop condition")
            return c.v

        def iterate(s2, first):
            budget[0] -= 1
            if budget[0] < 0:
                raise Refuse("loop does not terminate under constant propagation")
            if not (first and kind == "DoStmt"):
                if not test(s2):
                    return cont(s2, env)

            def after_body(s3, e3):
                if inc and inc.get("kind"):
                    self.rvalue(inc, s3, loop_env)
                return iterate(s3, False)
            return self.exec_block([body], s2, dict(loop_env), after_body, kret,
                                   lambda s3, e3: cont(s3, env), after_body)
        return iterate(st, True)

    def exec_switch(self, s, st, env, cont, kret, kcont):
        inner = s["inner"]
        scrut = self.rvalue(inner[0], st, env)
        body = inner[-1]
        if scrut.kind == "bool":
            scrut = self.convert(scrut, "int")
        if body["kind"] != "CompoundStmt":
            raise Refuse("switch body is not a block")
        # flatten case labels: list of (labels, stmts)
        groups, cur = [], None
        for c in body.get("inner", []):
            node = c
            labels = []
            while node["kind"] in ("CaseStmt", "DefaultStmt"):
                if node["kind"] == "CaseStmt":
                    v = self.rvalue(node["inner"][0], st, env)
                    if not (v.kind == "int" and isinstance(v.v, int)):
                        raise Refuse("non-constant case label")
                    labels.append(v.v)
                    node = node["inner"][-1]
                else:
                    labels.append("default")
                    node = node["inner"][-1]
            if labels:
                cur = [labels, [node]]
                groups.append(cur)
            else:
                if cur is None:
                    raise Refuse("statement before first case label")
                cur[1].append(node)
        def run_from(gi, s2):
            stmts = []
            for g in groups[gi:]:
                stmts += g[1]
            return self.exec_block(stmts, s2, dict(env), lambda s3, e3: cont(s3, env), kret,
                                   lambda s3, e3: cont(s3, env), kcont)
        if scrut.kind == "int" and isinstance(scrut.v, int):
            for gi, g in enumerate(groups):
                if scrut.v in g[0]:
                    return run_from(gi, st)
            for gi, g in enumerate(groups):
                if "default" in g[0]:
                    return run_from(gi, st)
            return cont(st, env)
        if scrut.kind != "int":
            raise Refuse("switch on a non-integer")
        sv = self.let("sw", scrut)
        # data-dependent switch: chain of selections
        def chain(gi, s2):
            if gi == len(groups):
                dflt = [i for i, g in enumerate(groups) if "default" in g[0]]
                return run_from(dflt[0], s2) if dflt else cont(s2, env)
            labels = [l for l in groups[gi][0] if l != "default"]
            if not labels:
                return chain(gi + 1, s2)
            cnd = " ∨ ".join("(%s : Int) = %s" % (paren(sv.v), (str(l) if l >= 0 else "(%d)" % l)) for l in labels)
            c = self.let("c", Sym("bool", cnd)).v
            ra = run_from(gi, s2.copy())
            rb = chain(gi + 1, s2.copy())
            return self.merge_results(c, ra, rb, s2)
        return chain(0, st)

    # ---- top level --------------------------------------------------------------------------------
    def translate(self):
        f = self.fdecl
        st = State()
        self.err_used = False
        self.err_aid = self.new_array(st, "err", "int")
        st.mem[self.err_aid][0] = Sym("int", 0)
        params = [c for c in f["inner"] if c["kind"] == "ParmVarDecl"]
        argv, pinfo = [], []
        for i, p in enumerate(params):
            q = p["type"]["qualType"]
            nm = p.get("name", "arg%d" % i)
            if "*" in q or "[" in q:
                if q.count("*") > 1 or "(*" in q:
                    raise Refuse("parameter %s: pointer to pointer / function pointer" % nm)
                sname = self.struct_name(q)
                if sname:
                    if nm in self.fix and self.fix[nm] is None:
                        argv.append(Sym("ptr", None))
                        pinfo.append({"name": nm, "isarray": True, "elem": "num", "const": True, "null": True})
                        continue
                    argv.append(Sym("sptr", (nm, 0, i, "const" in q)))
                    pinfo.append({"name": nm, "isarray": True, "elem": "struct", "const": "const" in q, "struct": sname})
                    continue
                elem = self.elem_kind(q)
                if nm in self.fix and self.fix[nm] is None:
                    argv.append(Sym("ptr", None))
                    pinfo.append({"name": nm, "isarray": True, "elem": elem, "const": True, "null": True})
                    continue
                aid = self.new_array(st, nm, elem, (), param=True, const=("const" in q))
                st.meta[aid]["porder"] = i
                st.meta[aid]["isarray"] = True
                argv.append(Sym("ptr", (aid, 0, ())))
                pinfo.append({"name": nm, "isarray": True, "elem": elem, "const": "const" in q, "aid": aid})
            else:
                kind = self.elem_kind(q)
                if nm in self.fix:
                    argv.append(Sym("int", int(self.fix[nm])) if kind == "int" else num_lit_from_int(int(self.fix[nm])))
                    pinfo.append({"name": nm, "isarray": False, "elem": kind, "fixed": self.fix[nm]})
                    continue
                aid = self.new_array(st, nm, kind, (), param=True, const=True)
                st.meta[aid]["porder"] = i
                st.meta[aid]["isarray"] = False
                v = self.initial(aid, 0, st.meta[aid])
                argv.append(v)
                pinfo.append({"name": nm, "isarray": False, "elem": kind})
        ret = self.run_body(f, argv, st)
        # outputs: written cells of non-const array params
        outputs = []
        for i, p in enumerate(pinfo):
            if p.get("struct"):
                if p["const"]:
                    continue
                fields = sorted((st.meta[a]["porder"], a) for a in self.struct_arrays.values() if st.meta[a]["porder"][0] == i)
                for po, a in fields:
                    for idx in sorted(st.mem.get(a, {}).keys()):
                        outputs.append((po, idx, st.mem[a][idx], self.cpath(st.meta[a], idx), st.meta[a]["elem"],
                                        "%s_%d" % (st.meta[a]["name"], idx)))
                continue
            if p.get("isarray") and not p.get("null") and not p["const"]:
                for idx in sorted(st.mem[p["aid"]].keys()):
                    outputs.append(((i,), idx, st.mem[p["aid"]][idx], "p%d[%d]" % (i, idx), p["elem"], "%s_%d" % (p["name"], idx)))
        self.inputs.sort(key=lambda t: (t[0], t[1]))
        retkind = None if ret.kind == "void" else ret.kind
        errval = st.mem[self.err_aid][0] if self.err_used else None
        return {"err": errval, "params": pinfo, "inputs": list(self.inputs),
                "outputs": outputs, "ret": ret if retkind else None, "retkind": retkind, "lets": self.lets,
                "calls": sorted(self.calls)}


# ------------------------------------------------------------------------------------------ registry / emission
class Registry:
    """kernel whitelist -> generated Lean module + manifest + C validation harness"""

    def __init__(self, kernels):
        self.kernels = kernels            # list of dicts: name, file, [lean], [fix], [static]
        self.by_name = {}
        for k in kernels:
            self.by_name.setdefault(k["name"], []).append(k)
        self.done = {}                    # lean name -> summary
        self.order = []
        self.refused = {}
        self.in_progress = set()
        self.inline_files = []

    def enum_value(self, rd):
        # clang's JSON does not carry the value on the reference; look it up in the TU
        name = rd["name"]
        for path in list(_AST_CACHE.keys()):
            pass
        v = ENUMS.get(name)
        if v is None:
            raise Refuse("value of enumerator %s unknown" % name)
        return v

    def lean_name(self, k):
        return k.get("lean") or k["name"]

    def find_function(self, fname):
        for k in self.kernels:
            funcs, gv = load_ast(os.path.join(REPO, k["file"]))
            if fname in funcs:
                return funcs[fname], gv
        for f in self.inline_files:
            funcs, gv = load_ast(os.path.join(REPO, f))
            if fname in funcs:
                return funcs[fname], gv
        return None, None

    def summary_for_call(self, fname, argv):
        for k in self.by_name.get(fname, []):
            fix = k.get("fix") or {}
            if fix:
                continue  # specialised variants are only used at top level
            ln = self.lean_name(k)
            if ln in self.in_progress:
                return None
            if ln not in self.done and ln not in self.refused:
                self.translate_kernel(k)
            return self.done.get(ln)
        return None

    def translate_kernel(self, k):
        ln = self.lean_name(k)
        if ln in self.done or ln in self.refused:
            return
        self.in_progress.add(ln)
        try:
            funcs, gv = load_ast(os.path.join(REPO, k["file"]))
            if k["name"] not in funcs:
                raise Refuse("function %s not found in %s" % (k["name"], k["file"]))
            t = Translator(self, k["name"], funcs[k["name"]], gv, k.get("fix"))
            r = t.translate()
            summ = {
                "lean": "MjProof.Gen." + ln, "short": ln, "cname": k["name"], "file": k["file"],
                "params": r["params"], "inputs": r["inputs"],
                "outputs": [(o[0], o[1]) for o in r["outputs"]],
                "outvals": r["outputs"], "ret": r["retkind"], "retval": r["ret"], "lets": r["lets"],
                "fix": k.get("fix") or {}, "static": k.get("static", False), "calls": r["calls"], "err": r["err"],
                "sha256": func_sha(funcs[k["name"]], k["file"]),
            }
            self.done[ln] = summ
            self.order.append(ln)
        except Refuse as e:
            self.refused[ln] = str(e)
        finally:
            self.in_progress.discard(ln)

    def run(self):
        for k in self.kernels:
            self.translate_kernel(k)

    # ---- Lean emission
    def emit_lean(self, module_doc):
        out = ["import MjProof.Num", "/-", module_doc, "-/", "set_option linter.unusedVariables false",
               "set_option maxRecDepth 100000", "namespace MjProof.Gen", "open MjProof", ""]
        for ln in self.order:
            s = self.done[ln]
            args = " ".join("(%s : %s)" % (i[2], "α" if i[3] == "num" else "Int") for i in s["inputs"])
            res_types, res_vals = [], []
            if s["err"] is not None:
                res_types.append("Int")
                res_vals.append(self_tolean(s["err"]))
            if s["ret"]:
                res_types.append({"num": "α", "int": "Int", "bool": "Bool"}[s["ret"]])
                rv = s["retval"]
                res_vals.append(self_tolean(rv) if rv.kind != "bool" else "decide (%s)" % rv.v if not isinstance(rv.v, bool) else str(rv.v).lower())
            for o in s["outvals"]:
                res_types.append("α" if o[4] == "num" else "Int")
                res_vals.append(self_tolean(o[2]))
            if not res_types:
                continue
            out.append("/-- generated from `%s` in `%s` (sha256 of body %s) -/" % (s["cname"], s["file"], s["sha256"][:16]))
            out.append("def %s {α : Type} [MjNum α] %s : %s :=" % (ln, args, " × ".join(res_types)))
            for l in s["lets"]:
                out.append("  " + l)
            out.append("  (" + ", ".join(res_vals) + ")" if len(res_vals) > 1 else "  " + res_vals[0])
            out.append("")
        out.append("end MjProof.Gen")
        return "\n".join(out) + "\n"

    def emit_dispatch(self, import_mod):
        """Lean: name -> run on Float tokens"""
        out = ["import %s" % import_mod, "namespace MjProof.Gen", "open MjProof", "",
               "inductive Tok where | f (x : Float) | i (n : Int)", "",
               "def Tok.show : Tok → String | .f x => floatBits x | .i n => \"i\" ++ toString n", "",
               "def parseTok (s : String) : Option Tok :=",
               "  if s.startsWith \"i\" then (s.drop 1).toString.toInt?.map Tok.i else (floatOfBits? s).map Tok.f", "",
               "def dispatch (name : String) (xs : List Tok) : Option (List Tok) :=",
               "  match name, xs with"]
        for ln in self.order:
            s = self.done[ln]
            if not (s["ret"] or s["outvals"]):
                continue
            pats, args = [], []
            for j, i in enumerate(s["inputs"]):
                pats.append(".f a%d" % j if i[3] == "num" else ".i a%d" % j)
                args.append("a%d" % j)
            pat = "[" + ", ".join(pats) + "]"
            call = "%s (α := Float) %s" % (ln, " ".join(args))
            kinds = []
            if s["err"] is not None:
                kinds.append("err")
            if s["ret"]:
                kinds.append(s["ret"])
            for o in s["outvals"]:
                kinds.append(o[4])
            n = len(kinds)
            if n == 1:
                projs = ["r"]
            else:
                projs = ["r" + ".2" * i + (".1" if i < n - 1 else "") for i in range(n)]
            toks = []
            for kd, p in zip(kinds, projs):
                if kd == "err":
                    toks.append(".i %s" % p)
                elif kd == "num":
                    toks.append(".f %s" % p)
                elif kd == "int":
                    toks.append(".i %s" % p)
                else:
                    toks.append(".i (if %s then 1 else 0)" % p)
            if kinds and kinds[0] == "err":
                out.append("  | \"%s\", %s => let r := %s; if %s ≠ 0 then some [.i (-999999)] else some [%s]" % (ln, pat, call, projs[0], ", ".join(toks[1:])))
            else:
                out.append("  | \"%s\", %s => let r := %s; some [%s]" % (ln, pat, call, ", ".join(toks)))
        out.append("  | _, _ => none")
        out.append("")
        out.append("end MjProof.Gen")
        return "\n".join(out) + "\n"

    # ---- C validation harness
    def emit_c_harness(self):
        incs = set()
        body = []
        static_files = sorted({s["file"] for s in self.done.values() if s["static"]})
        for ln in self.order:
            s = self.done[ln]
            if not (s["ret"] or s["outvals"]):
                continue
            P = s["params"]
            lines = ["  if (!strcmp(name, \"%s\")) {" % ln]
            # array sizes
            size = {}
            for i in s["inputs"]:
                pi = i[0][0]
                if P[pi].get("struct"):
                    size[pi] = max(size.get(pi, 0), i[0][1] + 1)
                elif P[pi]["isarray"]:
                    size[pi] = max(size.get(pi, 0), i[1] + 1)
            for o in s["outvals"]:
                pi = o[0][0]
                size[pi] = max(size.get(pi, 0), (o[0][1] if P[pi].get("struct") else o[1]) + 1)
            for pi, p in enumerate(P):
                if p.get("null") or "fixed" in p:
                    continue
                if p.get("struct"):
                    n = size.get(pi, 1)
                    lines.append("    %s p%d[%d]; memset(p%d, 0, sizeof p%d);" % (p["struct"], pi, n + 1, pi, pi))
                    continue
                cty = "double" if p["elem"] == "num" else "int"
                if p["isarray"]:
                    n = size.get(pi, 1)
                    lines.append("    %s p%d[%d]; for (int z = 0; z < %d; z++) p%d[z] = (%s)CANARY;" % (cty, pi, n + 2, n + 2, pi, cty))
                else:
                    lines.append("    %s p%d = 0;" % (cty, pi))
            lines.append("    if (ntok != %d) { printf(\"bad-op\\n\"); return; }" % len(s["inputs"]))
            for j, i in enumerate(s["inputs"]):
                if i[3] == "num":
                    lines.append("    if (!getf(tok[%d], &%s)) { printf(\"bad-op\\n\"); return; }" % (j, i[4]))
                else:
                    lines.append("    { int tmpi; if (!geti(tok[%d], &tmpi)) { printf(\"bad-op\\n\"); return; } %s = tmpi; }" % (j, i[4]))
            cargs = []
            for pi, p in enumerate(P):
                if p.get("null"):
                    cargs.append("NULL")
                elif "fixed" in p:
                    cargs.append(str(p["fixed"]))
                else:
                    cargs.append("p%d" % pi)
            call = "%s(%s)" % (s["cname"], ", ".join(cargs))
            if s["err"] is not None:
                lines.append("    if (setjmp(errjmp)) { printf(\"i-999999\\n\"); return; }")
            if s["ret"] == "num":
                lines.append("    double r = %s; putf(r);" % call)
            elif s["ret"] in ("int", "bool"):
                lines.append("    int r = %s; puti(r);" % call)
            else:
                lines.append("    %s;" % call)
            for o in s["outvals"]:
                lines.append("    %s(%s);" % ("putf" if o[4] == "num" else "puti", o[3]))
            lines.append("    printf(\"\\n\"); return;")
            lines.append("  }")
            body += lines
        src = ["// GENERATED by translate/c2lean.py: calls the real kernels of the tree on token lines.",
               "#include <stdio.h>", "#include <stdlib.h>", "#include <string.h>", "#include <stdint.h>", "#include <math.h>",
               "#include <mujoco/mujoco.h>"]
        hdrs = sorted({re.sub(r"\.c$", ".h", s["file"].replace("src/", "")) for s in self.done.values()
                       if not s["static"] and s["file"].endswith(".c")})
        for f in static_files:
            src.append("#include \"%s\"" % f.replace("src/", ""))
        for h in hdrs:
            if os.path.exists(os.path.join(REPO, "src", h)):
                src.append("#include \"%s\"" % h)
        src += ["#include <setjmp.h>", "#define CANARY 12345", "static jmp_buf errjmp;",
                "static void on_error(const char* msg) { (void)msg; longjmp(errjmp, 1); }",
                "static int first;",
                "static void putf(double x) { uint64_t u; memcpy(&u, &x, 8); if (x != x) printf(first ? \"nan\" : \" nan\"); else printf(first ? \"%016llx\" : \" %016llx\", (unsigned long long)u); first = 0; }",
                "static void puti(int x) { printf(first ? \"i%d\" : \" i%d\", x); first = 0; }",
                "static int getf(const char* t, double* x) { if (!strcmp(t, \"nan\")) { *x = NAN; return 1; } if (strlen(t) != 16) return 0; char* e; uint64_t u = strtoull(t, &e, 16); if (*e) return 0; memcpy(x, &u, 8); return 1; }",
                "static int geti(const char* t, int* x) { if (t[0] != 'i') return 0; char* e; long v = strtol(t + 1, &e, 10); if (*e) return 0; *x = (int)v; return 1; }",
                "static void run(const char* name, char** tok, int ntok) {", "  first = 1;"] + body + \
               ["  printf(\"bad-op\\n\");", "}",
                "int main(void) {",
                "  mju_user_error = on_error;",
                "  static char line[1 << 16]; char* tok[4096];",
                "  while (fgets(line, sizeof line, stdin)) {",
                "    int n = 0; char* save; char* t = strtok_r(line, \" \\n\", &save);",
                "    while (t && n < 4096) { tok[n++] = t; t = strtok_r(NULL, \" \\n\", &save); }",
                "    if (!n) { printf(\"bad-op\\n\"); continue; }",
                "    run(tok[0], tok + 1, n - 1);",
                "  }", "  return 0;", "}"]
        return "\n".join(src) + "\n"

    def manifest(self):
        m = {"kernels": {}, "refused": self.refused}
        for ln in self.order:
            s = self.done[ln]
            m["kernels"][ln] = {"c": s["cname"], "file": s["file"], "sha256": s["sha256"],
                                "inputs": [[i[2], i[3]] for i in s["inputs"]],
                                "outputs": [[o[5], o[4]] for o in s["outvals"]],
                                "ret": s["ret"], "nlets": len(s["lets"]), "calls": s["calls"], "fix": s["fix"]}
        return m


def self_tolean(s):
    if s.kind == "int" and isinstance(s.v, int):
        return str(s.v) if s.v >= 0 else "(%d)" % s.v
    if s.kind == "bool":
        return str(s.v).lower() if isinstance(s.v, bool) else "decide (%s)" % s.v
    return s.v


def func_sha(fdecl, file):
    path = os.path.join(REPO, file)
    rng = fdecl.get("range", {})
    try:
        b, e = rng["begin"]["offset"], rng["end"]["offset"]
        inc = rng["begin"].get("includedFrom")
        with open(path, "rb") as fh:
            data = fh.read()
        return hashlib.sha256(data[b:e + 1]).hexdigest()
    except Exception:
        return hashlib.sha256(json.dumps(fdecl.get("inner", []), sort_keys=True).encode()).hexdigest()


ENUMS = {}


def load_enums():
    """enumerator values from the public headers (needed for switch/case over mjt* enums)"""
    if ENUMS:
        return
    for h in ("mjtype.h", "mjmodel.h", "mjdata.h", "mjvisualize.h", "mjspec.h"):
        p = os.path.join(REPO, "include", "mujoco", h)
        r = subprocess.run(["clang", "-fsyntax-only", "-Xclang", "-ast-dump=json", "-w", "-I" + os.path.join(REPO, "include"), p],
                           capture_output=True, text=True)
        if not r.stdout.strip():
            continue
        ast = json.loads(r.stdout)
        for n in ast.get("inner", []):
            if n.get("kind") == "EnumDecl":
                nxt = 0
                for c in n.get("inner", []):
                    if c.get("kind") != "EnumConstantDecl":
                        continue
                    val = None
                    def find(x):
                        if x.get("kind") == "ConstantExpr" and "value" in x:
                            return int(x["value"])
                        if x.get("kind") == "IntegerLiteral":
                            return int(x["value"])
                        for y in x.get("inner", []):
                            r2 = find(y)
                            if r2 is not None:
                                return r2
                        return None
                    for x in c.get("inner", []):
                        val = find(x)
                        if val is not None:
                            break
                    if val is None:
                        val = nxt
                    ENUMS[c["name"]] = val
                    nxt = val + 1
