"""C28 kernels: straight-line helpers the sensor stage is built from.

apply_cutoff / mj_computeSensorPos / mj_computeSensorVel / mj_computeSensorAcc read through mjModel* / mjData*
(pointer-valued struct members: outside c2lean's subset) and are hand-modelled in lean/MjProof/Model/Sensor.lean
*on top of* these generated kernels: the clamp helpers (mju_clip, mju_min of engine_util_misc.c), the frame
helpers (mju_mulMatTVec3, mju_negQuat, mju_mulQuat, mju_cross: shared list) and mju_transformSpatial, which
mj_objectVelocity / mj_objectAcceleration and the force / torque sensors call with a rotation (sensor frame) or
with rotnew2old == NULL (global frame: specialised here as mju_transformSpatial_world).
The tie of the hand model is a bitwise differential against the unmodified static functions of engine_sensor.c
(harness/c/c28_sensors.c) on crafted mjModel / mjData views.

Tried and refused by c2lean (oracle only): cam_project (float / int array parameters), fill_raydata (pointer
bumping), total_wrench (data-dependent trip count)."""
MISC = "src/engine/engine_util_misc.c"
SPATIAL = "src/engine/engine_util_spatial.c"
KERNELS = [
    {"name": "mju_clip", "file": MISC},
    {"name": "mju_min", "file": MISC},
    {"name": "mju_max", "file": MISC},
    {"name": "mju_transformSpatial", "file": SPATIAL, "fix": {"rotnew2old": None}, "lean": "mju_transformSpatial_world"},
]
INLINE_FILES = [MISC, SPATIAL]
