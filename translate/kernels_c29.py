"""C29 kernels: scalar laws of the passive forces (engine_util_misc.c).  mju_polyForce / mju_polyPotential /
mjd_xPolyForce are specialised to n = mjNPOLY = 2 (the only value the engine passes; checked by checks/c29.py
against the header) and to both values of flg_odd (0: springs, 1: dampers).  mj_springdamper / mj_gravcomp /
mj_passive read through mjModel* / mjData* and are hand-modelled in lean/MjProof/Model/Passive.lean on top of
these kernels."""
MISC = "src/engine/engine_util_misc.c"
KERNELS = [
    {"name": "mju_polyForce", "file": MISC, "fix": {"n": 2, "flg_odd": 0}, "lean": "mju_polyForce_spring"},
    {"name": "mju_polyForce", "file": MISC, "fix": {"n": 2, "flg_odd": 1}, "lean": "mju_polyForce_damper"},
    {"name": "mju_polyPotential", "file": MISC, "fix": {"n": 2, "flg_odd": 0}, "lean": "mju_polyPotential_spring"},
    {"name": "mjd_xPolyForce", "file": MISC, "fix": {"n": 2, "flg_odd": 0}, "lean": "mjd_xPolyForce_spring"},
    {"name": "mjd_xPolyForce", "file": MISC, "fix": {"n": 2, "flg_odd": 1}, "lean": "mjd_xPolyForce_damper"},
]
INLINE_FILES = [MISC]
