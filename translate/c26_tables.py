#!/usr/bin/env python3
"""C26 translator: regenerates lean/MjProof/Gen/StateTable.lean (+ .json) from the source tree.

Reads (repository root = $VERIF_REPO, default /repo):
  include/mujoco/mjdata.h | mjtype.h   `typedef enum mjtState`  -> element names, bits, mjNSTATE, named unions
  src/engine/engine_support.c           `mj_stateElemSize` switch -> size expression of each element
                                        `mj_stateElemPtr`  switch -> mjData field of each element
                                        bodies of mj_stateSize / mj_getState / mj_setState /
                                        mj_extractState / mj_copyState -> must match the loop templates
                                        that lean/MjProof/Model/State.lean models (with holes for the
                                        specially handled mjtBool element)
  include/mujoco/mjxmacro.h             MJDATA_POINTERS (type, nr, nc of every field), MJMODEL_SIZES
  include/mujoco/mjdata.h               scalar members of struct mjData_ (for `&d->time`)
  src/engine/engine_io.c                body of mj_resetDataKeyframe -> `_resetData(m, d, 0)` followed by the
                                        guarded list of keyframe copies (field, key_* array, stride, count);
                                        body of mj_resetData -> timing diagnostics + `_resetData(m, d, 0)`
  src/engine/engine_support.c           body of mj_setKeyframe -> two guards + the mirrored list of copies
  include/mujoco/mjxmacro.h             MJMODEL_POINTERS rows of the key_* arrays (allocated nkey x row)

Nothing about the table is hard-coded: names, bits, sizes and fields are whatever the source says.
Refuses (exit 3 + message on stderr) whenever a construct is outside the understood shape.

usage: c26_tables.py [--out DIR] [--stdout]
"""
import json
import os
import re
import sys

VERIF = os.path.dirname(os.path.dirname(os.path.abspath(__file__)))
REPO = os.environ.get("VERIF_REPO", "/repo")


class Refuse(Exception):
    pass


def read(rel):
    p = os.path.join(REPO, rel)
    if not os.path.exists(p):
        raise Refuse("missing source file %s" % p)
    with open(p, encoding="utf-8", errors="replace") as f:
        return f.read()


def strip_comments(s):
    s = re.sub(r"/\*.*?\*/", " ", s, flags=re.S)
    s = re.sub(r"//[^\n]*", " ", s)
    return s


def norm(s):
    """canonical token stream: comments stripped, whitespace removed around punctuation"""
    s = strip_comments(s)
    toks = re.findall(r"[A-Za-z_][A-Za-z_0-9]*|\d+|->|<<|>>|<=|>=|==|!=|\+\+|--|\+=|-=|&&|\|\||\"(?:[^\"\\]|\\.)*\"|\S", s)
    return " ".join(toks)


def function_body(src, header_re, what):
    """text between the braces of the unique function whose header matches header_re"""
    ms = list(re.finditer(header_re, src))
    if len(ms) != 1:
        raise Refuse("%s: expected exactly one definition, found %d" % (what, len(ms)))
    i = src.index("{", ms[0].end() - 1)
    depth, j = 0, i
    while j < len(src):
        c = src[j]
        if c == "{":
            depth += 1
        elif c == "}":
            depth -= 1
            if depth == 0:
                return src[i + 1:j]
        j += 1
    raise Refuse("%s: unbalanced braces" % what)


# ------------------------------------------------------------------------------------------ enum
def parse_enum():
    hits = []
    for rel in ("include/mujoco/mjdata.h", "include/mujoco/mjtype.h"):
        p = os.path.join(REPO, rel)
        if not os.path.exists(p):
            continue
        src = strip_comments(read(rel))
        for m in re.finditer(r"typedef\s+enum\s+mjtState_?\s*\{(.*?)\}\s*mjtState\s*;", src, re.S):
            hits.append((rel, m.group(1)))
    if len(hits) != 1:
        raise Refuse("enum mjtState: expected exactly one definition in mjdata.h/mjtype.h, found %d" % len(hits))
    rel, body = hits[0]
    elems, named, nstate = [], [], None
    for ent in [e.strip() for e in body.split(",")]:
        if not ent:
            continue
        m = re.fullmatch(r"(\w+)\s*=\s*(.+)", ent, re.S)
        if not m:
            raise Refuse("enum mjtState: enumerator without explicit value: %r" % ent)
        name, val = m.group(1), " ".join(m.group(2).split())
        if name == "mjNSTATE":
            if not re.fullmatch(r"\d+", val):
                raise Refuse("mjNSTATE is not an integer literal: %r" % val)
            nstate = int(val)
            continue
        if not name.startswith("mjSTATE_"):
            raise Refuse("enum mjtState: unexpected enumerator %s" % name)
        mb = re.fullmatch(r"1\s*<<\s*(\d+)", val)
        if mb:
            if named:
                raise Refuse("enum mjtState: single-bit element %s after the named unions" % name)
            elems.append((name, int(mb.group(1))))
            continue
        parts = [p.strip() for p in val.split("|")]
        if all(re.fullmatch(r"mjSTATE_\w+", p) for p in parts):
            named.append((name, parts))
            continue
        raise Refuse("enum mjtState: value of %s not understood: %r" % (name, val))
    if nstate is None:
        raise Refuse("enum mjtState: mjNSTATE not found")
    if not elems:
        raise Refuse("enum mjtState: no elements")
    if len({n for n, _ in elems}) != len(elems):
        raise Refuse("enum mjtState: duplicate enumerator name")
    # resolve the named unions to integers (they are tested as signatures of particular interest)
    val = {n: 1 << b for n, b in elems}
    for n, parts in named:
        v = 0
        for p in parts:
            if p not in val:
                raise Refuse("enum mjtState: %s refers to unknown %s" % (n, p))
            v |= val[p]
        val[n] = v
    return rel, elems, nstate, [(n, val[n]) for n, _ in named]


# ------------------------------------------------------------------------------------------ switches
def parse_switch(body, what, ret_re):
    """body of a function consisting of a single `switch (sig) { case X: return E; ... default: mjERROR(...); return R; }`"""
    b = " ".join(strip_comments(body).split())
    m = re.fullmatch(r"switch \( ?sig ?\) ?\{ ?(.*) ?\}", b)
    if not m:
        raise Refuse("%s: body is not a single `switch (sig) {...}`" % what)
    inner = m.group(1).strip()
    md = re.search(r"default ?: ?(.*)$", inner)
    if not md:
        raise Refuse("%s: no default branch" % what)
    dflt = md.group(1).strip()
    if not re.fullmatch(r"mjERROR ?\( ?\"invalid state element %u\" ?, ?sig ?\) ?; ?return (0|NULL) ?;", dflt):
        raise Refuse("%s: default branch is not `mjERROR(\"invalid state element %%u\", sig); return 0/NULL;`: %r" % (what, dflt))
    cases = inner[:md.start()].strip()
    out = []
    pos = 0
    cre = re.compile(r"case (\w+) ?: ?return ([^;]+) ?; ?")
    while pos < len(cases):
        mc = cre.match(cases, pos)
        if not mc:
            raise Refuse("%s: statement not of the form `case NAME: return EXPR;` near %r" % (what, cases[pos:pos + 60]))
        expr = mc.group(2).strip()
        if not re.fullmatch(ret_re, expr):
            raise Refuse("%s: return expression of %s not understood: %r" % (what, mc.group(1), expr))
        out.append((mc.group(1), expr))
        pos = mc.end()
    if len({n for n, _ in out}) != len(out):
        raise Refuse("%s: duplicate case label" % what)
    return out


FACTOR = r"(?:\d+|m ?-> ?\w+)"
SIZE_RE = FACTOR + r"(?: ?\* ?" + FACTOR + r")*"
PTR_RE = r"&? ?d ?-> ?\w+"


def parse_size_expr(expr):
    fs = []
    for f in [x.strip() for x in expr.split("*")]:
        if re.fullmatch(r"\d+", f):
            fs.append(("const", int(f)))
        else:
            fs.append(("var", re.fullmatch(r"m ?-> ?(\w+)", f).group(1)))
    return fs


# ------------------------------------------------------------------------------------------ loop templates
GUARDS = ('if ( {S} < 0 ) {{ mjERROR ( "invalid {W} %d < 0" , {S} ) ; return{R} ; }} '
          'if ( {S} >= ( 1 << mjNSTATE ) ) {{ mjERROR ( "invalid {W} %d >= 2^mjNSTATE" , {S} ) ; return{R} ; }} ')
LOOP_HEAD = "for ( int i = 0 ; i < mjNSTATE ; i ++ ) { mjtState element = 1 << i ; if ( element & SIG ) { "

SPECIAL = (r"if \( element == (?P<el>mjSTATE_\w+) \) \{ int (?P<v>\w+) = m -> (?P<n>\w+) ; "
           r"for \( int j = 0 ; j < (?P=v) ; j \+\+ \) \{ STMT ; \} \} ")


def match_loops(src):
    """Check the five API functions against the templates modelled in Model/State.lean.
    Returns the list of specially handled elements [(element, bound size name, field)]."""
    def body(name, ret):
        return norm(function_body(src, r"\n%s\s+%s\s*\([^)]*\)\s*\{" % (ret, name), name))

    def expect(name, got, rx):
        m = re.fullmatch(rx, got)
        if not m:
            raise Refuse("%s: body does not match the modelled loop shape (see translate/c26_tables.py templates)" % name)
        return m

    esc = re.escape
    specials = {}

    # mj_stateSize
    g = GUARDS.format(S="sig", W="state signature", R=" 0")
    rx = (esc(g) + esc("int size = 0 ; ") + esc(LOOP_HEAD.replace("SIG", "sig")) +
          esc("size += mj_stateElemSize ( m , element ) ; } } return size ;"))
    expect("mj_stateSize", body("mj_stateSize", "int"), rx)

    # mj_getState / mj_setState / mj_copyState: optional chain of special cases, then the regular branch
    def with_special(name, pre, stmt_rx, regular, post):
        got = body(name, "void")
        sp = SPECIAL.replace("STMT", stmt_rx)
        rx = (esc(pre) + "(?P<sp>" + sp + esc("else { ") + esc(regular) + esc("} ") + "|" + esc(regular) + ")" + esc(post))
        m = expect(name, got, rx)
        if m.group("el"):
            specials[name] = (m.group("el"), m.group("n"), m.group("f"))
        else:
            specials[name] = None

    g = GUARDS.format(S="sig", W="state signature", R="")
    head = LOOP_HEAD.replace("SIG", "sig")
    with_special("mj_getState", g + "int adr = 0 ; " + head + "int size = mj_stateElemSize ( m , element ) ; ",
                 r"state \[ adr \+\+ \] = d -> (?P<f>\w+) \[ j \]",
                 "const mjtNum * ptr = mj_stateElemConstPtr ( m , d , element ) ; mju_copy ( state + adr , ptr , size ) ; adr += size ; ",
                 "} }")
    with_special("mj_setState", g + "int adr = 0 ; " + head + "int size = mj_stateElemSize ( m , element ) ; ",
                 r"d -> (?P<f>\w+) \[ j \] = state \[ adr \+\+ \]",
                 "mjtNum * ptr = mj_stateElemPtr ( m , d , element ) ; mju_copy ( ptr , state + adr , size ) ; adr += size ; ",
                 "} }")
    with_special("mj_copyState", g + head + "int size = mj_stateElemSize ( m , element ) ; ",
                 r"dst -> (?P<f>\w+) \[ j \] = src -> (?P=f) \[ j \]",
                 "mjtNum * dst_ptr = mj_stateElemPtr ( m , dst , element ) ; "
                 "const mjtNum * src_ptr = mj_stateElemConstPtr ( m , src , element ) ; mju_copy ( dst_ptr , src_ptr , size ) ; ",
                 "} }")
    vals = set(specials.values())
    if len(vals) != 1:
        raise Refuse("get/set/copy disagree on the specially handled element: %r" % specials)

    # mj_extractState
    g = GUARDS.format(S="srcsig", W="srcsig", R="")
    rx = (esc(g) + esc('if ( ( srcsig & dstsig ) != dstsig ) { mjERROR ( "dstsig is not a subset of srcsig" ) ; return ; } ') +
          esc(LOOP_HEAD.replace("SIG", "srcsig")) +
          esc("int size = mj_stateElemSize ( m , element ) ; if ( element & dstsig ) { mju_copy ( dst , src , size ) ; dst += size ; } src += size ; } }"))
    expect("mj_extractState", body("mj_extractState", "void"), rx)

    # mj_stateElemConstPtr forwards to mj_stateElemPtr
    cp = norm(function_body(src, r"static\s+inline\s+const\s+mjtNum\s*\*\s*mj_stateElemConstPtr\s*\([^)]*\)\s*\{", "mj_stateElemConstPtr"))
    if cp != "return mj_stateElemPtr ( m , ( mjData * ) d , sig ) ;":
        raise Refuse("mj_stateElemConstPtr does not simply forward to mj_stateElemPtr")
    v = vals.pop()
    return [v] if v else []



# ------------------------------------------------------------------------------------------ keyframes
KSIZE = r"(?:\d+|m -> \w+)(?: \* (?:\d+|m -> \w+))*"


def parse_ksize(expr):
    fs = []
    for f in [x.strip() for x in expr.split("*")]:
        if re.fullmatch(r"\d+", f):
            fs.append(("const", int(f)))
        else:
            fs.append(("var", re.fullmatch(r"m -> (\w+)", f).group(1)))
    return fs


def parse_key_rows(what, text, idx, load):
    """text: normalised statement list consisting only of keyframe copies.
    load:  d -> F = m -> K [ idx ] ;            | mju_copy ( d -> F , m -> K + idx * STRIDE , SIZE ) ;
    store: m -> K [ idx ] = d -> F ;            | mju_copy ( m -> K + idx * STRIDE , d -> F , SIZE ) ;"""
    if load:
        r_sc = re.compile(r"d -> (?P<f>\w+) = m -> (?P<k>\w+) \[ %s \] ; ?" % idx)
        r_cp = re.compile(r"mju_copy \( d -> (?P<f>\w+) , m -> (?P<k>\w+) \+ %s \* (?P<st>%s) , (?P<n>%s) \) ; ?" % (idx, KSIZE, KSIZE))
    else:
        r_sc = re.compile(r"m -> (?P<k>\w+) \[ %s \] = d -> (?P<f>\w+) ; ?" % idx)
        r_cp = re.compile(r"mju_copy \( m -> (?P<k>\w+) \+ %s \* (?P<st>%s) , d -> (?P<f>\w+) , (?P<n>%s) \) ; ?" % (idx, KSIZE, KSIZE))
    rows, pos = [], 0
    text = text.strip()
    while pos < len(text):
        m = r_sc.match(text, pos)
        if m:
            rows.append({"field": m.group("f"), "key": m.group("k"), "stride": [("const", 1)], "size": [("const", 1)], "scalar": True})
        else:
            m = r_cp.match(text, pos)
            if not m:
                raise Refuse("%s: statement is not a plain keyframe copy (only `d->F = m->K[i];` and "
                             "`mju_copy(d->F, m->K + i*N, N);` are modelled) near %r" % (what, text[pos:pos + 90]))
            rows.append({"field": m.group("f"), "key": m.group("k"), "stride": parse_ksize(m.group("st")),
                         "size": parse_ksize(m.group("n")), "scalar": False})
        pos = m.end()
    if not rows:
        raise Refuse("%s: no keyframe copies found" % what)
    return rows


def parse_keyframes():
    io = read("src/engine/engine_io.c")
    sup = read("src/engine/engine_support.c")
    # mj_resetData: timing diagnostics, then the shared _resetData (so `reset` is the `base` of the keyframe model)
    b = norm(function_body(io, r"\nvoid\s+mj_resetData\s*\([^)]*\)\s*\{", "mj_resetData"))
    if b != "mj_logTimingDiagnostics ( d ) ; _resetData ( m , d , 0 ) ;":
        raise Refuse("mj_resetData: body is not `mj_logTimingDiagnostics(d); _resetData(m, d, 0);`")
    b = norm(function_body(io, r"\nvoid\s+mj_resetDataKeyframe\s*\(\s*const\s+mjModel\s*\*\s*m\s*,\s*mjData\s*\*\s*d\s*,\s*int\s+key\s*\)\s*\{",
                           "mj_resetDataKeyframe"))
    m = re.fullmatch(r"_resetData \( m , d , 0 \) ; if \( key >= 0 && key < m -> (?P<nk>\w+) \) \{ (?P<rows>[^{}]*)\}", b)
    if not m:
        raise Refuse("mj_resetDataKeyframe: body is not `_resetData(m, d, 0); if (key >= 0 && key < m->nkey) { copies }` "
                     "(anything else - e.g. post-processing of the loaded values - is outside the modelled shape)")
    nkey = m.group("nk")
    load = parse_key_rows("mj_resetDataKeyframe", m.group("rows"), "key", True)
    b = norm(function_body(sup, r"\nvoid\s+mj_setKeyframe\s*\(\s*mjModel\s*\*\s*m\s*,\s*const\s+mjData\s*\*\s*d\s*,\s*int\s+k\s*\)\s*\{",
                           "mj_setKeyframe"))
    err = r"mjERROR \( (?:\"(?:[^\"\\]|\\.)*\"|PRId64| |, m -> \w+)* \) ; "
    m = re.fullmatch(r"if \( k >= m -> (?P<nk>\w+) \) \{ " + err + r"\} if \( k < 0 \) \{ " + err + r"\} (?P<rows>[^{}]*)", b)
    if not m:
        raise Refuse("mj_setKeyframe: body is not `if (k >= m->nkey) {mjERROR} if (k < 0) {mjERROR} copies`")
    if m.group("nk") != nkey:
        raise Refuse("mj_setKeyframe and mj_resetDataKeyframe guard with different sizes (%s vs %s)" % (m.group("nk"), nkey))
    store = parse_key_rows("mj_setKeyframe", m.group("rows"), "k", False)
    # allocated shape of the key_* arrays
    xm = strip_comments(read("include/mujoco/mjxmacro.h"))
    karr = {}
    for r in load + store:
        k = r["key"]
        if k in karr:
            continue
        hits = re.findall(r"\bX\w*\s*\(\s*([\w ]+?)\s*,\s*%s\s*,\s*(\w+)\s*,\s*([^,()]*(?:\([^()]*\)[^,()]*)*?)\s*\)" % re.escape(k), xm)
        if len(hits) != 1:
            raise Refuse("mjxmacro.h: expected exactly one X(...) row for model array %s, found %d" % (k, len(hits)))
        typ, nr, nc = hits[0]
        if typ.strip() != "mjtNum":
            raise Refuse("model array %s has storage type %s (only mjtNum is modelled)" % (k, typ))
        fs = [("var", nr)]
        for f in [x.strip() for x in nc.split("*")]:
            mm = re.fullmatch(r"MJ_M\s*\(\s*(\w+)\s*\)", f)
            if re.fullmatch(r"\d+", f):
                fs.append(("const", int(f)))
            elif mm:
                fs.append(("var", mm.group(1)))
            else:
                raise Refuse("mjxmacro.h: column count of %s not understood: %r" % (k, nc))
        karr[k] = fs
    return nkey, load, store, karr

# ------------------------------------------------------------------------------------------ xmacros
def parse_xmacro(src, name):
    m = re.search(r"#define\s+%s\b[^\n]*\\\n((?:[^\n]*\\\n)*[^\n]*\n)" % name, src)
    if not m:
        raise Refuse("mjxmacro.h: macro %s not found" % name)
    return strip_comments(m.group(1).replace("\\\n", "\n"))


def parse_data_pointers():
    src = read("include/mujoco/mjxmacro.h")
    body = parse_xmacro(src, "MJDATA_POINTERS")
    fields = {}
    for line in body.split("\n"):
        line = line.strip()
        if not line:
            continue
        m = re.fullmatch(r"(X|XNV)\s*\(\s*([\w ]+?)\s*,\s*(\w+)\s*,\s*(\w+)\s*,\s*(\w+)\s*\)", line)
        if not m:
            raise Refuse("MJDATA_POINTERS: entry not understood: %r" % line)
        _, typ, nm, nr, nc = m.groups()
        if nm in fields:
            raise Refuse("MJDATA_POINTERS: duplicate field %s" % nm)
        fields[nm] = (typ, nr, nc)
    sizes = set(re.findall(r"X\s*\(\s*(\w+)\s*\)", parse_xmacro(src, "MJMODEL_SIZES")))
    if not sizes:
        raise Refuse("MJMODEL_SIZES: empty")
    return fields, sizes


def scalar_members():
    src = strip_comments(read("include/mujoco/mjdata.h"))
    m = re.search(r"struct\s+mjData_\s*\{(.*?)\n\}\s*;", src, re.S)
    if not m:
        m = re.search(r"typedef\s+struct\s+mjData_\s*\{(.*?)\n\}\s*mjData\s*;", src, re.S)
    if not m:
        raise Refuse("mjdata.h: struct mjData_ not found")
    out = {}
    for d in m.group(1).split(";"):
        md = re.fullmatch(r"\s*([\w ]+?)\s+(\w+)\s*", d, re.S)
        if md:
            out[md.group(2)] = " ".join(md.group(1).split())
    return out


# ------------------------------------------------------------------------------------------ main
def lean_expr(fs):
    return "[" + ", ".join(".const %d" % v if k == "const" else ".var .%s" % v for k, v in fs) + "]"


def translate():
    enum_file, elems, nstate, named = parse_enum()
    src = read("src/engine/engine_support.c")
    size_cases = parse_switch(function_body(src, r"static\s+inline\s+int\s+mj_stateElemSize\s*\([^)]*\)\s*\{", "mj_stateElemSize"),
                              "mj_stateElemSize", SIZE_RE)
    ptr_cases = parse_switch(function_body(src, r"static\s+inline\s+mjtNum\s*\*\s*mj_stateElemPtr\s*\([^)]*\)\s*\{", "mj_stateElemPtr"),
                             "mj_stateElemPtr", PTR_RE)
    specials = match_loops(src)
    fields, model_sizes = parse_data_pointers()
    scalars = scalar_members()

    bit_of = dict(elems)
    for n, _ in size_cases + ptr_cases:
        if n not in bit_of:
            raise Refuse("switch case label %s is not a single-bit element of mjtState" % n)
    size_of = {n: parse_size_expr(e) for n, e in size_cases}
    ptr_of = {}
    for n, e in ptr_cases:
        m = re.fullmatch(r"(&?) ?d ?-> ?(\w+)", e)
        ptr_of[n] = (m.group(2), bool(m.group(1)))
    special_of = {}
    for el, bound, fld in specials:
        if el not in bit_of:
            raise Refuse("specially handled element %s is not in mjtState" % el)
        if el in ptr_of:
            raise Refuse("element %s is both special-cased and in the ptr switch (unreachable case)" % el)
        special_of[el] = (bound, fld)

    # table rows: one per case label of the size switch, in switch order
    rows, used_fields, used_sizes = [], [], []
    alloc = {}
    ftype = {}

    def use_size(v):
        if v not in model_sizes:
            raise Refuse("size name m->%s is not in MJMODEL_SIZES" % v)
        if v not in used_sizes:
            used_sizes.append(v)

    for n, _ in size_cases:
        fs = size_of[n]
        for k, v in fs:
            if k == "var":
                use_size(v)
        if n in special_of:
            bound, fld = special_of[n]
            use_size(bound)
            spec = [("var", bound)]
            scalar = False
        elif n in ptr_of:
            fld, scalar = ptr_of[n]
            spec = None
        else:
            raise Refuse("element %s has a size case but neither a ptr case nor special handling" % n)
        if scalar:
            if fld not in scalars:
                raise Refuse("&d->%s: not a scalar member of struct mjData_" % fld)
            if fld in fields:
                raise Refuse("&d->%s: field is an array in MJDATA_POINTERS" % fld)
            typ, dim = scalars[fld], [("const", 1)]
        else:
            if fld not in fields:
                raise Refuse("d->%s: not in MJDATA_POINTERS" % fld)
            typ, nr, nc = fields[fld]
            use_size(nr)
            if not re.fullmatch(r"\d+", nc):
                raise Refuse("MJDATA_POINTERS %s: column count %r is not an integer literal" % (fld, nc))
            dim = [("var", nr), ("const", int(nc))]
        if typ not in ("mjtNum", "mjtBool"):
            raise Refuse("field %s has storage type %s (only mjtNum / mjtBool are modelled)" % (fld, typ))
        if fld in alloc and (alloc[fld] != dim or ftype[fld] != typ):
            raise Refuse("inconsistent dimension for field %s" % fld)
        alloc[fld], ftype[fld] = dim, typ
        if fld not in used_fields:
            used_fields.append(fld)
        rows.append({"name": n, "bit": bit_of[n], "size": fs, "field": fld, "special": spec, "scalar": scalar})
    n_state_fields = len(used_fields)
    # keyframe copies (mj_resetDataKeyframe / mj_setKeyframe)
    nkey, kload, kstore, karr = parse_keyframes()
    use_size(nkey)
    key_arrays = []
    for r in kload + kstore:
        for k, v in r["stride"] + r["size"]:
            if k == "var":
                use_size(v)
        fld = r["field"]
        if r["scalar"]:
            if fld not in scalars or fld in fields:
                raise Refuse("keyframe copy: d->%s is not a scalar member of struct mjData_" % fld)
            typ, dim = scalars[fld], [("const", 1)]
        else:
            if fld not in fields:
                raise Refuse("keyframe copy: d->%s is not in MJDATA_POINTERS" % fld)
            typ, nr, nc = fields[fld]
            use_size(nr)
            if not re.fullmatch(r"\d+", nc):
                raise Refuse("MJDATA_POINTERS %s: column count %r is not an integer literal" % (fld, nc))
            dim = [("var", nr), ("const", int(nc))]
        if typ != "mjtNum":
            raise Refuse("keyframe copy: field %s has storage type %s (mju_copy moves mjtNum)" % (fld, typ))
        if fld in alloc and (alloc[fld] != dim or ftype[fld] != typ):
            raise Refuse("inconsistent dimension for field %s" % fld)
        alloc[fld], ftype[fld] = dim, typ
        if fld not in used_fields:
            used_fields.append(fld)
        if r["key"] not in key_arrays:
            key_arrays.append(r["key"])
    for k in key_arrays:
        for kk, v in karr[k]:
            if kk == "var":
                use_size(v)
    for n in ptr_of:
        if n not in size_of:
            raise Refuse("element %s has a ptr case but no size case" % n)
    for n in special_of:
        if n not in size_of:
            raise Refuse("specially handled element %s has no size case" % n)

    L = []
    L.append("-- GENERATED by translate/c26_tables.py from %s, src/engine/engine_support.c, src/engine/engine_io.c," % enum_file)
    L.append("-- include/mujoco/mjxmacro.h and include/mujoco/mjdata.h.  Do not edit; regenerated on every run.")
    L.append("import MjProof.Model.State")
    L.append("namespace MjProof.Gen")
    L.append("open MjProof.State")
    L.append("")
    L.append("/-- model sizes (`m->name`) that occur in the state table -/")
    L.append("inductive StateSize where")
    for v in used_sizes:
        L.append("  | %s" % v)
    L.append("  deriving DecidableEq, Repr")
    L.append("")
    L.append("def StateSize.all : List StateSize := [%s]" % ", ".join("." + v for v in used_sizes))
    L.append("def StateSize.name : StateSize → String")
    for v in used_sizes:
        L.append('  | .%s => "%s"' % (v, v))
    L.append("")
    L.append("/-- `mjData` fields that the state table points at (then those only the keyframe copies touch) -/")
    L.append("inductive StateField where")
    for f in used_fields:
        L.append("  | %s" % f)
    L.append("  deriving DecidableEq, Repr")
    L.append("")
    L.append("def StateField.all : List StateField := [%s]" % ", ".join("." + f for f in used_fields))
    L.append("def StateField.name : StateField → String")
    for f in used_fields:
        L.append('  | .%s => "%s"' % (f, f))
    L.append("")
    L.append("/-- the table: `mjNSTATE`, one element per `case` of `mj_stateElemSize` (size = the returned")
    L.append("    expression, field = what `mj_stateElemPtr` returns / the special loop indexes), and the")
    L.append("    allocated dimension `nr*nc` of every field from `MJDATA_POINTERS` (scalars: 1) -/")
    L.append("def stateSym : SymTable StateSize StateField where")
    L.append("  nstate := %d" % nstate)
    L.append("  elems := [")
    for i, r in enumerate(rows):
        sp = "none" if r["special"] is None else "some %s" % lean_expr(r["special"])
        L.append('    { name := "%s", bit := %d, size := %s, field := .%s, special := %s }%s'
                 % (r["name"], r["bit"], lean_expr(r["size"]), r["field"], sp, "," if i + 1 < len(rows) else ""))
    L.append("  ]")
    L.append("  alloc := fun")
    for f in used_fields:
        L.append("    | .%s => %s" % (f, lean_expr(alloc[f])))
    L.append("  isBool := fun")
    for f in used_fields:
        L.append("    | .%s => %s" % (f, "true" if ftype[f] == "mjtBool" else "false"))
    L.append("")
    L.append("def stateTable : Table (StateSize → Nat) StateField := stateSym.toTable")
    L.append("")
    L.append("/-- model `key_*` arrays that the keyframe copies read / write -/")
    L.append("inductive KeyArray where")
    for k in key_arrays:
        L.append("  | %s" % k)
    L.append("  deriving DecidableEq, Repr")
    L.append("")
    L.append("def KeyArray.all : List KeyArray := [%s]" % ", ".join("." + k for k in key_arrays))
    L.append("def KeyArray.name : KeyArray → String")
    for k in key_arrays:
        L.append('  | .%s => "%s"' % (k, k))
    L.append("")

    def krow(r):
        return "{ field := .%s, key := .%s, stride := %s, size := %s }" % (r["field"], r["key"], lean_expr(r["stride"]), lean_expr(r["size"]))
    L.append("/-- keyframes: `load` = the copies inside `if (key >= 0 && key < m->%s)` of `mj_resetDataKeyframe`" % nkey)
    L.append("    (which follow `_resetData(m, d, 0)`; nothing else is in the body), `store` = the copies of")
    L.append("    `mj_setKeyframe` after its two guards, both in source order; `kalloc` = `nr*nc` of the")
    L.append("    `key_*` arrays in `MJMODEL_POINTERS` -/")
    L.append("def keySym : SymKeyTable StateSize StateField KeyArray where")
    L.append("  nkey := .%s" % nkey)
    L.append("  load := [")
    L.append(",\n".join("    " + krow(r) for r in kload))
    L.append("  ]")
    L.append("  store := [")
    L.append(",\n".join("    " + krow(r) for r in kstore))
    L.append("  ]")
    L.append("  alloc := stateSym.alloc")
    L.append("  kalloc := fun")
    for k in key_arrays:
        L.append("    | .%s => %s" % (k, lean_expr(karr[k])))
    L.append("")
    L.append("def keyTable : KeyTable (StateSize → Nat) StateField KeyArray := keySym.toTable")
    L.append("")
    L.append("/-- every enumerator of `mjtState` that is a single bit, in declaration order -/")
    L.append("def stateEnum : List (String × Nat) := [%s]" % ", ".join('("%s", %d)' % (n, b) for n, b in elems))
    L.append("")
    L.append("/-- the named unions of `mjtState` (signatures of particular interest) -/")
    L.append("def stateNamedSigs : List (String × Nat) := [%s]" % ", ".join('("%s", %d)' % (n, v) for n, v in named))
    L.append("")
    import hashlib
    tid = hashlib.sha256("\n".join(L).encode()).hexdigest()[:24]
    L.append("/-- fingerprint of this generated table (printed by the driver so that the check can tell")
    L.append("    which table a compiled driver contains) -/")
    L.append('def stateTableId : String := "%s"' % tid)
    L.append("")
    L.append("end MjProof.Gen")
    lean = "\n".join(L) + "\n"
    info = {
        "table_id": tid,
        "repo": REPO, "enum_file": enum_file, "nstate": nstate,
        "enum": [{"name": n, "bit": b} for n, b in elems],
        "elems": rows, "sizes": used_sizes, "fields": used_fields,
        "alloc": alloc, "ftype": ftype, "named": [{"name": n, "value": v} for n, v in named],
        "state_fields": used_fields[:n_state_fields],
        "key": {"nkey": nkey, "load": kload, "store": kstore, "arrays": key_arrays, "kalloc": karr},
    }
    return lean, info


def main():
    out = os.path.join(VERIF, "lean", "MjProof", "Gen")
    args = sys.argv[1:]
    if "--out" in args:
        out = args[args.index("--out") + 1]
    try:
        lean, info = translate()
    except Refuse as e:
        print("c26_tables: REFUSED: %s" % e, file=sys.stderr)
        sys.exit(3)
    if "--stdout" in args:
        sys.stdout.write(lean)
        return
    os.makedirs(out, exist_ok=True)
    for name, text in (("StateTable.lean", lean), ("StateTable.json", json.dumps(info, indent=1) + "\n")):
        p = os.path.join(out, name)
        # write only on change so that lake does not rebuild needlessly
        if not os.path.exists(p) or open(p).read() != text:
            tmp = p + ".%d.tmp" % os.getpid()
            with open(tmp, "w") as f:
                f.write(text)
            os.replace(tmp, p)
    print("c26_tables: %d elements, %d fields, mjNSTATE=%d, %d+%d keyframe copies -> %s"
          % (len(info["elems"]), len(info["fields"]), info["nstate"], len(info["key"]["load"]), len(info["key"]["store"]),
             os.path.join(out, "StateTable.lean")))


if __name__ == "__main__":
    main()
