#!/usr/bin/env python3
"""C03 translator: memory-order table of src/engine/engine_thread.cc.

Extracts, from the source text of the tree (on every run):
  * the std::atomic data members of class ThreadPoolContext, in declaration order, with their initial values;
  * every operation on such a member (load, store, fetch_add, …, wait, notify_all), in textual order, with the
    member function it occurs in and the std::memory_order argument written at the call (a call that omits the
    argument is seq_cst by the language rules);
  * refusals: any use of an atomic member that is not `member.op(...)` (implicit conversions / assignments /
    ++ are sequentially consistent operations the model has no transition for), any memory-order argument that
    is not a literal `std::memory_order_*`, any atomic declared outside the class.

`compare(extracted, model_sites)` checks the result against the table the Lean model states
(`MjProof.ThreadPool.sites`, printed by the driver's `orders` op): same sites in the same order, and at every
site an order at least as strong as the role the sequentially consistent abstraction needs
(publish -> release, consume -> acquire).

CLI:  c03_orders.py [path/to/engine_thread.cc]   -> JSON on stdout
"""
import json
import os
import re
import sys

OPS_WITH_ORDER = ("load", "store", "fetch_add", "fetch_sub", "fetch_and", "fetch_or", "fetch_xor", "exchange",
                  "compare_exchange_strong", "compare_exchange_weak", "wait")
OPS_NO_ORDER = ("notify_all", "notify_one")
RELEASE_OK = {"release", "acq_rel", "seq_cst"}
ACQUIRE_OK = {"acquire", "acq_rel", "seq_cst"}


def strip_comments(src):
    """Remove // and /* */ comments and string/char literals, keeping line structure."""
    out, i, n = [], 0, len(src)
    while i < n:
        c = src[i]
        if src.startswith("//", i):
            while i < n and src[i] != "\n":
                i += 1
        elif src.startswith("/*", i):
            j = src.find("*/", i + 2)
            j = n if j < 0 else j + 2
            out.append("".join(ch if ch == "\n" else " " for ch in src[i:j]))
            i = j
        elif c in "\"'":
            q = c
            out.append(" ")
            i += 1
            while i < n and src[i] != q:
                i += 2 if src[i] == "\\" else 1
            i += 1
            out.append(" ")
        else:
            out.append(c)
            i += 1
    return "".join(out)


def match_paren(s, i):
    """s[i] == '(' -> index of the matching ')'."""
    depth = 0
    for j in range(i, len(s)):
        if s[j] == "(":
            depth += 1
        elif s[j] == ")":
            depth -= 1
            if depth == 0:
                return j
    return -1


def split_args(s):
    args, depth, cur = [], 0, []
    for ch in s:
        if ch in "([{<" and not (ch == "<"):
            depth += 1
        elif ch in ")]}":
            depth -= 1
        if ch == "," and depth == 0:
            args.append("".join(cur).strip())
            cur = []
        else:
            cur.append(ch)
    t = "".join(cur).strip()
    if t or args:
        args.append(t)
    return args


def function_spans(s):
    """[(name, body_start, body_end)] for every function body in s (class members and free functions)."""
    spans = []
    # a function body: ')' [const] [noexcept] [: initialisers] '{'
    for m in re.finditer(r"\)\s*(?:const\s*)?(?:noexcept\s*)?(?::[^{};]*)?\{", s):
        close = s.rfind(")", m.start(), m.start() + 1)
        # find the '(' matching this ')', scanning backwards
        depth, j = 0, m.start()
        while j >= 0:
            if s[j] == ")":
                depth += 1
            elif s[j] == "(":
                depth -= 1
                if depth == 0:
                    break
            j -= 1
        if j < 0:
            continue
        head = s[:j].rstrip()
        mm = re.search(r"(~?\w+)$", head)
        if not mm or mm.group(1) in ("if", "while", "for", "switch", "catch", "return", "sizeof"):
            continue
        # initialiser list `: threads_(nthread) {` : the '(' found belongs to the initialiser; walk further back
        name = mm.group(1)
        pre = head[:mm.start()].rstrip()
        if pre.endswith(":") or pre.endswith(","):
            k = head.rfind(")", 0, mm.start())
            if k >= 0:
                depth, j2 = 0, k
                while j2 >= 0:
                    if head[j2] == ")":
                        depth += 1
                    elif head[j2] == "(":
                        depth -= 1
                        if depth == 0:
                            break
                    j2 -= 1
                mm2 = re.search(r"(~?\w+)$", head[:j2].rstrip())
                if mm2:
                    name = mm2.group(1)
        b0 = m.end() - 1
        depth = 0
        b1 = -1
        for k in range(b0, len(s)):
            if s[k] == "{":
                depth += 1
            elif s[k] == "}":
                depth -= 1
                if depth == 0:
                    b1 = k
                    break
        if b1 > 0:
            spans.append((name, b0, b1))
    return spans


def extract(path):
    raw = open(path).read()
    s = strip_comments(raw)
    refusals = []
    line_of = lambda pos: s.count("\n", 0, pos) + 1

    # ---- the class and its atomic members
    mc = re.search(r"\bclass\s+ThreadPoolContext\b[^{;]*\{", s)
    members = []
    cls_span = (0, 0)
    if not mc:
        refusals.append("class ThreadPoolContext not found")
    else:
        depth, end = 0, -1
        for k in range(mc.end() - 1, len(s)):
            if s[k] == "{":
                depth += 1
            elif s[k] == "}":
                depth -= 1
                if depth == 0:
                    end = k
                    break
        cls_span = (mc.end(), end)
    for m in re.finditer(r"(?:alignas\s*\(\s*\d+\s*\)\s*)?std\s*::\s*atomic\s*<\s*([\w:\s]+?)\s*>\s*(\w+)\s*(?:\{([^}]*)\}|=\s*([^;]+))?\s*;", s):
        inside = cls_span[0] <= m.start() < cls_span[1]
        init = (m.group(3) if m.group(3) is not None else m.group(4) or "").strip()
        if not inside:
            refusals.append("std::atomic declared outside ThreadPoolContext at line %d" % line_of(m.start()))
        members.append({"name": m.group(2), "type": m.group(1).strip(), "init": init, "line": line_of(m.start())})
    # any other mention of std::atomic (atomic_ref, arrays, pointers …) is outside what the model covers
    n_atomic_tokens = len(re.findall(r"\batomic\w*\b", re.sub(r"#\s*include\s*<atomic>", "", s)))
    if n_atomic_tokens != len(members):
        refusals.append("%d mentions of atomic types but %d recognised member declarations" % (n_atomic_tokens, len(members)))
    if re.search(r"\b(mutex|condition_variable|atomic_thread_fence|atomic_flag|volatile|memory_order_consume)\b", s):
        refusals.append("synchronisation primitive outside the modelled set (mutex/condvar/fence/volatile/consume)")

    names = [m["name"] for m in members]
    spans = function_spans(s)

    def fn_of(pos):
        best = None
        for name, b0, b1 in spans:
            if b0 <= pos <= b1 and (best is None or b0 > best[1]):
                best = (name, b0)
        return best[0] if best else "<file scope>"

    # ---- every use of an atomic member
    sites, notifies = [], []
    if names:
        for m in re.finditer(r"\b(%s)\b" % "|".join(map(re.escape, names)), s):
            pos = m.start()
            # the declaration itself
            if any(abs(line_of(pos) - mem["line"]) == 0 and mem["name"] == m.group(1) and
                   re.search(r"atomic\s*<[^>]*>\s*$", s[:pos]) for mem in members):
                continue
            mo = re.match(r"\s*\.\s*(\w+)\s*\(", s[m.end():])
            if not mo:
                refusals.append("implicit atomic operation on %s at line %d: %r" %
                                (m.group(1), line_of(pos), s[max(0, pos - 20):pos + 30].replace("\n", " ")))
                continue
            op = mo.group(1)
            p0 = m.end() + mo.end() - 1
            p1 = match_paren(s, p0)
            args = split_args(s[p0 + 1:p1]) if p1 > 0 else []
            fn = fn_of(pos)
            if op in OPS_NO_ORDER:
                notifies.append({"fn": fn, "obj": m.group(1), "op": op, "line": line_of(pos)})
                continue
            if op not in OPS_WITH_ORDER:
                refusals.append("unknown atomic operation %s.%s at line %d" % (m.group(1), op, line_of(pos)))
                continue
            # the order is a positional argument: load(o); store/fetch_*/exchange/wait(x, o); compare_exchange(e, d, o[, o2])
            idx = 0 if op == "load" else 2 if op.startswith("compare_exchange") else 1
            orders = args[idx:]
            order = "seq_cst"
            if orders:
                mo2 = re.fullmatch(r"std\s*::\s*memory_order_(\w+)", orders[0])
                mo3 = re.fullmatch(r"std\s*::\s*memory_order\s*::\s*(\w+)", orders[0])
                if mo2:
                    order = mo2.group(1)
                elif mo3:
                    order = mo3.group(1)
                else:
                    refusals.append("memory order of %s.%s at line %d is not a literal: %r" %
                                    (m.group(1), op, line_of(pos), orders[0]))
                    order = "?"
                if len(orders) > 1 and not op.startswith("compare_exchange"):
                    refusals.append("unexpected extra arguments at %s.%s line %d" % (m.group(1), op, line_of(pos)))
            if len(args) < idx:
                refusals.append("too few arguments at %s.%s line %d" % (m.group(1), op, line_of(pos)))
            sites.append({"fn": fn, "obj": m.group(1), "op": op, "order": order, "line": line_of(pos)})
    return {"file": path, "members": members, "sites": sites, "notify": notifies, "refusals": refusals}


def parse_model_sites(text):
    """Driver output of `orders`: fn,obj,op,order,role;… """
    out = []
    for item in text.strip().split(";"):
        if not item:
            continue
        fn, obj, op, order, role = item.split(",")
        out.append({"fn": fn, "obj": obj, "op": op, "order": order, "role": role})
    return out


EXPECTED_MEMBERS = [("next_", "int", "0"), ("ndone_", "int", "0"), ("signal_", "int", "1")]


def compare(ex, model):
    """-> (ok, problems, notes)"""
    problems, notes = [], []
    problems += ["refusal: " + r for r in ex["refusals"]]
    got_m = [(m["name"], m["type"], m["init"]) for m in ex["members"]]
    if got_m != EXPECTED_MEMBERS:
        problems.append("atomic members %r differ from the modelled %r (declaration order names the atomics in the replay)"
                        % (got_m, EXPECTED_MEMBERS))
    a = [(x["fn"], x["obj"], x["op"]) for x in ex["sites"]]
    b = [(x["fn"], x["obj"], x["op"]) for x in model]
    if a != b:
        problems.append("atomic operation sites changed: source has %r, model has %r" % (a, b))
    else:
        for x, y in zip(ex["sites"], model):
            need = y["role"]
            where = "%s: %s.%s (line %d)" % (x["fn"], x["obj"], x["op"], x["line"])
            if need == "publish" and x["order"] not in RELEASE_OK:
                problems.append("%s is memory_order_%s but publishes plain writes: needs release" % (where, x["order"]))
            elif need == "consume" and x["order"] not in ACQUIRE_OK:
                problems.append("%s is memory_order_%s but its result licenses plain reads: needs acquire" % (where, x["order"]))
            elif x["order"] != y["order"]:
                notes.append("%s is memory_order_%s (table: %s) - at least as strong as needed" % (where, x["order"], y["order"]))
    # every store of signal_ must be followed by a notify_all of signal_ in the same function (the model's
    # dSigStore->dNotify and delStore->delNotify transitions)
    for fn in sorted({x["fn"] for x in ex["sites"] if x["obj"] == "signal_" and x["op"] == "store"}):
        st = [x["line"] for x in ex["sites"] if x["fn"] == fn and x["obj"] == "signal_" and x["op"] == "store"]
        nt = [x["line"] for x in ex["notify"] if x["fn"] == fn and x["obj"] == "signal_" and x["op"] == "notify_all"]
        if len(st) != len(nt) or any(n < s0 for s0, n in zip(st, nt)):
            problems.append("%s: signal_.store without a following signal_.notify_all" % fn)
    return (not problems), problems, notes


if __name__ == "__main__":
    repo = os.environ.get("VERIF_REPO", "/repo")
    path = sys.argv[1] if len(sys.argv) > 1 else os.path.join(repo, "src", "engine", "engine_thread.cc")
    json.dump(extract(path), sys.stdout, indent=1)
    print()
