#!/usr/bin/env python3
"""C43 translator: the feature gate of MJX-JAX (which model features make put_model / make_data raise
NotImplementedError), extracted with Python's `ast` from the tree, into lean/MjProof/Gen/MjxGate.lean (+ .json).

Reads (repository root = $VERIF_REPO, default /repo); nothing is imported or executed:
  mjx/mujoco/mjx/_src/types.py             members of the IntEnum/IntFlag classes (NAME = mujoco.mjtX.mjPFX_NAME)
  mjx/mujoco/mjx/_src/io.py                every `raise NotImplementedError` of _put_option, _put_model_jax and
                                           _make_data_jax, each recognised as one of the understood shapes
  mjx/mujoco/mjx/_src/collision_driver.py  keys of _COLLISION_FUNC (has_collision_fn must be `(t1, t2) in _COLLISION_FUNC`)
  include/mujoco/*.h                       all enumerators of the enums involved (gen/enums.py parser)
  src/engine/engine_collision_driver.c     non-null entries of mjCOLLISIONFUNC (what the C engine collides)

A raise site of an unknown shape is refused (exit 3), so a check that is added, dropped or rewritten changes the
generated table or stops the translation; the table is compared with the documentation-derived specification
lean/MjProof/Spec/MjxGate.lean by the theorem `MjProof.C43.gate_matches_spec`.

usage: c43_gate.py [--out DIR] [--stdout]
"""
import ast
import hashlib
import json
import os
import re
import sys

HERE = os.path.dirname(os.path.abspath(__file__))
VERIF = os.path.dirname(HERE)
REPO = os.environ.get("VERIF_REPO", "/repo")
SRC = "mjx/mujoco/mjx/_src/"


class Refuse(Exception):
    pass


def read(rel):
    p = os.path.join(REPO, rel)
    if not os.path.exists(p):
        raise Refuse("missing source file %s" % p)
    with open(p, encoding="utf-8") as f:
        return f.read()


def chain(node):
    out = []
    while isinstance(node, ast.Attribute):
        out.append(node.attr)
        node = node.value
    if isinstance(node, ast.Name):
        out.append(node.id)
        return out[::-1]
    return None


def func(tree, name):
    hits = [n for n in tree.body if isinstance(n, ast.FunctionDef) and n.name == name]
    if len(hits) != 1:
        raise Refuse("expected exactly one top-level def %s, found %d" % (name, len(hits)))
    return hits[0]


def U(n):
    return ast.unparse(n)


# ------------------------------------------------------------------------------------------ types.py
def parse_types():
    tree = ast.parse(read(SRC + "types.py"))
    out = {}
    for c in tree.body:
        if not isinstance(c, ast.ClassDef):
            continue
        bases = [U(b) for b in c.bases]
        if not any(b in ("enum.IntEnum", "enum.IntFlag") for b in bases):
            continue
        members = []
        for s in c.body:
            if isinstance(s, ast.Assign) and len(s.targets) == 1 and isinstance(s.targets[0], ast.Name):
                ch = chain(s.value)
                if not ch or len(ch) != 3 or ch[0] != "mujoco" or not ch[1].startswith("mjt"):
                    raise Refuse("types.%s.%s is not bound to a mujoco.mjtX.NAME enumerator: %s" % (c.name, s.targets[0].id, U(s.value)))
                members.append((s.targets[0].id, ch[1], ch[2]))
        if members:
            if len({m[1] for m in members}) != 1:
                raise Refuse("types.%s mixes several mujoco enums" % c.name)
            out[c.name] = members
    return out


# ------------------------------------------------------------------------------------------ headers
def header_enums():
    """enum name -> [enumerators in order] from the tree's headers"""
    out = {}
    for h in ("mjmodel.h", "mjdata.h", "mjtype.h", "mjspec.h"):
        p = os.path.join(REPO, "include", "mujoco", h)
        if not os.path.exists(p):
            continue
        src = re.sub(r"//[^\n]*", "", open(p).read())
        for m in re.finditer(r"typedef\s+enum\s+\w*\s*\{(.*?)\}\s*(\w+)\s*;", src, re.S):
            names = []
            for item in m.group(1).split(","):
                item = item.strip()
                if item:
                    names.append(item.split("=")[0].strip())
            out[m.group(2)] = names
    return out


def c_collision_pairs():
    src = read("src/engine/engine_collision_driver.c")
    m = re.search(r"mjCOLLISIONFUNC\s*\[mjNGEOMTYPES\]\s*\[mjNGEOMTYPES\]\s*=\s*\{(.*?)\n\};", src, re.S)
    if not m:
        raise Refuse("engine_collision_driver.c: mjCOLLISIONFUNC initializer not found")
    body = m.group(1)
    hdr = re.search(r"/\*\s*((?:[A-Z]+\s+)+[A-Z]+)\s*\*/", body)
    if not hdr:
        raise Refuse("mjCOLLISIONFUNC: column header comment not found")
    cols = hdr.group(1).split()
    rows = re.findall(r"/\*\s*([A-Z]+)\s*\*/\s*\{([^}]*)\}", body)
    if [r[0] for r in rows] != cols:
        raise Refuse("mjCOLLISIONFUNC: row labels %s differ from column labels %s" % ([r[0] for r in rows], cols))
    pairs = []
    for i, (rn, cells) in enumerate(rows):
        cs = [c.strip() for c in cells.split(",")]
        if len(cs) != len(cols):
            raise Refuse("mjCOLLISIONFUNC row %s has %d cells" % (rn, len(cs)))
        for j, c in enumerate(cs):
            if c != "0":
                if j < i:
                    raise Refuse("mjCOLLISIONFUNC: non-null entry below the diagonal (%s,%s)" % (rn, cols[j]))
                pairs.append(("mjGEOM_" + rn, "mjGEOM_" + cols[j]))
    return pairs


# ------------------------------------------------------------------------------------------ collision_driver.py
def mjx_collision_pairs(types_):
    tree = ast.parse(read(SRC + "collision_driver.py"))
    node = None
    for s in tree.body:
        if isinstance(s, ast.Assign) and len(s.targets) == 1 and isinstance(s.targets[0], ast.Name) and s.targets[0].id == "_COLLISION_FUNC":
            node = s.value
    if not isinstance(node, ast.Dict):
        raise Refuse("collision_driver._COLLISION_FUNC is not a dict literal")
    gt = {m[0]: m[2] for m in types_.get("GeomType", [])}
    pairs = []
    for k in node.keys:
        if not isinstance(k, ast.Tuple) or len(k.elts) != 2:
            raise Refuse("_COLLISION_FUNC key is not a pair: %s" % U(k))
        names = []
        for e in k.elts:
            ch = chain(e)
            if not ch or ch[0] != "GeomType" or len(ch) != 2 or ch[1] not in gt:
                raise Refuse("_COLLISION_FUNC key element is not GeomType.X: %s" % U(e))
            names.append(gt[ch[1]])
        if tuple(names) in pairs:
            raise Refuse("_COLLISION_FUNC: duplicate key %s" % (names,))
        pairs.append(tuple(names))
    f = func(tree, "has_collision_fn")
    body = [s for s in f.body if not (isinstance(s, ast.Expr) and isinstance(s.value, ast.Constant))]
    if len(body) != 1 or U(body[0]) != "return (t1, t2) in _COLLISION_FUNC":
        raise Refuse("collision_driver.has_collision_fn is not `return (t1, t2) in _COLLISION_FUNC`")
    return pairs


# ------------------------------------------------------------------------------------------ io.py raise sites
def raise_sites(fn):
    """[(conditions from the outermost enclosing `if`/`for` inwards, raise node)] for NotImplementedError"""
    out = []

    def walk(stmts, conds):
        for s in stmts:
            if isinstance(s, ast.Raise):
                e = s.exc
                nm = U(e.func) if isinstance(e, ast.Call) else U(e) if e is not None else ""
                if nm == "NotImplementedError":
                    out.append((list(conds), s))
            elif isinstance(s, ast.If):
                walk(s.body, conds + [("if", U(s.test))])
                walk(s.orelse, conds + [("else", U(s.test))])
            elif isinstance(s, (ast.For, ast.While)):
                hdr = "for %s in %s" % (U(s.target), U(s.iter)) if isinstance(s, ast.For) else "while " + U(s.test)
                walk(s.body, conds + [("loop", hdr)])
                walk(s.orelse, conds)
            elif isinstance(s, (ast.With, ast.Try)):
                walk(s.body, conds)
                for h in getattr(s, "handlers", []):
                    walk(h.body, conds)
                walk(getattr(s, "orelse", []), conds)
                walk(getattr(s, "finalbody", []), conds)
    walk(fn.body, [])
    return out


def assigned(fn, name):
    """source text of the unique top-level assignment `name = ...` in fn (searched recursively)"""
    hits = [U(n.value) for n in ast.walk(fn) if isinstance(n, ast.Assign) and len(n.targets) == 1 and U(n.targets[0]) == name]
    if len(hits) != 1:
        raise Refuse("%s: expected exactly one assignment to %s, found %d" % (fn.name, name, len(hits)))
    return hits[0]


def translate():
    types_ = parse_types()
    henums = header_enums()
    io = ast.parse(read(SRC + "io.py"))
    gate = {"option_enums": [], "enable_bits": None, "model_enums": [], "other": [], "contact_sensor": []}

    def members(tname):
        if tname not in types_:
            raise Refuse("types.%s not found / not an enum" % tname)
        return [m[2] for m in types_[tname]]

    def mj_enum_of(tname):
        return types_[tname][0][1]

    # ---- _put_option
    f = func(io, "_put_option")
    for conds, r in raise_sites(f):
        cs = [c for _, c in conds]
        m = re.fullmatch(r"o\.(\w+) not in set\(types\.(\w+)\)", cs[0]) if len(cs) == 1 and conds[0][0] == "if" else None
        if m:
            gate["option_enums"].append({"field": m.group(1), "type": m.group(2), "mj_enum": mj_enum_of(m.group(2)), "accepted": members(m.group(2))})
        elif cs == ["for i in range(mujoco.mjtEnableBit.mjNENABLE)", "o.enableflags & 2 ** i and 2 ** i not in set(types.EnableBit)"]:
            gate["enable_bits"] = {"type": "EnableBit", "mj_enum": mj_enum_of("EnableBit"), "accepted": members("EnableBit")}
        elif cs == ["impl == types.Impl.JAX", "implicitfast and has_fluid_params"]:
            if assigned(f, "has_fluid_params") != "o.density > 0 or o.viscosity > 0 or o.wind.any()" or \
               assigned(f, "implicitfast") != "o.integrator == mujoco.mjtIntegrator.mjINT_IMPLICITFAST":
                raise Refuse("_put_option: definitions of has_fluid_params / implicitfast changed")
            gate["other"].append("implicitfast+fluid")
        elif len(conds) == 0 and "Unsupported implementation" in U(r):
            pass   # implementation dispatch, not a model feature
        else:
            raise Refuse("_put_option: NotImplementedError under an unrecognised condition: %s" % cs)
    if gate["enable_bits"] is None:
        raise Refuse("_put_option: the enable-flag check was not found")
    # ---- _put_model_jax
    f = func(io, "_put_model_jax")
    enum_loop = None
    for n in ast.walk(f):
        if isinstance(n, ast.For) and U(n.target) == "(enum_field, enum_type, mj_type)":
            enum_loop = n
    for conds, r in raise_sites(f):
        cs = [c for _, c in conds]
        if cs == ["m.nflex"]:
            gate["other"].append("flex")
        elif cs[:1] == ["is_contact_sensor.any()"] and len(cs) == 2:
            if assigned(f, "is_contact_sensor") != "m.sensor_type == types.SensorType.CONTACT" or \
               assigned(f, "objtype") != "m.sensor_objtype[is_contact_sensor]" or \
               assigned(f, "reftype") != "m.sensor_reftype[is_contact_sensor]" or \
               assigned(f, "contact_sensor_type") != "set(np.concatenate([objtype, reftype]))":
                raise Refuse("_put_model_jax: contact-sensor preamble changed")
            m1 = re.fullmatch(r"types\.ObjType\.(\w+) in set\(objtype\)", cs[1])
            m2 = re.fullmatch(r"types\.ObjType\.(\w+) in contact_sensor_type", cs[1])
            m3 = re.fullmatch(r"\(m\.sensor_intprm\[is_contact_sensor, 1\] == (\d+)\)\.any\(\)", cs[1])
            if m1:
                gate["contact_sensor"].append("objtype:mjOBJ_" + m1.group(1))
            elif m2:
                gate["contact_sensor"].append("objtype|reftype:mjOBJ_" + m2.group(1))
            elif m3:
                gate["contact_sensor"].append("reduce:" + m3.group(1))
            else:
                raise Refuse("_put_model_jax: contact-sensor check not understood: %s" % cs[1])
        elif cs == ["for (g1, g2, ip) in collision_driver.geom_pairs(m)", "not collision_driver.has_collision_fn(t1, t2)"]:
            gate["other"].append("collision-pair-without-function")
        elif cs == ["for (g1, g2, ip) in collision_driver.geom_pairs(m)", "no_margin.intersection({int(t1), int(t2)})", "margin.any()"]:
            nm = assigned(f, "no_margin")
            mm = re.fullmatch(r"\{(.*)\}", nm)
            names = re.findall(r"int\(mujoco\.mjtGeom\.(\w+)\)", mm.group(1)) if mm else []
            if not names or len(names) != nm.count("int("):
                raise Refuse("_put_model_jax: no_margin set not understood: %s" % nm)
            gate["no_margin"] = names
        elif enum_loop is not None and cs == ["for %s in %s" % (U(enum_loop.target), U(enum_loop.iter)), "missing"]:
            if assigned(f, "missing") != "set(enum_field) - set(enum_type)":
                raise Refuse("_put_model_jax: `missing` is not set(enum_field) - set(enum_type)")
            if not isinstance(enum_loop.iter, ast.Tuple):
                raise Refuse("_put_model_jax: enum loop does not iterate over a tuple literal")
            for e in enum_loop.iter.elts:
                if not isinstance(e, ast.Tuple) or len(e.elts) != 3:
                    raise Refuse("_put_model_jax: enum loop entry %s" % U(e))
                fld, ty, mj = chain(e.elts[0]), chain(e.elts[1]), chain(e.elts[2])
                if not fld or fld[0] != "m" or len(fld) != 2 or not ty or ty[0] != "types" or len(ty) != 2 or not mj or mj[0] != "mujoco":
                    raise Refuse("_put_model_jax: enum loop entry %s" % U(e))
                if mj_enum_of(ty[1]) != mj[1]:
                    raise Refuse("_put_model_jax: %s is checked against types.%s which binds %s, message uses %s" % (fld[1], ty[1], mj_enum_of(ty[1]), mj[1]))
                gate["model_enums"].append({"field": fld[1], "type": ty[1], "mj_enum": mj[1], "accepted": members(ty[1])})
        else:
            raise Refuse("_put_model_jax: NotImplementedError under an unrecognised condition: %s" % cs)
    if "no_margin" not in gate:
        gate["no_margin"] = []
    # ---- _make_data_jax
    f = func(io, "_make_data_jax")
    for conds, r in raise_sites(f):
        cs = [c for _, c in conds]
        if cs == ["m.opt.cone == types.ConeType.ELLIPTIC and np.any(contact.dim == 1)"]:
            gate["other"].append("elliptic+condim1")
        else:
            raise Refuse("_make_data_jax: NotImplementedError under an unrecognised condition: %s" % cs)
    gate["collision_pairs"] = mjx_collision_pairs(types_)
    gate["c_collision_pairs"] = c_collision_pairs()
    need = {e["mj_enum"] for e in gate["option_enums"] + gate["model_enums"]} | {gate["enable_bits"]["mj_enum"], "mjtGeom", "mjtJoint"}
    gate["all_enumerators"] = {}
    for en in sorted(need):
        if en not in henums:
            raise Refuse("enum %s not found in the tree's headers" % en)
        gate["all_enumerators"][en] = [n for n in henums[en] if not re.fullmatch(r"mjN[A-Z]+", n)]
    for e in gate["option_enums"] + gate["model_enums"] + [gate["enable_bits"]]:
        for a in e["accepted"]:
            if a not in gate["all_enumerators"][e["mj_enum"]]:
                raise Refuse("types.%s binds %s which is not an enumerator of %s in the tree's headers" % (e["type"], a, e["mj_enum"]))
    gate["joint_types"] = [m[2] for m in types_.get("JointType", [])]
    gate["geom_types"] = [m[2] for m in types_.get("GeomType", [])]
    return gate


def S(x):
    return json.dumps(x)


def emit(g):
    def strs(xs):
        return "[" + ", ".join(S(x) for x in xs) + "]"
    L = []
    L.append("-- GENERATED by translate/c43_gate.py from mjx/mujoco/mjx/_src/{io,types,collision_driver}.py, the tree's headers")
    L.append("-- and src/engine/engine_collision_driver.c.  Do not edit; regenerated on every run.")
    L.append("namespace MjProof.Gen.MjxGate")
    L.append("")
    L.append("/-- `_put_option`: (option field, enumerators of the tree's enum that do NOT raise), in source order -/")
    L.append("def optionEnums : List (String × List String) := [")
    L.append(",\n".join("  (%s, %s)" % (S(e["field"]), strs(e["accepted"])) for e in g["option_enums"]))
    L.append("]")
    L.append("")
    L.append("/-- `_put_option`: enable flags that do not raise -/")
    L.append("def enableBits : List String := %s" % strs(g["enable_bits"]["accepted"]))
    L.append("")
    L.append("/-- `_put_model_jax`: (mjModel array, enumerators that do not raise), in source order -/")
    L.append("def modelEnums : List (String × List String) := [")
    L.append(",\n".join("  (%s, %s)" % (S(e["field"]), strs(e["accepted"])) for e in g["model_enums"]))
    L.append("]")
    L.append("")
    L.append("/-- every enumerator of the enums involved, from the tree's headers (size constants `mjN…` dropped) -/")
    L.append("def allEnumerators : List (String × List String) := [")
    L.append(",\n".join("  (%s, %s)" % (S(k), strs(v)) for k, v in g["all_enumerators"].items()))
    L.append("]")
    L.append("")
    L.append("/-- which enum each checked field ranges over -/")
    L.append("def enumOf : List (String × String) := [%s]" % ", ".join(
        "(%s, %s)" % (S(e["field"]), S(e["mj_enum"])) for e in g["option_enums"] + g["model_enums"]))
    L.append("")
    L.append("/-- keys of `collision_driver._COLLISION_FUNC` (pairs that have a collision function), in source order -/")
    L.append("def collisionPairs : List (String × String) := [%s]" % ", ".join("(%s, %s)" % (S(a), S(b)) for a, b in g["collision_pairs"]))
    L.append("")
    L.append("/-- non-null entries of the C engine's `mjCOLLISIONFUNC` -/")
    L.append("def cCollisionPairs : List (String × String) := [%s]" % ", ".join("(%s, %s)" % (S(a), S(b)) for a, b in g["c_collision_pairs"]))
    L.append("")
    L.append("/-- geom types for which a non-zero margin/gap raises -/")
    L.append("def noMarginGeoms : List String := %s" % strs(g["no_margin"]))
    L.append("")
    L.append("/-- contact-sensor semantics that raise -/")
    L.append("def contactSensorRejected : List String := %s" % strs(g["contact_sensor"]))
    L.append("")
    L.append("/-- the remaining raise sites (flex, implicitfast with fluid parameters, condim 1 with the elliptic cone,")
    L.append("    colliding pair without a collision function) -/")
    L.append("def otherChecks : List String := %s" % strs(g["other"]))
    L.append("")
    L.append("def jointTypes : List String := %s" % strs(g["joint_types"]))
    L.append("def geomTypes : List String := %s" % strs(g["geom_types"]))
    L.append("")
    gid = hashlib.sha256("\n".join(L).encode()).hexdigest()[:24]
    L.append('def gateId : String := "%s"' % gid)
    L.append("")
    L.append("end MjProof.Gen.MjxGate")
    g["gate_id"] = gid
    return "\n".join(L) + "\n"


PIN_NAME = "c43_gate.pin"


def pinned_by_other():
    """A check that runs against a scratch worktree (VERIF_REPO != /repo) pins the generated files it builds
    from (file .cache/<name>.pin = pid of the check): translators started by anybody else then leave them alone."""
    pin = os.path.join(VERIF, ".cache", PIN_NAME)
    try:
        pid = int(open(pin).read().strip())
    except (OSError, ValueError):
        return False
    if os.environ.get("VERIF_PIN_OWNER") == str(pid):
        return False
    try:
        os.kill(pid, 0)
    except OSError:
        return False       # stale pin
    return True


def main():
    out = os.path.join(VERIF, "lean", "MjProof", "Gen")
    args = sys.argv[1:]
    if "--out" in args:
        out = args[args.index("--out") + 1]
    try:
        g = translate()
        lean = emit(g)
    except Refuse as e:
        print("c43_gate: REFUSED: %s" % e, file=sys.stderr)
        sys.exit(3)
    except SyntaxError as e:
        print("c43_gate: REFUSED: source does not parse: %s" % e, file=sys.stderr)
        sys.exit(3)
    if "--stdout" in args:
        sys.stdout.write(lean)
        return
    if out == os.path.join(VERIF, "lean", "MjProof", "Gen") and pinned_by_other():
        print("%s: generated files are pinned by a running check against a scratch worktree; left untouched" % PIN_NAME[:-4])
        return
    os.makedirs(out, exist_ok=True)
    for name, text in (("MjxGate.lean", lean), ("MjxGate.json", json.dumps(g, indent=1) + "\n")):
        p = os.path.join(out, name)
        if not os.path.exists(p) or open(p).read() != text:
            tmp = p + ".%d.tmp" % os.getpid()
            with open(tmp, "w") as f:
                f.write(text)
            os.replace(tmp, p)
    print("c43_gate: %d option enums, %d model enums, %d collision pairs, %d contact-sensor checks, other=%s -> %s"
          % (len(g["option_enums"]), len(g["model_enums"]), len(g["collision_pairs"]), len(g["contact_sensor"]), g["other"],
             os.path.join(out, "MjxGate.lean")))


if __name__ == "__main__":
    main()
