#!/usr/bin/env python3
"""C20 translator: the guard table of every mj_arenaAllocByte call site of src/engine.

For each call site it extracts, from the C source text of the tree (VERIF_REPO):
  * the enclosing function,
  * the variable(s) that receive the result (consecutive allocation statements form one group),
  * the variable(s) tested by the `if (!a || !b) {` that follows the group,
  * the statements of that failure block, normalised (warn:<KIND>, clearEfc, parenaToCon, clearIsland,
    freeStack) and how the block leaves (return / return0 / return1 / error for mjERROR).
The same table is printed by the Lean model (`drv_c20`, op `sites`) from the consumer programs the
theorems are about; checks/c20.py compares them.  Any shape this extractor does not know is REFUSED
(reported, never guessed).

usage: c20_guards.py [--json]
"""
import json
import os
import re
import sys

REPO = os.environ.get("VERIF_REPO", "/repo")
FILES = ["src/engine/engine_collision_driver.c", "src/engine/engine_core_constraint.c",
         "src/engine/engine_island.c", "src/engine/engine_derivative.c"]
# every other engine/user source must not call the arena allocator at all (checked)
CALL = "mj_arenaAllocByte"


def strip_comments(src):
    """Replace comments and string/char literals by spaces (newlines kept, so offsets and lines survive)."""
    out = []
    i, n = 0, len(src)
    while i < n:
        c = src[i]
        if src.startswith("//", i):
            j = src.find("\n", i)
            j = n if j < 0 else j
            # a line comment ending in a backslash would continue: not used in the tree; refuse below if seen
            out.append(" " * (j - i))
            i = j
        elif src.startswith("/*", i):
            j = src.find("*/", i + 2)
            j = n if j < 0 else j + 2
            out.append("".join(ch if ch == "\n" else " " for ch in src[i:j]))
            i = j
        elif c == '"' or c == "'":
            j = i + 1
            while j < n and src[j] != c:
                j += 2 if src[j] == "\\" else 1
            j = min(j + 1, n)
            out.append(c + " " * (j - i - 2) + c if j - i >= 2 else src[i:j])
            i = j
        else:
            out.append(c)
            i += 1
    return "".join(out)


def function_spans(code):
    """(name, start, end) of every top-level function body; preprocessor lines do not take part in brace
    matching (the X-macro bodies contain braces of their own)."""
    masked = []
    cont = False
    for line in code.split("\n"):
        is_pp = cont or line.lstrip().startswith("#")
        cont = is_pp and line.rstrip().endswith("\\")
        masked.append(" " * len(line) if is_pp else line)
    text = "\n".join(masked)
    spans, depth, start, name = [], 0, None, None
    for m in re.finditer(r"[{}]", text):
        if m.group(0) == "{":
            if depth == 0:
                head = text[:m.start()].rstrip()
                name = None
                if head.endswith(")"):
                    # find the matching '(' and the identifier before it
                    d, k = 0, len(head) - 1
                    while k >= 0:
                        if head[k] == ")":
                            d += 1
                        elif head[k] == "(":
                            d -= 1
                            if d == 0:
                                break
                        k -= 1
                    mm = re.search(r"([A-Za-z_]\w*)\s*$", head[:k])
                    name = mm.group(1) if mm else None
                start = m.start()
            depth += 1
        else:
            depth -= 1
            if depth == 0 and name:
                spans.append((name, start, m.end()))
            if depth < 0:
                raise ValueError("unbalanced braces")
    return spans


ALLOC_STMT = re.compile(
    r"^(?:(?:const\s+)?[A-Za-z_]\w*\s*\*+\s*)?"          # optional declaration `type* `
    r"((?:d->)?[A-Za-z_]\w*)\s*=\s*"                       # the receiving variable
    r"(?:\(\s*[A-Za-z_]\w*\s*\*+\s*\)\s*)?"               # optional cast
    r"mj_arenaAllocByte\s*\(", re.S)


def split_statement_start(code, pos):
    """start offset of the statement that contains offset pos (after the previous ';', '{' or '}')."""
    k = pos
    while k > 0 and code[k - 1] not in ";{}":
        k -= 1
    # the first statement of a macro body: start after the `#define NAME(args) \` header line
    h = code.rfind("#define", k, pos)
    if h >= 0:
        e = code.find("\\\n", h, pos)
        if e >= 0:
            k = e + 2
    return k


def match_paren(code, k):
    d = 0
    while k < len(code):
        if code[k] == "(":
            d += 1
        elif code[k] == ")":
            d -= 1
            if d == 0:
                return k
        k += 1
    raise ValueError("unbalanced parentheses")


def norm_fail_stmt(st):
    st = re.sub(r"\s+", " ", st.strip())
    m = re.match(r"^mj_warning\s*\(\s*d\s*,\s*mjWARN_(\w+)\s*,", st)
    if m:
        return ("act", "warn:" + m.group(1))
    if re.match(r"^mj_clearEfc\s*\(\s*d\s*\)$", st):
        return ("act", "clearEfc")
    if re.match(r"^d->parena\s*=\s*d->ncon\s*\*\s*sizeof\s*\(\s*mjContact\s*\)$", st):
        return ("act", "parenaToCon")
    if re.match(r"^mj_freeStack\s*\(\s*d\s*\)$", st):
        return ("act", "freeStack")
    if re.match(r"^clearIsland\s*\(\s*d\s*,\s*parena_old\s*\)$", st):
        return ("act", "clearIsland")
    m = re.match(r"^return(?:\s+(-?\d+))?$", st)
    if m:
        return ("exit", "return" + (m.group(1) or ""))
    if re.match(r"^mjERROR\s*\(", st):
        return ("exit", "error")
    return None


def extract_file(rel):
    path = os.path.join(REPO, rel)
    raw = open(path).read()
    if re.search(r"//[^\n]*\\\n", raw):
        return [], ["%s: line comment continued by a backslash" % rel]
    code = strip_comments(raw)
    # macro bodies: drop the line continuations (offsets shift: line numbers are taken from `raw` before)
    spans = function_spans(code)
    sites, refused = [], []
    calls = [m.start() for m in re.finditer(r"\bmj_arenaAllocByte\s*\(", code)]
    done_upto = -1
    for pos in calls:
        if pos <= done_upto:
            continue
        line = raw.count("\n", 0, pos) + 1
        func = next((n for n, a, b in spans if a <= pos < b), None)
        if func is None:
            refused.append("%s:%d: call outside a function body" % (rel, line))
            continue
        # a group of consecutive allocation statements
        allocated = []
        k = split_statement_start(code, pos)
        ok = True
        while True:
            seg = code[k:].replace("\\\n", "  ")
            seg_l = seg.lstrip()
            m = ALLOC_STMT.match(seg_l)
            if not m:
                break
            lead = len(seg) - len(seg_l)
            # locate the end of this statement in `code` coordinates (continuations have equal length after replace)
            open_par = k + lead + m.end() - 1
            close = match_paren(code, open_par)
            rest = code[close + 1:]
            mm = re.match(r"^[\s\\]*;", rest)
            if not mm:
                ok = False
                break
            allocated.append(m.group(1))
            k = close + 1 + mm.end()
            done_upto = close
        if not ok or not allocated:
            refused.append("%s:%d (%s): allocation statement of unknown shape" % (rel, line, func))
            continue
        # the statement after the group must be `if (!a || !b) {`
        rest = code[k:]
        m = re.match(r"^[\s\\]*if\s*\(", rest)
        if not m:
            sites.append({"file": rel, "func": func, "line": line, "alloc": allocated, "untested": True})
            continue
        par = k + m.end() - 1
        close = match_paren(code, par)
        cond = re.sub(r"[\s\\]+", " ", code[par + 1:close]).strip()
        tested = []
        good = True
        for t in cond.split("||"):
            mt = re.match(r"^\s*!\s*((?:d->)?[A-Za-z_]\w*)\s*$", t)
            if not mt:
                good = False
                break
            tested.append(mt.group(1))
        if not good:
            refused.append("%s:%d (%s): condition of unknown shape: if (%s)" % (rel, line, func, cond))
            continue
        after = code[close + 1:]
        mb = re.match(r"^[\s\\]*\{", after)
        if not mb:
            refused.append("%s:%d (%s): failure branch is not a block" % (rel, line, func))
            continue
        b0 = close + 1 + mb.end()
        depth, j = 1, b0
        while j < len(code) and depth:
            if code[j] == "{":
                depth += 1
            elif code[j] == "}":
                depth -= 1
            j += 1
        body = code[b0:j - 1].replace("\\\n", "  ")
        if "{" in body:
            refused.append("%s:%d (%s): nested block in the failure branch" % (rel, line, func))
            continue
        acts, exit_, bad = [], None, None
        for st in body.split(";"):
            if not st.replace("\\", " ").strip():
                continue
            st = st.replace("\\", " ")
            r = norm_fail_stmt(st)
            if r is None:
                bad = st.strip()
                break
            if exit_ is not None:
                bad = "statement after the exit: " + st.strip()
                break
            if r[0] == "act":
                acts.append(r[1])
            else:
                exit_ = r[1]
        if bad is not None:
            refused.append("%s:%d (%s): unknown statement in the failure block: %s" % (rel, line, func, bad[:80]))
            continue
        if exit_ is None:
            exit_ = "fallthrough"
        sites.append({"file": rel, "func": func, "line": line, "alloc": allocated, "test": tested,
                      "fail": acts, "exit": exit_})
    return sites, refused


def canon(s):
    if s.get("untested"):
        return "%s|alloc=%s|UNTESTED" % (s["func"], ",".join(s["alloc"]))
    return "%s|alloc=%s|test=%s|fail=%s|exit=%s" % (s["func"], ",".join(s["alloc"]), ",".join(s["test"]),
                                                   ";".join(s["fail"]), s["exit"])


def other_callers():
    """files outside FILES that mention the allocator (other than its definition / declaration)."""
    out = []
    for sub in ("src/engine", "src/user"):
        d = os.path.join(REPO, sub)
        for f in sorted(os.listdir(d)):
            rel = sub + "/" + f
            if rel in FILES or not f.endswith((".c", ".cc", ".h")):
                continue
            if f in ("engine_memory.c", "engine_memory.h"):
                continue
            if CALL in strip_comments(open(os.path.join(d, f)).read()):
                out.append(rel)
    return out


def extract():
    sites, refused = [], []
    for rel in FILES:
        try:
            s, r = extract_file(rel)
        except (OSError, ValueError) as e:
            s, r = [], ["%s: %s" % (rel, e)]
        sites += s
        refused += r
    for rel in other_callers():
        refused.append("%s: calls %s but is not covered by the model" % (rel, CALL))
    return {"sites": sites, "canon": [canon(s) for s in sites], "refused": refused}


if __name__ == "__main__":
    res = extract()
    if "--json" in sys.argv:
        json.dump(res, sys.stdout, indent=1)
        print()
    else:
        for s, c in zip(res["sites"], res["canon"]):
            print("%s:%d  %s" % (s["file"], s["line"], c))
        for r in res["refused"]:
            print("REFUSED " + r)
    sys.exit(1 if res["refused"] else 0)
