#!/usr/bin/env python3
"""C31 translator: regenerates lean/MjProof/Gen/MjbLayout.lean (+ .json) from the source tree.

Reads (repository root = $VERIF_REPO, default /repo):
  include/mujoco/mjxmacro.h   MJMODEL_SIZES, MJMODEL_POINTERS (+ sub-macros, MJ_M annotations),
                              MJMODEL_POINTERS_PREAMBLE        — expanded with the tree's own preprocessor
                              (gcc -E), so nested macros and macro constants mean what the compiler sees
  include/mujoco/*.h          sizeof(mjOption/mjVisual/mjStatistic/mjtBool/mjtNum/int/mjtSize/element types),
                              enumerators, mjVERSION_HEADER   — by compiling and running a generated C probe
  src/engine/engine_io.c      ID, NHEADER, MAX_ARRAY_SIZE, getnsize/getnptr, bufread/bufwrite, SKIP,
                              safeAddToBufferSize, mj_makeModel (parameters, checks, assignments,
                              nnames_map, allocation loop), mj_setPtrModel, mj_saveModel, mj_sizeModel,
                              mj_loadModelBuffer, mj_validateReferences (MJMODEL_REFERENCES table, the X
                              loop body, the special logic), sensorSize, numObjects, nPOS/nVEL
  src/engine/engine_io.h      mjLOAD_MULTIPLE
  src/engine/engine_support.c mjVERSION, mj_version

The variable parts (lists, tables, constants) are extracted; everything around them must match, token for
token, the shapes that lean/MjProof/Model/Mjb.lean models.  Anything else is refused (exit 3 + message): a
refusal is a failed tie obligation of the check, never a silent fallback.

usage: c31_layout.py [--out DIR] [--stdout] [--print-special]
"""
import hashlib
import json
import os
import re
import subprocess
import sys

VERIF = os.path.dirname(os.path.dirname(os.path.abspath(__file__)))
REPO = os.environ.get("VERIF_REPO", "/repo")
SPECIAL_TEMPLATE = os.path.join(VERIF, "translate", "c31_special.template")


class Refuse(Exception):
    pass


def read(rel):
    p = os.path.join(REPO, rel)
    if not os.path.exists(p):
        raise Refuse("missing source file %s" % p)
    with open(p, encoding="utf-8", errors="replace") as f:
        return f.read()


def strip_comments(s):
    s = re.sub(r"/\*.*?\*/", " ", s, flags=re.S)
    s = re.sub(r"//[^\n]*", " ", s)
    return s


def norm(s):
    """canonical token stream: comments stripped, one space between tokens"""
    s = strip_comments(s)
    toks = re.findall(r"[A-Za-z_][A-Za-z_0-9]*|\d+|->|<<|>>|<=|>=|==|!=|\+\+|--|\+=|-=|&&|\|\||\"(?:[^\"\\]|\\.)*\"|\S", s)
    return " ".join(toks)


def function_body(src, header_re, what):
    ms = list(re.finditer(header_re, src))
    if len(ms) != 1:
        raise Refuse("%s: expected exactly one definition, found %d" % (what, len(ms)))
    i = src.index("{", ms[0].end() - 1)
    depth, j = 0, i
    while j < len(src):
        c = src[j]
        if c == "{":
            depth += 1
        elif c == "}":
            depth -= 1
            if depth == 0:
                return src[i + 1:j], ms[0]
        j += 1
    raise Refuse("%s: unbalanced braces" % what)


def expect_exact(what, got, want):
    if got != want:
        k = 0
        while k < min(len(got), len(want)) and got[k] == want[k]:
            k += 1
        raise Refuse("%s: does not match the modelled shape; first difference at normalised offset %d:\n  source: ...%s\n  model : ...%s"
                     % (what, k, got[max(0, k - 60):k + 100], want[max(0, k - 60):k + 100]))


def expect_re(what, got, rx):
    m = re.fullmatch(rx, got, re.S)
    if not m:
        # locate the longest matching prefix of the template for the message
        raise Refuse("%s: does not match the modelled shape (template in translate/c31_layout.py)\n  source: %s" % (what, got[:600]))
    return m


# ------------------------------------------------------------------------------------------ workdir
def workdir():
    d = os.path.join(VERIF, ".cache", "c31_translate", hashlib.sha256(REPO.encode()).hexdigest()[:12] + "_%d" % os.getpid())
    os.makedirs(d, exist_ok=True)
    return d


def run(cmd, what):
    r = subprocess.run(cmd, capture_output=True, text=True)
    if r.returncode != 0:
        raise Refuse("%s failed: %s\n%s" % (what, " ".join(cmd), (r.stderr or r.stdout)[-1500:]))
    return r.stdout


# ------------------------------------------------------------------------------------------ X-macros through cpp
def expand_xmacros(wd):
    src = wd + "/pp.c"
    with open(src, "w") as f:
        f.write("#include <mujoco/mjxmacro.h>\n"
                "#undef MJ_M\n#define MJ_M(n) __MJM(n)\n#undef XNV\n#define XNV X\n"
                "#define X(type, name, nr, nc) @P@ type @ name @ nr @ nc @E@\nMJMODEL_POINTERS\n#undef X\n"
                "#define X(name) @S@ name @E@\nMJMODEL_SIZES\n#undef X\n"
                "@Q@ MJMODEL_POINTERS_PREAMBLE(m) @E@\n")
    out = run(["gcc", "-E", "-P", "-I" + os.path.join(REPO, "include"), src], "preprocessing mjxmacro.h")
    items = [x.strip() for x in out.replace("\n", " ").split("@E@")]
    sizes, ptrs, pre = [], [], None
    for it in items:
        if not it:
            continue
        if it.startswith("@S@"):
            nm = it[3:].strip()
            if not re.fullmatch(r"\w+", nm):
                raise Refuse("MJMODEL_SIZES: entry not an identifier: %r" % nm)
            sizes.append(nm)
        elif it.startswith("@P@"):
            parts = [p.strip() for p in it[3:].split("@")]
            if len(parts) != 4:
                raise Refuse("MJMODEL_POINTERS: entry does not have 4 arguments: %r" % it)
            ptrs.append(tuple(parts))
        elif it.startswith("@Q@"):
            pre = " ".join(it[3:].split())
        else:
            raise Refuse("unexpected text in the expansion of the X-macros: %r" % it[:80])
    if not sizes or not ptrs or pre is None:
        raise Refuse("MJMODEL_SIZES / MJMODEL_POINTERS / PREAMBLE expansion is empty")
    if len(set(sizes)) != len(sizes):
        raise Refuse("MJMODEL_SIZES: duplicate name")
    if len({p[1] for p in ptrs}) != len(ptrs):
        raise Refuse("MJMODEL_POINTERS: duplicate name")
    # preamble: int x = m->x; ...
    pre_names = []
    rest = pre
    while rest:
        m = re.match(r"int (\w+) = m->(\w+) ?; ?", rest)
        if not m or m.group(1) != m.group(2):
            raise Refuse("MJMODEL_POINTERS_PREAMBLE: statement not of the form `int x = m->x;`: %r" % rest[:60])
        pre_names.append(m.group(1))
        rest = rest[m.end():]
    return sizes, ptrs, pre_names


def parse_nc(nc, sizes, pre_names, consts):
    """-> (ncK, ncS name or None); consts collects identifiers whose value the probe must supply"""
    nc = nc.replace(" ", "")
    m = re.fullmatch(r"(\d+)", nc)
    if m:
        return int(m.group(1)), None
    m = re.fullmatch(r"([A-Za-z_]\w*)", nc)
    if m:
        if m.group(1) in sizes:
            raise Refuse("nc %r is a model size without MJ_M annotation" % nc)
        consts.add(m.group(1))
        return ("const", m.group(1)), None
    m = re.fullmatch(r"__MJM\((\w+)\)(?:\*(\d+))?", nc)
    if m:
        if m.group(1) not in sizes or m.group(1) not in pre_names:
            raise Refuse("nc %r: %s is not a model size declared by MJMODEL_POINTERS_PREAMBLE" % (nc, m.group(1)))
        return int(m.group(2) or 1), m.group(1)
    raise Refuse("nc expression not understood: %r" % nc)


# ------------------------------------------------------------------------------------------ probe
def probe(wd, types, consts, enums, sizes):
    src = wd + "/probe.c"
    L = ["#include <stdio.h>", "#include <limits.h>", "#include <stdint.h>", "#include <stddef.h>",
         "#include <mujoco/mujoco.h>", '#include "engine/engine_io.h"', "int main(void) {", '  printf("{");']
    for t in sorted(types):
        L.append('  printf("\\"sizeof:%s\\": %%zu, ", sizeof(%s));' % (t, t))
    for c in sorted(consts | enums):
        L.append('  printf("\\"%s\\": %%lld, ", (long long)(%s));' % (c, c))
    for s in sizes:
        L.append('  printf("\\"size:%s\\": [%%zu, %%d], ", sizeof(((mjModel*)0)->%s), '
                 '_Generic(((mjModel*)0)->%s, mjtSize: 1, default: 0));' % (s, s, s))
    L += ['  printf("\\"INT_MAX\\": %d, \\"INT64_MAX\\": %lld, \\"mjVERSION_HEADER\\": %d, \\"mjLOAD_MULTIPLE\\": %d}\\n", '
          'INT_MAX, (long long)INT64_MAX, mjVERSION_HEADER, mjLOAD_MULTIPLE);', "  return 0;", "}"]
    with open(src, "w") as f:
        f.write("\n".join(L) + "\n")
    exe = wd + "/probe"
    run(["gcc", "-std=gnu11", "-w", "-I" + os.path.join(REPO, "include"), "-I" + os.path.join(REPO, "src"), src, "-o", exe],
        "compiling the sizeof/enum probe")
    return json.loads(run([exe], "running the probe"))


# ------------------------------------------------------------------------------------------ engine_io.c
T_BUFWRITE = ('if ( ! src || ! buf || ! ptrbuf ) { mjERROR ( "NULL pointer passed to bufwrite" ) ; } '
              'if ( * ptrbuf + num > szbuf ) { mjERROR ( "attempting to write outside model buffer" ) ; } '
              'memcpy ( ( char * ) buf + * ptrbuf , src , num ) ; * ptrbuf += num ;')
T_BUFREAD = ('if ( ! dest || ! buf || ! ptrbuf ) { mjERROR ( "NULL pointer passed to bufread" ) ; } '
             'if ( * ptrbuf + num > szbuf ) { mjERROR ( "attempting to read outside model buffer" ) ; } '
             'memcpy ( dest , ( char * ) buf + * ptrbuf , num ) ; * ptrbuf += num ;')
T_SKIP = r'const unsigned int align = (\d+) ; return \( align - \( offset % align \) \) % align ;'
T_GETNSIZE = ('int cnt = 0 ; # define X ( name ) cnt += _Generic ( MJMODEL_MEMBER ( name ) , mjtSize : 1 , default : 0 ) ; '
              'MJMODEL_SIZES # undef X return cnt ;')
T_GETNPTR = 'int cnt = 0 ; # define X ( type , name , nr , nc ) cnt ++ ; MJMODEL_POINTERS # undef X return cnt ;'
T_SAFEADD = ('if ( type_size < 0 || nr < 0 || nc < 0 ) { return 0 ; } '
             '# if ( __has_builtin ( __builtin_add_overflow ) && __has_builtin ( __builtin_mul_overflow ) ) \\ '
             '|| ( defined ( __GNUC__ ) && __GNUC__ >= 5 ) size_t to_add = 0 ; '
             'if ( __builtin_mul_overflow ( nc , nr , & to_add ) ) return 0 ; '
             'if ( __builtin_mul_overflow ( to_add , type_size , & to_add ) ) return 0 ; '
             'if ( __builtin_add_overflow ( to_add , SKIP ( * offset ) , & to_add ) ) return 0 ; '
             'if ( __builtin_add_overflow ( * nbuffer , to_add , nbuffer ) ) return 0 ; '
             'if ( __builtin_add_overflow ( * offset , to_add , offset ) ) return 0 ; '
             '# else { size_t product ; size_t to_add ; size_t skip = SKIP ( * offset ) ; '
             'if ( nr > 0 && ( size_t ) nc > SIZE_MAX / ( size_t ) nr ) return 0 ; product = ( size_t ) nc * ( size_t ) nr ; '
             'if ( type_size > 0 && product > SIZE_MAX / type_size ) return 0 ; product * = type_size ; '
             'if ( product > SIZE_MAX - skip ) return 0 ; to_add = product + skip ; '
             'if ( ( size_t ) * nbuffer > SIZE_MAX - to_add ) return 0 ; * nbuffer += to_add ; '
             'if ( * offset > 0 && to_add > ( size_t ) ( INTPTR_MAX - * offset ) ) return 0 ; * offset += to_add ; } '
             '# endif return 1 ;')
T_SAFEADD_SIG = ('intptr_t * offset , mjtSize * nbuffer , size_t type_size , mjtSize nr , mjtSize nc')
T_SETPTR = ('char * ptr = ( char * ) m -> buffer ; MJMODEL_POINTERS_PREAMBLE ( m ) ; '
            '# define X ( type , name , nr , nc ) \\ m -> name = ( type * ) ( ptr + SKIP ( ( intptr_t ) ptr ) ) ; \\ '
            'ASAN_POISON_MEMORY_REGION ( ptr , PTRDIFF ( m -> name , ptr ) ) ; \\ '
            'ptr += SKIP ( ( intptr_t ) ptr ) + sizeof ( type ) * ( m -> nr ) * ( nc ) ; MJMODEL_POINTERS # undef X '
            'ptrdiff_t sz = ptr - ( char * ) m -> buffer ; if ( m -> nbuffer != sz ) { '
            'mjERROR ( "mjModel buffer size mismatch, " "expected size: %" PRIu64 ",  actual size: %td" , m -> nbuffer , sz ) ; }')
T_HEADER = '{ ID , sizeof ( mjtNum ) , getnsize ( ) , mj_version ( ) , getnptr ( ) }'
BLOBS = [("opt", "mjOption", "( void * ) & m -> opt"), ("vis", "mjVisual", "( void * ) & m -> vis"),
         ("stat", "mjStatistic", "( void * ) & m -> stat"), ("flg_gravcomp", "mjtBool", "& m -> flg_gravcomp"),
         ("flg_surfacevel", "mjtBool", "& m -> flg_surfacevel")]
T_SAVE = ('mjtSize ptrbuf = 0 ; int header [ NHEADER ] = ' + T_HEADER + ' ; '
          'if ( ! buffer ) { mjtSize sz = mj_sizeModel ( m ) ; void * tmpbuf = mju_malloc ( sz ) ; '
          'if ( ! tmpbuf ) { mju_warning ( "Could not allocate buffer for saving model" ) ; return ; } '
          'mj_saveModel ( m , NULL , tmpbuf , ( int ) sz ) ; '
          'mjtSize written = mju_writeResource ( filename , tmpbuf , sz , NULL , NULL , 0 ) ; '
          'if ( written != sz ) { mju_warning ( "Could not save model to \'%s\'" , filename ) ; } mju_free ( tmpbuf ) ; return ; } '
          'bufwrite ( header , sizeof ( header ) , buffer_sz , buffer , & ptrbuf ) ; '
          '# define X ( name ) bufwrite ( & m -> name , sizeof ( m -> name ) , buffer_sz , buffer , & ptrbuf ) ; MJMODEL_SIZES # undef X '
          + "".join('bufwrite ( %s , sizeof ( %s ) , buffer_sz , buffer , & ptrbuf ) ; ' % (e, t) for _, t, e in BLOBS) +
          '{ MJMODEL_POINTERS_PREAMBLE ( m ) # define X ( type , name , nr , nc ) \\ '
          'bufwrite ( ( void * ) m -> name , sizeof ( type ) * ( m -> nr ) * ( nc ) , buffer_sz , buffer , & ptrbuf ) ; '
          'MJMODEL_POINTERS # undef X }')
T_SIZE = ('mjtSize size = ( sizeof ( int ) * NHEADER + sizeof ( mjtSize ) * getnsize ( ) + sizeof ( mjOption ) + sizeof ( mjVisual ) '
          '+ sizeof ( mjStatistic ) + sizeof ( mjtBool ) * 2 ) ; MJMODEL_POINTERS_PREAMBLE ( m ) '
          '# define X ( type , name , nr , nc ) \\ size += sizeof ( type ) * ( m -> nr ) * ( nc ) ; MJMODEL_POINTERS # undef X return size ;')
HEADER_MSGS = ["Model missing header ID", "Model and executable have different floating point precision",
               "Model and executable have different number of sizes in mjModel",
               "Model and executable use different MuJoCo version",
               "Model and executable have different number of pointers in mjModel"]
T_LOAD_A = ('mjtSize ptrbuf = 0 ; mjModel * m = 0 ; if ( buffer_sz < NHEADER * sizeof ( int ) ) { '
            'mju_warning ( "Model file has an incomplete header" ) ; return NULL ; } int header [ NHEADER ] = { 0 } ; '
            'bufread ( header , NHEADER * sizeof ( int ) , buffer_sz , buffer , & ptrbuf ) ; '
            'int expected_header [ NHEADER ] = ' + T_HEADER + ' ; '
            'for ( int i = 0 ; i < NHEADER ; i ++ ) { if ( header [ i ] != expected_header [ i ] ) { switch ( i ) { '
            + "".join('case %d : mju_warning ( "%s" ) ; return NULL ; ' % (i, HEADER_MSGS[i]) for i in range(4)) +
            'default : mju_warning ( "%s" ) ; return NULL ; } } } ' % HEADER_MSGS[4] +
            'int nsize = getnsize ( ) ; if ( ptrbuf + sizeof ( mjtSize ) * nsize > buffer_sz ) { '
            'mju_warning ( "Truncated model file - ran out of data while reading sizes" ) ; return NULL ; } '
            'mjtSize sizes [ 256 ] ; bufread ( sizes , sizeof ( mjtSize ) * nsize , buffer_sz , buffer , & ptrbuf ) ; '
            'mj_makeModel ( & m , ')
T_LOAD_B = (' ) ; if ( ! m ) { mju_warning ( "Invalid sizes, unable to load model" ) ; return NULL ; } '
            'if ( m -> nbuffer != sizes [ nsize - 1 ] ) { mju_warning ( "Corrupted model, wrong nbuffer field" ) ; '
            'mj_deleteModel ( m ) ; return NULL ; } '
            '{ int int_idx = 0 ; # define X ( name ) \\ m -> name = sizes [ int_idx ++ ] ; MJMODEL_SIZES # undef X } '
            'if ( ptrbuf + sizeof ( mjOption ) + sizeof ( mjVisual ) + sizeof ( mjStatistic ) + sizeof ( mjtBool ) * 2 > buffer_sz ) { '
            'mju_warning ( "Truncated model file - ran out of data while reading structs" ) ; return NULL ; } '
            + "".join('bufread ( %s , sizeof ( %s ) , buffer_sz , buffer , & ptrbuf ) ; ' % (e, t) for _, t, e in BLOBS) +
            '{ MJMODEL_POINTERS_PREAMBLE ( m ) # define X ( type , name , nr , nc ) \\ '
            'if ( ptrbuf + sizeof ( type ) * ( m -> nr ) * ( nc ) > buffer_sz ) { \\ mju_warning ( \\ '
            '"Truncated model file - ran out of data while reading " # name ) ; \\ mj_deleteModel ( m ) ; \\ return NULL ; \\ } \\ '
            'bufread ( m -> name , sizeof ( type ) * ( m -> nr ) * ( nc ) , buffer_sz , buffer , & ptrbuf ) ; MJMODEL_POINTERS # undef X } '
            'if ( ptrbuf != buffer_sz ) { mju_warning ( "Model file is too large" ) ; mj_deleteModel ( m ) ; return NULL ; } '
            'const char * validationError = mj_validateReferences ( m ) ; if ( validationError ) { '
            'mju_warning ( "%s" , validationError ) ; mj_deleteModel ( m ) ; return NULL ; } return m ;')
T_DELETE = 'if ( m ) { freeModelBuffers ( m ) ; mju_free ( m ) ; }'
T_FREEBUF = 'mju_free ( m -> buffer ) ;'
T_REFX = ('# define X ( adrarray , nadrs , ntarget , numarray ) { \\ int * nums = ( numarray ) ; \\ '
          'for ( int i = 0 ; i < m -> nadrs ; i ++ ) { \\ int adrsmin = m -> adrarray [ i ] ; \\ '
          'int num = ( nums ? nums [ i ] : 1 ) ; \\ if ( num < 0 ) { \\ return "Invalid model: " # numarray " is negative." ; \\ } \\ '
          'if ( num > MAX_ARRAY_SIZE ) { \\ return "Invalid model: " # numarray " is too large." ; \\ } \\ '
          'int adrsmax = m -> adrarray [ i ] + num ; \\ if ( adrsmax > m -> ntarget || adrsmin < - 1 ) { \\ '
          'return "Invalid model: " # adrarray " out of bounds." ; \\ } \\ } \\ } MJMODEL_REFERENCES ; # undef X # undef MJMODEL_REFERENCES ')

# enumerators the hand-written special logic of Model/Mjb.lean refers to (values come from the probe)
SPECIAL_ENUMS = ["mjGEOM_HFIELD", "mjGEOM_MESH", "mjGEOM_SDF", "mjEQ_JOINT", "mjEQ_TENDON", "mjEQ_WELD", "mjEQ_CONNECT",
                 "mjEQ_FLEX", "mjEQ_FLEXVERT", "mjEQ_FLEXSTRAIN", "mjOBJ_BODY", "mjOBJ_SITE", "mjWRAP_NONE", "mjWRAP_PULLEY",
                 "mjWRAP_JOINT", "mjWRAP_SITE", "mjWRAP_SPHERE", "mjWRAP_CYLINDER", "mjTRN_JOINT", "mjTRN_JOINTINPARENT",
                 "mjTRN_TENDON", "mjTRN_SITE", "mjTRN_SLIDERCRANK", "mjTRN_BODY", "mjTRN_SO3", "mjTRN_UNDEFINED",
                 "mjSENS_PLUGIN", "mjSENS_TACTILE"]


def parse_switch(body, what, var, ret_rx):
    """switch (var) { (case L:)+ return E; ... } return D;  ->  ([(labels, expr)], D)"""
    m = re.fullmatch(r"switch \( %s \) \{ (.*) \} return (- ?\d+) ;" % var, body)
    if not m:
        raise Refuse("%s: body is not `switch (%s) {...} return N;`" % (what, var))
    inner, dflt = m.group(1), m.group(2).replace(" ", "")
    out, pos = [], 0
    rx = re.compile(r"((?:case \w+ : )+)return (%s) ; ?" % ret_rx)
    while pos < len(inner):
        mc = rx.match(inner, pos)
        if not mc:
            raise Refuse("%s: statement not of the form `case L: ... return E;` near %r" % (what, inner[pos:pos + 80]))
        labels = re.findall(r"case (\w+) :", mc.group(1))
        out.append((labels, mc.group(2).replace(" ", "")))
        pos = mc.end()
    seen = [l for ls, _ in out for l in ls]
    if len(set(seen)) != len(seen):
        raise Refuse("%s: duplicate case label" % what)
    return out, dflt


def translate():
    wd = workdir()
    try:
        return translate_in(wd)
    finally:
        for f in os.listdir(wd):
            os.remove(os.path.join(wd, f))
        os.rmdir(wd)


def translate_in(wd):
    sizes, ptrs_raw, pre_names = expand_xmacros(wd)
    consts, types = set(), set()
    ptrs = []
    for typ, name, nr, nc in ptrs_raw:
        if not re.fullmatch(r"[A-Za-z_]\w*", typ) or not re.fullmatch(r"\w+", name):
            raise Refuse("MJMODEL_POINTERS: type/name not understood: %r %r" % (typ, name))
        if nr not in sizes:
            raise Refuse("MJMODEL_POINTERS: nr of %s is not a model size: %r" % (name, nr))
        k, s = parse_nc(nc, sizes, pre_names, consts)
        types.add(typ)
        ptrs.append({"name": name, "type": typ, "nr": nr, "ncK": k, "ncS": s})

    io = read("src/engine/engine_io.c")

    def body(hdr, what):
        b, m = function_body(io, hdr, what)
        return norm(b), m

    # --- small helpers
    expect_exact("bufwrite", body(r"static\s+void\s+bufwrite\s*\(const void\* src, int num, mjtSize szbuf, void\* buf, mjtSize\* ptrbuf\)\s*\{", "bufwrite")[0], T_BUFWRITE)
    expect_exact("bufread", body(r"static\s+void\s+bufread\s*\(void\* dest, int num, mjtSize szbuf, const void\* buf, mjtSize\* ptrbuf\)\s*\{", "bufread")[0], T_BUFREAD)
    align = int(expect_re("SKIP", body(r"static\s+inline\s+unsigned\s+int\s+SKIP\s*\(intptr_t offset\)\s*\{", "SKIP")[0], T_SKIP).group(1))
    expect_exact("getnsize", body(r"static\s+int\s+getnsize\s*\(void\)\s*\{", "getnsize")[0], T_GETNSIZE)
    expect_exact("getnptr", body(r"static\s+int\s+getnptr\s*\(void\)\s*\{", "getnptr")[0], T_GETNPTR)
    b, m = body(r"static\s+mjtSize\s+safeAddToBufferSize\s*\(([^)]*)\)\s*\{", "safeAddToBufferSize")
    expect_exact("safeAddToBufferSize parameters", norm(m.group(1)), T_SAFEADD_SIG)
    expect_exact("safeAddToBufferSize", b, T_SAFEADD)
    expect_exact("mj_setPtrModel", body(r"static\s+void\s+mj_setPtrModel\s*\(mjModel\* m\)\s*\{", "mj_setPtrModel")[0], T_SETPTR)
    expect_exact("mj_deleteModel", body(r"\nvoid\s+mj_deleteModel\s*\(mjModel\* m\)\s*\{", "mj_deleteModel")[0], T_DELETE)
    expect_exact("freeModelBuffers", body(r"static\s+void\s+freeModelBuffers\s*\(mjModel\* m\)\s*\{", "freeModelBuffers")[0], T_FREEBUF)
    m = re.search(r"\nstatic const int ID = (\d+);", io)
    if not m:
        raise Refuse("`static const int ID = <n>;` not found")
    ident = int(m.group(1))
    m = re.search(r"\n#define NHEADER (\d+)\s", io)
    if not m or int(m.group(1)) != 5:
        raise Refuse("`#define NHEADER 5` not found")
    m = re.search(r"\nstatic const int MAX_ARRAY_SIZE = (\w+);", io)
    if not m or m.group(1) != "INT_MAX":
        raise Refuse("`static const int MAX_ARRAY_SIZE = INT_MAX;` not found")
    if not re.search(r"#define MJMODEL_MEMBER\(name\) \(\(\(mjModel\*\) NULL\)->name\)", io):
        raise Refuse("MJMODEL_MEMBER macro changed")

    # --- mj_version
    sup = read("src/engine/engine_support.c")
    mv = re.search(r"\n\s*#define mjVERSION (\d+)\s", sup)
    bv, _ = function_body(sup, r"\nint\s+mj_version\s*\(void\)\s*\{", "mj_version")
    if not mv or norm(bv) != "return mjVERSION ;":
        raise Refuse("mj_version is not `return mjVERSION;` with an integer `#define mjVERSION`")
    version = int(mv.group(1))

    # --- save / size / load
    expect_exact("mj_saveModel", body(r"\nvoid\s+mj_saveModel\s*\(const mjModel\* m, const char\* filename, void\* buffer, int buffer_sz\)\s*\{", "mj_saveModel")[0], T_SAVE)
    expect_exact("mj_sizeModel", body(r"\nmjtSize\s+mj_sizeModel\s*\(const mjModel\* m\)\s*\{", "mj_sizeModel")[0], T_SIZE)
    lb = body(r"\nmjModel\*\s+mj_loadModelBuffer\s*\(const void\* buffer, int buffer_sz\)\s*\{", "mj_loadModelBuffer")[0]
    mm = expect_re("mj_loadModelBuffer", lb, re.escape(T_LOAD_A) + r"((?:sizes \[ \d+ \] , )*sizes \[ \d+ \])" + re.escape(T_LOAD_B))
    call_args = [int(x) for x in re.findall(r"sizes \[ (\d+) \]", mm.group(1))]

    # --- mj_makeModel
    mb, mh = body(r"\nvoid\s+mj_makeModel\s*\(([^)]*)\)\s*\{", "mj_makeModel")
    params = [p.strip() for p in " ".join(mh.group(1).split()).split(",")]
    if params[0] != "mjModel** dest":
        raise Refuse("mj_makeModel: first parameter is not `mjModel** dest`")
    make_params = []
    for p in params[1:]:
        m = re.fullmatch(r"mjtSize (\w+)", p)
        if not m:
            raise Refuse("mj_makeModel: parameter not of the form `mjtSize name`: %r" % p)
        make_params.append(m.group(1))
    nargs = len(make_params)
    rx = (re.escape("intptr_t offset = 0 ; int allocate = * dest ? 0 : 1 ; mjModel * m = NULL ; { ") +
          r"(?P<dummies>(?:int \w+ = 0(?: , \w+ = 0)* ; )+)" +
          re.escape('# define X ( name ) \\ if ( name < 0 ) { \\ mju_warning ( "Invalid model: %s is negative (%lld)." , # name , ( long long ) name ) ; \\ return ; \\ } \\ '
                    'if ( name >= MAX_ARRAY_SIZE && \\ ') +
          r'(?P<exempt>strcmp \( # name , "\w+" \) != 0(?: && strcmp \( # name , "\w+" \) != 0)*)' +
          re.escape(' ) { \\ mju_warning ( "Invalid model: %s is too large. Expected < %d. Got %lld." , \\ # name , MAX_ARRAY_SIZE , ( long long ) name ) ; \\ return ; \\ } '
                    'MJMODEL_SIZES # undef X ') +
          r"(?P<voids>(?:\( void \) \w+ ; )+)" +
          re.escape('} if ( nbody == 0 ) { mju_warning ( "Invalid model: nbody == 0" ) ; return ; } '
                    'if ( ! allocate ) { m = * dest ; freeModelBuffers ( m ) ; } else { m = ( mjModel * ) mju_malloc ( sizeof ( mjModel ) ) ; } '
                    'if ( ! m ) { mjERROR ( "could not allocate mjModel" ) ; } memset ( m , 0 , sizeof ( mjModel ) ) ; ') +
          r"(?P<assign1>(?:m -> \w+ = \w+ ; )+)" +
          r"long nnames_map = \( long \) (?P<terms>\w+(?: \+ \w+)*) ; " +
          re.escape('if ( nnames_map >= INT_MAX / mjLOAD_MULTIPLE ) { if ( allocate ) mju_free ( m ) ; '
                    'mju_warning ( "Invalid model: size of nnames_map is larger than INT_MAX" ) ; return ; } '
                    'm -> nnames_map = mjLOAD_MULTIPLE * nnames_map ; ') +
          r"(?P<assign2>(?:m -> \w+ = \w+ ; )*)" +
          re.escape('m -> nbuffer = 0 ; # define X ( type , name , nr , nc ) \\ '
                    'if ( ! safeAddToBufferSize ( & offset , & m -> nbuffer , sizeof ( type ) , m -> nr , nc ) ) { \\ '
                    'if ( allocate ) mju_free ( m ) ; \\ mju_warning ( "Invalid model: " # name " too large." ) ; \\ return ; \\ } '
                    'MJMODEL_POINTERS # undef X m -> buffer = mju_malloc ( m -> nbuffer ) ; '
                    'if ( ! m -> buffer ) { if ( allocate ) mju_free ( m ) ; mjERROR ( "could not allocate mjModel buffer" ) ; } '
                    'memset ( m -> buffer , 0 , m -> nbuffer ) ; # ifdef MEMORY_SANITIZER __msan_allocated_memory ( m -> buffer , m -> nbuffer ) ; # endif '
                    'mj_setPtrModel ( m ) ; mj_defaultOption ( & m -> opt ) ; mj_defaultVisual ( & m -> vis ) ; mj_defaultStatistic ( & m -> stat ) ; '
                    'if ( allocate ) { * dest = m ; }'))
    mk = expect_re("mj_makeModel", mb, rx)
    dummies = re.findall(r"(\w+) = 0", mk.group("dummies"))
    voids = re.findall(r"\( void \) (\w+) ;", mk.group("voids"))
    exempt = re.findall(r'"(\w+)"', mk.group("exempt"))
    assigns = re.findall(r"m -> (\w+) = (\w+) ;", mk.group("assign1") + mk.group("assign2"))
    terms = mk.group("terms").split(" + ")
    # the X loop of checks must see every MJMODEL_SIZES name either as a parameter or as a zero dummy
    if set(dummies) | set(make_params) != set(sizes) or set(dummies) & set(make_params):
        raise Refuse("mj_makeModel: parameters + dummy locals are not exactly MJMODEL_SIZES: missing %s, extra %s"
                     % (sorted(set(sizes) - set(dummies) - set(make_params)), sorted((set(dummies) | set(make_params)) - set(sizes))))
    for e in exempt:
        if e not in sizes:
            raise Refuse("mj_makeModel: exempted name %s is not a model size" % e)
    for t in terms:
        if t not in make_params:
            raise Refuse("mj_makeModel: nnames_map term %s is not a parameter" % t)
    if "nnames_map" not in sizes or "nbody" not in make_params or sizes[-1] != "nbuffer":
        raise Refuse("nnames_map / nbody / trailing nbuffer not found in MJMODEL_SIZES")
    # every MJ_M size and every nr that the allocation loop reads must be set before the loop
    assigned = {a for a, _ in assigns} | {"nnames_map"}
    for p in ptrs:
        if p["nr"] not in assigned:
            raise Refuse("mj_makeModel: m->%s (nr of %s) is not assigned before the allocation loop" % (p["nr"], p["name"]))
        if p["ncS"] is not None and p["ncS"] not in make_params:
            raise Refuse("nc of %s uses %s which is not a mj_makeModel parameter (the allocation loop reads the parameter)" % (p["name"], p["ncS"]))

    # --- mj_validateReferences
    vb = body(r"\nconst\s+char\*\s+mj_validateReferences\s*\(const mjModel\* m\)\s*\{", "mj_validateReferences")[0]
    mt = re.match(r"# define MJMODEL_REFERENCES \\ ((?:X \( [^()]* \) \\? ?)+)", vb)
    if not mt:
        raise Refuse("mj_validateReferences: MJMODEL_REFERENCES table not found at the start of the body")
    rows = []
    for r in re.finditer(r"X \( ([^()]*) \)", mt.group(1)):
        a = [x.strip() for x in r.group(1).split(",")]
        if len(a) != 4:
            raise Refuse("MJMODEL_REFERENCES: row does not have 4 arguments: %r" % r.group(0))
        adr, nadrs, ntarget, num = a
        mn = re.fullmatch(r"(\w+)(?: \* (\d+))?", nadrs)
        if not mn or mn.group(1) not in sizes:
            raise Refuse("MJMODEL_REFERENCES: nadrs of %s not `size` or `size*k`: %r" % (adr, nadrs))
        if ntarget not in sizes:
            raise Refuse("MJMODEL_REFERENCES: ntarget of %s is not a model size: %r" % (adr, ntarget))
        if num == "0":
            numarr, numtext = None, "0"
        else:
            mq = re.fullmatch(r"m -> (\w+)", num)
            if not mq:
                raise Refuse("MJMODEL_REFERENCES: numarray of %s not `0` or `m->name`: %r" % (adr, num))
            numarr, numtext = mq.group(1), "m->" + mq.group(1)
        rows.append({"name": adr, "nadrS": mn.group(1), "nadrK": int(mn.group(2) or 1), "target": ntarget,
                     "num": numarr, "numText": numtext})
    rest = vb[mt.end():]
    if not rest.startswith(T_REFX):
        expect_exact("mj_validateReferences: X loop body", rest[:len(T_REFX)], T_REFX)
    special = rest[len(T_REFX):]
    by_name = {p["name"]: i for i, p in enumerate(ptrs)}
    for r in rows:
        for k in ("name", "num"):
            if r[k] is not None:
                if r[k] not in by_name:
                    raise Refuse("MJMODEL_REFERENCES: %s is not in MJMODEL_POINTERS" % r[k])
                if ptrs[by_name[r[k]]]["type"] != "int":
                    raise Refuse("MJMODEL_REFERENCES: %s is not an int array (the X loop reads `int`)" % r[k])
    if "--print-special" in sys.argv:
        import textwrap
        sys.stdout.write("\n".join(textwrap.wrap(" ".join(special.split()), 150, break_long_words=False, break_on_hyphens=False)) + "\n")
        sys.exit(0)
    if not os.path.exists(SPECIAL_TEMPLATE):
        raise Refuse("missing %s" % SPECIAL_TEMPLATE)
    # (the template file is wrapped for readability: compared modulo whitespace, like everything else here)
    expect_exact("mj_validateReferences: special logic (hand-modelled in Model/Mjb.lean `Special.run`)", " ".join(special.split()),
                 " ".join(open(SPECIAL_TEMPLATE).read().split()))

    # --- sensorSize / numObjects / nPOS / nVEL
    sb, sh = body(r"static\s+int\s+sensorSize\s*\(mjtSensor sensor_type, int sensor_dim\)\s*\{", "sensorSize")
    scases, sdef = parse_switch(sb, "sensorSize", "sensor_type", r"- ?\d+|\d+|sensor_dim")
    if sdef != "-1":
        raise Refuse("sensorSize: fall-through return is not -1")
    ob, oh = body(r"static\s+int\s+numObjects\s*\(const mjModel\* m, mjtObj objtype\)\s*\{", "numObjects")
    ocases, odef = parse_switch(ob, "numObjects", "objtype", r"- ?\d+|m -> \w+")
    if odef != "-2":
        raise Refuse("numObjects: fall-through return is not -2")
    npos = re.search(r"\nconst int nPOS\[4\] = \{(\d+), (\d+), (\d+), (\d+)\};", io)
    nvel = re.search(r"\nconst int nVEL\[4\] = \{(\d+), (\d+), (\d+), (\d+)\};", io)
    if not npos or not nvel:
        raise Refuse("nPOS/nVEL tables not found")
    enums = set(SPECIAL_ENUMS)
    for ls, _ in scases + ocases:
        enums |= set(ls)

    pr = probe(wd, types | {"int", "mjtSize", "mjtNum", "mjtBool", "mjOption", "mjVisual", "mjStatistic"}, consts, enums, sizes)
    for s in sizes:
        w, is_size = pr["size:" + s]
        if not is_size or w != pr["sizeof:mjtSize"]:
            raise Refuse("model size %s is not of type mjtSize (getnsize would not count it)" % s)
    if pr["mjVERSION_HEADER"] != version:
        raise Refuse("mjVERSION (%d) differs from mjVERSION_HEADER (%d)" % (version, pr["mjVERSION_HEADER"]))
    hio = read("src/engine/engine_io.h")
    if not re.search(r"\n#define mjLOAD_MULTIPLE %d\s" % pr["mjLOAD_MULTIPLE"], hio):
        raise Refuse("mjLOAD_MULTIPLE not found in engine_io.h")
    for p in ptrs:
        p["esz"] = pr["sizeof:" + p["type"]]
        if isinstance(p["ncK"], tuple):
            p["ncK"] = pr[p["ncK"][1]]
        if p["ncK"] < 0 or p["esz"] <= 0:
            raise Refuse("pointer %s: negative nc constant / zero element size" % p["name"])
    if pr["sizeof:int"] != 4 or pr["sizeof:mjtSize"] != 8:
        raise Refuse("sizeof(int)/sizeof(mjtSize) are not 4/8 (Model/Mjb.lean decodes reference entries as 4-byte ints)")
    if len(sizes) > 256:
        raise Refuse("more than 256 sizes: `mjtSize sizes[256]` in the loader would overflow")

    sens = []
    for ls, e in scases:
        for l in ls:
            sens.append((l, pr[l], e))
    objs = []
    for ls, e in ocases:
        for l in ls:
            if e == "-2":
                continue
            if e == "-1":
                objs.append((l, pr[l], None))
            else:
                nm = re.fullmatch(r"m->(\w+)", e).group(1)
                if nm not in sizes:
                    raise Refuse("numObjects: %s is not a model size" % nm)
                objs.append((l, pr[l], nm))
    info = {
        "repo": REPO,
        "header": [ident, pr["sizeof:mjtNum"], len(sizes), version, len(ptrs)],
        "headerMsgs": HEADER_MSGS,
        "intSz": pr["sizeof:int"], "sizeSz": pr["sizeof:mjtSize"],
        "sizes": sizes, "nargs": nargs, "makeParams": make_params, "loadCallArgs": call_args,
        "makeAssigns": assigns, "dummies": dummies, "voids": voids,
        "exempt": exempt, "maxArray": pr["INT_MAX"], "intMax": pr["INT_MAX"], "int64Max": pr["INT64_MAX"],
        "mapTerms": terms, "mapMul": pr["mjLOAD_MULTIPLE"], "align": align,
        "blobs": [[n, pr["sizeof:" + t]] for n, t, _ in BLOBS],
        "ptrs": ptrs, "refs": rows,
        "nPOS": [int(x) for x in npos.groups()], "nVEL": [int(x) for x in nvel.groups()],
        "enums": {e: pr[e] for e in sorted(enums)},
        "sensorSize": sens, "numObjects": objs, "preamble": pre_names,
    }
    return info


# ------------------------------------------------------------------------------------------ Lean emission
def lstr(s):
    return '"' + s.replace("\\", "\\\\").replace('"', '\\"') + '"'


def chunks(items, n=40):
    return [items[i:i + n] for i in range(0, len(items), n)]


def emit_lean(info):
    ns = len(info["sizes"])
    sidx = {n: i for i, n in enumerate(info["sizes"])}
    pidx = {p["name"]: i for i, p in enumerate(info["ptrs"])}
    E = info["enums"]
    o = []
    A = o.append
    A("/- GENERATED by translate/c31_layout.py from %s — do not edit.\n" % "the source tree (mjxmacro.h, engine_io.c, probe)")
    A("   Layout of the binary model file (MJB) and the tables of mj_makeModel / mj_validateReferences. -/")
    A("import MjProof.Model.Mjb")
    A("namespace MjProof.Gen.MjbLayout")
    A("open MjProof.Mjb")
    A("")
    A("/-- number of `mjtSize` members of mjModel (`getnsize()`) -/")
    A("abbrev NS : Nat := %d" % ns)
    A("abbrev sz (i : Nat) (h : i < NS := by decide) : Fin NS := ⟨i, h⟩")
    A("")
    A("def sizeNames : List String := [%s]" % ", ".join(lstr(s) for s in info["sizes"]))
    A("")
    A("/-- positional `mjtSize` parameters of `mj_makeModel`, in declaration order -/")
    A("def makeParams : List String := [%s]" % ", ".join(lstr(s) for s in info["makeParams"]))
    A("")
    A("/-- the indices `k` of the arguments `sizes[k]` in the loader's call of `mj_makeModel`, in call order -/")
    A("def loadCallArgs : List Nat := [%s]" % ", ".join(str(k) for k in info["loadCallArgs"]))
    A("")
    A("/-- the assignments `m->field = parameter;` of `mj_makeModel` -/")
    A("def makeAssigns : List (String × String) := [%s]" % ", ".join("(%s, %s)" % (lstr(a), lstr(b)) for a, b in info["makeAssigns"]))
    A("")
    A("/-- names of `MJMODEL_SIZES` that are zero-valued dummy locals in the check loop of `mj_makeModel` -/")
    A("def makeDummies : List String := [%s]" % ", ".join(lstr(s) for s in info["dummies"]))
    A("")
    names = []
    for ci, ch in enumerate(chunks(info["ptrs"])):
        nm = "ptrs%d" % ci
        names.append(nm)
        A("def %s : List (Ptr NS) := [" % nm)
        rows = []
        for p in ch:
            rows.append("  { name := %s, esz := %d, nr := sz %d, ncK := %d, ncS := %s }" % (
                lstr(p["name"]), p["esz"], sidx[p["nr"]], p["ncK"],
                "none" if p["ncS"] is None else "some (sz %d)" % sidx[p["ncS"]]))
        A(",\n".join(rows) + "]")
        A("")
    A("def ptrs : List (Ptr NS) := %s" % " ++ ".join(names))
    A("")
    names = []
    for ci, ch in enumerate(chunks(info["refs"])):
        nm = "refs%d" % ci
        names.append(nm)
        A("def %s : List (Ref NS) := [" % nm)
        rows = []
        for r in ch:
            rows.append("  { name := %s, arr := %d, nadrS := sz %d, nadrK := %d, target := sz %d, num := %s, numText := %s }" % (
                lstr(r["name"]), pidx[r["name"]], sidx[r["nadrS"]], r["nadrK"], sidx[r["target"]],
                "none" if r["num"] is None else "some %d" % pidx[r["num"]], lstr(r["numText"])))
        A(",\n".join(rows) + "]")
        A("")
    A("def refs : List (Ref NS) := %s" % " ++ ".join(names))
    A("")
    A("def layout : Layout NS where")
    A("  header := [%s]" % ", ".join(str(h) for h in info["header"]))
    A("  headerMsgs := [%s]" % ", ".join(lstr(s) for s in info["headerMsgs"]))
    A("  intSz := %d" % info["intSz"])
    A("  sizeSz := %d" % info["sizeSz"])
    A("  sizeNames := sizeNames")
    A("  nargs := %d" % info["nargs"])
    A("  exemptMax := [%s]" % ", ".join(str(sidx[e]) for e in info["exempt"]))
    A("  maxArray := %d" % info["maxArray"])
    A("  intMax := %d" % info["intMax"])
    A("  nbody := sz %d" % sidx["nbody"])
    A("  mapIdx := sz %d" % sidx["nnames_map"])
    A("  mapTerms := [%s]" % ", ".join("sz %d" % sidx[t] for t in info["mapTerms"]))
    A("  mapMul := %d" % info["mapMul"])
    A("  nbuffer := sz %d" % sidx["nbuffer"])
    A("  blobs := [%s]" % ", ".join("(%s, %d)" % (lstr(n), k) for n, k in info["blobs"]))
    A("  ptrs := ptrs")
    A("  refs := refs")
    A("  align := %d" % info["align"])
    A("")
    A("def special : Special where")
    A("  nPOS := [%s]" % ", ".join(map(str, info["nPOS"])))
    A("  nVEL := [%s]" % ", ".join(map(str, info["nVEL"])))
    for f, e in (("geomHFIELD", "mjGEOM_HFIELD"), ("geomMESH", "mjGEOM_MESH"), ("geomSDF", "mjGEOM_SDF"), ("eqJOINT", "mjEQ_JOINT"),
                 ("eqTENDON", "mjEQ_TENDON"), ("eqWELD", "mjEQ_WELD"), ("eqCONNECT", "mjEQ_CONNECT"), ("objBODY", "mjOBJ_BODY"),
                 ("objSITE", "mjOBJ_SITE"), ("wrapJOINT", "mjWRAP_JOINT"), ("wrapSITE", "mjWRAP_SITE"), ("trnTENDON", "mjTRN_TENDON"),
                 ("trnSITE", "mjTRN_SITE"), ("trnSLIDERCRANK", "mjTRN_SLIDERCRANK"), ("trnBODY", "mjTRN_BODY"), ("trnSO3", "mjTRN_SO3"),
                 ("sensPLUGIN", "mjSENS_PLUGIN"), ("sensTACTILE", "mjSENS_TACTILE")):
        A("  %s := %d  -- %s" % (f, E[e], e))
    A("  eqFLEX := [%d, %d, %d]" % (E["mjEQ_FLEX"], E["mjEQ_FLEXVERT"], E["mjEQ_FLEXSTRAIN"]))
    A("  wrapGEOM := [%d, %d]" % (E["mjWRAP_SPHERE"], E["mjWRAP_CYLINDER"]))
    A("  trnJOINT := [%d, %d]" % (E["mjTRN_JOINT"], E["mjTRN_JOINTINPARENT"]))
    A("  sensorSize := [%s]" % ", ".join("(%d, %s)" % (v, ".dim" if e == "sensor_dim" else ".const (%s)" % e) for _, v, e in info["sensorSize"]))
    A("  numObjects := [%s]" % ", ".join("(%d, %s)" % (v, ".minus1" if n is None else ".size %s" % lstr(n)) for _, v, n in info["numObjects"]))
    A("  int64Max := %d" % info["int64Max"])
    A("")
    A("end MjProof.Gen.MjbLayout")
    return "\n".join(o) + "\n"


def main():
    out_dir = os.path.join(VERIF, "lean", "MjProof", "Gen")
    if "--out" in sys.argv:
        out_dir = sys.argv[sys.argv.index("--out") + 1]
    try:
        info = translate()
        lean = emit_lean(info)
    except Refuse as e:
        sys.stderr.write("c31_layout: REFUSED: %s\n" % e)
        sys.exit(3)
    if "--stdout" in sys.argv:
        sys.stdout.write(lean)
        return
    os.makedirs(out_dir, exist_ok=True)
    for name, text in (("MjbLayout.lean", lean), ("MjbLayout.json", json.dumps(info, indent=1) + "\n")):
        p = os.path.join(out_dir, name)
        if not os.path.exists(p) or open(p).read() != text:
            tmp = p + ".%d.tmp" % os.getpid()
            with open(tmp, "w") as f:
                f.write(text)
            os.replace(tmp, p)
    print("c31_layout: %d sizes (%d parameters), %d pointers, %d reference rows, header %s"
          % (len(info["sizes"]), info["nargs"], len(info["ptrs"]), len(info["refs"]), info["header"]))


if __name__ == "__main__":
    main()
