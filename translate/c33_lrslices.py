"""C33: extracts the work partition of the threaded branch of mjCModel::LengthRange (src/user/user_model.cc) from the source
of the tree on every run, as integer expressions over  n = m->nactuator, cnt (actuators that need a computation),
nthread, i (worker), num:

  num_init     `int num = <expr>;`
  loop_cond    `while (<cond>) { num++; }`  (optional)
  start, len   3rd and 4th initialiser of `LRThreadArg temp = {m, pdata[i], <start>, <len>, ...}`
  visit        LRfunc: `for (int i = larg->start; i < larg->start + larg->num; i++) { if (i < larg->m->nactuator) ...`
  serial_cond  the condition of the single-thread branch

slices(ex, n, cnt, nthread) evaluates them: the list of actuator indices each worker passes to mj_setLengthRange.
Anything that does not have the expected shape raises ExtractError (a tie failure, not a violation).
"""
import os
import re

from .c33_copyorder import ExtractError, _body, _strip_comments

_OK = re.compile(r"^[\sA-Za-z_0-9+\-*/()<>=!&|]*$")
_VARS = {"n", "cnt", "nthread", "i", "num", "k", "start", "usethread"}


def _expr(c):
    """C integer expression -> Python expression over the allowed variables"""
    e = c.strip()
    e = re.sub(r"\b(?:larg->)?m->nactuator\b", "n", e)
    e = re.sub(r"\blarg->start\b", "start", e)
    e = re.sub(r"\blarg->num\b", "num", e)
    e = re.sub(r"\bcompiler\.usethread\b", "usethread", e)
    e = e.replace("||", " or ").replace("&&", " and ")
    e = re.sub(r"!(?!=)", " not ", e)
    e = re.sub(r"(?<![/])/(?![/])", "//", e)
    if not _OK.match(e):
        raise ExtractError("unexpected characters in expression: " + c)
    for ident in re.findall(r"[A-Za-z_]\w*", e):
        if ident not in _VARS and ident not in ("or", "and", "not"):
            raise ExtractError("unexpected identifier %s in expression: %s" % (ident, c))
    e = " ".join(e.split())
    compile(e, "<c33_lrslices>", "eval")
    return e


def extract(repo):
    um = _strip_comments(open(os.path.join(repo, "src/user/user_model.cc")).read())
    lr = _body(um, r"void\s+mjCModel::LengthRange\s*\([^)]*\)\s*\{", "mjCModel::LengthRange")
    m = re.search(r"\bint\s+num\s*=\s*([^;]+);", lr)
    if not m:
        raise ExtractError("LengthRange: `int num = ...;` not found")
    out = {"num_init": _expr(m.group(1)), "c_num_init": " ".join(m.group(1).split())}
    rest = lr[m.end():]
    w = re.match(r"\s*while\s*\((.*?)\)\s*\{\s*num\+\+\s*;\s*\}", rest, re.S)
    out["loop_cond"] = _expr(w.group(1)) if w else None
    if not w and re.match(r"\s*(while|for|do)\b", rest):
        raise ExtractError("LengthRange: loop after `int num` has an unexpected shape")
    a = re.search(r"LRThreadArg\s+\w+\s*=\s*\{([^}]*)\}", lr)
    if not a:
        raise ExtractError("LengthRange: LRThreadArg initialiser not found")
    parts = [x.strip() for x in a.group(1).split(",")]
    if len(parts) < 4:
        raise ExtractError("LengthRange: LRThreadArg initialiser has %d fields" % len(parts))
    out["start"], out["len"] = _expr(parts[2]), _expr(parts[3])
    if not re.search(r"for\s*\(\s*int\s+i\s*=\s*0\s*;\s*i\s*<\s*nthread\s*;\s*i\+\+\s*\)\s*\{\s*LRThreadArg", lr):
        raise ExtractError("LengthRange: the LRThreadArg loop is not `for (int i = 0; i < nthread; i++)`")
    s = re.search(r"if\s*\(\s*(!\s*compiler\.usethread[^{]*?)\)\s*\{", lr)
    if not s:
        raise ExtractError("LengthRange: single-thread condition not found")
    out["serial_cond"] = _expr(s.group(1))
    fn = _body(um, r"void\s*\*\s*LRfunc\s*\(\s*void\s*\*\s*\w+\s*\)\s*\{", "LRfunc")
    f = re.search(r"for\s*\(\s*int\s+i\s*=\s*([^;]+);\s*i\s*<\s*([^;]+);\s*i\+\+\s*\)\s*\{\s*(?:if\s*\(\s*(i\s*<[^)]*)\)\s*\{)?\s*"
                  r"if\s*\(\s*!\s*mj_setLengthRange\(\s*larg->m\s*,\s*larg->data\s*,\s*i\s*,", fn)
    if not f:
        raise ExtractError("LRfunc: loop over the slice has an unexpected shape")
    out["visit_from"], out["visit_to"] = _expr(f.group(1)), _expr(f.group(2))
    out["visit_guard"] = _expr(f.group(3).replace("i", "k", 1)) if f.group(3) else None
    return out


def slices(ex, n, cnt, nthread):
    env = {"n": n, "cnt": cnt, "nthread": nthread}
    num = eval(ex["num_init"], {"__builtins__": {}}, env)
    it = 0
    while ex["loop_cond"] and eval(ex["loop_cond"], {"__builtins__": {}}, dict(env, num=num)):
        num += 1
        it += 1
        if it > 100000:
            raise ExtractError("num loop does not terminate for n=%d cnt=%d nthread=%d" % (n, cnt, nthread))
    res = []
    for i in range(nthread):
        e = dict(env, num=num, i=i)
        start, ln = eval(ex["start"], {"__builtins__": {}}, e), eval(ex["len"], {"__builtins__": {}}, e)
        e2 = dict(env, start=start, num=ln)
        lo, hi = eval(ex["visit_from"], {"__builtins__": {}}, e2), eval(ex["visit_to"], {"__builtins__": {}}, e2)
        res.append([k for k in range(lo, hi)
                    if ex["visit_guard"] is None or eval(ex["visit_guard"], {"__builtins__": {}}, dict(env, k=k))])
    return num, res


def serial(ex, usethread, cnt, nthread):
    return bool(eval(ex["serial_cond"], {"__builtins__": {}}, {"usethread": usethread, "cnt": cnt, "nthread": nthread}))


if __name__ == "__main__":
    import json
    import sys
    ex = extract(sys.argv[1] if len(sys.argv) > 1 else os.environ.get("VERIF_REPO", "/repo"))
    print(json.dumps(ex, indent=1))
    print(slices(ex, 6, 2, 2), slices(ex, 7, 7, 3), serial(ex, 1, 2, 2), serial(ex, 0, 5, 4))
