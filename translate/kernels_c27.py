"""C27 kernels: scalar force laws of the actuation stage (engine_util_misc.c) and the file-static scalar helpers
of mj_fwdActuation (engine_forward.c).  mj_fwdActuation itself reads through mjModel* / mjData* and is
hand-modelled per actuator in lean/MjProof/Model/Actuation.lean on top of these kernels."""
MISC = "src/engine/engine_util_misc.c"
FWD = "src/engine/engine_forward.c"
KERNELS = [
    {"name": "mju_clip", "file": MISC},
    {"name": "mju_max", "file": MISC},
    {"name": "mju_min", "file": MISC},
    {"name": "mju_sign", "file": MISC},
    {"name": "mju_sigmoid", "file": MISC},
    {"name": "mju_muscleGainLength", "file": MISC},
    {"name": "mju_muscleGain", "file": MISC},
    {"name": "mju_muscleBias", "file": MISC},
    {"name": "mju_muscleDynamicsTimescale", "file": MISC},
    {"name": "mju_muscleDynamics", "file": MISC},
    # wrapSetpoint / slewLimit (engine_forward.c, static) are refused by c2lean: mju_round casts double -> int
]
INLINE_FILES = [MISC, FWD]
