"""C08 kernels: the scalar spring law and the spring potential as coded (engine_util_misc.c), specialised to
n = mjNPOLY = 2 (checked against the header by checks/c08.py) and flg_odd = 0 (springs).  Own Lean names so
that Props/C08.lean does not depend on another property's kernel list:
  c08_polyForce      force coefficient:  qfrc_spring = -x * mju_polyForce(stiffness, poly, x, 2, 0)   (mj_passive)
  c08_polyPotential  potential:          energy[0] += mju_polyPotential(stiffness, poly, x, 2, 0)     (mj_energyPos)
"""
MISC = "src/engine/engine_util_misc.c"
KERNELS = [
    {"name": "mju_polyForce", "file": MISC, "fix": {"n": 2, "flg_odd": 0}, "lean": "c08_polyForce"},
    {"name": "mju_polyPotential", "file": MISC, "fix": {"n": 2, "flg_odd": 0}, "lean": "c08_polyPotential"},
]
INLINE_FILES = [MISC]
