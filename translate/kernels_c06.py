"""C06 kernels: the `static inline` mji_* copies (src/engine/engine_inline.h) of the spatial cross products and the
6D dot product that mj_rne / mj_comVel / mj_crb actually call on the hot path.  Only inline copies that no other
translated kernel calls are listed here (listing e.g. mji_mulQuat would turn the inlined body inside mju_mulPose
into a call and change the shape other properties' proofs rely on); Props/C06 proves mji_* = mju_* for them."""
INL = "src/engine/engine_inline.h"
KERNELS = [
    {"name": "mji_crossMotion", "file": INL, "static": True},
    {"name": "mji_crossForce", "file": INL, "static": True},
    {"name": "mji_dot6", "file": INL, "static": True},
]
INLINE_FILES = [INL]
