#!/usr/bin/env python3
"""C05 translator: regenerates lean/MjProof/Gen/C05DTerms.lean (+ c05_dterms_manifest.json) from the source tree.

What enters the matrix D of the implicit integrators is decided by the CONTROL FLOW of a few small functions:

  src/engine/engine_forward.c      mj_implicitSkip   mjd_smooth_vel(m, d, 1) under mjINT_IMPLICIT,
                                                     mjd_smooth_vel(m, d, 0) under mjINT_IMPLICITFAST
  src/engine/engine_derivative.c   mjd_smooth_vel    calls mjd_actuator_vel, mjd_passive_vel, if (flg_bias) mjd_rne_vel
                                   mjd_actuator_vel  early return on mjDISABLED(mjDSBL_ACTUATION), then J'BJ on actuator_moment
                                   mjd_passive_vel   early returns on the spring / damper disable flags between the
                                                     fluid, dof-damping, flex-edge and tendon-damping blocks
  src/engine/engine_passive.c      mj_passive        early return (spring and damper disabled), then mj_springdamper,
                                                     mj_gravcomp, mj_fluid, mj_contactPassive, mj_adhesion
                                   mj_fluid          mj_ellipsoidFluidModel / mj_inertiaBoxFluidModel

For each of them the body is split into its TOP-LEVEL statements (comments and strings removed, brace / parenthesis
matching) and every statement is classified:

  retIf  <dnf>     `if (<c>) { return; }` where <c> is built from mjDISABLED(mjDSBL_SPRING|DAMPER|ACTUATION) with && and ||
  adds   <marks>   any other statement; <marks> = the term markers (table MARKS: regular expressions on the statement text)
                   it contains, in source order; statements without markers are dropped.  Such a statement must not
                   mention a disable flag and must not contain `return` (otherwise REFUSED: unknown gating)
  addsIfBias <marks>   `if (flg_bias) { ... }`
  a leading `if (<model-constant test>) { return 0; }` (mj_fluid: no medium) and a trailing `return <expr>;` are accepted
  and dropped (they do not depend on the option flags).

The statement lists are emitted as Lean data; lean/MjProof/Model/Integrate.lean INTERPRETS them (`runShape`) and
Props/C05.lean proves, about exactly these lists, that for every flag combination the implicit integrators' D holds the
derivative of every velocity-dependent smooth force term that the forward pass applies.  Nothing is hard-coded: a moved
early return or a dropped block gives a different list and the proofs are re-checked.
On refusal a stub with empty tables is written (so no stale table can be used) and the reason is recorded in the
manifest; exit status 3.
"""
import json
import os
import re
import sys

VERIF = os.path.dirname(os.path.dirname(os.path.abspath(__file__)))
REPO = os.environ.get("VERIF_REPO", "/repo")
OUT = os.path.join(VERIF, "lean", "MjProof", "Gen", "C05DTerms.lean")
MAN = os.path.join(VERIF, "lean", "MjProof", "Gen", "c05_dterms_manifest.json")

FWD = "src/engine/engine_forward.c"
DER = "src/engine/engine_derivative.c"
PAS = "src/engine/engine_passive.c"
FUNCS = [("mjd_smooth_vel", DER), ("mjd_actuator_vel", DER), ("mjd_passive_vel", DER), ("mj_passive", PAS), ("mj_fluid", PAS)]

# marker -> regular expression on the whitespace-free statement text
MARKS = [
    ("actuatorVelCall", r"\bmjd_actuator_vel\(m,d\)"),
    ("passiveVelCall", r"\bmjd_passive_vel\(m,d\)"),
    ("rneVelCall", r"\bmjd_rne_vel\(m,d\)"),
    ("actuatorMoment", r"\baddJTBJ(?:Sparse)?\(m,d,d->actuator_moment\b"),
    ("fluidEllipsoid", r"\bmjd_ellipsoidFluid\("),
    ("fluidBox", r"\bmjd_inertiaBoxFluid\("),
    ("dofDamper", r"d->qDeriv\[[^\]]*\]-=mjd_xPolyForce\("),
    ("flexEdgeDamper", r"\baddJTBJ(?:Sparse)?\(m,d,d->flexedge_J\b"),
    ("tendonDamper", r"\baddJTBJ(?:Sparse)?\(m,d,d->ten_J\b"),
    ("springdamperCall", r"\bmj_springdamper\(m,d\)"),
    ("gravcompCall", r"\bmj_gravcomp\(m,d\)"),
    ("fluidCall", r"\bmj_fluid\(m,d\)"),
    ("contactPassiveCall", r"\bmj_contactPassive\(m,d\)"),
    ("adhesionCall", r"\bmj_adhesion\(m,d\)"),
    ("fluidEllipsoidForce", r"\bmj_ellipsoidFluidModel\("),
    ("fluidBoxForce", r"\bmj_inertiaBoxFluidModel\("),
]
# markers every function must show exactly once (a renamed / removed block is a refusal, not a silent change)
REQUIRED = {
    "mjd_smooth_vel": ["actuatorVelCall", "passiveVelCall", "rneVelCall"],
    "mjd_actuator_vel": ["actuatorMoment"],
    "mjd_passive_vel": ["fluidEllipsoid", "fluidBox", "dofDamper", "flexEdgeDamper", "tendonDamper"],
    "mj_passive": ["springdamperCall", "gravcompCall", "fluidCall", "contactPassiveCall", "adhesionCall"],
    "mj_fluid": ["fluidEllipsoidForce", "fluidBoxForce"],
}
FLAGS = {"mjDSBL_SPRING": "spring", "mjDSBL_DAMPER": "damper", "mjDSBL_ACTUATION": "actuation"}


class Refuse(Exception):
    pass


def read(rel):
    p = os.path.join(REPO, rel)
    if not os.path.exists(p):
        raise Refuse("missing source file %s" % p)
    with open(p, encoding="utf-8", errors="replace") as f:
        return f.read()


def strip(src):
    """comments, string and character literals removed"""
    src = re.sub(r"/\*.*?\*/", " ", src, flags=re.S)
    src = re.sub(r"//[^\n]*", " ", src)
    src = re.sub(r'"(?:\\.|[^"\\])*"', '""', src)
    src = re.sub(r"'(?:\\.|[^'\\])*'", "' '", src)
    return src


def body_of(text, name):
    """text between the braces of the definition of `name` (definition = name( ... ) { at the start of a line's declaration)"""
    hits = [m for m in re.finditer(r"^[A-Za-z_][\w \t\*]*?\b%s\s*\(" % re.escape(name), text, re.M)]
    defs = []
    for m in hits:
        # matching ')' then '{' (a prototype ends in ';')
        i, d = m.end() - 1, 0
        while i < len(text):
            if text[i] == "(":
                d += 1
            elif text[i] == ")":
                d -= 1
                if d == 0:
                    break
            i += 1
        j = i + 1
        while j < len(text) and text[j] in " \t\r\n":
            j += 1
        if j < len(text) and text[j] == "{":
            defs.append(j)
    if len(defs) != 1:
        raise Refuse("%d definitions of %s found" % (len(defs), name))
    start = defs[0]
    d, i = 0, start
    while i < len(text):
        if text[i] == "{":
            d += 1
        elif text[i] == "}":
            d -= 1
            if d == 0:
                return text[start + 1:i]
        i += 1
    raise Refuse("unbalanced braces in %s" % name)


def split_top(body):
    """top-level statements of a function body"""
    out, cur, par, br = [], [], 0, 0
    i, n = 0, len(body)
    while i < n:
        c = body[i]
        cur.append(c)
        if c == "(":
            par += 1
        elif c == ")":
            par -= 1
        elif c == "{":
            br += 1
        elif c == "}":
            br -= 1
            if br < 0:
                raise Refuse("unbalanced braces")
            if br == 0 and par == 0:
                # compound statement ends here unless an `else` follows
                j = i + 1
                while j < n and body[j] in " \t\r\n":
                    j += 1
                if not re.match(r"else\b", body[j:j + 5]):
                    out.append("".join(cur))
                    cur = []
        elif c == ";" and par == 0 and br == 0:
            out.append("".join(cur))
            cur = []
        i += 1
    if "".join(cur).strip():
        raise Refuse("trailing text after the last statement: %r" % "".join(cur).strip()[:60])
    return [re.sub(r"\s+", "", s) for s in out if s.strip()]


ATOM = re.compile(r"mjDISABLED\((mjDSBL_[A-Z]+)\)")


def parse_dnf(cond):
    """condition built from mjDISABLED(mjDSBL_X) with && and || (and parentheses) -> DNF as list of lists of flag names"""
    toks = re.findall(r"mjDISABLED\(mjDSBL_[A-Z]+\)|&&|\|\||\(|\)|.", cond)
    pos = [0]

    def peek():
        return toks[pos[0]] if pos[0] < len(toks) else None

    def eat(t=None):
        x = peek()
        if x is None or (t is not None and x != t):
            raise Refuse("condition not understood: %s" % cond)
        pos[0] += 1
        return x

    def p_or():
        r = p_and()
        while peek() == "||":
            eat()
            r = r + p_and()
        return r

    def p_and():
        r = p_atom()
        while peek() == "&&":
            eat()
            s = p_atom()
            r = [a + b for a in r for b in s]
        return r

    def p_atom():
        x = eat()
        if x == "(":
            r = p_or()
            eat(")")
            return r
        m = ATOM.fullmatch(x)
        if not m or m.group(1) not in FLAGS:
            raise Refuse("condition not understood: %s" % cond)
        return [[FLAGS[m.group(1)]]]
    r = p_or()
    if peek() is not None:
        raise Refuse("condition not understood: %s" % cond)
    return [sorted(set(c)) for c in r]


def marks_in(stmt):
    found = []
    for name, rx in MARKS:
        for m in re.finditer(rx, stmt):
            found.append((m.start(), name))
    return [n for _, n in sorted(found)]


def classify(fname, stmts):
    out = []
    for k, s in enumerate(stmts):
        m = re.fullmatch(r"if\((.*)\)\{return;\}", s)
        if m and "mjDISABLED(" in m.group(1) and "{" not in m.group(1):
            out.append(("retIf", parse_dnf(m.group(1))))
            continue
        m = re.fullmatch(r"if\(flg_bias\)\{(.*)\}", s)
        if m:
            if "return" in m.group(1) or "mjDISABLED(" in m.group(1):
                raise Refuse("%s: unexpected content under if (flg_bias)" % fname)
            out.append(("addsIfBias", marks_in(m.group(1))))
            continue
        # flag-independent exits: `if (<no flags>) { return 0; }` as a statement of its own, trailing `return x;`
        if re.fullmatch(r"if\([^{}]*\)\{return0;\}", s) and "mjDISABLED(" not in s and "mjENABLED(" not in s:
            continue
        if k == len(stmts) - 1 and re.fullmatch(r"return\w*;", s):
            continue
        if re.search(r"\breturn\b", s):
            raise Refuse("%s: `return` in a statement that is not a recognised early exit: %s" % (fname, s[:80]))
        if "mjDISABLED(" in s:
            raise Refuse("%s: disable flag tested in a statement that is not a recognised early exit: %s" % (fname, s[:80]))
        ms = marks_in(s)
        if ms:
            out.append(("adds", ms))
    got = [x for kind, arg in out if kind != "retIf" for x in arg]
    for r in REQUIRED[fname]:
        if got.count(r) != 1:
            raise Refuse("%s: marker %s found %d times (expected once)" % (fname, r, got.count(r)))
    extra = [x for x in got if x not in REQUIRED[fname]]
    if extra:
        raise Refuse("%s: unexpected markers %s" % (fname, extra))
    return out


def flg_bias_of(text):
    """mj_implicitSkip: the constant passed to mjd_smooth_vel under each integrator test"""
    body = re.sub(r"\s+", "", body_of(text, "mj_implicitSkip"))
    res = {}
    for integ in ("mjINT_IMPLICIT", "mjINT_IMPLICITFAST"):
        ms = re.findall(r"if\(m->opt\.integrator==%s\)\{[^{}]*?mjd_smooth_vel\(m,d,([01])\);" % integ, body)
        if len(ms) != 1:
            raise Refuse("mj_implicitSkip: %d calls of mjd_smooth_vel under `m->opt.integrator == %s`" % (len(ms), integ))
        res[integ] = ms[0] == "1"
    if body.count("mjd_smooth_vel(") != 2:
        raise Refuse("mj_implicitSkip: %d calls of mjd_smooth_vel (expected 2)" % body.count("mjd_smooth_vel("))
    # the assembled matrix: qLU = M - dt*qDeriv / qH = M - dt*qDeriv
    if "mju_addToScl(d->qLU,d->qDeriv,-m->opt.timestep,nD);" not in body:
        raise Refuse("mj_implicitSkip: `mju_addToScl(d->qLU, d->qDeriv, -m->opt.timestep, nD)` not found")
    if "mju_addScl(d->qH,d->M,d->qH,-m->opt.timestep,nC);" not in body:
        raise Refuse("mj_implicitSkip: `mju_addScl(d->qH, d->M, d->qH, -m->opt.timestep, nC)` not found")
    return res


def lean_stmt(st):
    kind, arg = st
    if kind == "retIf":
        return ".retIf [" + ", ".join("[" + ", ".join("." + f for f in c) + "]" for c in arg) + "]"
    return ".%s [%s]" % (kind, ", ".join("." + m for m in arg))


def emit(shapes, bias, reason=None):
    L = ["/-", "GENERATED by translate/c05_dterms.py from %s, %s, %s of the working tree." % (FWD, DER, PAS),
         "Do not edit." + ("  REFUSED: " + reason if reason else ""), "-/", "namespace MjProof.Gen.C05DTerms", "",
         "/-- option disable flags that gate the terms (`true` = the mjDSBL_ bit is set) -/",
         "inductive Flag | spring | damper | actuation", "  deriving DecidableEq, Repr", "",
         "/-- term markers recognised in the statements (see translate/c05_dterms.py, table MARKS) -/",
         "inductive Mark", "  | " + " | ".join(n for n, _ in MARKS), "  deriving DecidableEq, Repr", "",
         "/-- a top-level statement of one of the scanned functions -/",
         "inductive Stmt", "  | retIf (dnf : List (List Flag))   -- `if (<dnf of mjDISABLED tests>) { return; }`",
         "  | adds (ms : List Mark)            -- a statement containing these term markers",
         "  | addsIfBias (ms : List Mark)      -- `if (flg_bias) { ... }`", "  deriving Repr", ""]
    for fname, _ in FUNCS:
        sts = shapes.get(fname, [])
        L += ["def %s : List Stmt :=" % fname, "  [" + ",\n   ".join(lean_stmt(s) for s in sts) + "]", ""]
    L += ["/-- `mjd_smooth_vel(m, d, flg_bias)` as called by mj_implicitSkip under mjINT_IMPLICIT / mjINT_IMPLICITFAST;",
          "`none` when the translator refused -/",
          "def flgBiasImplicit : Option Bool := %s" % ("none" if bias is None else "some " + str(bias["mjINT_IMPLICIT"]).lower()),
          "def flgBiasImplicitfast : Option Bool := %s" % ("none" if bias is None else "some " + str(bias["mjINT_IMPLICITFAST"]).lower()),
          "", "end MjProof.Gen.C05DTerms", ""]
    return "\n".join(L)


def write_if_changed(path, text):
    os.makedirs(os.path.dirname(path), exist_ok=True)
    if os.path.exists(path) and open(path).read() == text:
        return
    tmp = path + ".tmp%d" % os.getpid()
    with open(tmp, "w") as f:
        f.write(text)
    os.replace(tmp, path)


def main():
    try:
        texts = {}
        shapes = {}
        for fname, rel in FUNCS:
            if rel not in texts:
                texts[rel] = strip(read(rel))
            shapes[fname] = classify(fname, split_top(body_of(texts[rel], fname)))
        bias = flg_bias_of(strip(read(FWD)))
        write_if_changed(OUT, emit(shapes, bias))
        write_if_changed(MAN, json.dumps({"shapes": {k: [list(s) for s in v] for k, v in shapes.items()},
                                          "flg_bias": bias, "refused": None}, indent=1))
        print("c05_dterms: %s" % ", ".join("%s %d stmts" % (k, len(v)) for k, v in shapes.items()))
        return 0
    except Refuse as e:
        write_if_changed(OUT, emit({}, None, reason=str(e)))
        write_if_changed(MAN, json.dumps({"shapes": {}, "flg_bias": None, "refused": str(e)}, indent=1))
        print("c05_dterms: REFUSED: %s" % e)
        return 3


if __name__ == "__main__":
    sys.exit(main())
