#!/usr/bin/env python3
"""C44 translator: regenerates lean/MjProof/Gen/MjxStateTable.lean (+ .json) from the MJX sources of the tree.

Reads (repository root = $VERIF_REPO, default /repo), with Python's `ast` (nothing is imported or executed):
  mjx/mujoco/mjx/_src/io.py
      _STATE_MAP                     dict literal  mujoco.mjtState.mjSTATE_X -> Data field name (order kept)
      _state_elem_size               symbolically executed once per entry of _STATE_MAP -> size expression
                                     (product of integer literals and model sizes `m.n*`, in evaluation order)
      state_size / get_state / set_state
                                     must match, statement for statement, the loop templates that
                                     lean/MjProof/Model/MjxState.lean models (one hole: the element that is
                                     converted with astype(...), in the tree mjSTATE_EQ_ACTIVE)
      _make_data_public_fields       dict literal `zero_fields`  field -> shape of the mjx.Data array
      _make_data_jax                 keywords of the `types.Data(...)` call for the fields that are not in
                                     zero_fields (qpos <- m.qpos0, eq_active <- m.eq_active0), resolved through
  include/mujoco/mjxmacro.h          MJMODEL_POINTERS (type, nr, nc of the mjModel array)
and the C-side table through translate/c26_tables.py (the generated Lean refers to its inductive types
`Gen.StateSize` / `Gen.StateField`; a name MJX uses that the C table does not have is listed in
`mjxUnmatched`, which the theorem `mjx_table_eq_c_table` requires to be empty).

The bit of an element is the bit of its key `mujoco.mjtState.mjSTATE_X` in the tree's `enum mjtState`
(the Python enum is generated from that header; the check verifies that the binding actually imported has
the same values).

Refuses (exit 3 + message on stderr) whenever a construct is outside the understood shape.

usage: c44_tables.py [--out DIR] [--stdout]
"""
import ast
import difflib
import hashlib
import json
import os
import re
import sys

HERE = os.path.dirname(os.path.abspath(__file__))
VERIF = os.path.dirname(HERE)
REPO = os.environ.get("VERIF_REPO", "/repo")
sys.path.insert(0, HERE)
import c26_tables  # noqa: E402

Refuse = c26_tables.Refuse
IO_PY = "mjx/mujoco/mjx/_src/io.py"
SCALAR_FIELD = "time"   # the literal in the set_state template below (`if name == 'time'`)

# ------------------------------------------------------------------------------------------ templates
# The bodies that Model/MjxState.lean models.  `mjSTATE_SPECIAL` is the hole (bound to one enumerator).
TEMPLATES = {
    "state_size": '''
def state_size(m, spec):
  size = 0
  spec_int = int(spec)
  for i in range(mujoco.mjtState.mjNSTATE.value):
    element = mujoco.mjtState(1 << i)
    if element & spec_int:
      size += _state_elem_size(m, element)
  return size
''',
    "get_state": '''
def get_state(m, d, spec):
  spec_int = int(spec)
  if spec_int >= (1 << mujoco.mjtState.mjNSTATE.value):
    raise ValueError(f'Invalid state spec {spec}')

  state = []
  for i in range(mujoco.mjtState.mjNSTATE.value):
    element = mujoco.mjtState(1 << i)
    if element & spec_int:
      if element not in _STATE_MAP:
        raise ValueError(f'Invalid state element {element}')
      name = _STATE_MAP[element]
      value = getattr(d, name)
      if element == mujoco.mjtState.mjSTATE_SPECIAL:
        value = value.astype(jp.float32)
      state.append(value.flatten())

  return jp.concatenate(state) if state else jp.array([])
''',
    "set_state": '''
def set_state(m, d, state, spec):
  spec_int = int(spec)
  if spec_int >= (1 << mujoco.mjtState.mjNSTATE.value):
    raise ValueError(f'Invalid state spec {spec}')

  expected_size = state_size(m, spec)
  if state.size != expected_size:
    raise ValueError(
        f'state has size {state.size} but expected {expected_size}'
    )

  updates = {}
  offset = 0
  for i in range(mujoco.mjtState.mjNSTATE.value):
    element = mujoco.mjtState(1 << i)
    if element & spec_int:
      if element not in _STATE_MAP:
        raise ValueError(f'Invalid state element {element}')
      name = _STATE_MAP[element]
      size = _state_elem_size(m, element)
      value = state[offset : offset + size]
      if name == 'time':
        value = value[0]
      else:
        orig_shape = getattr(d, name).shape
        value = value.reshape(orig_shape)
      if element == mujoco.mjtState.mjSTATE_SPECIAL:
        value = value.astype(bool)
      updates[name] = value
      offset += size

  return d.replace(**updates)
''',
}


def read(rel):
    p = os.path.join(REPO, rel)
    if not os.path.exists(p):
        raise Refuse("missing source file %s" % p)
    with open(p, encoding="utf-8") as f:
        return f.read()


def attr_chain(node):
    """a.b.c -> ['a','b','c'] or None"""
    out = []
    while isinstance(node, ast.Attribute):
        out.append(node.attr)
        node = node.value
    if isinstance(node, ast.Name):
        out.append(node.id)
        return out[::-1]
    return None


def top_level(tree, name, kind):
    hits = [n for n in tree.body if isinstance(n, kind) and (
        (kind is ast.FunctionDef and n.name == name) or
        (kind is ast.Assign and len(n.targets) == 1 and isinstance(n.targets[0], ast.Name) and n.targets[0].id == name))]
    if len(hits) != 1:
        raise Refuse("%s: expected exactly one top-level definition of %s, found %d" % (IO_PY, name, len(hits)))
    return hits[0]


def strip_doc(fn):
    body = list(fn.body)
    if body and isinstance(body[0], ast.Expr) and isinstance(body[0].value, ast.Constant) and isinstance(body[0].value.value, str):
        body = body[1:]
    return body


def canon_dump(fn):
    """dump of the statements of a function: docstring, annotations, defaults' spelling and f-string texts removed
    (messages of the exceptions are not modelled; their types and conditions are)"""
    class Norm(ast.NodeTransformer):
        def visit_JoinedStr(self, node):
            return ast.Constant(value="<fstring>")

        def visit_arg(self, node):
            node.annotation = None
            return node
    fn = Norm().visit(ast.parse(ast.unparse(fn)).body[0])
    fn.returns = None
    mod = ast.Module(body=strip_doc(fn), type_ignores=[])
    args = [a.arg for a in fn.args.args]
    return "args=%r\n" % args + ast.dump(mod, indent=1)


def match_template(tree, fname):
    fn = top_level(tree, fname, ast.FunctionDef)
    got = canon_dump(fn)
    specials = set(re.findall(r"attr='(mjSTATE_\w+)'", got))
    if len(specials) > 1:
        raise Refuse("%s: more than one state element is special-cased: %s" % (fname, sorted(specials)))
    special = specials.pop() if specials else None
    if special:
        got = got.replace("attr='%s'" % special, "attr='mjSTATE_SPECIAL'")
    want = canon_dump(ast.parse(TEMPLATES[fname]).body[0])
    if got != want:
        diff = list(difflib.unified_diff(want.split("\n"), got.split("\n"), "modelled", "source", lineterm="", n=1))
        raise Refuse("%s: body differs from the loop template modelled in Model/MjxState.lean:\n%s" % (fname, "\n".join(diff[:40])))
    return special


# ------------------------------------------------------------------------------------------ _STATE_MAP
def parse_state_map(tree):
    node = top_level(tree, "_STATE_MAP", ast.Assign).value
    if not isinstance(node, ast.Dict):
        raise Refuse("_STATE_MAP is not a dict literal")
    out = []
    for k, v in zip(node.keys, node.values):
        ch = attr_chain(k) if k is not None else None
        if not ch or ch[:2] != ["mujoco", "mjtState"] or len(ch) != 3:
            raise Refuse("_STATE_MAP key not of the form mujoco.mjtState.NAME: %s" % (ast.unparse(k) if k else "**"))
        if not (isinstance(v, ast.Constant) and isinstance(v.value, str)):
            raise Refuse("_STATE_MAP value is not a string literal: %s" % ast.unparse(v))
        if any(ch[2] == n for n, _ in out):
            raise Refuse("_STATE_MAP: duplicate key %s (the later entry would silently win)" % ch[2])
        out.append((ch[2], v.value))
    if not out:
        raise Refuse("_STATE_MAP is empty")
    return out


# ------------------------------------------------------------------------------------------ _state_elem_size
class Sym:
    """product of factors, in evaluation order"""
    def __init__(self, fs):
        self.fs = list(fs)


class Raised(Exception):
    def __init__(self, name):
        self.name = name


class Returned(Exception):
    def __init__(self, v):
        self.v = v


def elem_size(fn, state_map, enum_name):
    """symbolic execution of `_state_elem_size(m, state_enum)` for the concrete enumerator `enum_name`"""
    if [a.arg for a in fn.args.args] != ["m", "state_enum"]:
        raise Refuse("_state_elem_size: parameters are not (m, state_enum)")
    smap = dict(state_map)
    env = {}

    def ev(e):
        if isinstance(e, ast.Constant) and isinstance(e.value, (int, str)) and not isinstance(e.value, bool):
            return e.value
        if isinstance(e, ast.Name):
            if e.id == "state_enum":
                return ("enum", enum_name)
            if e.id in env:
                return env[e.id]
            raise Refuse("_state_elem_size: unknown name %s" % e.id)
        if isinstance(e, ast.Attribute):
            ch = attr_chain(e)
            if ch and len(ch) == 2 and ch[0] == "m":
                return Sym([("var", ch[1])])
            raise Refuse("_state_elem_size: attribute %s" % ast.unparse(e))
        if isinstance(e, (ast.Tuple, ast.List, ast.Set)):
            return tuple(ev(x) for x in e.elts)
        if isinstance(e, ast.Dict):
            return {ev(k): ev(v) for k, v in zip(e.keys, e.values)}
        if isinstance(e, ast.Subscript):
            if isinstance(e.value, ast.Name) and e.value.id == "_STATE_MAP":
                k = ev(e.slice)
                if not (isinstance(k, tuple) and k[0] == "enum") or k[1] not in smap:
                    raise Raised("KeyError")
                return smap[k[1]]
            base, k = ev(e.value), ev(e.slice)
            if isinstance(base, dict):
                if k not in base:
                    raise Raised("KeyError")
                return base[k]
            raise Refuse("_state_elem_size: subscript %s" % ast.unparse(e))
        if isinstance(e, ast.Call) and isinstance(e.func, ast.Name) and e.func.id == "getattr" and len(e.args) == 2 \
                and isinstance(e.args[0], ast.Name) and e.args[0].id == "m" and not e.keywords:
            nm = ev(e.args[1])
            if not isinstance(nm, str):
                raise Refuse("_state_elem_size: getattr(m, <non-string>)")
            return Sym([("var", nm)])
        if isinstance(e, ast.BinOp) and isinstance(e.op, ast.Mult):
            return mul(ev(e.left), ev(e.right))
        if isinstance(e, ast.Compare) and len(e.ops) == 1:
            a, b = ev(e.left), None
            op = e.ops[0]
            if isinstance(op, (ast.In, ast.NotIn)) and isinstance(e.comparators[0], ast.Name) and e.comparators[0].id == "_STATE_MAP":
                r = isinstance(a, tuple) and a[0] == "enum" and a[1] in smap
                return r if isinstance(op, ast.In) else not r
            b = ev(e.comparators[0])
            if isinstance(op, ast.Eq) and isinstance(a, str) and isinstance(b, str):
                return a == b
            if isinstance(op, ast.NotEq) and isinstance(a, str) and isinstance(b, str):
                return a != b
            if isinstance(op, (ast.In, ast.NotIn)) and isinstance(a, str) and isinstance(b, tuple) and all(isinstance(x, str) for x in b):
                return (a in b) if isinstance(op, ast.In) else (a not in b)
        raise Refuse("_state_elem_size: expression not understood: %s" % ast.unparse(e))

    def mul(a, b):
        fa = a.fs if isinstance(a, Sym) else [("const", a)] if isinstance(a, int) else None
        fb = b.fs if isinstance(b, Sym) else [("const", b)] if isinstance(b, int) else None
        if fa is None or fb is None:
            raise Refuse("_state_elem_size: product of non-numeric values")
        return Sym(fa + fb)

    def run(stmts):
        for s in stmts:
            if isinstance(s, ast.Expr) and isinstance(s.value, ast.Constant):
                continue
            if isinstance(s, ast.If):
                t = ev(s.test)
                if not isinstance(t, bool):
                    raise Refuse("_state_elem_size: condition is not decidable: %s" % ast.unparse(s.test))
                run(s.body if t else s.orelse)
            elif isinstance(s, ast.Assign) and len(s.targets) == 1 and isinstance(s.targets[0], ast.Name):
                env[s.targets[0].id] = ev(s.value)
            elif isinstance(s, ast.AugAssign) and isinstance(s.target, ast.Name) and isinstance(s.op, ast.Mult):
                if s.target.id not in env:
                    raise Refuse("_state_elem_size: augmented assignment to unbound %s" % s.target.id)
                env[s.target.id] = mul(env[s.target.id], ev(s.value))
            elif isinstance(s, ast.Return):
                raise Returned(ev(s.value) if s.value is not None else None)
            elif isinstance(s, ast.Raise):
                nm = "Exception"
                if isinstance(s.exc, ast.Call) and isinstance(s.exc.func, ast.Name):
                    nm = s.exc.func.id
                raise Raised(nm)
            else:
                raise Refuse("_state_elem_size: statement not understood: %s" % ast.unparse(s)[:80])

    try:
        run(fn.body)
    except Returned as r:
        v = r.v
        if isinstance(v, int) and not isinstance(v, bool):
            if v < 0:
                raise Refuse("_state_elem_size: negative size for %s" % enum_name)
            return ("ok", [("const", v)])
        if isinstance(v, Sym):
            for k, x in v.fs:
                if k == "const" and (not isinstance(x, int) or x < 0):
                    raise Refuse("_state_elem_size: factor %r for %s" % (x, enum_name))
            return ("ok", v.fs)
        raise Refuse("_state_elem_size: returns a non-numeric value for %s" % enum_name)
    except Raised as r:
        return ("raise", r.name)
    return ("raise", "TypeError(None)")  # falls off the end: returns None, the caller's `size +=` raises


# ------------------------------------------------------------------------------------------ shapes of mjx.Data
def parse_model_pointers():
    """every X(type, name, nr, nc) entry of the macros MJMODEL_POINTERS* of mjxmacro.h"""
    src = read("include/mujoco/mjxmacro.h")
    names = re.findall(r"#define\s+(MJMODEL_POINTERS\w*)\b", src)
    if "MJMODEL_POINTERS" not in names:
        raise Refuse("mjxmacro.h: macro MJMODEL_POINTERS not found")
    out = {}
    for mac in names:
        body = c26_tables.parse_xmacro(src, mac)
        for m in re.finditer(r"\bX(?:NV)?\s*\(\s*([\w ]+?)\s*,\s*(\w+)\s*,\s*(\w+)\s*,\s*([^,()]+(?:\([^()]*\))?)\s*\)", body):
            typ, nm, nr, nc = (x.strip() for x in m.groups())
            if nm in out and out[nm] != (typ, nr, nc):
                raise Refuse("MJMODEL_POINTERS: conflicting entries for %s" % nm)
            out[nm] = (typ, nr, nc)
    return out


def shape_tuple(node, what):
    """(m.nbody, 6, float_) -> dims [('var','nbody'),('const',6)], dtype 'float_'"""
    if not isinstance(node, ast.Tuple) or not node.elts:
        raise Refuse("%s: shape is not a non-empty tuple" % what)
    *dims, dt = node.elts
    if not isinstance(dt, ast.Name):
        raise Refuse("%s: dtype is not a name" % what)
    fs = []
    for x in dims:
        ch = attr_chain(x)
        if isinstance(x, ast.Constant) and isinstance(x.value, int) and not isinstance(x.value, bool) and x.value >= 0:
            fs.append(("const", x.value))
        elif ch and len(ch) == 2 and ch[0] == "m":
            fs.append(("var", ch[1]))
        else:
            raise Refuse("%s: dimension not understood: %s" % (what, ast.unparse(x)))
    return (fs if fs else [("const", 1)]), dt.id


def parse_data_shapes(tree):
    fn = top_level(tree, "_make_data_public_fields", ast.FunctionDef)
    dicts = [s for s in fn.body if isinstance(s, ast.Assign) and len(s.targets) == 1 and isinstance(s.targets[0], ast.Name)
             and s.targets[0].id == "zero_fields" and isinstance(s.value, ast.Dict)]
    if len(dicts) != 1:
        raise Refuse("_make_data_public_fields: expected one dict literal assigned to zero_fields")
    shapes = {}
    for k, v in zip(dicts[0].value.keys, dicts[0].value.values):
        if not (isinstance(k, ast.Constant) and isinstance(k.value, str)):
            raise Refuse("_make_data_public_fields: key is not a string literal")
        if k.value in shapes:
            raise Refuse("_make_data_public_fields: duplicate key %s" % k.value)
        shapes[k.value] = shape_tuple(v, "zero_fields[%s]" % k.value)
    # the remaining statements must be the comprehension that allocates np.zeros(v[:-1], dtype=v[-1]) and the return
    rest = [ast.unparse(s) for s in strip_doc(fn) if s is not dicts[0]]
    want = ["float_ = jp.zeros(1, float).dtype",
            "zero_fields = {k: np.zeros(v[:-1], dtype=v[-1]) for k, v in zero_fields.items()}",
            "return zero_fields"]
    if rest != want:
        raise Refuse("_make_data_public_fields: statements around the dict differ from the modelled ones: %r" % rest)
    # fields passed explicitly to types.Data(...) in _make_data_jax
    mj = top_level(tree, "_make_data_jax", ast.FunctionDef)
    calls = [n for n in ast.walk(mj) if isinstance(n, ast.Call) and attr_chain(n.func) == ["types", "Data"]]
    if len(calls) != 1:
        raise Refuse("_make_data_jax: expected exactly one types.Data(...) call, found %d" % len(calls))
    mp = parse_model_pointers()
    spread = False
    for kw in calls[0].keywords:
        if kw.arg is None:
            if ast.unparse(kw.value) != "_make_data_public_fields(m)":
                raise Refuse("_make_data_jax: unexpected ** argument %s" % ast.unparse(kw.value))
            spread = True
            continue
        if kw.arg == "_impl":
            continue
        v = kw.value
        if isinstance(v, ast.Call) and attr_chain(v.func) == ["jp", "array"] and v.args:
            v = v.args[0]
        ch = attr_chain(v)
        if not ch or len(ch) != 2 or ch[0] != "m" or ch[1] not in mp:
            raise Refuse("_make_data_jax: Data(%s=%s) is not an mjModel array" % (kw.arg, ast.unparse(kw.value)))
        typ, nr, nc = mp[ch[1]]
        if not re.fullmatch(r"\d+", nc):
            raise Refuse("MJMODEL_POINTERS %s: column count %r is not an integer literal" % (ch[1], nc))
        if kw.arg in shapes:
            raise Refuse("_make_data_jax: field %s given twice" % kw.arg)
        fs = [("var", nr)] + ([("const", int(nc))] if int(nc) != 1 else [])
        shapes[kw.arg] = (fs, typ)
    if not spread:
        raise Refuse("_make_data_jax: types.Data(...) does not spread _make_data_public_fields(m)")
    return shapes


# ------------------------------------------------------------------------------------------ main
def lean_expr(fs):
    return "[" + ", ".join(".const %d" % v if k == "const" else ".var .%s" % v for k, v in fs) + "]"


def translate():
    _, cinfo = c26_tables.translate()
    tree = ast.parse(read(IO_PY))
    smap = parse_state_map(tree)
    fn = top_level(tree, "_state_elem_size", ast.FunctionDef)
    specials = {f: match_template(tree, f) for f in ("state_size", "get_state", "set_state")}
    if specials["state_size"] is not None:
        raise Refuse("state_size special-cases an element")
    if specials["get_state"] != specials["set_state"]:
        raise Refuse("get_state and set_state convert different elements: %s / %s" % (specials["get_state"], specials["set_state"]))
    special = specials["get_state"]
    shapes = parse_data_shapes(tree)
    bit_of = {e["name"]: e["bit"] for e in cinfo["enum"]}
    csizes, cfields = cinfo["sizes"], cinfo["fields"]

    rows, unmatched = [], []
    for en, field in smap:
        res = elem_size(fn, smap, en)
        row = {"name": en, "field": field, "bit": bit_of.get(en), "size": None, "raises": None,
               "special": en == special, "alloc": None, "dtype": None}
        if res[0] == "ok":
            row["size"] = res[1]
        else:
            row["raises"] = res[1]
        if field in shapes:
            row["alloc"], row["dtype"] = shapes[field]
        why = []
        if row["bit"] is None:
            why.append("%s is not a single-bit enumerator of the tree's mjtState" % en)
        if field not in cfields:
            why.append("field %s is not a field of the C state table" % field)
        if row["size"] is None:
            why.append("_state_elem_size raises %s for %s" % (row["raises"], en))
        if row["alloc"] is None:
            why.append("mjx.Data field %s is not allocated by make_data" % field)
        for k, v in (row["size"] or []) + (row["alloc"] or []):
            if k == "var" and v not in csizes:
                why.append("model size %s does not occur in the C state table" % v)
        row["unmatched"] = why
        unmatched += why
        rows.append(row)
    if SCALAR_FIELD not in cfields:
        unmatched.append("the scalar field %s of set_state is not a field of the C state table" % SCALAR_FIELD)
    good = [r for r in rows if not r["unmatched"]]

    L = []
    L.append("-- GENERATED by translate/c44_tables.py from mjx/mujoco/mjx/_src/io.py (_STATE_MAP, _state_elem_size,")
    L.append("-- state_size/get_state/set_state loop templates, make_data shapes) and include/mujoco/mjxmacro.h.")
    L.append("-- Do not edit; regenerated on every run.")
    L.append("import MjProof.Gen.StateTable")
    L.append("namespace MjProof.Gen.Mjx")
    L.append("open MjProof.State MjProof.Gen")
    L.append("")
    L.append("/-- `_STATE_MAP` in source order: (key enumerator of `mujoco.mjtState`, `mjx.Data` field name) -/")
    L.append("def stateMap : List (String × String) := [%s]" % ", ".join('("%s", "%s")' % (n, f) for n, f in smap))
    L.append("")
    L.append("/-- what could not be expressed over the C table's names (must be empty) -/")
    L.append("def mjxUnmatched : List String := [%s]" % ", ".join(json.dumps(w) for w in unmatched))
    L.append("")
    L.append("/-- the MJX table: `nstate` is the bound `mujoco.mjtState.mjNSTATE.value` of the three loops; one element")
    L.append("    per entry of `_STATE_MAP` (bit of the key in the tree's `enum mjtState`; size = what")
    L.append("    `_state_elem_size` returns; field = the `mjx.Data` attribute; `special` = converted with")
    L.append("    `astype`), `alloc` = shape of the `mjx.Data` array as `make_data` allocates it, `isBool` = its")
    L.append("    storage type is `mjtBool` -/")
    L.append("def mjxSym : SymTable StateSize StateField where")
    L.append("  nstate := %d" % cinfo["nstate"])
    L.append("  elems := [")
    for i, r in enumerate(good):
        sp = "some %s" % lean_expr(r["size"]) if r["special"] else "none"
        L.append('    { name := "%s", bit := %d, size := %s, field := .%s, special := %s }%s'
                 % (r["name"], r["bit"], lean_expr(r["size"]), r["field"], sp, "," if i + 1 < len(good) else ""))
    L.append("  ]")
    galloc = {r["field"]: r for r in good}
    L.append("  alloc := fun")
    for f in cfields:
        L.append("    | .%s => %s" % (f, lean_expr(galloc[f]["alloc"]) if f in galloc else "[.const 0]"))
    L.append("  isBool := fun")
    for f in cfields:
        L.append("    | .%s => %s" % (f, "true" if f in galloc and galloc[f]["dtype"] == "mjtBool" else "false"))
    L.append("")
    L.append("/-- the field `set_state` special-cases as a scalar (`if name == 'time': value = value[0]`) -/")
    L.append("def mjxScalar : StateField → Bool := fun")
    for f in cfields:
        L.append("    | .%s => %s" % (f, "true" if f == SCALAR_FIELD else "false"))
    L.append("")
    L.append("def mjxTable : Table (StateSize → Nat) StateField := mjxSym.toTable")
    L.append("")
    tid = hashlib.sha256(("\n".join(L) + cinfo["table_id"]).encode()).hexdigest()[:24]
    L.append("/-- fingerprint of this generated table and of the C table it refers to -/")
    L.append('def mjxTableId : String := "%s"' % tid)
    L.append("")
    L.append("end MjProof.Gen.Mjx")
    info = {"table_id": tid, "c_table_id": cinfo["table_id"], "repo": REPO, "nstate": cinfo["nstate"],
            "state_map": smap, "rows": rows, "special": special, "unmatched": unmatched,
            "c_enum": cinfo["enum"], "c_named": cinfo["named"], "c_fields": cfields, "c_sizes": csizes,
            "c_elems": cinfo["elems"]}
    return "\n".join(L) + "\n", info


PIN_NAME = "c44_tables.pin"


def pinned_by_other():
    """A check that runs against a scratch worktree (VERIF_REPO != /repo) pins the generated files it builds
    from (file .cache/<name>.pin = pid of the check): translators started by anybody else then leave them alone."""
    pin = os.path.join(VERIF, ".cache", PIN_NAME)
    try:
        pid = int(open(pin).read().strip())
    except (OSError, ValueError):
        return False
    if os.environ.get("VERIF_PIN_OWNER") == str(pid):
        return False
    try:
        os.kill(pid, 0)
    except OSError:
        return False       # stale pin
    return True


def main():
    out = os.path.join(VERIF, "lean", "MjProof", "Gen")
    args = sys.argv[1:]
    if "--out" in args:
        out = args[args.index("--out") + 1]
    try:
        lean, info = translate()
    except Refuse as e:
        print("c44_tables: REFUSED: %s" % e, file=sys.stderr)
        sys.exit(3)
    except SyntaxError as e:
        print("c44_tables: REFUSED: %s does not parse: %s" % (IO_PY, e), file=sys.stderr)
        sys.exit(3)
    if "--stdout" in args:
        sys.stdout.write(lean)
        return
    if out == os.path.join(VERIF, "lean", "MjProof", "Gen") and pinned_by_other():
        print("%s: generated files are pinned by a running check against a scratch worktree; left untouched" % PIN_NAME[:-4])
        return
    os.makedirs(out, exist_ok=True)
    for name, text in (("MjxStateTable.lean", lean), ("MjxStateTable.json", json.dumps(info, indent=1) + "\n")):
        p = os.path.join(out, name)
        if not os.path.exists(p) or open(p).read() != text:
            tmp = p + ".%d.tmp" % os.getpid()
            with open(tmp, "w") as f:
                f.write(text)
            os.replace(tmp, p)
    print("c44_tables: %d entries of _STATE_MAP, %d unmatched, special=%s -> %s"
          % (len(info["rows"]), len(info["unmatched"]), info["special"], os.path.join(out, "MjxStateTable.lean")))


if __name__ == "__main__":
    main()
