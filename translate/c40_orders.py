#!/usr/bin/env python3
"""C40 translator: extracts, on every run, the facts of src/engine/engine_global_table.h that the
sequentially-consistent transition system lean/MjProof/Model/GlobalTable.lean relies on, and checks them.

Extracted (nothing is hard-coded except the *shape* that is understood):
  * every textual occurrence of the counter `count_`: its declaration (must be std::atomic_int /
    std::atomic<int>) and every operation on it with its std::memory_order argument;
    any operation other than `.load(order)` / `.store(expr, order)` is REFUSED;
  * the release/acquire pairing: the publishing store in AppendIfUnique is `release` (or seq_cst) and every
    reader-side load (`count()`, which GetAtSlot / GetByKey must call to obtain nslot) is `acquire`
    (or seq_cst); a weaker order = failed obligation;
  * the order of the writer's shared accesses inside the AppendIfUnique lambda:
    LockExclusively() < count_.load < duplicate scan loop < block allocation < CopyObject(...) <
    count_.store(count + 1, ..) < `return count`, the store outside every loop, and nothing returned
    between CopyObject and the store; (this is the order of the model's writer program counters);
  * `TableBlock<T>::kBlockSize` (must equal the model's `blockSize`);
  * `using Mutex = std::mutex` and the re-entrant lock shape (thread_local counter; lock iff counter == 0
    before ++, unlock iff --counter == 0);
  * `CaseInsensitiveEqual` compares lengths and `std::tolower` of BOTH sides;
  * the model's `blockSize` read from the Lean source.

Exit status: 0 ok, 1 a checked fact is violated (weakening), 3 refused (construct outside the understood
shape).  Always prints one JSON object on stdout.

usage: c40_orders.py
"""
import json
import os
import re
import sys

VERIF = os.path.dirname(os.path.dirname(os.path.abspath(__file__)))
REPO = os.environ.get("VERIF_REPO", "/repo")
HEADER = "src/engine/engine_global_table.h"
MODEL = os.path.join(VERIF, "lean", "MjProof", "Model", "GlobalTable.lean")

ACQ_OK = {"std::memory_order_acquire", "std::memory_order_seq_cst", "std::memory_order_acq_rel"}
REL_OK = {"std::memory_order_release", "std::memory_order_seq_cst", "std::memory_order_acq_rel"}


class Refuse(Exception):
    pass


def strip_comments(s):
    s = re.sub(r"/\*.*?\*/", lambda m: " " * len(m.group(0)), s, flags=re.S)
    s = re.sub(r"//[^\n]*", lambda m: " " * len(m.group(0)), s)
    return s


def body_at(src, brace_pos):
    """text between the braces starting at src[brace_pos] == '{' -> (start, end) of the inside"""
    assert src[brace_pos] == "{"
    depth = 0
    for j in range(brace_pos, len(src)):
        if src[j] == "{":
            depth += 1
        elif src[j] == "}":
            depth -= 1
            if depth == 0:
                return brace_pos + 1, j
    raise Refuse("unbalanced braces")


def func_body(src, header_re, what):
    ms = list(re.finditer(header_re, src))
    if len(ms) != 1:
        raise Refuse("%s: expected exactly one definition, found %d" % (what, len(ms)))
    i = src.index("{", ms[0].end() - 1)
    a, b = body_at(src, i)
    return src[a:b], a


def call_args(src, open_pos):
    """argument strings of the call whose '(' is at open_pos"""
    depth, args, cur = 0, [], ""
    for j in range(open_pos, len(src)):
        c = src[j]
        if c in "([{":
            depth += 1
            if depth == 1:
                continue
        elif c in ")]}":
            depth -= 1
            if depth == 0:
                args.append(cur.strip())
                return [a for a in args if a != ""], j
        if c == "," and depth == 1:
            args.append(cur.strip())
            cur = ""
        else:
            cur += c
    raise Refuse("unbalanced parentheses")


def loop_spans(body):
    """(start, end) spans of the bodies of for/while loops inside `body`"""
    spans = []
    for m in re.finditer(r"\b(for|while)\s*\(", body):
        _, close = call_args(body, m.end() - 1)
        k = close + 1
        while k < len(body) and body[k].isspace():
            k += 1
        if k < len(body) and body[k] == "{":
            a, b = body_at(body, k)
            spans.append((m.start(), b))
        else:
            spans.append((m.start(), body.index(";", k)))
    return spans


def analyse():
    path = os.path.join(REPO, HEADER)
    if not os.path.exists(path):
        raise Refuse("missing " + path)
    raw = open(path, encoding="utf-8", errors="replace").read()
    src = strip_comments(raw)
    facts, problems = {}, []

    def need(ok, msg):
        if not ok:
            problems.append(msg)
        return ok

    # ---- block size
    m = re.findall(r"static\s+constexpr\s+int\s+kBlockSize\s*=\s*(\d+)\s*;", src)
    if len(m) != 1:
        raise Refuse("kBlockSize: expected one `static constexpr int kBlockSize = <int>;`")
    facts["kBlockSize"] = int(m[0])
    lm = re.search(r"abbrev\s+blockSize\s*:\s*Nat\s*:=\s*(\d+)", open(MODEL).read())
    if not lm:
        raise Refuse("model blockSize not found in " + MODEL)
    facts["model_blockSize"] = int(lm.group(1))
    need(facts["kBlockSize"] == facts["model_blockSize"],
         "kBlockSize %d differs from the model's blockSize %d" % (facts["kBlockSize"], facts["model_blockSize"]))
    need(re.search(r"T\s+objects\s*\[\s*kBlockSize\s*\]\s*;", src) is not None, "TableBlock::objects is not T[kBlockSize]")

    # ---- the counter and every operation on it
    decl = re.findall(r"(std::atomic_int|std::atomic\s*<\s*int\s*>)\s+count_\s*;", src)
    if len(decl) != 1:
        raise Refuse("count_: expected exactly one declaration `std::atomic_int count_;`")
    facts["count_decl"] = decl[0]
    ops = []
    for m in re.finditer(r"\bcount_\b", src):
        rest = src[m.end():]
        if re.match(r"\s*;", rest) and re.search(r"(std::atomic_int|std::atomic\s*<\s*int\s*>)\s+$", src[:m.start()]):
            continue  # the declaration
        mo = re.match(r"\s*\.\s*(\w+)\s*\(", rest)
        if not mo:
            raise Refuse("count_ used in a way that is not `.load(..)`/`.store(..)` at offset %d: %r"
                         % (m.start(), src[m.start():m.start() + 40]))
        args, _ = call_args(src, m.end() + mo.end() - 1)
        name = mo.group(1)
        if name == "load":
            if len(args) > 1:
                raise Refuse("count_.load with %d arguments" % len(args))
            order = args[0] if args else "std::memory_order_seq_cst"
        elif name == "store":
            if len(args) not in (1, 2):
                raise Refuse("count_.store with %d arguments" % len(args))
            order = args[1] if len(args) == 2 else "std::memory_order_seq_cst"
        else:
            raise Refuse("count_.%s: only load/store are understood" % name)
        if not re.fullmatch(r"std::memory_order_\w+", order):
            raise Refuse("count_.%s: memory order argument %r not understood" % (name, order))
        ops.append({"op": name, "order": order, "pos": m.start(), "args": args})
    facts["count_ops"] = [{"op": o["op"], "order": o["order"], "line": src.count("\n", 0, o["pos"]) + 1} for o in ops]

    # ---- count(): the readers' load
    cbody, cstart = func_body(src, r"\bint\s+count\s*\(\s*\)\s*\{", "count()")
    cops = [o for o in ops if cstart <= o["pos"] < cstart + len(cbody)]
    if len(cops) != 1 or cops[0]["op"] != "load" or not re.fullmatch(
            r"\s*return\s+count_\s*\.\s*load\s*\([^)]*\)\s*;\s*", cbody):
        raise Refuse("count(): body is not `return count_.load(order);`")
    facts["reader_load_order"] = cops[0]["order"]
    need(cops[0]["order"] in ACQ_OK, "count() loads count_ with %s (acquire needed)" % cops[0]["order"])

    # ---- AppendIfUnique: order of the writer's accesses
    abody, astart = func_body(src, r"\bint\s+AppendIfUnique\s*\(\s*const\s+T\s*&\s*obj\s*\)\s*\{", "AppendIfUnique")
    lm = re.search(r"\[\s*&\s*\]\s*\(\s*\)\s*\{", abody)
    if not lm:
        raise Refuse("AppendIfUnique: the `[&]() { ... }` lambda was not found")
    la, lb = body_at(abody, lm.end() - 1)
    lam = abody[la:lb]
    lam_off = astart + la
    aops = [o for o in ops if lam_off <= o["pos"] < lam_off + len(lam)]
    outside = [o for o in ops if astart <= o["pos"] < astart + len(abody) and o not in aops]
    if outside:
        raise Refuse("AppendIfUnique touches count_ outside the locked lambda")
    loads = [o for o in aops if o["op"] == "load"]
    stores = [o for o in aops if o["op"] == "store"]
    if len(loads) != 1 or len(stores) != 1:
        raise Refuse("AppendIfUnique: expected one load and one store of count_, found %d/%d" % (len(loads), len(stores)))
    other_stores = [o for o in ops if o["op"] == "store" and o is not stores[0]]
    if other_stores:
        raise Refuse("count_ is stored outside AppendIfUnique")
    store, load = stores[0], loads[0]
    facts["writer_store_order"] = store["order"]
    facts["writer_load_order"] = load["order"]
    need(store["order"] in REL_OK, "the publishing store uses %s (release needed)" % store["order"])
    need(re.fullmatch(r"count\s*\+\s*1", store["args"][0]) is not None,
         "the publishing store writes %r, not `count + 1`" % store["args"][0])
    mload = re.search(r"\bint\s+count\s*=\s*count_\s*\.\s*load\b", lam)
    need(mload is not None, "the loaded counter is not bound to `int count`")

    def pos(rx, what, after=0):
        mm = re.search(rx, lam[after:])
        if not mm:
            raise Refuse("AppendIfUnique: %s not found" % what)
        return after + mm.start()

    p_lock = pos(r"\bauto\s+lock\s*=\s*LockExclusively\s*\(\s*\)\s*;", "`auto lock = LockExclusively();`")
    p_load = load["pos"] - lam_off
    p_scan = pos(r"\bfor\s*\(\s*int\s+i\s*=\s*0\s*;\s*i\s*<\s*count\s*;", "duplicate scan `for (int i = 0; i < count; ...`")
    p_alloc = pos(r"\bnew\s*\(\s*std::nothrow\s*\)\s*TableBlock\s*<\s*T\s*>", "block allocation")
    p_copy = pos(r"\bCopyObject\s*\(", "CopyObject call")
    p_store = store["pos"] - lam_off
    p_ret = pos(r"\breturn\s+count\s*;", "`return count;`", p_store)
    seq = [("lock", p_lock), ("load", p_load), ("scan", p_scan), ("alloc", p_alloc), ("copy", p_copy),
           ("store", p_store), ("return", p_ret)]
    facts["writer_access_order"] = [n for n, _ in sorted(seq, key=lambda x: x[1])]
    need(facts["writer_access_order"] == ["lock", "load", "scan", "alloc", "copy", "store", "return"],
         "writer access order is %s; the model (and the no-torn-read theorem) needs lock < load < scan < alloc "
         "< copy < store < return" % facts["writer_access_order"])
    need(len(re.findall(r"\bCopyObject\s*\(", lam)) == 1, "CopyObject is called more than once in the lambda")
    cargs, cclose = call_args(lam, lam.index("(", p_copy))
    need(len(cargs) == 3 and re.fullmatch(r"block\s*->\s*objects\s*\[\s*local_idx\s*\]", cargs[0]) is not None,
         "CopyObject destination is %r, not block->objects[local_idx]" % (cargs[0] if cargs else None))
    spans = loop_spans(lam)
    need(not any(a <= p_store < b for a, b in spans), "the publishing store is inside a loop")
    need(not any(a <= p_copy < b for a, b in spans), "CopyObject is called inside a loop")
    between = lam[cclose:p_store]
    need(re.fullmatch(r"\s*\)\s*\)\s*\{\s*return\s*-\s*1\s*;\s*\}\s*", between) is not None,
         "unexpected code between CopyObject and the publishing store: %r" % between.strip()[:120])
    # the duplicate scan: key comparison is the case-insensitive one and the conflicting case returns -1
    sa, sb = [s for s in spans if s[0] == p_scan][0]
    scan = lam[sa:sb]
    need(re.search(r"CaseInsensitiveEqual\s*\(\s*ObjectKey\s*\(\s*obj\s*\)\s*,\s*ObjectKey\s*\(\s*existing\s*\)\s*\)", scan)
         is not None, "the duplicate scan does not compare keys with CaseInsensitiveEqual(ObjectKey(obj), ObjectKey(existing))")
    need(re.search(r"if\s*\(\s*!\s*ObjectEqual\s*\(\s*obj\s*,\s*existing\s*\)\s*\)\s*\{[^{}]*return\s*-\s*1\s*;\s*\}\s*else\s*\{\s*return\s+i\s*;\s*\}",
                   scan) is not None, "the duplicate scan does not `return -1` on a conflicting and `return i` on an identical object")
    need(re.search(r"if\s*\(\s*local_idx\s*==\s*TableBlock\s*<\s*T\s*>\s*::\s*kBlockSize\s*\)", scan) is not None,
         "the scan's block advance is not `if (local_idx == TableBlock<T>::kBlockSize)`")
    need(re.search(r"if\s*\(\s*local_idx\s*==\s*TableBlock\s*<\s*T\s*>\s*::\s*kBlockSize\s*\)", lam[sb:p_alloc]) is not None,
         "the allocation guard is not `if (local_idx == TableBlock<T>::kBlockSize)`")

    # ---- readers obtain nslot from count()
    for fn, rx in (("GetAtSlot", r"return\s+GetAtSlotUnsafe\s*\(\s*slot\s*,\s*count\s*\(\s*\)\s*\)\s*;"),
                   ("GetByKey", r"return\s+GetByKeyUnsafe\s*\(\s*key\s*,\s*slot\s*,\s*count\s*\(\s*\)\s*\)\s*;")):
        b, _ = func_body(src, r"\bconst\s+T\s*\*\s*%s\s*\([^)]*\)\s*\{" % fn, fn)
        need(re.fullmatch(r"\s*" + rx + r"\s*", b) is not None, "%s does not pass count() as nslot" % fn)
    b, _ = func_body(src, r"\bconst\s+T\s*\*\s*GetAtSlotUnsafe\s*\([^)]*\)\s*\{", "GetAtSlotUnsafe")
    need(re.search(r"if\s*\(\s*slot\s*<\s*0\s*\|\|\s*slot\s*>=\s*nslot\s*\)\s*\{\s*return\s+nullptr\s*;", b) is not None,
         "GetAtSlotUnsafe lost its `slot < 0 || slot >= nslot` guard")
    need(re.search(r"while\s*\(\s*local_idx\s*>=\s*TableBlock\s*<\s*T\s*>\s*::\s*kBlockSize\s*\)", b) is not None,
         "GetAtSlotUnsafe block walk is not `while (local_idx >= kBlockSize)`")
    b, _ = func_body(src, r"\bconst\s+T\s*\*\s*GetByKeyUnsafe\s*\([^)]*\)\s*\{", "GetByKeyUnsafe")
    need(re.search(r"i\s*<\s*TableBlock\s*<\s*T\s*>\s*::\s*kBlockSize\s*&&\s*found_slot\s*<\s*nslot", b) is not None,
         "GetByKeyUnsafe scan bound is not `i < kBlockSize && found_slot < nslot`")
    need(re.search(r"CaseInsensitiveEqual\s*\(\s*candidate_key\s*,\s*key\s*\)", b) is not None,
         "GetByKeyUnsafe does not compare with CaseInsensitiveEqual(candidate_key, key)")

    # ---- the lock
    need(re.search(r"using\s+Mutex\s*=\s*std::mutex\s*;", src) is not None, "Mutex is not std::mutex")
    rb, _ = func_body(src, r"\bclass\s+ReentrantWriteLock\s*\{", "ReentrantWriteLock")
    need(re.search(r"if\s*\(\s*LockCountOnCurrentThread\s*\(\s*\)\s*==\s*0\s*\)\s*\{\s*mutex_\s*\.\s*lock\s*\(\s*\)\s*;\s*\}\s*"
                   r"\+\+\s*LockCountOnCurrentThread\s*\(\s*\)\s*;", rb) is not None,
         "ReentrantWriteLock constructor is not `if (counter == 0) lock(); ++counter;`")
    need(re.search(r"if\s*\(\s*--\s*LockCountOnCurrentThread\s*\(\s*\)\s*==\s*0\s*\)\s*\{\s*mutex_\s*\.\s*unlock\s*\(\s*\)\s*;\s*\}", rb)
         is not None, "ReentrantWriteLock destructor is not `if (--counter == 0) unlock();`")
    need(re.search(r"thread_local\s+int\s+counter\s*=\s*0\s*;", rb) is not None, "the re-entrancy counter is not thread_local")

    # ---- case-insensitive comparison
    kb, _ = func_body(src, r"\bbool\s+CaseInsensitiveEqual\s*\([^)]*\)\s*\{", "CaseInsensitiveEqual")
    need(re.search(r"s1\s*\.\s*length\s*\(\s*\)\s*!=\s*s2\s*\.\s*length\s*\(\s*\)", kb) is not None,
         "CaseInsensitiveEqual lost the length comparison")
    need(re.search(r"std::tolower\s*\(\s*s1\s*\[\s*i\s*\]\s*\)\s*!=\s*std::tolower\s*\(\s*s2\s*\[\s*i\s*\]\s*\)", kb) is not None,
         "CaseInsensitiveEqual does not compare std::tolower(s1[i]) with std::tolower(s2[i])")
    return facts, problems


def main():
    try:
        facts, problems = analyse()
    except Refuse as e:
        print(json.dumps({"status": "refused", "why": str(e)}))
        return 3
    print(json.dumps({"status": "ok" if not problems else "weakened", "facts": facts, "problems": problems}, indent=1))
    return 0 if not problems else 1


if __name__ == "__main__":
    sys.exit(main())
