#!/usr/bin/env python3
"""C32 translator: regenerates lean/MjProof/Gen/McjfDefaults.lean (+ McjfDefaults.json) from the source tree.

Reads (repository root = $VERIF_REPO, default /repo):
  src/xml/generated/mjcf_read_table.inc     the typed attribute rows (`mjXAttr` arrays) shared by mjXReader::ReadAttrTable
                                             and mjXWriter::WriteAttrTable; parsed textually (attr, kind, len, exact,
                                             required, nodefault, handwrite, struct.field, keyword map) AND compiled: a
                                             generated C++ translation unit prints every row, every keyword map of
                                             mjcf_map.h (keyword -> integer as the compiler sees it) and every entry of
                                             mjcf_default_table.inc; the two views must agree
  src/xml/generated/mjcf_map.h               keyword maps
  src/xml/generated/mjcf_default_table.inc   declared defaults per bound struct field
  src/xml/xml_base.h                         `enum Kind` of mjXAttr (names, order) and the field order of mjXAttr
  src/xml/xml_native_writer.cc / _reader.cc  which row tables each side uses (WriteAttrTable / ReadAttrTable* calls)
  src/xml/mjcf.schema + doc/generate/*.py    freshness: the three checked-in generated files must be what the tree's
                                             own generators (which use doc/generate/mjcf_schema.py) produce from the schema

Refuses (exit 3) on any row, map entry or call it does not understand.
"""
import hashlib
import json
import os
import re
import subprocess
import sys

VERIF = os.path.dirname(os.path.dirname(os.path.abspath(__file__)))
REPO = os.environ.get("VERIF_REPO", "/repo")
sys.path.insert(0, os.path.join(VERIF, "harness"))


class Refuse(Exception):
    pass


def read(rel):
    p = os.path.join(REPO, rel)
    if not os.path.exists(p):
        raise Refuse("missing source file %s" % p)
    with open(p, encoding="utf-8") as f:
        return f.read()


def strip_comments(s):
    s = re.sub(r"/\*.*?\*/", " ", s, flags=re.S)
    return re.sub(r"//[^\n]*", " ", s)


ROW = re.compile(r'\{\s*(?:"(?P<attr>\w+)"|nullptr)\s*,\s*mjXAttr::(?P<kind>k\w+)\s*,\s*(?P<len>[\w+\-* ]+?)\s*,\s*(?P<exact>true|false)\s*,\s*'
                 r'(?P<required>true|false)\s*,\s*(?P<nodefault>true|false)\s*,\s*(?P<handwrite>true|false)\s*,\s*'
                 r'(?:\(int\)\s*offsetof\(\s*(?P<struct>\w+)\s*,\s*(?P<field>[\w.\[\]]+)\s*\)|(?P<noff>-1))'
                 r'(?:\s*,\s*(?P<map>\w+|nullptr)\s*,\s*(?P<mapsz>\w+))?(?:\s*,\s*(?P<value>[^{}]+?))?\s*\}\s*,?')


def parse_read_tables(src):
    src = strip_comments(src)
    tables = []
    for m in re.finditer(r"inline\s+constexpr\s+mjXAttr\s+(k\w+)\[\]\s*=\s*\{", src):
        i = m.end()
        depth, j = 1, i
        while depth:
            depth += (src[j] == "{") - (src[j] == "}")
            j += 1
        body = src[i:j - 1].strip()
        rows, pos = [], 0
        while pos < len(body):
            mm = ROW.match(body, pos)
            if not mm:
                raise Refuse("%s: unparsable row near %r" % (m.group(1), body[pos:pos + 80]))
            d = mm.groupdict()
            rows.append({"attr": d["attr"] or "-", "kind": d["kind"], "len": int(d["len"]) if d["len"].isdigit() else d["len"], "exact": d["exact"] == "true",
                         "required": d["required"] == "true", "nodefault": d["nodefault"] == "true",
                         "handwrite": d["handwrite"] == "true", "struct": d["struct"], "field": d["field"],
                         "map": None if d["map"] in (None, "nullptr") else d["map"]})
            pos = mm.end()
            while pos < len(body) and body[pos].isspace():
                pos += 1
        tables.append({"name": m.group(1), "rows": rows})
    if not tables:
        raise Refuse("no mjXAttr tables found")
    return tables


def parse_kind_enum(hdr):
    hdr = strip_comments(hdr)
    m = re.search(r"struct\s+mjXAttr\s*\{\s*enum\s+Kind\s*\{([^}]*)\}\s*;(.*?)\}\s*;", hdr, re.S)
    if not m:
        raise Refuse("struct mjXAttr / enum Kind not found in xml_base.h")
    kinds = [k.strip() for k in m.group(1).split(",") if k.strip()]
    fields = [re.sub(r"\s+", " ", f).strip() for f in m.group(2).split(";") if f.strip()]
    want = ["const char* attr", "Kind kind", "int len", "bool exact", "bool required", "bool nodefault", "bool handwrite",
            "int offset", "const mjMap* map", "int mapsz", "int value"]
    if fields != want:
        raise Refuse("mjXAttr fields are %r, expected %r" % (fields, want))
    return kinds


def map_names(src):
    names = re.findall(r"inline\s+constexpr\s+mjMap\s+(\w+)\[\]", strip_comments(src))
    if not names:
        raise Refuse("no keyword maps in mjcf_map.h")
    return names


def table_uses():
    w = strip_comments(read("src/xml/xml_native_writer.cc"))
    r = strip_comments(read("src/xml/xml_native_reader.cc"))
    wt = set(re.findall(r"\b(k\w+Attrs)\b", " ".join(re.findall(r"WriteAttrTable\s*\(([^;]*);", w, re.S))))
    # the visual sub-sections are written through a local table of {tag, rows, n}
    wt |= set(re.findall(r"\{\s*\"\w+\"\s*,\s*(k\w+Attrs)\s*,", w))
    rt = set(re.findall(r"\b(k\w+Attrs)\b", " ".join(re.findall(r"ReadAttrTable(?:Core)?\s*\(([^;]*);", r, re.S))))
    rt |= set(re.findall(r"\{\s*\"\w+\"\s*,\s*(k\w+Attrs)\s*,", r))
    return sorted(wt), sorted(rt)


DUMP_HEAD = r'''// GENERATED by translate/c32_tables.py: prints the compiled contents of the generated XML tables.
#include <cstdio>
#include <cstddef>
#include <mujoco/mujoco.h>
#include "xml/xml_base.h"
#include "xml/generated/mjcf_read_table.inc"
#include "xml/generated/mjcf_default_table.inc"
struct NamedMap { const char* name; const mjMap* map; int n; };
'''


def dumper_source(tables, maps):
    L = [DUMP_HEAD, "static const NamedMap kMaps[] = {"]
    for n in maps:
        L.append('  {"%s", %s, (int)(sizeof(%s)/sizeof(%s[0]))},' % (n, n, n, n))
    L.append("};")
    L.append("static const char* mapname(const mjMap* m) { if (!m) return \"\"; for (const NamedMap& k : kMaps) if (k.map == m) return k.name; return \"?\"; }")
    L.append("static void rows(const char* name, const mjXAttr* r, int n) {")
    L.append('  for (int i = 0; i < n; i++) printf("row %s %s %d %d %d %d %d %d %d %s %d\\n", name, r[i].attr ? r[i].attr : "-", (int)r[i].kind, r[i].len, '
             "(int)r[i].exact, (int)r[i].required, (int)r[i].nodefault, (int)r[i].handwrite, r[i].offset, "
             'r[i].map ? mapname(r[i].map) : "-", r[i].mapsz);')
    L.append("}")
    L.append("int main() {")
    L.append('  for (const NamedMap& k : kMaps) for (int i = 0; i < k.n; i++) printf("map %s %s %d\\n", k.name, k.map[i].key, k.map[i].value);')
    for t in tables:
        L.append('  rows("%s", %s, %sN);' % (t["name"], t["name"], t["name"]))
    L.append("  for (int t = 0; t < kDefaultTablesN; t++) for (int i = 0; i < kDefaultTables[t].n; i++) {")
    L.append("    const mjXDefaultEntry& e = kDefaultTables[t].entries[i];")
    L.append('    printf("def %s %s %d %d %d %d %d", kDefaultTables[t].structname, e.attr, e.offset, e.kind, e.len, e.ndecl, e.unset);')
    L.append('    for (int j = 0; j < 8; j++) printf(" %.17g", e.value[j]);')
    L.append('    printf("\\n");')
    L.append("  }")
    L.append("  return 0;")
    L.append("}")
    return "\n".join(L) + "\n"


def run_dumper(src_text):
    import build
    import build_xml
    gen = os.path.join(VERIF, ".cache", "gen")
    os.makedirs(gen, exist_ok=True)
    hh = build_xml.xml_header_hash(build.header_hash())
    key = hashlib.sha256((src_text + hh).encode()).hexdigest()[:20]
    out = os.path.join(gen, "c32_dump_%s.txt" % key)
    if os.path.exists(out):
        return open(out).read()
    cc = os.path.join(gen, "c32_dump_%s.cc" % key)
    exe = os.path.join(gen, "c32_dump_%s" % key)
    open(cc, "w").write(src_text)
    cmd = ["g++", "-std=c++20"] + build_xml.xml_flags("scalar") + [cc, "-o", exe]
    r = subprocess.run(cmd, capture_output=True, text=True)
    if r.returncode != 0:
        raise Refuse("the table dumper does not compile: " + r.stderr[-1500:])
    r = subprocess.run([exe], capture_output=True, text=True)
    if r.returncode != 0:
        raise Refuse("the table dumper failed: " + r.stderr[-500:])
    tmp = out + ".tmp%d" % os.getpid()
    open(tmp, "w").write(r.stdout)
    os.replace(tmp, out)
    for p in (cc, exe):
        try:
            os.remove(p)
        except OSError:
            pass
    return r.stdout


LEAN_KIND = {"kInt": "int", "kDouble": "double", "kNum": "num", "kFloat": "float", "kEnum": "enum", "kEnumByte": "enumByte",
             "kBool": "bool"}


def lean_str(s):
    return '"' + s.replace("\\", "\\\\").replace('"', '\\"') + '"'


def freshness():
    out = {}
    for gen, rel in (("generate_read_table.py", "src/xml/generated/mjcf_read_table.inc"),
                     ("generate_default_table.py", "src/xml/generated/mjcf_default_table.inc"),
                     ("generate_mjcf_map.py", "src/xml/generated/mjcf_map.h")):
        r = subprocess.run([sys.executable, os.path.join(REPO, "doc", "generate", gen)], capture_output=True, text=True)
        out[rel] = (r.returncode == 0 and r.stdout == read(rel))
    return out


def generate():
    kinds = parse_kind_enum(read("src/xml/xml_base.h"))
    for k in LEAN_KIND:
        if k not in kinds:
            raise Refuse("mjXAttr::%s is not a Kind any more" % k)
    tables = parse_read_tables(read("src/xml/generated/mjcf_read_table.inc"))
    mnames = map_names(read("src/xml/generated/mjcf_map.h"))
    dump = run_dumper(dumper_source(tables, mnames))
    maps, crow, defs = {}, {}, []
    for l in dump.split("\n"):
        w = l.split(" ")
        if w[0] == "map":
            maps.setdefault(w[1], []).append((w[2], int(w[3])))
        elif w[0] == "row":
            crow.setdefault(w[1], []).append(w[2:])
        elif w[0] == "def":
            defs.append({"struct": w[1], "attr": w[2], "offset": int(w[3]), "kind": int(w[4]), "len": int(w[5]),
                         "ndecl": int(w[6]), "unset": int(w[7]), "values": [float(x) for x in w[8:16]]})
    # textual rows == compiled rows
    for t in tables:
        c = crow.get(t["name"], [])
        if len(c) != len(t["rows"]):
            raise Refuse("%s: %d rows in the text, %d compiled" % (t["name"], len(t["rows"]), len(c)))
        for r, cr in zip(t["rows"], c):
            if not isinstance(r["len"], int):
                r["len_symbol"], r["len"] = r["len"], int(cr[2])      # symbolic bound (mjNREF ...): the compiler's value
            want = [r["attr"], str(kinds.index(r["kind"])), str(r["len"]), str(int(r["exact"])), str(int(r["required"])),
                    str(int(r["nodefault"])), str(int(r["handwrite"]))]
            if cr[:7] != want:
                raise Refuse("%s.%s: text %r vs compiled %r" % (t["name"], r["attr"], want, cr[:7]))
            r["offset"] = int(cr[7])
            cmap = None if cr[8] == "-" else cr[8]
            if r["kind"] == "kBool":
                cmap = "bool_map"
            elif r["kind"] in ("kEnum", "kEnumByte", "kFlags"):
                if cmap in (None, "?") or (r["map"] and cmap != r["map"]):
                    raise Refuse("%s.%s: keyword map %r (text) vs %r (compiled)" % (t["name"], r["attr"], r["map"], cmap))
                if int(cr[9]) != len(maps.get(cmap, [])):
                    raise Refuse("%s.%s: mapsz %s but %s has %d entries" % (t["name"], r["attr"], cr[9], cmap, len(maps.get(cmap, []))))
            else:
                cmap = None
            r["map"] = cmap
    wt, rt = table_uses()
    names = {t["name"] for t in tables}
    for n in wt + rt:
        if n not in names:
            raise Refuse("table %s used by the reader/writer is not defined in mjcf_read_table.inc" % n)
    return {"kinds": kinds, "tables": tables, "maps": {k: v for k, v in maps.items()}, "defaults": defs,
            "writer_tables": wt, "reader_tables": rt, "fresh": freshness()}


def emit(j):
    used_maps = sorted({r["map"] for t in j["tables"] for r in t["rows"] if r["map"]})
    L = ["import MjProof.Model.XmlDefaults",
         "/- GENERATED by translate/c32_tables.py from src/xml/generated/{mjcf_read_table.inc, mjcf_map.h} of the working tree.",
         "   Do not edit. -/",
         "namespace MjProof.Gen.McjfDefaults", "open MjProof.XmlDefaults", ""]
    for m in used_maps:
        L.append("def %s : List (String × Int) := [%s]" % (m, ", ".join("(%s, %d)" % (lean_str(k), v) for k, v in j["maps"][m])))
    L.append("")
    L.append("/-- keyword maps referenced by rows of the kinds the table writer handles -/")
    L.append("def maps : List (String × List (String × Int)) := [%s]" % ", ".join("(%s, %s)" % (lean_str(m), m) for m in used_maps))
    L.append("")
    for t in j["tables"]:
        L.append("def %s : List Row := [" % t["name"])
        rows = []
        for r in t["rows"]:
            if r["kind"] == "kConst":
                continue      # not an attribute: a constant the tag implies (no name, nothing written or read)
            kind = LEAN_KIND.get(r["kind"], "other")
            keys = r["map"] if (kind in ("enum", "enumByte", "bool") and r["map"]) else "[]"
            rows.append("  ⟨%s, .%s, %d, %s, %s, %s, %s, %s⟩" % (lean_str(r["attr"]), kind, r["len"], str(r["exact"]).lower(),
                                                                 str(r["required"]).lower(), str(r["nodefault"]).lower(),
                                                                 str(r["handwrite"]).lower(), keys))
        L.append(",\n".join(rows))
        L.append("]")
    L.append("")
    both = [n for n in j["writer_tables"] if n in j["reader_tables"]]
    L.append("/-- every row table of mjcf_read_table.inc -/")
    L.append("def tables : List (String × List Row) := [%s]" % ", ".join("(%s, %s)" % (lean_str(t["name"]), t["name"]) for t in j["tables"]))
    L.append("")
    L.append("/-- the tables used by BOTH mjXWriter::WriteAttrTable and mjXReader::ReadAttrTable* -/")
    L.append("def roundTripTables : List (String × List Row) := [%s]" % ", ".join("(%s, %s)" % (lean_str(n), n) for n in both))
    L.append("")
    L.append("def fresh : Bool := %s" % ("true" if all(j["fresh"].values()) else "false"))
    L += ["", "end MjProof.Gen.McjfDefaults", ""]
    return "\n".join(L)


def write_if_changed(path, text):
    os.makedirs(os.path.dirname(path), exist_ok=True)
    if os.path.exists(path) and open(path).read() == text:
        return
    tmp = path + ".tmp%d" % os.getpid()
    open(tmp, "w").write(text)
    os.replace(tmp, path)


def main():
    out = os.path.join(VERIF, "lean", "MjProof", "Gen")
    try:
        j = generate()
    except Refuse as e:
        print("c32_tables: REFUSED: %s" % e, file=sys.stderr)
        write_if_changed(os.path.join(out, "McjfDefaults.json"), json.dumps({"refused": str(e)}, indent=1))
        return 3
    write_if_changed(os.path.join(out, "McjfDefaults.lean"), emit(j))
    write_if_changed(os.path.join(out, "McjfDefaults.json"), json.dumps(j, indent=1))
    print("c32_tables: %d tables, %d rows, %d maps, %d default entries, writer uses %d, reader uses %d, fresh=%s"
          % (len(j["tables"]), sum(len(t["rows"]) for t in j["tables"]), len(j["maps"]), len(j["defaults"]),
             len(j["writer_tables"]), len(j["reader_tables"]), all(j["fresh"].values())))
    return 0


if __name__ == "__main__":
    sys.exit(main())
