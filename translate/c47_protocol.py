"""C47 translator: the spec-touching statements of `_infer_inertial` and `apply_body_theta_inertia`
(python/mujoco/sysid/_src/model_modifier.py), extracted from the source with `ast` on every run and
rendered as the instruction tokens of the Lean model (`MjProof.LogChol.Instr.token`, programs `inferProg` /
`applyProg` in lean/MjProof/Model/LogCholesky.lean).  The check compares the two token lists exactly.

What is a spec-touching statement: any statement that assigns to / augments / deletes / calls a method of an
object reachable from the `spec` parameter (the `MjSpec`, `spec.compiler`, the `MjsBody` bound from
`_get_obj_or_raise(spec, ..)` or `_infer_inertial(spec, ..)`), or calls a function with such an object as
argument.  Pure local numeric statements (`pi = pi_from_theta(theta)`, `I_bar = ...`, `skew_ipos =
skew(body.ipos)`, `fullinertia = ...`) read the spec at most and are not part of the protocol: their values
are covered by the floating-point correspondence (`apply` / `aspec` ops).  The argument guard
`if theta.size != 10: raise ValueError` and `assert isinstance(..)` are skipped.  Anything else that touches
the spec and is not one of the recognised statement shapes is rendered as `unknown<...>` (so the lists differ)
— the translator never guesses.

usage:  c47_protocol.py <repo>      prints two lines: `infer <tokens>` and `apply <tokens>`
"""
import ast
import os
import sys

REL = os.path.join("python", "mujoco", "sysid", "_src", "model_modifier.py")

# body.fullinertia[i] = fullinertia[a, b]
FULL_MAP = {0: (0, 0), 1: (1, 1), 2: (2, 2), 3: (0, 1), 4: (0, 2), 5: (1, 2)}


def root_name(node):
    while isinstance(node, (ast.Attribute, ast.Subscript, ast.Call)):
        node = node.func if isinstance(node, ast.Call) else node.value
    return node.id if isinstance(node, ast.Name) else None


def names_in(node):
    return {n.id for n in ast.walk(node) if isinstance(n, ast.Name)}


def const(node):
    """value of a literal (incl. negative numbers / enum attribute mjINERTIAFROMGEOM_*), else None"""
    if isinstance(node, ast.Constant):
        return node.value
    if isinstance(node, ast.UnaryOp) and isinstance(node.op, ast.USub) and isinstance(node.operand, ast.Constant):
        return -node.operand.value
    if isinstance(node, ast.Attribute) and node.attr.startswith("mjINERTIAFROMGEOM_"):
        return {"mjINERTIAFROMGEOM_FALSE": 0, "mjINERTIAFROMGEOM_TRUE": 1, "mjINERTIAFROMGEOM_AUTO": 2}.get(node.attr)
    return None


def is_nan(node):
    return ast.unparse(node) in ("np.nan", "numpy.nan", "float('nan')", "math.nan")


def model_field(node, model_names):
    """`model.body(body_name).<field>` or `...<field>[0]` -> (field, indexed)"""
    idx = False
    if isinstance(node, ast.Subscript) and const(node.slice) == 0:
        node, idx = node.value, True
    if (isinstance(node, ast.Attribute) and isinstance(node.value, ast.Call)
            and isinstance(node.value.func, ast.Attribute) and node.value.func.attr == "body"
            and isinstance(node.value.func.value, ast.Name) and node.value.func.value.id in model_names
            and ast.unparse(node.value.args[0] if node.value.args else node) == "body_name"):
        return node.attr, idx
    return None


# builtins that cannot mutate their arguments
PURE_CALLS = ("isinstance", "len", "type", "id", "repr", "str", "float", "int", "bool")


def target_roots(t):
    if isinstance(t, (ast.Tuple, ast.List)):
        r = set()
        for e in t.elts:
            r |= target_roots(e)
        return r
    if isinstance(t, ast.Starred):
        return target_roots(t.value)
    return {root_name(t)}


def translate(fn):
    spec_objs = {"spec"}        # names bound to the MjSpec or objects inside it
    model_names = set()         # names bound to spec.compile()
    toks = []
    pending_full = {}           # the six element writes of body.fullinertia collapse into one instruction

    def flush_full():
        if pending_full:
            toks.append("fullFromPi" if pending_full == FULL_MAP else "unknown<fullinertia %r>" % (sorted(pending_full.items()),))
            pending_full.clear()

    def emit(tok):
        flush_full()
        toks.append(tok)

    def unknown(st):
        emit("unknown<%s>" % " ".join(ast.unparse(st).split())[:120])

    def may_mutate(expr):
        """does evaluating expr call a method of a spec object, or pass one to a function?"""
        for c in ast.walk(expr):
            if isinstance(c, ast.Call):
                if ast.unparse(c.func) in PURE_CALLS:
                    continue
                if isinstance(c.func, ast.Attribute) and root_name(c.func) in spec_objs:
                    return True
                for a in list(c.args) + [k.value for k in c.keywords]:
                    if isinstance(a, ast.Name) and a.id in spec_objs:
                        return True
        return False

    def simple_assign(tgt, val):
        """a single-target assignment; returns True when handled"""
        if isinstance(tgt, ast.Name):
            u = ast.unparse(val)
            if isinstance(val, ast.Call) and ast.unparse(val.func) == "_get_obj_or_raise" and len(val.args) == 3 and \
                    ast.unparse(val.args[0]) == "spec" and const(val.args[1]) == "body" and ast.unparse(val.args[2]) == "body_name":
                spec_objs.add(tgt.id)
                return True
            if u == "_infer_inertial(spec, body_name)":
                spec_objs.add(tgt.id)
                emit("callInfer")
                return True
            if u == "spec.compile()":
                model_names.add(tgt.id)
                emit("compile")
                return True
            if may_mutate(val):
                return False
            if isinstance(val, (ast.Attribute, ast.Name)) and (u in spec_objs or u in ("spec.compiler", "spec.worldbody")):
                spec_objs.add(tgt.id)      # alias of a spec object
                return True
            spec_objs.discard(tgt.id)
            model_names.discard(tgt.id)
            return True                     # pure local binding (numbers read from the spec at most)
        if root_name(tgt) not in spec_objs:
            return not may_mutate(val)      # write into a local array
        t = ast.unparse(tgt)
        c = const(val)
        if t == "spec.compiler.inertiafromgeom":
            emit("setIfg:%d" % c if isinstance(c, int) and not isinstance(c, bool) else "setIfg:?%s" % ast.unparse(val))
            return True
        if t == "body.explicitinertial" and isinstance(c, bool):
            emit("setExplicit:%s" % c)
            return True
        if t == "body.fullinertia" and isinstance(val, ast.Call) and ast.unparse(val.func) in ("np.full", "numpy.full") \
                and len(val.args) == 2 and not val.keywords and is_nan(val.args[1]):
            emit("fullNaN")
            return True
        mf = model_field(val, model_names)
        if mf is not None and t in ("body.mass", "body.inertia", "body.ipos", "body.iquat"):
            f = t.split(".")[1]
            if mf == (f, f == "mass"):
                emit(f + "FromModel")
                return True
        if t == "body.mass" and ast.unparse(val) == "pi[0]":
            emit("massPi")
            return True
        if t == "body.ipos" and ast.unparse(val) == "pi[1:4] / pi[0]":
            emit("iposPi")
            return True
        if t == "body.inertia[:]" and c in (0, 0.0) and not isinstance(c, bool):
            emit("inertiaZero")
            return True
        if t == "body.iquat[:]" and is_nan(val):
            emit("iquatNaN")
            return True
        if isinstance(tgt, ast.Subscript) and ast.unparse(tgt.value) == "body.fullinertia" and \
                isinstance(const(tgt.slice), int) and isinstance(val, ast.Subscript) and \
                ast.unparse(val.value) == "fullinertia" and isinstance(val.slice, ast.Tuple) and \
                len(val.slice.elts) == 2 and all(isinstance(const(e), int) for e in val.slice.elts) and \
                const(tgt.slice) not in pending_full:
            pending_full[const(tgt.slice)] = tuple(const(e) for e in val.slice.elts)
            return True
        return False

    body = list(fn.body)
    if body and isinstance(body[0], ast.Expr) and isinstance(body[0].value, ast.Constant) and isinstance(body[0].value.value, str):
        body = body[1:]
    for st in body:
        touches = bool(names_in(st) & (spec_objs | model_names))
        if isinstance(st, ast.Assert) and not may_mutate(st):
            continue
        if isinstance(st, ast.If) and st.body and all(isinstance(x, ast.Raise) for x in st.body) and not st.orelse \
                and not touches:
            continue                        # argument guard
        if isinstance(st, ast.Return) and not (st.value is not None and may_mutate(st.value)):
            flush_full()
            continue
        if isinstance(st, ast.Assign) and len(st.targets) == 1 and not isinstance(st.targets[0], (ast.Tuple, ast.List, ast.Starred)):
            if not simple_assign(st.targets[0], st.value):
                unknown(st)
            continue
        if isinstance(st, ast.Assign):
            roots = set()
            for t in st.targets:
                roots |= target_roots(t)
            if roots & spec_objs or may_mutate(st.value):
                unknown(st)
            else:
                for r in roots:             # rebinding a name makes it a plain local
                    if any(isinstance(t, ast.Name) and t.id == r for t in st.targets):
                        spec_objs.discard(r)
            continue
        if not touches and isinstance(st, (ast.AugAssign, ast.AnnAssign, ast.Expr, ast.Pass)):
            continue                        # local arithmetic
        unknown(st)                         # control flow / anything that involves the spec in another way
    flush_full()
    return toks


def extract(repo):
    src = open(os.path.join(repo, REL)).read()
    tree = ast.parse(src)
    fns = {n.name: n for n in tree.body if isinstance(n, ast.FunctionDef)}
    out = {}
    for key, name in (("infer", "_infer_inertial"), ("apply", "apply_body_theta_inertia")):
        out[key] = translate(fns[name]) if name in fns else ["unknown<function %s missing>" % name]
    return out


if __name__ == "__main__":
    r = extract(sys.argv[1] if len(sys.argv) > 1 else "/repo")
    for k in ("infer", "apply"):
        print(k, " ".join(t.replace(" ", "_") for t in r[k]))
