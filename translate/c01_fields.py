#!/usr/bin/env python3
"""C01/C04 translator: regenerates lean/MjProof/Gen/DataFields.lean (+ .json) from the source tree.

  include/mujoco/mjdata.h      struct mjData_: every member, in declaration order (name, C type)
  include/mujoco/mjxmacro.h    MJDATA_POINTERS / MJDATA_ARENA_POINTERS_* / MJDATA_SCALAR / MJDATA_VECTOR:
                               the kind of each member (buffer pointer, arena pointer, scalar, vector);
                               every X-macro entry must be a struct member
  include/mujoco/mjtype.h      enum mjtState: the bits selected by mjSTATE_INTEGRATION
  src/engine/engine_support.c  mj_stateElemPtr switch (+ the special-cased mjtBool element of
                               mj_getState/mj_setState/mj_copyState): which mjData field each bit designates
                               (parsed with the C26 translator's parser, translate/c26_tables.py)

Nothing is hard-coded: the field list and the integration-state field list are whatever the source says.
Refuses (exit 3) when a construct is outside the understood shape."""
import json
import os
import re
import sys

here = os.path.dirname(os.path.abspath(__file__))
sys.path.insert(0, here)
import c26_tables as T  # noqa: E402

Refuse = T.Refuse


def struct_members():
    src = T.strip_comments(T.read("include/mujoco/mjdata.h"))
    m = re.search(r"struct\s+mjData_\s*\{(.*?)\n\}\s*(?:mjData\s*)?;", src, re.S)
    if not m:
        raise Refuse("mjdata.h: struct mjData_ not found")
    out = []
    for decl in m.group(1).split(";"):
        d = " ".join(decl.split())
        if not d:
            continue
        md = re.fullmatch(r"([A-Za-z_][\w ]*?)\s*(\*?)\s*(\w+)\s*(\[[^\]]*\])?", d)
        if not md:
            raise Refuse("struct mjData_: member declaration not understood: %r" % d)
        typ, star, name, arr = md.groups()
        ctype = typ.strip() + ("*" if star else "") + (arr or "")
        if any(n == name for n, _ in out):
            raise Refuse("struct mjData_: duplicate member %s" % name)
        out.append((name, ctype))
    if not out:
        raise Refuse("struct mjData_: no members")
    return out


def xmacro_entries(src, name, arity):
    body = T.parse_xmacro(src, name)
    out = []
    for line in body.split("\n"):
        line = line.strip()
        if not line:
            continue
        m = re.fullmatch(r"(X|XNV)\s*\((.*)\)", line)
        if not m:
            if re.fullmatch(r"MJDATA_\w+", line):
                continue     # the aggregate macro lists its parts
            raise Refuse("%s: entry not understood: %r" % (name, line))
        args = [a.strip() for a in re.split(r",(?![^()]*\))", m.group(2))]
        if len(args) != arity:
            raise Refuse("%s: expected %d arguments: %r" % (name, arity, line))
        out.append(args)
    return out


def kinds():
    src = T.read("include/mujoco/mjxmacro.h")
    k = {}

    def put(name, kind):
        if name in k:
            raise Refuse("mjxmacro.h: field %s listed twice (%s, %s)" % (name, k[name], kind))
        k[name] = kind
    for a in xmacro_entries(src, "MJDATA_POINTERS", 4):
        put(a[1], "pointer")
    parts = re.findall(r"MJDATA_ARENA_POINTERS_\w+", T.parse_xmacro(src, "MJDATA_ARENA_POINTERS"))
    if not parts:
        raise Refuse("MJDATA_ARENA_POINTERS: no parts")
    for part in parts:
        for a in xmacro_entries(src, part, 4):
            put(a[1], "arena")
    for a in xmacro_entries(src, "MJDATA_SCALAR", 2):
        put(a[1], "scalar")
    for a in xmacro_entries(src, "MJDATA_VECTOR", 4):
        put(a[1], "vector")
    return k


def integration_state():
    enum_file, elems, nstate, named = T.parse_enum()
    nd = dict(named)
    if "mjSTATE_INTEGRATION" not in nd:
        raise Refuse("enum mjtState: mjSTATE_INTEGRATION not found")
    sig = nd["mjSTATE_INTEGRATION"]
    src = T.read("src/engine/engine_support.c")
    ptr_cases = T.parse_switch(T.function_body(src, r"static\s+inline\s+mjtNum\s*\*\s*mj_stateElemPtr\s*\([^)]*\)\s*\{", "mj_stateElemPtr"),
                               "mj_stateElemPtr", T.PTR_RE)
    specials = T.match_loops(src)
    field_of = {}
    for n, e in ptr_cases:
        field_of[n] = re.fullmatch(r"(&?) ?d ?-> ?(\w+)", e).group(2)
    for el, _bound, fld in specials:
        if el in field_of:
            raise Refuse("element %s both special-cased and in the ptr switch" % el)
        field_of[el] = fld
    out = []
    for name, bit in elems:
        if sig >> bit & 1:
            if name not in field_of:
                raise Refuse("state element %s is selected by mjSTATE_INTEGRATION but designates no mjData field" % name)
            out.append((name, field_of[name]))
    if sig >> (max(b for _, b in elems) + 1):
        raise Refuse("mjSTATE_INTEGRATION has bits outside the declared elements")
    return sig, out


def esc(s):
    return s.replace("\\", "\\\\").replace('"', '\\"')


def main():
    out_dir = os.path.join(os.path.dirname(here), "lean", "MjProof", "Gen")
    try:
        members = struct_members()
        k = kinds()
        names = [n for n, _ in members]
        for n in k:
            if n not in names:
                raise Refuse("mjxmacro.h lists %s which is not a member of struct mjData_" % n)
        sig, state = integration_state()
        for _, f in state:
            if f not in names:
                raise Refuse("state field %s is not a member of struct mjData_" % f)
    except Refuse as e:
        sys.stderr.write("c01_fields: REFUSED: %s\n" % e)
        json.dump({"repo": T.REPO, "refused": str(e)}, open(os.path.join(out_dir, "DataFields.json"), "w"), indent=1)
        return 3
    rows = [(n, t, k.get(n, "other")) for n, t in members]
    L = ["-- GENERATED by translate/c01_fields.py from include/mujoco/mjdata.h, mjxmacro.h, mjtype.h and",
         "-- src/engine/engine_support.c of the working tree.  Do not edit; regenerated on every run.",
         "namespace MjProof.Gen.DataFields", "",
         "/-- every member of `struct mjData_` in declaration order: (name, C type, kind) where kind is",
         "    `pointer` (MJDATA_POINTERS), `arena` (MJDATA_ARENA_POINTERS), `scalar`, `vector` or `other` -/",
         "def fields : List (String × String × String) := ["]
    L.append(",\n".join('  ("%s", "%s", "%s")' % (esc(n), esc(t), kk) for n, t, kk in rows) + "]")
    L += ["", "def fieldNames : List String := fields.map (·.1)", "",
          "/-- value of `mjSTATE_INTEGRATION` -/", "def integrationSig : Nat := %d" % sig, "",
          "/-- the `mjtState` elements selected by `mjSTATE_INTEGRATION` with the `mjData` field that",
          "    `mj_stateElemPtr` (or the special-cased loop of mj_getState/mj_setState/mj_copyState) designates -/",
          "def integrationState : List (String × String) := ["]
    L.append(",\n".join('  ("%s", "%s")' % (a, b) for a, b in state) + "]")
    L += ["", "def integrationStateFields : List String := integrationState.map (·.2)", "", "end MjProof.Gen.DataFields", ""]
    text = "\n".join(L)
    p = os.path.join(out_dir, "DataFields.lean")
    if not os.path.exists(p) or open(p).read() != text:
        tmp = p + ".tmp%d" % os.getpid()
        open(tmp, "w").write(text)
        os.replace(tmp, p)
    json.dump({"repo": T.REPO, "fields": [{"name": n, "ctype": t, "kind": kk} for n, t, kk in rows],
               "integration_sig": sig, "integration_state": [{"element": a, "field": b} for a, b in state]},
              open(os.path.join(out_dir, "DataFields.json"), "w"), indent=1)
    print("c01_fields: %d mjData members, %d integration-state fields" % (len(rows), len(state)))
    return 0


if __name__ == "__main__":
    sys.exit(main())
