"""C14 kernels: the scalar decision functions of engine_collision_driver.c (all file-static).

  filterBitmask    contype/conaffinity compatibility (1 = discard)
  filterBodyPair   same-weld / both-dofless / asleep / parent-child (1 = discard)
  filterBox        margin-inflated AABB disjointness (1 = discard)
  filterSphereBox  sphere-as-box vs AABB disjointness (1 = discard)
  filterSphere     bounding-sphere test on squared distance (1 = discard)

Refused by c2lean (hand-modelled in lean/MjProof/Model/Broadphase.lean and tied by the correspondence of
checks/c14.py): SAPcmp, uintcmp, contactcompare (struct / void pointer parameters); everything taking mjModel*.
"""
DRV = "src/engine/engine_collision_driver.c"
KERNELS = [
    {"name": "filterBitmask", "file": DRV, "static": True},
    {"name": "filterBodyPair", "file": DRV, "static": True},
    {"name": "filterBox", "file": DRV, "static": True},
    {"name": "filterSphereBox", "file": DRV, "static": True},
    {"name": "filterSphere", "file": DRV, "static": True},
]
