#!/usr/bin/env python3
"""C21 translator: the allocation / initialisation / publication skeleton of the object life-cycle functions.

From the C / C++ text of the tree (VERIF_REPO) it extracts, for

  engine_io.c      mj_makeModel, mj_makeRawData (both on the `*dest == NULL` path: `allocate` = 1), mj_makeData,
                   mj_deleteModel + freeModelBuffers, mj_deleteData + freeDataBuffers
  engine_thread.cc mju_threadpool (called with nthread = 0 by mj_deleteData)
  user_model.cc    mjCModel::Compile (which variables TryCompile works on, the catch block) and the data
                   life-cycle inside mjCModel::TryCompile

the ordered sequence of the events the Lean protocol model (lean/MjProof/Model/AllocProtocol.lean) is made of:

  alloc X                   X = mju_malloc(…)                       (X: a variable or `v.field`)
  ifnull X [c,…] EXIT       if (!X) { mju_free(c)…; mjERROR / throw (error) | mju_warning…return (warnreturn) }
  set v.f 0                 v->f = 0 / NULL   for the fields the delete functions read
  zero v                    memset(v, 0, sizeof(struct))
  publish DEST v            *dest = v  (DEST: `local`, or the variable of mjCModel::Compile the reference is bound to)
  clear DEST                DEST = nullptr
  read v.f                  a branch or loop bound computed from v->f (the guarded block / loop body is not part
                            of the skeleton: the model has threadpool = 0, nplugin = 0)
  free X                    mju_free(X)
  ifset v                   the `if (v)` of a delete function reached from the catch block

in *textual order*, so that moving `*dest = d` before an allocation, dropping `d->nplugin = 0`, reading one more
field in mj_deleteData, or deleting before resetting in TryCompile all change the output.  `drv_c21` prints the same
skeletons from the programs the theorems are about (op `skeleton NAME`); checks/c21.py compares them.  Whatever
this extractor does not understand is emitted as a `?…` event (never guessed), which cannot match the model.

usage: c21_protocol.py [--json]
"""
import json
import os
import re
import sys

REPO = os.environ.get("VERIF_REPO", "/repo")
IO = "src/engine/engine_io.c"
THREAD = "src/engine/engine_thread.cc"
UMODEL = "src/user/user_model.cc"
NAMES = ["mj_makeModel", "mj_makeRawData", "mj_deleteModel", "mj_deleteData", "compile", "compile_catch"]


class Refuse(Exception):
    pass


def strip_comments(src):
    out = []
    i, n = 0, len(src)
    while i < n:
        c = src[i]
        if src.startswith("//", i):
            j = src.find("\n", i)
            j = n if j < 0 else j
            out.append(" " * (j - i))
            i = j
        elif src.startswith("/*", i):
            j = src.find("*/", i + 2)
            j = n if j < 0 else j + 2
            out.append("".join(ch if ch == "\n" else " " for ch in src[i:j]))
            i = j
        elif c == '"' or c == "'":
            j = i + 1
            while j < n and src[j] != c:
                j += 2 if src[j] == "\\" else 1
            j = min(j + 1, n)
            out.append(c + " " * (j - i - 2) + c if j - i >= 2 else src[i:j])
            i = j
        else:
            out.append(c)
            i += 1
    return "".join(out)


def mask_preprocessor(code):
    """Blank preprocessor lines (with continuations) and the regions of `#ifdef mjUSEASAN` / `#ifdef MEMORY_SANITIZER`
    (not defined in the builds used here); any other conditional region inside a scanned function is refused later."""
    out, cont, skip = [], False, 0
    for line in code.split("\n"):
        st = line.lstrip()
        is_pp = cont or st.startswith("#")
        if is_pp and not cont:
            if re.match(r"#\s*if(def)?\s+(defined\s*\(?\s*)?(mjUSEASAN|MEMORY_SANITIZER|ADDRESS_SANITIZER)\b", st):
                skip += 1
            elif skip and re.match(r"#\s*if", st):
                skip += 1
            elif skip and re.match(r"#\s*endif", st):
                skip -= 1
                out.append(" " * len(line))
                cont = line.rstrip().endswith("\\")
                continue
            elif not skip and re.match(r"#\s*(if|ifdef|ifndef|else|elif)\b", st):
                out.append("@PPCOND@" + " " * max(0, len(line) - 8))
                cont = line.rstrip().endswith("\\")
                continue
        cont = is_pp and line.rstrip().endswith("\\")
        out.append(" " * len(line) if (is_pp or skip) else line)
    return "\n".join(out)


def load(rel):
    with open(os.path.join(REPO, rel), encoding="utf-8", errors="replace") as f:
        return mask_preprocessor(strip_comments(f.read()))


def match_close(text, i, op="(", cl=")"):
    """index just past the bracket matching text[i]."""
    d = 0
    for j in range(i, len(text)):
        if text[j] == op:
            d += 1
        elif text[j] == cl:
            d -= 1
            if d == 0:
                return j + 1
    raise Refuse("unbalanced %s at offset %d" % (op, i))


def function(text, name):
    """(parameter text, body text without the outer braces) of the definition of `name`."""
    for m in re.finditer(r"(?<![\w:>.])" + re.escape(name) + r"\s*\(", text):
        e = match_close(text, m.end() - 1)
        k = e
        while k < len(text) and text[k] in " \n\t":
            k += 1
        if text.startswith("const", k):
            k += 5
            while k < len(text) and text[k] in " \n\t":
                k += 1
        if k < len(text) and text[k] == "{":
            end = match_close(text, k, "{", "}")
            return text[m.end():e - 1], text[k + 1:end - 1]
    raise Refuse("definition of %s not found" % name)


# ----------------------------------------------------------------------------- statement tree
def parse_block(t, i=0):
    """-> (nodes, index after the closing brace or len).  nodes: ('stmt', s) ('if', cond, then, else) ('loop', head, body)
    ('block', nodes)."""
    nodes = []
    n = len(t)
    while i < n:
        while i < n and t[i] in " \n\t;":
            i += 1
        if i >= n:
            break
        if t[i] == "}":
            return nodes, i + 1
        node, i = parse_stmt(t, i)
        nodes.append(node)
    return nodes, i


def skip_ws(t, i):
    while i < len(t) and t[i] in " \n\t":
        i += 1
    return i


def parse_stmt(t, i):
    m = re.match(r"(if|for|while|switch)\s*\(", t[i:])
    if m and (i == 0 or not (t[i - 1].isalnum() or t[i - 1] == "_")):
        p = i + m.end() - 1
        e = match_close(t, p)
        head = " ".join(t[p + 1:e - 1].split())
        body, j = parse_stmt(t, skip_ws(t, e))
        body = body[1] if body[0] == "block" else [body]
        if m.group(1) == "if":
            k = skip_ws(t, j)
            els = None
            if re.match(r"else\b", t[k:]):
                eb, j = parse_stmt(t, skip_ws(t, k + 4))
                els = eb[1] if eb[0] == "block" else [eb]
            return ("if", head, body, els), j
        return ("loop", head, body), j
    if t[i] == "{":
        nodes, j = parse_block(t, i + 1)
        return ("block", nodes), j
    m = re.match(r"(try|do)\b\s*\{", t[i:])
    if m:
        nodes, j = parse_block(t, i + m.end())
        return ("block", nodes), j
    m = re.match(r"catch\s*\(", t[i:])
    if m:
        e = match_close(t, i + m.end() - 1)
        k = skip_ws(t, e)
        nodes, j = parse_block(t, k + 1)
        return ("catch", " ".join(t[i + m.end():e - 1].split()), nodes), j
    # plain statement: up to ';' at bracket depth 0
    d = 0
    j = i
    while j < len(t):
        c = t[j]
        if c in "([{":
            d += 1
        elif c in ")]}":
            if d == 0:
                break
            d -= 1
        elif c == ";" and d == 0:
            break
        j += 1
    return ("stmt", " ".join(t[i:j].split())), min(j + 1, len(t)) if j < len(t) and t[j] == ";" else j


# ----------------------------------------------------------------------------- events
ACC = r"(?:->|\.)"


def lval(s):
    return re.sub(r"\s*->\s*", ".", s.strip())


class Walker:
    def __init__(self, consts, inline, dest_name="local", delete_path=False, tracked=()):
        self.tracked = tuple(tracked)   # the fields whose stores are events: those the matching delete function reads
        self.consts = consts            # variable -> 0 / 1 known on the modelled path
        self.inline = inline            # callee name -> function(actual args) -> events
        self.dest = dest_name
        self.delete_path = delete_path
        self.notes = []

    def stmt_events(self, s):
        ev = []
        if "@PPCOND@" in s:
            ev.append((0, "?preprocessor-conditional"))
            s = s.replace("@PPCOND@", " ")
        used = []

        def add(m, e):
            ev.append((m.start(), e))
            used.append((m.start(), m.end()))

        for m in re.finditer(r"([A-Za-z_]\w*(?:\s*->\s*\w+)?)\s*=\s*(?:\(\s*[\w\s]+\*+\s*\)\s*)?mju_malloc\s*\(", s):
            add(m, "alloc " + lval(m.group(1)))
        for m in re.finditer(r"mju_free\s*\(\s*([A-Za-z_]\w*(?:\s*->\s*\w+)?)\s*\)", s):
            add(m, "free " + lval(m.group(1)))
        for m in re.finditer(r"\*\s*dest\s*=\s*(\w+)", s):
            add(m, "clear " + self.dest if m.group(1) in ("NULL", "nullptr", "0") else "publish %s %s" % (self.dest, m.group(1)))
        for m in re.finditer(r"memset\s*\(\s*(\w+)\s*,\s*0\s*,\s*sizeof\s*\(\s*(?:mjModel|mjData|\*\s*\w+)\s*\)\s*\)", s):
            add(m, "zero " + m.group(1))
        # stores to the tracked fields (chains `a->x = a->y = NULL` give one event per field)
        for m in re.finditer(r"((?:[A-Za-z_]\w*\s*->\s*\w+\s*=(?!=)\s*)+)([^;=]*)$", s):
            targets = re.findall(r"([A-Za-z_]\w*)\s*->\s*(\w+)\s*=", m.group(1))
            rhs = m.group(2).strip()
            if "mju_malloc" in rhs:
                continue
            k = 0
            for v, f in targets:
                if f in self.tracked:
                    val = "0" if rhs in ("0", "NULL", "nullptr") else "<" + rhs + ">"
                    ev.append((m.start() + k, "set %s.%s %s" % (v, f, val)))
                    k += 1
            used.append((m.start(), m.start() + len(m.group(1))))
        for name, fn in self.inline.items():
            for m in re.finditer(r"(?<![\w.>])" + re.escape(name) + r"\s*\(", s):
                e = match_close(s, m.end() - 1)
                args = [a.strip() for a in s[m.end():e - 1].split(",")]
                for k, x in enumerate(fn(args)):
                    ev.append((m.start() + k * 1e-3, x))
                used.append((m.start(), e))
        if self.delete_path:
            # every other field access in a delete function is a read
            for m in re.finditer(r"([A-Za-z_]\w*)\s*->\s*(\w+)", s):
                if any(a <= m.start() < b for a, b in used):
                    continue
                if re.match(r"\s*\(", s[m.end():]):      # a method call through a pointer (ctx->ThreadCount())
                    continue
                ev.append((m.start(), "read %s.%s" % (m.group(1), m.group(2))))
        ev.sort(key=lambda x: x[0])
        return [e for _, e in ev]

    def exit_of(self, nodes):
        """how a failure block leaves + its clean-up list; None if it contains anything else."""
        frees, exit_ = [], None
        for nd in nodes:
            if nd[0] == "if" and self.const_cond(nd[1]) is not None:
                sub = nd[2] if self.const_cond(nd[1]) else (nd[3] or [])
                r = self.exit_of(sub)
                if r is None:
                    return None
                frees += r[0]
                exit_ = exit_ or r[1]
                continue
            if nd[0] != "stmt":
                return None
            s = nd[1]
            m = re.fullmatch(r"mju_free\s*\(\s*([A-Za-z_]\w*(?:\s*->\s*\w+)?)\s*\)", s)
            if m:
                frees.append(lval(m.group(1)))
            elif re.match(r"(mjERROR|mju_error)\s*\(", s) or re.match(r"throw\b", s):
                exit_ = "error"
            elif re.match(r"mju_warning\s*\(", s):
                exit_ = exit_ or "warn"
            elif re.fullmatch(r"return(\s+(NULL|0|nullptr))?", s):
                exit_ = "warnreturn" if exit_ == "warn" else (exit_ or "return")
            else:
                frees.append("?" + s)
        return frees, exit_

    def const_cond(self, c):
        c = c.strip()
        m = re.fullmatch(r"(!?)\s*(\w+)", c)
        if m and m.group(2) in self.consts:
            v = bool(self.consts[m.group(2)])
            return (not v) if m.group(1) else v
        m = re.fullmatch(r"(\w+)\s*>=\s*1", c)
        if m and m.group(1) in self.consts:
            return self.consts[m.group(1)] >= 1
        return None

    def walk(self, nodes):
        out = []
        for nd in nodes:
            if nd[0] == "stmt":
                out += self.stmt_events(nd[1])
            elif nd[0] == "block":
                out += self.walk(nd[1])
            elif nd[0] == "catch":
                continue
            elif nd[0] == "if":
                cond = nd[1]
                cc = self.const_cond(cond)
                if cc is not None:
                    out += self.walk(nd[2] if cc else (nd[3] or []))
                    continue
                m = re.fullmatch(r"!\s*([A-Za-z_]\w*(?:\s*->\s*\w+)?)", cond)
                if m:
                    r = self.exit_of(nd[2])
                    if r is None or r[1] in (None, "warn"):
                        out.append("?ifnull-block(%s)" % cond)
                        out += self.walk(nd[2])
                    else:
                        out.append("ifnull %s [%s] %s" % (lval(m.group(1)), ",".join(r[0]), r[1]))
                    if nd[3]:
                        out += self.walk(nd[3])
                    continue
                m = re.fullmatch(r"([A-Za-z_]\w*)\s*->\s*(\w+)", cond)
                if m:
                    # block guarded by a field that is 0 in the model: only the read is part of the skeleton
                    out.append("read %s.%s" % (m.group(1), m.group(2)))
                    self.notes.append("block guarded by %s != 0 not modelled" % lval(cond))
                    if nd[3]:
                        out += self.walk(nd[3])
                    continue
                m = re.fullmatch(r"([A-Za-z_]\w*)", cond)
                if m and self.delete_path:
                    out.append("ifset " + m.group(1))
                    out += self.walk(nd[2])
                    continue
                r = self.exit_of(nd[2]) if not nd[3] else None
                if r is not None and r[1] == "warnreturn" and not any(f.startswith("?") for f in r[0]):
                    # a size-validation early return (`if (too large) { if (allocate) mju_free(v); mju_warning; return; }`):
                    # not a fault path, not part of the model; recorded
                    self.notes.append("validation early return (%s): frees [%s]" % (cond, ",".join(r[0])))
                    continue
                inner = self.walk(nd[2]) + (self.walk(nd[3]) if nd[3] else [])
                if inner:
                    out.append("?if(%s)" % cond)
                    out += inner
            elif nd[0] == "loop":
                m = re.search(r"<\s*([A-Za-z_]\w*)\s*->\s*(\w+)", nd[1])
                if m:
                    out.append("read %s.%s" % (m.group(1), m.group(2)))
                    self.notes.append("loop bounded by %s.%s not modelled" % (m.group(1), m.group(2)))
                    continue
                inner = self.walk(nd[2])
                if inner:
                    out.append("?loop(%s)" % nd[1])
                    out += inner
        return out


def rename(events, old, new):
    if old == new:
        return events
    return [re.sub(r"(?<![\w.])" + re.escape(old) + r"(?![\w])", new, e) for e in events]


def first_param(params, typ):
    m = re.search(typ + r"\s*\*+\s*(\w+)", params)
    if not m:
        raise Refuse("no %s parameter in (%s)" % (typ, " ".join(params.split())))
    return m.group(1)


def extract():
    io, th, um = load(IO), load(THREAD), load(UMODEL)
    res = {}

    # ---- delete path
    p, b = function(io, "freeModelBuffers")
    fmb_par = first_param(p, "mjModel")
    fmb = Walker({}, {}, delete_path=True).walk(parse_block(b)[0])
    p, b = function(io, "freeDataBuffers")
    fdb_par = first_param(p, "mjData")
    w_fdb = Walker({}, {}, delete_path=True)
    fdb = w_fdb.walk(parse_block(b)[0])
    p, b = function(th, "mju_threadpool")
    tp_par = first_param(p, "mjData")
    m = re.search(r"int\s+(\w+)\s*$", p.strip())
    if not m:
        raise Refuse("mju_threadpool: no int parameter")
    tp_n = m.group(1)
    tp_nodes = parse_block(b)[0]

    def inl_fmb(args):
        return rename(fmb, fmb_par, args[0])

    def inl_fdb(args):
        return rename(fdb, fdb_par, args[0])

    def inl_tp(args):
        if len(args) != 2 or args[1] != "0":
            return ["?mju_threadpool(%s)" % ",".join(args)]
        return rename(Walker({tp_n: 0}, {}, delete_path=True).walk(tp_nodes), tp_par, args[0])

    def strip_guard(ev, par):
        # the skeleton of a delete function is what is behind its `if (v)`
        if ev and ev[0] == "ifset " + par:
            return ev[1:]
        return ["?no-null-guard"] + ev

    p, b = function(io, "mj_deleteModel")
    dm_par = first_param(p, "mjModel")
    dm = strip_guard(Walker({}, {"freeModelBuffers": inl_fmb}, delete_path=True).walk(parse_block(b)[0]), dm_par)
    p, b = function(io, "mj_deleteData")
    dd_par = first_param(p, "mjData")
    dd = strip_guard(Walker({}, {"freeDataBuffers": inl_fdb, "mju_threadpool": inl_tp}, delete_path=True).walk(parse_block(b)[0]), dd_par)
    res["mj_deleteModel"] = rename(dm, dm_par, "m")
    res["mj_deleteData"] = rename(dd, dd_par, "d")
    def fields_of(ev):
        return sorted({e.split(".")[1].split()[0] for e in ev if e.startswith(("read ", "free ")) and "." in e})
    res["_fields_read_by_delete"] = {"mjModel": fields_of(dm), "mjData": fields_of(dd) + ["plugin"]}

    # ---- make path (`allocate` = 1)
    notes = []

    def make(name, inplace_free, tracked):
        p, b = function(io, name)
        if not re.search(r"int\s+allocate\s*=\s*\*\s*dest\s*\?\s*0\s*:\s*1\s*;", b):
            raise Refuse("%s: `int allocate = *dest ? 0 : 1;` not found" % name)
        def go(dest):
            w = Walker({"allocate": 1}, {inplace_free: lambda a: ["?" + inplace_free]}, dest_name=dest, tracked=tracked)
            ev = w.walk(parse_block(b)[0])
            notes.extend(name + ": " + x for x in w.notes)
            return ev
        return go

    mk_model = make("mj_makeModel", "freeModelBuffers", res["_fields_read_by_delete"]["mjModel"])
    mk_raw = make("mj_makeRawData", "freeDataBuffers", res["_fields_read_by_delete"]["mjData"])
    res["mj_makeModel"] = mk_model("local")
    res["mj_makeRawData"] = mk_raw("local")

    # ---- mj_makeData: mj_makeRawData(&d, m) into a local that starts as NULL, returned
    p, b = function(io, "mj_makeData")
    mm = re.search(r"mjData\s*\*\s*(\w+)\s*=\s*NULL\s*;\s*mj_makeRawData\s*\(\s*&\s*(\w+)\s*,", " ".join(b.split()))
    if not mm or mm.group(1) != mm.group(2) or not re.search(r"return\s+" + mm.group(1) + r"\s*;", b):
        raise Refuse("mj_makeData: unexpected shape")
    mkdata = rename(mk_raw("local"), "d", "d")

    # ---- mjCModel::Compile: the variables TryCompile works on, and the catch block
    p, b = function(um, "mjCModel::Compile")
    flat = " ".join(b.split())
    mc = re.search(r"TryCompile\s*\(\s*\*\s*const_cast\s*<\s*mjModel\s*\*\*\s*>\s*\(\s*&\s*(\w+)\s*\)\s*,\s*\*\s*const_cast\s*<\s*mjData\s*\*\*\s*>\s*\(\s*&\s*(\w+)\s*\)", flat)
    if not mc:
        raise Refuse("Compile: call of TryCompile not recognised")
    vmodel, vdata = mc.group(1), mc.group(2)
    if not re.search(r"mjData\s*\*\s*volatile\s+" + vdata + r"\s*=\s*nullptr\s*;", flat):
        raise Refuse("Compile: `mjData* volatile %s = nullptr;` not found" % vdata)
    if not re.search(r"mjModel\s*\*\s*volatile\s+" + vmodel + r"\s*=", flat):
        raise Refuse("Compile: declaration of %s not found" % vmodel)
    if not re.search(r"setjmp\s*\(\s*error_jmp_buf\s*\)", flat):
        raise Refuse("Compile: setjmp(error_jmp_buf) not found")
    mcatch = re.search(r"catch\s*\(\s*mjCError\s+\w+\s*\)\s*\{", b)
    if not mcatch:
        raise Refuse("Compile: catch (mjCError …) not found")
    cend = match_close(b, mcatch.end() - 1, "{", "}")
    cb = b[mcatch.end():cend - 1]
    catch_ev = []
    for nd in parse_block(cb)[0]:
        if nd[0] != "stmt":
            continue
        m1 = re.fullmatch(r"mj_deleteModel\s*\(\s*(\w+)\s*\)", nd[1])
        m2 = re.fullmatch(r"mj_deleteData\s*\(\s*(\w+)\s*\)", nd[1])
        if m1:
            catch_ev += ["ifset " + m1.group(1)] + rename(res["mj_deleteModel"], "m", m1.group(1))
        elif m2:
            catch_ev += ["ifset " + m2.group(1)] + rename(res["mj_deleteData"], "d", m2.group(1))
        elif re.search(r"mju_free|mj_delete", nd[1]):
            catch_ev.append("?" + nd[1])
    res["compile_catch"] = rename(rename(catch_ev, vmodel, "model"), vdata, "data")

    # ---- TryCompile: the life-cycle of m and d in textual order
    p, b = function(um, "mjCModel::TryCompile")
    mp = re.match(r"\s*mjModel\s*\*\s*&\s*(\w+)\s*,\s*mjData\s*\*\s*&\s*(\w+)\s*,", p)
    if not mp:
        raise Refuse("TryCompile: parameters are not (mjModel*& m, mjData*& d, …)")
    pm, pd = mp.group(1), mp.group(2)
    flatb = b
    pats = [
        ("makeModel", r"mj_makeModel\s*\(\s*&\s*%s\s*," % pm),
        ("makeRaw", r"mj_makeRawData\s*\(\s*&\s*%s\s*," % pd),
        ("makeRawOther", r"mj_makeRawData\s*\(\s*(?!&\s*%s\s*,)" % pd),
        ("makeData", r"(?<![\w>.])%s\s*=\s*mj_makeData\s*\(" % pd),
        ("deleteData", r"mj_deleteData\s*\(\s*%s\s*\)" % pd),
        ("deleteModel", r"mj_deleteModel\s*\(\s*%s\s*\)" % pm),
        ("clearD", r"(?<![\w>.])%s\s*=\s*(?:nullptr|NULL)\s*;" % pd),
        ("clearM", r"(?<![\w>.])%s\s*=\s*(?:nullptr|NULL)\s*;" % pm),
        ("throwIfNullD", r"if\s*\(\s*!\s*%s\s*\)\s*\{[^{}]*\bthrow\b[^{}]*\}" % pd),
        ("assignD", r"(?<![\w>.&])%s\s*=(?!=)(?!\s*(?:nullptr|NULL|mj_makeData)\b)" % pd),
        ("assignM", r"(?<![\w>.&])%s\s*=(?!=)(?!\s*(?:nullptr|NULL)\b)" % pm),
        ("free", r"mju_free\s*\(\s*(?:%s|%s)\b" % (pm, pd)),
    ]
    found = []
    for kind, pat in pats:
        for m in re.finditer(pat, flatb):
            found.append((m.start(), kind))
    found.sort()
    comp = []
    for _, kind in found:
        if kind == "makeModel":
            comp += mk_model("model")
        elif kind == "makeRaw":
            comp += mk_raw("data")
        elif kind == "makeData":
            comp += mkdata + ["publish data d"]
        elif kind == "deleteData":
            comp += res["mj_deleteData"]
        elif kind == "deleteModel":
            comp += res["mj_deleteModel"]
        elif kind == "clearD":
            comp.append("clear data")
        elif kind == "clearM":
            comp.append("clear model")
        elif kind == "throwIfNullD":
            comp.append("ifnull d [] error")
        else:
            comp.append("?" + kind)
    comp.append("return m")
    res["compile"] = comp
    res["_notes"] = sorted(set(["freeDataBuffers: " + x for x in w_fdb.notes] + notes))
    return res


def skeletons():
    """{name: ' | '-joined events} for NAMES, plus '_refused' (None or the reason)."""
    try:
        r = extract()
    except (Refuse, OSError) as e:
        return {"_refused": str(e)}
    out = {n: " | ".join(r[n]) for n in NAMES}
    out["_fields_read_by_delete"] = r["_fields_read_by_delete"]
    out["_notes"] = r["_notes"]
    out["_refused"] = None
    return out


if __name__ == "__main__":
    s = skeletons()
    if "--json" in sys.argv:
        print(json.dumps(s, indent=1))
    else:
        for k, v in s.items():
            print("%s: %s" % (k, v))
