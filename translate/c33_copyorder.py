"""C33: extracts from the source of the tree what the Lean model `Model/SpecCopy.lean` of the deep copy of an mjSpec
needs, on every run (no cached result, plain text extraction — the C++ AST is not needed for this):

  lists   member list -> mjOBJ_* kind            from mjCModel::CreateObjectLists            (src/user/user_model.cc)
  tree    kinds rebuilt by the body copy         from mjCModel::ResetTreeLists (`resetlist(x_)`)
  order   kinds in the order of the CopyList calls of mjCModel::operator+=(const mjCModel&), followed by the CopyList
          calls of mjCModel::operator= that come after `*this += other`
  edges   static reference edges referrer-kind -> referenced-kind: the literal mjOBJ_* constants that reach the first
          argument of a FindObject call in <class>::ResolveReferences (directly, or through a local variable that is
          assigned such constants, or through a `!= mjOBJ_A && != mjOBJ_B` restriction of a member used as the
          argument); look-ups whose kind is a free member (`objtype`, `reftype`, `objtype_[i]` of sensors and tuples) are
          reported in `dynamic` — their edges come from the generated specs
  skips   True iff CopyList still drops an element whose ResolveReferences throws (catch ... continue)

extract(repo) returns a dict; every piece that cannot be found raises ExtractError (a tie failure, not a violation).
"""
import os
import re


class ExtractError(Exception):
    pass


def _strip_comments(src):
    src = re.sub(r"/\*.*?\*/", " ", src, flags=re.S)
    return re.sub(r"//[^\n]*", "", src)


def _body(src, header_re, what):
    """text between the braces of the first function whose header matches header_re"""
    m = re.search(header_re, src)
    if not m:
        raise ExtractError("cannot find " + what)
    i = src.index("{", m.end() - 1) if src[m.end() - 1] != "{" else m.end() - 1
    depth = 0
    for j in range(i, len(src)):
        c = src[j]
        if c == "{":
            depth += 1
        elif c == "}":
            depth -= 1
            if depth == 0:
                return src[i + 1:j]
    raise ExtractError("unbalanced braces in " + what)


# classes whose ResolveReferences runs as part of another class's (the wraps of a tendon path)
PART_OF = {"mjCWrap": "mjCTendon"}


def extract(repo):
    um = _strip_comments(open(os.path.join(repo, "src/user/user_model.cc")).read())
    uh = _strip_comments(open(os.path.join(repo, "src/user/user_model.h")).read())
    texts = [um] + [_strip_comments(open(os.path.join(repo, "src/user", f)).read())
                    for f in ("user_objects.cc", "user_mesh.cc")]
    # ---- lists
    col = _body(um, r"void\s+mjCModel::CreateObjectLists\s*\(\s*\)\s*\{", "mjCModel::CreateObjectLists")
    lists = {}
    for kind, member in re.findall(r"object_lists_\[\s*(mjOBJ_[A-Z]+)\s*\]\s*=\s*\([^)]*\)\s*&\s*(\w+)\s*;", col):
        if kind != "mjOBJ_XBODY":
            lists[member] = kind
    if len(lists) < 15:
        raise ExtractError("CreateObjectLists: only %d lists recognised" % len(lists))
    lists.setdefault("frames_", "mjOBJ_FRAME")
    # ---- class of each list (user_model.h) -> kind of a class
    cls_kind = {}
    for cls, member in re.findall(r"std::vector<\s*(mjC\w+)\s*\*\s*>\s*(\w+_)\s*;", uh):
        if member in lists:
            cls_kind[cls] = lists[member]
    for part, whole in PART_OF.items():
        if whole in cls_kind:
            cls_kind[part] = cls_kind[whole]
    # ---- tree kinds
    rt = _body(um, r"void\s+mjCModel::ResetTreeLists\s*\(\s*\)\s*\{", "mjCModel::ResetTreeLists")
    tree = []
    for member in re.findall(r"resetlist\(\s*(\w+)\s*\)", rt):
        if member not in lists:
            raise ExtractError("ResetTreeLists resets an unknown list " + member)
        tree.append(lists[member])
    if not tree:
        raise ExtractError("ResetTreeLists: no tree lists found")
    # ---- order of the CopyList calls
    pe = _body(um, r"mjCModel\s*&\s*mjCModel::operator\+=\s*\(\s*const\s+mjCModel\s*&\s*\w+\s*\)\s*\{",
               "mjCModel::operator+=(const mjCModel&)")
    order, guarded = [], []
    # lists copied only under `if (this != &other)` are still copied by the deep copy (this != &other there)
    for m in re.finditer(r"CopyList\(\s*(\w+)\s*,\s*\w+\.(\w+)\s*\)", pe):
        if m.group(1) != m.group(2):
            raise ExtractError("CopyList copies %s from %s" % (m.group(1), m.group(2)))
        if m.group(1) not in lists:
            raise ExtractError("CopyList of an unknown list " + m.group(1))
        order.append(lists[m.group(1)])
    asg = _body(um, r"mjCModel\s*&\s*mjCModel::operator=\s*\(\s*const\s+mjCModel\s*&\s*\w+\s*\)\s*\{", "mjCModel::operator=")
    k = re.search(r"\*this\s*\+=\s*other\s*;", asg)
    if not k:
        raise ExtractError("operator= no longer calls `*this += other`")
    for m in re.finditer(r"CopyList\(\s*(\w+)\s*,\s*\w+\.(\w+)\s*\)", asg):
        if m.group(1) not in lists:
            raise ExtractError("CopyList of an unknown list " + m.group(1))
        (order if m.start() > k.start() else guarded).append(lists[m.group(1)])
    if guarded:
        raise ExtractError("operator= copies lists before `*this += other`: %r" % guarded)
    if len(order) < 10:
        raise ExtractError("only %d CopyList calls found" % len(order))
    # ---- CopyList still skips unresolved elements
    cl = _body(um, r"void\s+mjCModel::CopyList\s*\([^)]*\)\s*\{", "mjCModel::CopyList")
    skips = bool(re.search(r"ResolveReferences\(\s*this\s*\)", cl)) and \
        bool(re.search(r"catch\s*\(\s*mjCError[^)]*\)\s*\{[^}]*(?:\{[^}]*\}[^}]*)*continue\s*;", cl))
    # ---- static reference edges
    edges, dynamic = set(), []
    for text in texts:
        for m in re.finditer(r"void\s+(mjC\w+)::ResolveReferences\s*\(\s*const\s+mjCModel\s*\*\s*\w+\s*\)\s*\{", text):
            cls = m.group(1)
            if cls not in cls_kind:
                continue                      # not an element of a copied list (or not a list element at all)
            referrer = cls_kind[cls]
            body = _body(text[m.start():], r"void\s+mjC\w+::ResolveReferences\s*\([^)]*\)\s*\{", cls + "::ResolveReferences")
            for a in re.findall(r"FindObject\(\s*([^,()]+?)\s*,", body):
                if re.fullmatch(r"mjOBJ_[A-Z]+", a):
                    edges.add((referrer, a))
                    continue
                var = re.sub(r"\[.*\]$", "", a)
                consts = set(re.findall(r"\b%s\s*=\s*(mjOBJ_[A-Z]+)\s*;" % re.escape(var), body))
                # `var = other_member;` under `other_member != mjOBJ_A && other_member != mjOBJ_B` restrictions
                for src_var in re.findall(r"\b%s\s*=\s*([A-Za-z_]\w*)\s*;" % re.escape(var), body):
                    consts |= set(re.findall(r"\b%s\s*!=\s*(mjOBJ_[A-Z]+)" % re.escape(src_var), body))
                consts.discard("mjOBJ_UNKNOWN")
                if consts:
                    edges |= {(referrer, c) for c in consts}
                else:
                    dynamic.append((referrer, a))
    edges = {(a, "mjOBJ_BODY" if b == "mjOBJ_XBODY" else b) for a, b in edges}
    if len(edges) < 8:
        raise ExtractError("only %d static reference edges found" % len(edges))
    return {"lists": lists, "tree": tree, "order": order, "edges": sorted(edges), "dynamic": sorted(set(dynamic)),
            "skips": skips}


if __name__ == "__main__":
    import json
    import sys
    print(json.dumps(extract(sys.argv[1] if len(sys.argv) > 1 else os.environ.get("VERIF_REPO", "/repo")), indent=1))
