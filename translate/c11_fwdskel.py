#!/usr/bin/env python3
"""C11 translator: statement skeletons of the functions that produce `qfrc_constraint` from `efc_force`.

For each function listed in FUNCS the C source text of the tree (VERIF_REPO) is parsed (comments removed,
tokens canonicalised) into a flat list of *guarded statements*: every primitive statement (declaration,
expression statement, return) with the conditions of the enclosing control structure, one line each:

    <guard>|<guard>|... :: <statement>

    if(c)            then-branch of `if (c)`            else(c)   else-branch of the same `if`
    switch(e):L1,L2  body of the case labels L1, L2 of `switch (e)` (each body must end in `break;`)
    for(h)           body of `for (h)`

Token canonical form: tokens are concatenated, with one space only between two identifier/number tokens.
The same lines are printed by the Lean model (`drv_c11fwd`, op `skel <function>`) from the programs the theorems
of Props/C11.lean are about (lean/MjProof/Model/FwdConstraint.lean); checks/c11.py compares them on every run.
Any shape this parser does not know (while, do, goto, fall-through case bodies, preprocessor lines inside the
body, labels) is REFUSED (reported, never guessed).

usage: c11_fwdskel.py [--json]
"""
import json
import os
import re
import sys

REPO = os.environ.get("VERIF_REPO", "/repo")
FUNCS = [
    ("mj_fwdConstraint", "src/engine/engine_forward.c"),
    ("warmstart", "src/engine/engine_forward.c"),
    ("dualFinish", "src/engine/engine_solver.c"),
    ("mj_dualFinish", "src/engine/engine_solver.c"),
    ("mj_constraintUpdate", "src/engine/engine_core_constraint.c"),
]

TOKEN = re.compile(r'''
    "(?:\\.|[^"\\\n])*"            # string literal
  | '(?:\\.|[^'\\\n])*'            # char literal
  | [A-Za-z_]\w*                   # identifier
  | \.?\d(?:[\w.]|[eEpP][+-])*     # number
  | ->|\+\+|--|<<=|>>=|<<|>>|<=|>=|==|!=|&&|\|\||[-+*/%&|^]=
  | [^\s]
''', re.X)


class Refuse(Exception):
    pass


def strip_comments(src):
    out, i, n = [], 0, len(src)
    while i < n:
        c = src[i]
        if src.startswith("//", i):
            j = src.find("\n", i)
            i = n if j < 0 else j
        elif src.startswith("/*", i):
            j = src.find("*/", i + 2)
            if j < 0:
                raise Refuse("unterminated comment")
            out.append(" ")
            i = j + 2
        elif c in "\"'":
            j = i + 1
            while j < n and src[j] != c:
                if src[j] == "\n":
                    raise Refuse("newline in literal")
                j += 2 if src[j] == "\\" else 1
            out.append(src[i:j + 1])
            i = j + 1
        else:
            out.append(c)
            i += 1
    return "".join(out)


def function_body(code, name):
    """text between the braces of the definition of `name` (the only top-level `name(...) {`)"""
    hits = []
    for m in re.finditer(r"\b%s\s*\(" % re.escape(name), code):
        # matching ')' of the parameter list
        d, k = 0, m.end() - 1
        while k < len(code):
            if code[k] == "(":
                d += 1
            elif code[k] == ")":
                d -= 1
                if d == 0:
                    break
            k += 1
        rest = code[k + 1:]
        mm = re.match(r"\s*\{", rest)
        if not mm:
            continue
        # must be at top level: the text before, back to the previous '}' or ';', holds no '(' or '='
        head = code[:m.start()]
        cut = max(head.rfind("}"), head.rfind(";"))
        if re.search(r"[(=]", head[cut + 1:]):
            continue
        start = k + 1 + mm.end()
        d, j = 1, start
        while j < len(code) and d:
            if code[j] == "{":
                d += 1
            elif code[j] == "}":
                d -= 1
            elif code[j] in "\"'":
                q = code[j]
                j += 1
                while code[j] != q:
                    j += 2 if code[j] == "\\" else 1
            j += 1
        if d:
            raise Refuse("unbalanced braces in " + name)
        hits.append(code[start:j - 1])
    if len(hits) != 1:
        raise Refuse("%d definitions of %s found" % (len(hits), name))
    return hits[0]


def canon(tokens):
    out = []
    for t in tokens:
        if out and re.match(r"\w", t[0]) and re.match(r"\w", out[-1][-1]):
            out.append(" ")
        out.append(t)
    return "".join(out)


class Parser:
    def __init__(self, tokens):
        self.t, self.i, self.lines = tokens, 0, []

    def peek(self, k=0):
        return self.t[self.i + k] if self.i + k < len(self.t) else None

    def eat(self, tok):
        if self.peek() != tok:
            raise Refuse("expected %r, found %r (token %d)" % (tok, self.peek(), self.i))
        self.i += 1

    def paren(self):
        """tokens of a parenthesised group (without the outer parentheses)"""
        self.eat("(")
        d, start = 1, self.i
        while d:
            t = self.peek()
            if t is None:
                raise Refuse("unbalanced parentheses")
            d += t == "("
            d -= t == ")"
            self.i += 1
        return self.t[start:self.i - 1]

    def emit(self, guards, toks):
        self.lines.append("|".join(guards) + " :: " + canon(toks))

    def statement(self, guards):
        t = self.peek()
        if t is None:
            raise Refuse("unexpected end")
        if t == "#":
            raise Refuse("preprocessor line inside the body")
        if t in ("while", "do", "goto", "continue"):
            raise Refuse("unsupported statement: " + t)
        if t == "{":
            self.eat("{")
            while self.peek() != "}":
                self.statement(guards)
            self.eat("}")
        elif t == ";":
            self.eat(";")
        elif t == "if":
            self.i += 1
            c = canon(self.paren())
            self.statement(guards + ["if(%s)" % c])
            if self.peek() == "else":
                self.i += 1
                self.statement(guards + ["else(%s)" % c])
        elif t == "for":
            self.i += 1
            h = canon(self.paren())
            self.statement(guards + ["for(%s)" % h])
        elif t == "switch":
            self.i += 1
            e = canon(self.paren())
            self.eat("{")
            while self.peek() != "}":
                labels = []
                while self.peek() in ("case", "default"):
                    if self.peek() == "default":
                        self.i += 1
                        labels.append("default")
                    else:
                        self.i += 1
                        lab = []
                        while self.peek() != ":":
                            if self.peek() is None:
                                raise Refuse("case label")
                            lab.append(self.peek())
                            self.i += 1
                        labels.append(canon(lab))
                    self.eat(":")
                if not labels:
                    raise Refuse("statement outside a case in switch")
                g = guards + ["switch(%s):%s" % (e, ",".join(labels))]
                while True:
                    if self.peek() in ("case", "default", "}"):
                        raise Refuse("case body without break (fall-through)")
                    if self.peek() == "break":
                        self.i += 1
                        self.eat(";")
                        break
                    self.statement(g)
            self.eat("}")
        elif t == "break":
            raise Refuse("break outside switch")
        else:
            toks, d = [], 0
            while True:
                x = self.peek()
                if x is None:
                    raise Refuse("unterminated statement")
                if x in ("{", "}") and d == 0:
                    raise Refuse("brace inside a statement")
                if x == ";" and d == 0:
                    break
                d += x in ("(", "[")
                d -= x in (")", "]")
                toks.append(x)
                self.i += 1
            self.eat(";")
            if len(toks) >= 2 and re.match(r"[A-Za-z_]\w*$", toks[0]) and toks[1] == ":":
                raise Refuse("label")
            self.emit(guards, toks)


def skeleton(name, path):
    with open(os.path.join(REPO, path)) as f:
        code = strip_comments(f.read())
    body = function_body(code, name)
    p = Parser(TOKEN.findall(body))
    while p.peek() is not None:
        p.statement([])
    return p.lines


def extract():
    out = {}
    for name, path in FUNCS:
        try:
            out[name] = {"file": path, "lines": skeleton(name, path)}
        except (Refuse, OSError) as e:
            out[name] = {"file": path, "refused": str(e)}
    return out


if __name__ == "__main__":
    res = extract()
    if "--json" in sys.argv:
        json.dump(res, sys.stdout, indent=1)
    else:
        for name, r in res.items():
            print("== %s (%s)" % (name, r["file"]))
            if "refused" in r:
                print("REFUSED: " + r["refused"])
            for l in r.get("lines", []):
                print(l)
