"""C25 kernels: scalar derivative kernels of the analytic smooth-force derivative and the scalar helpers of the
finite-difference drivers.

  mjd_xPolyForce / mju_polyForce (n = mjNPOLY = 2, flg_odd = 1: dampers)   engine_util_misc.c   (also in the C29 list)
  mjd_muscleGain_vel (file-static)                                          engine_derivative.c
  mju_muscleGain                                                            engine_util_misc.c   (also in the C27 list)
  inRange (file-static)                                                     engine_derivative_fd.c

mjd_actuator_vel / mjd_passive_vel / mjd_stepFD read through mjModel* / mjData*: hand-modelled in
lean/MjProof/Model/FDBook.lean (tie: differential of the perturb/restore trace against the unmodified drivers,
harness/c/c25_deriv.c).  mjd_rne_vel and the fluid derivatives are not modelled (oracle only)."""
MISC = "src/engine/engine_util_misc.c"
DERIV = "src/engine/engine_derivative.c"
FD = "src/engine/engine_derivative_fd.c"
KERNELS = [
    {"name": "mju_polyForce", "file": MISC, "fix": {"n": 2, "flg_odd": 1}, "lean": "mju_polyForce_damper"},
    {"name": "mjd_xPolyForce", "file": MISC, "fix": {"n": 2, "flg_odd": 1}, "lean": "mjd_xPolyForce_damper"},
    {"name": "mju_max", "file": MISC},
    {"name": "mju_muscleGainLength", "file": MISC},
    {"name": "mju_muscleGain", "file": MISC},
    {"name": "mjd_muscleGain_vel", "file": DERIV, "static": True},
    {"name": "inRange", "file": FD, "static": True},
]
INLINE_FILES = [MISC]
