#!/usr/bin/env python3
"""skeleton: translates the engine's top-level pipeline functions into `Prog` values (DESIGN.md §2 T, §5.C01/C04).

For every function in INLINE the clang AST of its body is turned into a `MjProof.Prog`
(lean/MjProof/Model/Prog.lean):

  call f key args     a call.  Calls to other INLINE functions are inlined by the Lean side (by name, with the
                      argument terms bound to the callee's parameters).  Every other call that receives the
                      `mjData*` is an *atomic stage*; `key` identifies it in the hand-written footprint table:
                      the callee name when the arguments are just (m, d) / (d), the full source text of the call
                      otherwise (so `mj_rne(m, d, 0, d->qfrc_inverse)` and `mj_rne(m, d, 0, d->qfrc_bias)` differ).
  atom text R W K     a statement executed by the function itself (assignment, declaration with initialiser,
                      ++/--, timer macro) or a call to a utility that does not receive the mjData (mju_copy, …).
                      R / W are the mjData fields (and the pseudo field "$locals") it reads / may write, K the
                      scalar fields it overwrites by a plain `=`.  For utilities the direction of a pointer
                      argument is taken from the callee's prototype (`const T*` = read, `T*` = read+write).
  ite g t e | loop g p | switch on cases | seq ps | ret | err
Guards are structured: comparisons / truth tests of the function's own scalar parameters against
constants are kept as terms (decided by the Lean semantics from the call arguments), every other
leaf keeps its exact source text and is classified `mconst` (mentions only the const model and
globals: constant during a call) or `data` (with the fields it reads).
Anything outside the understood shape makes the translator refuse that function (recorded in
Gen/pipeline_manifest.json; the checks turn a refusal into a failed tie obligation).

Second layer (SUB): the bodies of some *stage functions* (atomic at the pipeline level) are translated too, into a
separate table `subTable` that the pipeline programs do NOT inline.  They are analysed on their own against the
footprints of their leaf calls to justify the hand-written footprint of the stage (Props/C01.lean,
`*_refines_footprint`): a branch of such a function that stops determining an array before a leaf reads it shows
up as a broken proof, whatever option combination reaches it.

Whole-array writes: a call `mju_zero / mju_copy / mju_zeroInt / mju_copyInt / mju_fill / mju_gather / mju_gatherInt
(d->F, ..., n)` whose destination is exactly the member `d->F` and whose count `n` is, textually, the declared size of
`F` in mjxmacro.h (a local that is defined exactly once from `m->X` / `d->X` counts as that expression) OVERWRITES F:
F goes into K and is not read.  (Assumption, validated dynamically by the V1 test of the leaves: the sizes `d->X` a
function caches in a local do not change while it runs.)
Output: lean/MjProof/Gen/Pipeline.lean + Gen/pipeline_manifest.json."""
import json
import os
import re
import sys

here = os.path.dirname(os.path.abspath(__file__))
sys.path.insert(0, here)
import c2lean  # noqa: E402

REPO = c2lean.REPO
FWD = "src/engine/engine_forward.c"
INV = "src/engine/engine_inverse.c"
# functions whose bodies are translated (and inlined by the Lean side); everything else is an atomic stage
INLINE = [
    ("mj_step", FWD), ("mj_step1", FWD), ("mj_step2", FWD), ("mj_forward", FWD), ("mj_forwardSkip", FWD),
    ("mj_checkPos", FWD), ("mj_checkVel", FWD), ("mj_checkAcc", FWD), ("mj_Euler", FWD), ("mj_implicit", FWD),
    ("mj_RungeKutta", FWD),
    ("mj_inverse", INV), ("mj_inverseSkip", INV), ("mj_invVelocity", INV), ("mj_compareFwdInv", INV),
]
# stage functions whose bodies are translated into `subTable` (analysed on their own, not inlined into the pipeline);
# the third component lists the helpers inlined into them
SUB = [
    ("mj_fwdConstraint", FWD), ("warmstart", FWD),
    ("mj_invConstraint", INV),
]
SUB_ROOTS = ["mj_fwdConstraint", "mj_invConstraint"]
# utilities that overwrite res[0..n): name -> (index of the destination argument, index of the count argument)
WHOLE_WRITERS = {"mju_zero": (0, 1), "mju_zeroInt": (0, 1), "mju_copy": (0, 2), "mju_copyInt": (0, 2), "mju_fill": (0, 2),
                 "mju_fillInt": (0, 2), "mju_gather": (0, 3), "mju_gatherInt": (0, 3)}
IGNORED_CALLS = {"mjcb_time", "snprintf"}
LOCALS = "$locals"
TIMER_LOCALS = "$tm"     # the `_tm*` variables of the TM_* timer macros (diagnostics only)


def local_field(name):
    return TIMER_LOCALS if name.startswith("_tm") else LOCALS


class Refuse(Exception):
    pass


_SIZES = None


def declared_sizes():
    """member of mjData -> normalised source text of its element count, from the X-macros of mjxmacro.h
    (only entries whose second dimension is 1; anything else simply gets no whole-array rule)"""
    global _SIZES
    if _SIZES is not None:
        return _SIZES
    out = {}
    try:
        with open(os.path.join(REPO, "include/mujoco/mjxmacro.h")) as f:
            src = f.read()
    except OSError:
        _SIZES = out
        return out
    # join continuation lines, then look at every X(...) / XNV(...) entry inside an MJDATA_* macro
    src = re.sub(r"\\\n", " ", src)
    for line in src.split("\n"):
        m = re.match(r"\s*#define\s+(MJDATA_\w+)\b(.*)", line)
        if not m:
            continue
        macro, body = m.group(1), m.group(2)
        for e in re.finditer(r"\b(?:X|XNV)\s*\(([^()]*(?:\([^()]*\)[^()]*)*)\)", body):
            args = [a.strip() for a in re.split(r",(?![^()]*\))", e.group(1))]
            if len(args) != 4 or args[3] != "1":
                continue
            name, nr = args[1], args[2]
            mm = re.fullmatch(r"MJ_([MD])\((\w+)\)", nr)
            if mm:
                size = ("m->" if mm.group(1) == "M" else "d->") + mm.group(2)
            elif macro == "MJDATA_POINTERS" and re.fullmatch(r"[a-z]\w*", nr):
                size = "m->" + nr           # buffer pointers are sized by model fields
            elif re.fullmatch(r"mj[A-Z]\w*|\d+", nr):
                size = nr                    # a constant
            else:
                continue
            if name in out and out[name] != size:
                out[name] = None
            else:
                out.setdefault(name, size)
    _SIZES = {k: v for k, v in out.items() if v}
    return _SIZES


_SRC = {}


def src_bytes(path):
    if path not in _SRC:
        with open(path, "rb") as f:
            _SRC[path] = f.read()
    return _SRC[path]


def src_text(path, node):
    """exact source text of a node (macro invocations are taken at their expansion site), whitespace-normalised"""
    data = src_bytes(path)
    rng = node.get("range", {})

    def off(loc, end=False):
        if "expansionLoc" in loc:
            loc = loc["expansionLoc"]
        o = loc.get("offset")
        if o is None:
            return None
        return o + (loc.get("tokLen", 0) if end else 0)
    b, e = off(rng.get("begin", {})), off(rng.get("end", {}), True)
    if b is None or e is None or e <= b:
        return None
    # an expansionLoc of a function-like macro ends at the macro name: extend to the matching parenthesis
    if re.search(rb"[A-Za-z_]\w*$", data[b:e]) and data[e:e + 1] == b"(":
        depth, i = 0, e
        while i < len(data):
            c = chr(data[i])
            if c == "(":
                depth += 1
            elif c == ")":
                depth -= 1
                if depth == 0:
                    e = i + 1
                    break
            i += 1
    txt = data[b:e].decode("utf8", "replace")
    return " ".join(txt.split())


def macro_name(path, node):
    """name of the macro a statement comes from (None if it is written directly)"""
    b = node.get("range", {}).get("begin", {})
    if "expansionLoc" not in b:
        return None
    o = b["expansionLoc"].get("offset")
    if o is None:
        return None
    m = re.match(rb"[A-Za-z_]\w*", src_bytes(path)[o:o + 64])
    return m.group(0).decode() if m else None


def strip(n):
    while n.get("kind") in ("ImplicitCastExpr", "ParenExpr", "CStyleCastExpr", "ConstantExpr"):
        n = n["inner"][0]
    return n


def callee_decl(n):
    f = strip(n["inner"][0])
    return f.get("referencedDecl") or {}


class Fn:
    """translation of one function body"""

    def __init__(self, path, fdecl, gvars, inline_names):
        self.path, self.f, self.gvars, self.inline = path, fdecl, gvars, inline_names
        self.params = [c["name"] for c in fdecl["inner"] if c.get("kind") == "ParmVarDecl"]
        self.ptypes = {c["name"]: c["type"]["qualType"] for c in fdecl["inner"] if c.get("kind") == "ParmVarDecl"}
        self.dname = next((p for p in self.params if re.fullmatch(r"(const )?mjData \*", self.ptypes[p])), None)
        self.mname = next((p for p in self.params if re.fullmatch(r"(const )?mjModel \*", self.ptypes[p])), None)
        self.alias = {}      # local pointer variable -> set of mjData fields (or LOCALS) it may point into
        self.stage_calls = {}
        self.atoms = []
        body = [c for c in fdecl["inner"] if c["kind"] == "CompoundStmt"][0]
        self.scan_aliases(body)
        self.ndefs, self.defexpr = {}, {}
        self.scan_defs(body)
        self.body = self.stmt(body, in_loop=False)

    # ------------------------------------------------------------------ roots and accesses
    def is_d(self, n):
        n = strip(n)
        return n.get("kind") == "DeclRefExpr" and n.get("referencedDecl", {}).get("name") == self.dname \
            and n.get("referencedDecl", {}).get("kind") == "ParmVarDecl"

    def root(self, n):
        """what storage an lvalue / pointer expression designates:
        ("field", name) | ("local", var) | ("model",) | ("global", name) | ("param", name) | ("none",)"""
        n = strip(n)
        k = n.get("kind")
        if k == "MemberExpr":
            base = n["inner"][0]
            if self.is_d(base):
                return ("field", n["name"])
            return self.root(base)
        if k in ("ArraySubscriptExpr",):
            return self.root(n["inner"][0])
        if k == "UnaryOperator" and n.get("opcode") in ("*", "&", "++", "--"):
            return self.root(n["inner"][0])
        if k == "BinaryOperator" and n.get("opcode") in ("+", "-"):
            return self.root(n["inner"][0])
        if k == "ConditionalOperator":
            a, b = self.root(n["inner"][1]), self.root(n["inner"][2])
            return a if a == b else ("mixed", a, b)
        if k == "DeclRefExpr":
            rd = n.get("referencedDecl", {})
            if rd.get("kind") == "ParmVarDecl":
                if rd["name"] == self.mname:
                    return ("model",)
                if rd["name"] == self.dname:
                    return ("data",)
                return ("param", rd["name"])
            if rd.get("kind") == "VarDecl":
                if rd.get("id") in self.gvars:
                    return ("global", rd["name"])
                return ("local", rd["name"])
            return ("none",)
        return ("none",)

    def root_fields(self, r):
        """the set of pseudo fields a root stands for"""
        if r[0] == "field":
            return {r[1]}
        if r[0] == "local":
            return set(self.alias.get(r[1], {local_field(r[1])}))
        if r[0] == "mixed":
            return self.root_fields(r[1]) | self.root_fields(r[2])
        if r[0] == "data":
            raise Refuse("the mjData pointer itself is used as a value outside a call")
        return set()

    def scan_aliases(self, n):
        """flow-insensitive: a local pointer initialised / assigned from `d->field (+ off)` aliases that field"""
        def note(var, init):
            r = self.root(init)
            s = self.alias.setdefault(var, set())
            if r[0] == "field":
                s.add(r[1])
            elif r[0] == "mixed":
                s |= self.root_fields_noalias(r)
            else:
                s.add(LOCALS)
        k = n.get("kind")
        if k == "VarDecl" and "*" in n.get("type", {}).get("qualType", ""):
            inits = [c for c in n.get("inner", []) if "kind" in c]
            if inits:
                note(n["name"], inits[0])
            else:
                self.alias.setdefault(n["name"], set()).add(LOCALS)
        if k == "BinaryOperator" and n.get("opcode") == "=":
            lhs = strip(n["inner"][0])
            if lhs.get("kind") == "DeclRefExpr" and "*" in lhs.get("type", {}).get("qualType", "") \
                    and lhs.get("referencedDecl", {}).get("kind") == "VarDecl" \
                    and lhs["referencedDecl"].get("id") not in self.gvars:
                note(lhs["referencedDecl"]["name"], n["inner"][1])
        for c in n.get("inner", []):
            self.scan_aliases(c)

    def scan_defs(self, n):
        """definitions of the scalar locals: how many there are, and the defining expression when it is `m->X` / `d->X`"""
        def note(var, rhs):
            self.ndefs[var] = self.ndefs.get(var, 0) + 1
            x = strip(rhs) if rhs is not None else {}
            if x.get("kind") == "MemberExpr" and "*" not in x.get("type", {}).get("qualType", "*"):
                base = strip(x["inner"][0])
                if self.is_d(base):
                    self.defexpr[var] = "d->" + x["name"]
                    return
                if base.get("kind") == "DeclRefExpr" and base.get("referencedDecl", {}).get("name") == self.mname \
                        and base.get("referencedDecl", {}).get("kind") == "ParmVarDecl":
                    self.defexpr[var] = "m->" + x["name"]
                    return
            self.defexpr[var] = None
        k = n.get("kind")
        if k == "VarDecl" and "*" not in n.get("type", {}).get("qualType", "") and "[" not in n.get("type", {}).get("qualType", ""):
            inits = [c for c in n.get("inner", []) if "kind" in c]
            if inits:
                note(n["name"], inits[0])
        if k in ("BinaryOperator", "CompoundAssignOperator") and (n.get("opcode") == "=" or k == "CompoundAssignOperator"):
            lhs = strip(n["inner"][0])
            if lhs.get("kind") == "DeclRefExpr" and lhs.get("referencedDecl", {}).get("kind") == "VarDecl":
                note(lhs["referencedDecl"]["name"], n["inner"][1] if n.get("opcode") == "=" else None)
        if k == "UnaryOperator" and n.get("opcode") in ("++", "--", "&"):
            x = strip(n["inner"][0])
            if x.get("kind") == "DeclRefExpr" and x.get("referencedDecl", {}).get("kind") == "VarDecl":
                note(x["referencedDecl"]["name"], None)      # modified (or its address escapes)
        for c in n.get("inner", []):
            self.scan_defs(c)

    def size_text(self, a):
        """normalised text of a count argument: `m->X`, `d->X`, a constant's source text, or None"""
        x = strip(a)
        k = x.get("kind")
        if k == "MemberExpr" and "*" not in x.get("type", {}).get("qualType", "*"):
            base = strip(x["inner"][0])
            if self.is_d(base):
                return "d->" + x["name"]
            if base.get("kind") == "DeclRefExpr" and base.get("referencedDecl", {}).get("name") == self.mname:
                return "m->" + x["name"]
            return None
        if k == "DeclRefExpr":
            rd = x.get("referencedDecl", {})
            if rd.get("kind") == "VarDecl" and rd.get("id") not in self.gvars and self.ndefs.get(rd["name"]) == 1:
                return self.defexpr.get(rd["name"])
            if rd.get("kind") == "EnumConstantDecl":
                return rd["name"]
            return None
        if k == "IntegerLiteral":
            t = src_text(self.path, a)
            return t if t and re.fullmatch(r"mj[A-Z]\w*|\d+", t) else None
        return None

    def whole_write(self, nm, args):
        """the member of mjData that the utility call overwrites completely, or None"""
        if nm not in WHOLE_WRITERS:
            return None
        di, ci = WHOLE_WRITERS[nm]
        if len(args) <= max(di, ci):
            return None
        dst = strip(args[di])
        if not (dst.get("kind") == "MemberExpr" and self.is_d(dst["inner"][0]) and "*" in dst.get("type", {}).get("qualType", "")):
            # fixed-size array members decay to a pointer: MemberExpr of array type
            if not (dst.get("kind") == "MemberExpr" and self.is_d(dst["inner"][0]) and "[" in dst.get("type", {}).get("qualType", "")):
                return None
        want = declared_sizes().get(dst["name"])
        have = self.size_text(args[ci])
        return dst["name"] if want and have and want == have else None

    def root_fields_noalias(self, r):
        if r[0] == "field":
            return {r[1]}
        if r[0] == "mixed":
            return self.root_fields_noalias(r[1]) | self.root_fields_noalias(r[2])
        if r[0] == "local":
            return {LOCALS}
        return set()

    def accesses(self, n, reads, writes, kills, calls, top=True):
        """collect loads / stores / calls of an expression or declaration in evaluation order (post-order)"""
        k = n.get("kind")
        if k is None:
            return
        if k == "CallExpr":
            for a in n["inner"][1:]:
                self.accesses(a, reads, writes, kills, calls, False)
            calls.append(n)
            return
        if k == "ImplicitCastExpr" and n.get("castKind") == "LValueToRValue":
            x = strip(n["inner"][0])
            t = x.get("type", {}).get("qualType", "")
            xk = x.get("kind")
            if xk == "MemberExpr" and self.is_d(x["inner"][0]):
                if "*" not in t:
                    reads.add(x["name"])      # scalar member of mjData: a data read
                # loading a pointer member reads no simulation data
            elif xk == "DeclRefExpr":
                r = self.root(x)
                if r[0] == "local":
                    reads.add(local_field(r[1]))
            else:
                reads |= self.root_fields(self.root(x))
                self.index_reads(x, reads, writes, kills, calls)
            return
        if k == "BinaryOperator" and (n.get("opcode") == "=" or n.get("opcode", "").endswith("=") and
                                      n["opcode"] not in ("==", "!=", "<=", ">=")):
            lhs, rhs = n["inner"]
            self.accesses(rhs, reads, writes, kills, calls, False)
            self.store(lhs, n["opcode"] != "=", reads, writes, kills, calls)
            return
        if k == "CompoundAssignOperator":
            lhs, rhs = n["inner"]
            self.accesses(rhs, reads, writes, kills, calls, False)
            self.store(lhs, True, reads, writes, kills, calls)
            return
        if k == "UnaryOperator" and n.get("opcode") in ("++", "--"):
            self.store(n["inner"][0], True, reads, writes, kills, calls)
            return
        if k == "VarDecl":
            inits = [c for c in n.get("inner", []) if "kind" in c]
            for c in inits:
                self.accesses(c, reads, writes, kills, calls, False)
            if inits:
                writes.add(local_field(n["name"]))
            return
        for c in n.get("inner", []):
            self.accesses(c, reads, writes, kills, calls, False)

    def index_reads(self, x, reads, writes, kills, calls):
        """loads inside the index / offset sub-expressions of an lvalue"""
        x = strip(x)
        k = x.get("kind")
        if k == "ArraySubscriptExpr":
            self.index_reads(x["inner"][0], reads, writes, kills, calls)
            self.accesses(x["inner"][1], reads, writes, kills, calls, False)
        elif k == "MemberExpr":
            if not self.is_d(x["inner"][0]):
                self.index_reads(x["inner"][0], reads, writes, kills, calls)
        elif k == "UnaryOperator":
            self.index_reads(x["inner"][0], reads, writes, kills, calls)
        elif k == "BinaryOperator":
            self.index_reads(x["inner"][0], reads, writes, kills, calls)
            self.accesses(x["inner"][1], reads, writes, kills, calls, False)

    def store(self, lhs, also_read, reads, writes, kills, calls):
        x = strip(lhs)
        r = self.root(x)
        if r[0] in ("model", "global"):
            raise Refuse("store into the model or a global: %s" % src_text(self.path, lhs))
        if r[0] == "param":
            raise Refuse("assignment to a parameter: %s" % src_text(self.path, lhs))
        elif x.get("kind") == "DeclRefExpr" and r[0] == "local":
            fs = {local_field(r[1])}        # the variable itself (not what it points to)
        else:
            fs = self.root_fields(r) or {LOCALS}
        writes |= fs
        if also_read:
            reads |= fs
        elif x.get("kind") == "MemberExpr" and self.is_d(x["inner"][0]) and "*" not in x.get("type", {}).get("qualType", "") \
                and "[" not in x.get("type", {}).get("qualType", ""):
            kills.add(x["name"])
        self.index_reads(x, reads, writes, kills, calls)

    # ------------------------------------------------------------------ calls
    def term(self, a):
        x = strip(a)
        k = x.get("kind")
        if k == "IntegerLiteral":
            return {"k": "const", "n": int(x["value"]), "name": ""}
        if k == "DeclRefExpr":
            rd = x.get("referencedDecl", {})
            if rd.get("kind") == "EnumConstantDecl":
                c2lean.load_enums()
                if rd["name"] not in c2lean.ENUMS:
                    raise Refuse("unknown enumerator " + rd["name"])
                return {"k": "const", "n": c2lean.ENUMS[rd["name"]], "name": rd["name"]}
            if rd.get("kind") == "ParmVarDecl":
                return {"k": "param", "x": rd["name"]}
        if k == "UnaryOperator" and x.get("opcode") == "-" and strip(x["inner"][0]).get("kind") == "IntegerLiteral":
            return {"k": "const", "n": -int(strip(x["inner"][0])["value"]), "name": ""}
        return {"k": "opaque", "s": src_text(self.path, a) or "?"}

    def call_event(self, n):
        rd = callee_decl(n)
        text = src_text(self.path, n) or "?"
        if rd.get("kind") != "FunctionDecl":
            # call through a pointer (user callbacks such as mjcb_control)
            f = strip(n["inner"][0])
            nm = f.get("referencedDecl", {}).get("name") or f.get("name") or "indirect"
            if nm in IGNORED_CALLS:
                return None
            args = []
            self.stage_calls["cb:" + nm] = {"callee": nm, "text": text, "indirect": True}
            return {"k": "call", "f": "cb:" + nm, "key": "cb:" + nm, "args": args}
        nm = rd["name"]
        if nm in IGNORED_CALLS:
            return None
        args = n["inner"][1:]
        takes_d = any(self.root(a)[0] == "data" for a in args)
        if nm in self.inline or takes_d:
            plain = all(self.root(a)[0] in ("data", "model") and strip(a).get("kind") == "DeclRefExpr" for a in args)
            key = nm if (plain or nm in self.inline) else text
            if nm not in self.inline:
                self.stage_calls[key] = {"callee": nm, "text": text, "indirect": False}
            # only scalar arguments matter to the skeleton (pointer parameters never occur in parameter guards)
            sargs = [self.term(a) for a in args if "*" not in a.get("type", {}).get("qualType", "") and
                     "[" not in a.get("type", {}).get("qualType", "")] if nm in self.inline else []
            return {"k": "call", "f": nm, "key": key, "args": sargs}
        # utility that does not receive the mjData: footprint from the prototype
        proto = rd.get("type", {}).get("qualType", "")
        m = re.match(r"^(.*?)\((.*)\)$", proto)
        ptypes = [p.strip() for p in m.group(2).split(",")] if m and m.group(2).strip() else []
        reads, writes, kills, calls = set(), set(), set(), []
        whole = self.whole_write(nm, args)
        for i, a in enumerate(args):
            pt = ptypes[i] if i < len(ptypes) else ""
            at = strip(a).get("type", {}).get("qualType", "") if False else a.get("type", {}).get("qualType", "")
            if "*" in at or "[" in at:
                r = self.root(a)
                fs = self.root_fields(r)
                if whole is not None and i == WHOLE_WRITERS[nm][0]:
                    writes |= fs            # overwritten completely: not read
                elif pt.startswith("const ") or not pt:
                    reads |= fs
                else:
                    reads |= fs
                    writes |= fs
                self.index_reads(strip(a), reads, writes, kills, calls)
            else:
                self.accesses(a, reads, writes, kills, calls, False)
        if calls:
            raise Refuse("nested call inside the arguments of " + text)
        return {"k": "atom", "text": text, "R": sorted(reads), "W": sorted(writes), "K": [whole] if whole else []}

    # ------------------------------------------------------------------ guards
    def guard(self, n, pre):
        x = strip(n)
        k = x.get("kind")
        if k == "UnaryOperator" and x.get("opcode") == "!":
            return {"k": "not", "g": self.guard(x["inner"][0], pre)}
        if k == "BinaryOperator" and x.get("opcode") in ("&&", "||"):
            return {"k": "and" if x["opcode"] == "&&" else "or", "a": self.guard(x["inner"][0], pre), "b": self.guard(x["inner"][1], pre)}
        if k == "BinaryOperator" and x.get("opcode") in ("<", "<=", ">", ">=", "==", "!="):
            a, b = self.term(x["inner"][0]), self.term(x["inner"][1])
            def scalar_param(t):
                return t["k"] == "param" and t["x"] not in (self.mname, self.dname) and "*" not in self.ptypes.get(t["x"], "*")
            if (scalar_param(a) or a["k"] == "const") and (scalar_param(b) or b["k"] == "const") and (scalar_param(a) or scalar_param(b)):
                op = {"<": "lt", "<=": "le", ">": "gt", ">=": "ge", "==": "eq", "!=": "ne"}[x["opcode"]]
                return {"k": "cmp", "op": op, "a": a, "b": b}
        if k == "DeclRefExpr" and x.get("referencedDecl", {}).get("kind") == "ParmVarDecl":
            nm = x["referencedDecl"]["name"]
            if nm not in (self.mname, self.dname) and "*" not in self.ptypes.get(nm, "*"):
                return {"k": "truthy", "a": {"k": "param", "x": nm}}
        # leaf
        text = src_text(self.path, n) or "?"
        reads, writes, kills, calls = set(), set(), set(), []
        self.accesses(n, reads, writes, kills, calls, False)
        if writes:
            raise Refuse("guard with side effects: " + text)
        uses_param = self.mentions_param(n)
        for c in calls:
            if any(self.root(a)[0] == "data" for a in c["inner"][1:]):
                raise Refuse("guard calls a function that receives the mjData: " + text)
        if not reads and not uses_param:
            return {"k": "mconst", "s": text}
        if uses_param:
            reads.add(LOCALS)
        return {"k": "data", "s": text, "R": sorted(reads)}

    def mentions_param(self, n):
        x = n
        if x.get("kind") == "DeclRefExpr":
            rd = x.get("referencedDecl", {})
            if rd.get("kind") == "ParmVarDecl" and rd["name"] not in (self.mname, self.dname):
                return True
        return any(self.mentions_param(c) for c in x.get("inner", []) if isinstance(c, dict))

    # ------------------------------------------------------------------ statements
    def is_error(self, n):
        if n.get("kind") == "CallExpr" and callee_decl(n).get("name") in ("mju_message", "mju_error"):
            return True
        return any(self.is_error(c) for c in n.get("inner", []) if isinstance(c, dict))

    def simple(self, n, name=None):
        """a non-control statement: its calls (in evaluation order) followed by its own effect"""
        reads, writes, kills, calls = set(), set(), set(), []
        self.accesses(n, reads, writes, kills, calls)
        ps = []
        for c in calls:
            ev = self.call_event(c)
            if ev is not None:
                ps.append(ev)
        has_effect = bool(writes) or (n.get("kind") == "DeclStmt" and any(
            any("kind" in i for i in v.get("inner", [])) for v in n.get("inner", []) if v.get("kind") == "VarDecl"))
        if has_effect or (name and (reads or writes)):
            text = name or src_text(self.path, n) or "?"
            at = {"k": "atom", "text": text, "R": sorted(reads), "W": sorted(writes), "K": sorted(kills)}
            self.atoms.append(at)
            ps.append(at)
        return ps

    def stmt(self, n, in_loop):
        k = n.get("kind")
        if k is None or k == "NullStmt":
            return None
        mac = macro_name(self.path, n)
        if mac and mac.startswith("TM_"):
            # timer macros: one atom named after the macro invocation; mjcb_time is not a simulation input
            ps = [p for p in self.simple(n, name=src_text(self.path, n)) if p["k"] == "atom"]
            return {"k": "seq", "ps": ps} if ps else None
        if k == "CompoundStmt":
            if self.is_error(n) and mac == "mjERROR":
                return {"k": "err"}
            ps = [self.stmt(c, in_loop) for c in n.get("inner", [])]
            return {"k": "seq", "ps": [p for p in ps if p is not None]}
        if self.is_error(n) and k not in ("IfStmt", "ForStmt", "WhileStmt", "DoStmt", "SwitchStmt"):
            return {"k": "err"}
        if k == "DeclStmt":
            ps = self.simple(n)
            return {"k": "seq", "ps": ps} if ps else None
        if k == "IfStmt":
            inner = n["inner"]
            pre = []
            g = self.guard(inner[0], pre)
            t = self.stmt(inner[1], in_loop) or {"k": "seq", "ps": []}
            e = (self.stmt(inner[2], in_loop) if len(inner) > 2 else None) or {"k": "seq", "ps": []}
            return {"k": "ite", "g": g, "t": t, "e": e}
        if k == "ForStmt":
            init, _, cond, inc, body = n["inner"]
            ps = []
            if init.get("kind"):
                s = self.stmt(init, in_loop) if init["kind"] == "DeclStmt" else {"k": "seq", "ps": self.simple(init)}
                if s:
                    ps.append(s)
            g = self.guard(cond, []) if cond.get("kind") else {"k": "mconst", "s": "1"}
            b = self.stmt(body, True) or {"k": "seq", "ps": []}
            incs = self.simple(inc) if inc.get("kind") else []
            ps.append({"k": "loop", "g": g, "p": {"k": "seq", "ps": [b] + incs}})
            return {"k": "seq", "ps": ps}
        if k == "WhileStmt":
            cond, body = n["inner"][-2], n["inner"][-1]
            return {"k": "loop", "g": self.guard(cond, []), "p": self.stmt(body, True) or {"k": "seq", "ps": []}}
        if k == "DoStmt":
            body, cond = n["inner"]
            b = self.stmt(body, True) or {"k": "seq", "ps": []}
            return {"k": "seq", "ps": [b, {"k": "loop", "g": self.guard(cond, []), "p": b}]}
        if k == "SwitchStmt":
            inner = n["inner"]
            scrut = inner[0]
            text = src_text(self.path, scrut) or "?"
            reads, writes, kills, calls = set(), set(), set(), []
            self.accesses(scrut, reads, writes, kills, calls, False)
            if reads or writes or calls or self.mentions_param(scrut):
                raise Refuse("switch on a data-dependent expression: " + text)
            body = inner[-1]
            cases, cur = [], None
            for c in body.get("inner", []):
                if c.get("kind") == "NullStmt":
                    continue
                node, labels = c, []
                while node["kind"] in ("CaseStmt", "DefaultStmt"):
                    if node["kind"] == "CaseStmt":
                        labels.append(src_text(self.path, node["inner"][0]) or "?")
                    else:
                        labels.append("default")
                    node = node["inner"][-1]
                if labels:
                    if cur is not None:
                        raise Refuse("switch with fall-through")
                    cur = {"labels": labels, "ps": []}
                    cases.append(cur)
                if node["kind"] == "BreakStmt":
                    cur = None
                    continue
                if cur is None:
                    raise Refuse("statement outside a case")
                p = self.stmt(node, False)
                if p is not None:
                    cur["ps"].append(p)
                    if self.always_exits(p):
                        cur = None
            if cur is not None and cases and cur is not cases[-1]:
                raise Refuse("switch with fall-through")
            return {"k": "switch", "on": text, "cases": [{"labels": c["labels"], "p": {"k": "seq", "ps": c["ps"]}} for c in cases]}
        if k == "ReturnStmt":
            ps = self.simple(n) if n.get("inner") else []
            return {"k": "seq", "ps": ps + [{"k": "ret"}]}
        if k in ("BreakStmt", "ContinueStmt"):
            raise Refuse("break/continue inside a loop is not modelled")
        # expression statement
        ps = self.simple(n)
        if not ps:
            return None
        return ps[0] if len(ps) == 1 else {"k": "seq", "ps": ps}

    def always_exits(self, p):
        if p["k"] in ("err", "ret"):
            return True
        if p["k"] == "seq":
            return any(self.always_exits(q) for q in p["ps"])
        return False


# ---------------------------------------------------------------------------------------------- Lean output
def esc(s):
    return s.replace("\\", "\\\\").replace('"', '\\"')


def slist(xs):
    return "[" + ", ".join('"%s"' % esc(x) for x in xs) + "]"


def term_lean(t):
    if t["k"] == "const":
        return '(.const %s "%s")' % (("%d" % t["n"]) if t["n"] >= 0 else "(%d)" % t["n"], esc(t["name"]))
    if t["k"] == "param":
        return '(.param "%s")' % esc(t["x"])
    return '(.other "%s")' % esc(t["s"])


def guard_lean(g):
    k = g["k"]
    if k == "mconst":
        return '(.mconst "%s")' % esc(g["s"])
    if k == "data":
        return '(.data "%s" %s)' % (esc(g["s"]), slist(g["R"]))
    if k == "not":
        return "(.not %s)" % guard_lean(g["g"])
    if k in ("and", "or"):
        return "(.%s %s %s)" % (k, guard_lean(g["a"]), guard_lean(g["b"]))
    if k == "cmp":
        return "(.cmp .%s %s %s)" % (g["op"], term_lean(g["a"]), term_lean(g["b"]))
    if k == "truthy":
        return "(.truthy %s)" % term_lean(g["a"])
    raise Refuse("unknown guard node " + k)


def to_lean(p, ind="  "):
    k = p["k"]
    if k == "call":
        return '.call "%s" "%s" [%s]' % (esc(p["f"]), esc(p["key"]), ", ".join(term_lean(a) for a in p["args"]))
    if k == "atom":
        return '.atom "%s" %s %s %s' % (esc(p["text"]), slist(p["R"]), slist(p["W"]), slist(p["K"]))
    if k == "err":
        return ".err"
    if k == "ret":
        return ".ret"
    if k == "seq":
        if not p["ps"]:
            return ".skip"
        return "seqs [\n" + ",\n".join(ind + "  " + to_lean(q, ind + "  ") for q in p["ps"]) + "]"
    if k == "ite":
        return '.ite %s\n%s  (%s)\n%s  (%s)' % (guard_lean(p["g"]), ind, to_lean(p["t"], ind + "  "), ind, to_lean(p["e"], ind + "  "))
    if k == "loop":
        return ".loop %s\n%s  (%s)" % (guard_lean(p["g"]), ind, to_lean(p["p"], ind + "  "))
    if k == "switch":
        cs = ",\n".join('%s  (%s, %s)' % (ind, slist(c["labels"]), to_lean(c["p"], ind + "    ")) for c in p["cases"])
        return 'switchOf "%s" [\n%s]' % (esc(p["on"]), cs)
    raise Refuse("unknown node " + k)


def flatten(p):
    """drop empty / singleton sequences (purely cosmetic: `seq` is associative in the semantics)"""
    if p["k"] == "seq":
        out = []
        for q in p["ps"]:
            q = flatten(q)
            if q["k"] == "seq":
                out += q["ps"]
            else:
                out.append(q)
        return {"k": "seq", "ps": out}
    if p["k"] == "ite":
        return dict(p, t=flatten(p["t"]), e=flatten(p["e"]))
    if p["k"] == "loop":
        return dict(p, p=flatten(p["p"]))
    if p["k"] == "switch":
        return dict(p, cases=[dict(c, p=flatten(c["p"])) for c in p["cases"]])
    return p


def main():
    gen = os.path.join(os.path.dirname(here), "lean", "MjProof", "Gen")
    os.makedirs(gen, exist_ok=True)
    out = ["import MjProof.Model.Prog", "/-",
           "GENERATED by translate/skeleton.py from engine_forward.c / engine_inverse.c of the working tree. Do not edit.",
           "-/", "namespace MjProof.Gen.Pipeline", "open MjProof.Prog", ""]
    names, refused, man, stage_calls = [], {}, {}, {}
    sub_names_out, sub_stage_calls = [], {}
    inline_names = [n for n, _ in INLINE]
    sub_names = [n for n, _ in SUB]
    for layer, todo in (("pipeline", INLINE), ("sub", SUB)):
        for name, file in todo:
            path = os.path.join(REPO, file)
            try:
                funcs, gvars = c2lean.load_ast(path)
                if name not in funcs:
                    raise Refuse("function not found in " + file)
                fn = Fn(path, funcs[name], gvars, inline_names if layer == "pipeline" else sub_names)
                p = flatten(fn.body)
                text = "def %s : Prog :=\n  %s\n" % (name, to_lean(p))
                out.append(text)
                entry = (name, [q for q in fn.params if "*" not in fn.ptypes[q] and "[" not in fn.ptypes[q]])
                (names if layer == "pipeline" else sub_names_out).append(entry)
                man[name] = {"file": file, "sha256": c2lean.func_sha(funcs[name], file), "params": fn.params, "prog": p,
                             "stage_calls": fn.stage_calls, "layer": layer}
                for k, v in fn.stage_calls.items():
                    (stage_calls if layer == "pipeline" else sub_stage_calls).setdefault(k, dict(v, used_by=[]))["used_by"].append(name)
            except (Refuse, c2lean.Refuse, KeyError, IndexError, ValueError, TypeError) as e:
                refused[name] = "%s: %s" % (type(e).__name__, e)
    out.append("/-- name ↦ parameters and body of every translated function, for inlining pipeline calls -/")
    out.append("def table : List FunDef := [\n" + ",\n".join(
        '  { name := "%s", params := %s, body := %s }' % (n, slist(ps), n) for n, ps in names) + "]\n")
    out.append("/-- keys of the atomic stage calls (calls that receive the mjData and are not inlined) -/")
    out.append("def stageKeys : List String := [\n" + ",\n".join('  "%s"' % esc(k) for k in sorted(stage_calls)) + "]\n")
    out.append("/-- second layer: bodies of stage functions (and their static helpers), analysed on their own against the\n"
               "    footprints of their leaf calls; NOT inlined into the pipeline programs -/")
    out.append("def subTable : List FunDef := [\n" + ",\n".join(
        '  { name := "%s", params := %s, body := %s }' % (n, slist(ps), n) for n, ps in sub_names_out) + "]\n")
    out.append("/-- keys of the leaf calls of the second layer -/")
    out.append("def subStageKeys : List String := [\n" + ",\n".join('  "%s"' % esc(k) for k in sorted(sub_stage_calls)) + "]\n")
    out.append("/-- functions the translator refused (must be empty for the theorems to mean anything) -/")
    out.append("def refused : List String := %s\n" % slist(sorted(refused)))
    out.append("end MjProof.Gen.Pipeline")
    text = "\n".join(out) + "\n"
    p = os.path.join(gen, "Pipeline.lean")
    if not os.path.exists(p) or open(p).read() != text:
        tmp = p + ".tmp%d" % os.getpid()
        open(tmp, "w").write(text)
        os.replace(tmp, p)
    json.dump({"repo": REPO, "functions": man, "refused": refused, "stage_calls": stage_calls, "sub_stage_calls": sub_stage_calls},
              open(os.path.join(gen, "pipeline_manifest.json"), "w"), indent=1)
    print("skeleton: %d functions, %d refused %s" % (len(names), len(refused), refused if refused else ""))


if __name__ == "__main__":
    main()
