#!/usr/bin/env python3
"""skeleton: extracts the call skeleton of the engine's pipeline functions (DESIGN.md §2 T, §5.C01/C04).

For each function in PIPELINE the clang AST of its body is turned into a small `Prog`:
  call f | write field | seq | ite guard then else | loop body | switch on expr with cases | err
Guards are kept *symbolic*: the exact source text of the condition (whitespace-normalised).  Calls to
other PIPELINE functions are kept as calls (the Lean side inlines them by name), every other call is an
atomic stage.  Direct writes to `d->field` in the skeleton (e.g. `d->flg_rnepost = 0`) are kept.
Output: lean/MjProof/Gen/Pipeline.lean + Gen/pipeline_manifest.json.  Unknown statement shapes make
the translator refuse that function (recorded; the check turns it into a failed tie obligation)."""
import json
import os
import re
import sys

here = os.path.dirname(os.path.abspath(__file__))
sys.path.insert(0, here)
import c2lean  # noqa: E402

REPO = c2lean.REPO
FWD = "src/engine/engine_forward.c"
INV = "src/engine/engine_inverse.c"
PIPELINE = [
    ("mj_step", FWD), ("mj_step1", FWD), ("mj_step2", FWD), ("mj_forward", FWD), ("mj_forwardSkip", FWD),
    ("mj_fwdPosition", FWD), ("mj_fwdKinematics", FWD), ("mj_fwdVelocity", FWD), ("mj_fwdAcceleration", FWD),
    ("mj_fwdConstraint", FWD), ("mj_Euler", FWD), ("mj_implicit", FWD), ("mj_checkPos", FWD), ("mj_checkVel", FWD),
    ("mj_checkAcc", FWD), ("mj_inverse", INV), ("mj_inverseSkip", INV), ("mj_invPosition", INV),
    ("mj_invVelocity", INV), ("mj_invConstraint", INV), ("mj_compareFwdInv", INV),
]
IGNORED_CALLS = {"mjv_timerStart", "mju_timerStart", "mjv_timerStop", "mju_timerStop", "mjcb_time"}


class Refuse(Exception):
    pass


def src_text(path, node, cache={}):
    if path not in cache:
        with open(path, "rb") as f:
            cache[path] = f.read()
    data = cache[path]
    rng = node.get("range", {})

    def off(loc, end=False):
        if "expansionLoc" in loc:
            loc = loc["expansionLoc"]
        o = loc.get("offset")
        if o is None:
            return None
        return o + (loc.get("tokLen", 0) if end else 0)
    b, e = off(rng.get("begin", {})), off(rng.get("end", {}), True)
    if b is None or e is None or e <= b:
        return None
    # an expansionLoc of a function-like macro ends at the macro name: extend to the matching parenthesis
    if re.search(rb"[A-Za-z_]\w*$", data[b:e]) and data[e:e + 1] == b"(":
        depth, i = 0, e
        while i < len(data):
            c = chr(data[i])
            if c == "(":
                depth += 1
            elif c == ")":
                depth -= 1
                if depth == 0:
                    e = i + 1
                    break
            i += 1
    txt = data[b:e].decode("utf8", "replace")
    return " ".join(txt.split())


def callee_name(n):
    f = n["inner"][0]
    while f.get("kind") in ("ImplicitCastExpr", "ParenExpr"):
        f = f["inner"][0]
    return f.get("referencedDecl", {}).get("name")


def data_field_written(n):
    """`d->field = …`, `d->field[i] = …`, `d->a = d->b = …`: returns list of field names or None"""
    if n.get("kind") == "BinaryOperator" and n.get("opcode") == "=":
        lhs, rhs = n["inner"]
        x = lhs
        while x.get("kind") in ("ArraySubscriptExpr", "ParenExpr", "ImplicitCastExpr"):
            x = x["inner"][0]
        if x.get("kind") == "MemberExpr":
            base = x["inner"][0]
            while base.get("kind") in ("ImplicitCastExpr", "ParenExpr"):
                base = base["inner"][0]
            if base.get("kind") == "DeclRefExpr" and base.get("referencedDecl", {}).get("name") == "d":
                more = data_field_written(rhs) if rhs.get("kind") == "BinaryOperator" else []
                return [x["name"]] + (more or [])
            if base.get("kind") == "MemberExpr":  # d->timer[..].number etc.
                b2 = base
                while b2.get("kind") in ("MemberExpr", "ArraySubscriptExpr", "ImplicitCastExpr", "ParenExpr"):
                    last = b2
                    b2 = b2["inner"][0]
                if b2.get("kind") == "DeclRefExpr" and b2.get("referencedDecl", {}).get("name") == "d":
                    nm = last.get("name") if last.get("kind") == "MemberExpr" else None
                    # find the first-level member
                    y = x
                    chain = []
                    while y.get("kind") in ("MemberExpr", "ArraySubscriptExpr", "ImplicitCastExpr", "ParenExpr"):
                        if y.get("kind") == "MemberExpr":
                            chain.append(y["name"])
                        y = y["inner"][0]
                    return [chain[-1]] if chain else None
    return None


class Skel:
    def __init__(self, path, names):
        self.path = path
        self.names = names

    def stmt(self, n):
        k = n.get("kind")
        if k == "CompoundStmt":
            ps = [self.stmt(c) for c in n.get("inner", [])]
            ps = [p for p in ps if p is not None]
            return {"k": "seq", "ps": ps}
        if k == "NullStmt":
            return None
        if k == "DeclStmt":
            # local declarations with call initialisers (e.g. `int flg = mj_foo(m,d)`) are kept as calls
            calls = []
            self.collect_calls(n, calls)
            return {"k": "seq", "ps": calls} if calls else None
        if k == "IfStmt":
            inner = n["inner"]
            g = src_text(self.path, inner[0])
            if g is None:
                raise Refuse("cannot recover the source text of a guard")
            pre = []
            self.collect_calls(inner[0], pre)
            t = self.stmt(inner[1]) or {"k": "seq", "ps": []}
            e = self.stmt(inner[2]) if len(inner) > 2 else None
            node = {"k": "ite", "g": g, "t": t, "e": e or {"k": "seq", "ps": []}}
            return {"k": "seq", "ps": pre + [node]} if pre else node
        if k in ("ForStmt", "WhileStmt", "DoStmt"):
            body = n["inner"][-1] if k != "DoStmt" else n["inner"][0]
            b = self.stmt(body) or {"k": "seq", "ps": []}
            return {"k": "loop", "p": b}
        if k == "SwitchStmt":
            inner = n["inner"]
            scrut = src_text(self.path, inner[0]) or "?"
            body = inner[-1]
            cases, cur = [], None
            for c in body.get("inner", []):
                node, labels = c, []
                while node["kind"] in ("CaseStmt", "DefaultStmt"):
                    if node["kind"] == "CaseStmt":
                        labels.append(src_text(self.path, node["inner"][0]) or "?")
                    else:
                        labels.append("default")
                    node = node["inner"][-1]
                if labels:
                    cur = {"labels": labels, "ps": []}
                    cases.append(cur)
                if node["kind"] == "BreakStmt":
                    cur = None
                    continue
                if cur is None:
                    if not labels:
                        raise Refuse("switch with fall-through or statement outside a case")
                p = self.stmt(node)
                if p is not None:
                    cases[-1]["ps"].append(p)
            return {"k": "switch", "on": scrut, "cases": [{"labels": c["labels"], "p": {"k": "seq", "ps": c["ps"]}} for c in cases]}
        if k == "ReturnStmt":
            return {"k": "ret"}
        if k in ("BreakStmt", "ContinueStmt"):
            return None
        # expression statements
        if self.is_error(n):
            return {"k": "err"}
        w = data_field_written(n)
        calls = []
        self.collect_calls(n, calls)
        ps = calls
        if w:
            ps = ps + [{"k": "write", "f": f} for f in w]
        if not ps:
            return None
        return ps[0] if len(ps) == 1 else {"k": "seq", "ps": ps}

    def is_error(self, n):
        if n.get("kind") == "CallExpr" and callee_name(n) in ("mju_message", "mju_error"):
            return True
        return any(self.is_error(c) for c in n.get("inner", []))

    def collect_calls(self, n, out):
        for c in n.get("inner", []):
            self.collect_calls(c, out)
        if n.get("kind") == "CallExpr":
            nm = callee_name(n)
            if nm is None:
                # call through a pointer (callbacks such as mjcb_control)
                f = n["inner"][0]
                while f.get("kind") in ("ImplicitCastExpr", "ParenExpr"):
                    f = f["inner"][0]
                nm = f.get("referencedDecl", {}).get("name") or f.get("name") or "indirect"
                out.append({"k": "call", "f": "cb:" + nm})
                return
            if nm in IGNORED_CALLS or nm.startswith("mju_timer") or nm in ("snprintf",):
                return
            out.append({"k": "call", "f": nm})


def to_lean(p, ind="  "):
    k = p["k"]
    if k == "call":
        return '.call "%s"' % p["f"]
    if k == "write":
        return '.write "%s"' % p["f"]
    if k == "err":
        return ".err"
    if k == "ret":
        return ".ret"
    if k == "seq":
        if not p["ps"]:
            return ".seq []"
        return ".seq [\n" + ",\n".join(ind + "  " + to_lean(q, ind + "  ") for q in p["ps"]) + "]"
    if k == "ite":
        return '.ite "%s"\n%s  (%s)\n%s  (%s)' % (esc(p["g"]), ind, to_lean(p["t"], ind + "  "), ind, to_lean(p["e"], ind + "  "))
    if k == "loop":
        return ".loop (%s)" % to_lean(p["p"], ind + "  ")
    if k == "switch":
        cs = ",\n".join('%s  ([%s], %s)' % (ind, ", ".join('"%s"' % esc(l) for l in c["labels"]), to_lean(c["p"], ind + "    ")) for c in p["cases"])
        return '.switch "%s" [\n%s]' % (esc(p["on"]), cs)
    raise Refuse("unknown node " + k)


def esc(s):
    return s.replace("\\", "\\\\").replace('"', '\\"')


def main():
    gen = os.path.join(os.path.dirname(here), "lean", "MjProof", "Gen")
    os.makedirs(gen, exist_ok=True)
    out = ["import MjProof.Model.Prog", "/-",
           "GENERATED by translate/skeleton.py from engine_forward.c / engine_inverse.c of the working tree. Do not edit.",
           "-/", "namespace MjProof.Gen.Pipeline", "open MjProof.Prog", ""]
    names, refused, man = [], {}, {}
    for name, file in PIPELINE:
        path = os.path.join(REPO, file)
        try:
            funcs, _ = c2lean.load_ast(path)
            if name not in funcs:
                raise Refuse("function not found in " + file)
            body = [c for c in funcs[name]["inner"] if c["kind"] == "CompoundStmt"][0]
            p = Skel(path, [n for n, _ in PIPELINE]).stmt(body)
            out.append("def %s : Prog :=\n  %s\n" % (name, to_lean(p)))
            names.append(name)
            man[name] = {"file": file, "sha256": c2lean.func_sha(funcs[name], file), "prog": p}
        except (Refuse, c2lean.Refuse, KeyError, IndexError) as e:
            refused[name] = "%s: %s" % (type(e).__name__, e)
    out.append("/-- name → skeleton, for inlining pipeline calls -/")
    out.append("def table : List (String × Prog) := [\n" + ",\n".join('  ("%s", %s)' % (n, n) for n in names) + "]\n")
    out.append("end MjProof.Gen.Pipeline")
    text = "\n".join(out) + "\n"
    p = os.path.join(gen, "Pipeline.lean")
    if not os.path.exists(p) or open(p).read() != text:
        open(p, "w").write(text)
    json.dump({"functions": man, "refused": refused}, open(os.path.join(gen, "pipeline_manifest.json"), "w"), indent=1)
    print("skeleton: %d functions, %d refused %s" % (len(names), len(refused), refused if refused else ""))


if __name__ == "__main__":
    main()
