#!/usr/bin/env python3
"""C30 translator: the BAD-VALUE SCAN SITES of the engine, regenerated from the working tree on every run.

A scan site is a `for` loop whose body tests `mju_isBad(A[idx])` (src/engine/engine_forward.c: mj_checkPos, mj_checkVel,
mj_checkAcc and the control validation inside mj_fwdActuation; any further loop of this shape that appears in the file
is picked up as well).  For every site the clang AST gives

  func        the enclosing function
  array       what is scanned: `d-><field>` (directly or through a local alias `const mjtNum* qpos = d->qpos`), or
              `local <name>` for a stack array (`mjtNum* ctrl = mjSTACKALLOC(d, nu, mjtNum)`)
  declared    the element count the array is DECLARED with: mjxmacro.h (MJDATA_POINTERS) for a field of mjData, the count
              argument of the allocation for a stack array
  start       initial value of the loop counter
  bound       the loop bound when nothing is filtered; locals with a single definition are replaced by their defining
              expression (`nu` -> `m->nu`), a bound of the form `flag ? a : b` is split:
  filter      Some text of `flag` (with its own definition substituted) and
  filterBound Some `a`: the bound while the filter is on (sleeping: `d->nv_awake`, the index then goes through
              `d->dof_awake_ind[j]`)
  index       `direct` (the counter itself subscripts the array) or the text of the index definition
  warn        the enumerator passed to mj_warning in the reaction
  zeroCount   Some count of a `mju_zero(<the scanned array>, count)` in the reaction (controls are zeroed), locals
              substituted as above
  exit        how the reaction leaves the loop: `return` | `break`

Output: lean/MjProof/Gen/C30Scans.lean (`def sites : List BadCheck.ScanSite`) + Gen/c30_scans_manifest.json.
Props/C30.lean proves from this table, for ALL model sizes, that every index below the declared length is visited
(`scan_sites_cover`, `gen_ctrl_scan_catches`): a loop that stops at another model dimension (m->nactuator instead of
m->nu, m->nv instead of m->nq, ...) breaks the proof.  Anything outside the understood shape is a refusal (recorded; the
check turns it into a failed tie obligation)."""
import json
import os
import re
import sys

here = os.path.dirname(os.path.abspath(__file__))
sys.path.insert(0, here)
import c2lean  # noqa: E402
import skeleton  # noqa: E402

VERIF = os.path.dirname(here)
REPO = c2lean.REPO
FILES = ["src/engine/engine_forward.c"]
OUT = os.path.join(VERIF, "lean", "MjProof", "Gen", "C30Scans.lean")
MAN = os.path.join(VERIF, "lean", "MjProof", "Gen", "c30_scans_manifest.json")


class Refuse(Exception):
    pass


strip = skeleton.strip


def walk(n, f, stack=()):
    f(n, stack)
    for c in n.get("inner", []):
        if isinstance(c, dict):
            walk(c, f, stack + (n,))


def text(path, n):
    return skeleton.src_text(path, n) or "?"


class FnInfo:
    """single-definition locals of one function: name -> defining expression node"""

    def __init__(self, path, fdecl):
        self.path, self.f = path, fdecl
        self.params = {c["name"]: c["type"]["qualType"] for c in fdecl.get("inner", []) if c.get("kind") == "ParmVarDecl"}
        self.dname = next((p for p, t in self.params.items() if re.fullmatch(r"(const )?mjData \*", t)), None)
        self.mname = next((p for p, t in self.params.items() if re.fullmatch(r"(const )?mjModel \*", t)), None)
        self.defs, self.ndefs = {}, {}

        def note(n, stack):
            k = n.get("kind")
            if k == "VarDecl":
                inits = [c for c in n.get("inner", []) if "kind" in c]
                self.ndefs[n["name"]] = self.ndefs.get(n["name"], 0) + 1
                self.defs[n["name"]] = inits[0] if inits else None
            elif k in ("BinaryOperator", "CompoundAssignOperator") and (n.get("opcode") == "=" or k == "CompoundAssignOperator"):
                lhs = strip(n["inner"][0])
                if lhs.get("kind") == "DeclRefExpr" and lhs.get("referencedDecl", {}).get("kind") == "VarDecl":
                    nm = lhs["referencedDecl"]["name"]
                    self.ndefs[nm] = self.ndefs.get(nm, 0) + 1
            elif k == "UnaryOperator" and n.get("opcode") in ("++", "--"):
                x = strip(n["inner"][0])
                if x.get("kind") == "DeclRefExpr" and x.get("referencedDecl", {}).get("kind") == "VarDecl":
                    nm = x["referencedDecl"]["name"]
                    self.ndefs[nm] = self.ndefs.get(nm, 0) + 1
        walk(fdecl, note)

    def is_param(self, n, name):
        n = strip(n)
        return n.get("kind") == "DeclRefExpr" and n.get("referencedDecl", {}).get("kind") == "ParmVarDecl" \
            and n["referencedDecl"].get("name") == name

    def norm(self, n, depth=0):
        """normalised text of a scalar expression: m->X / d->X / literals / enumerators kept, a local with exactly one
        definition replaced by (the normalised text of) that definition"""
        if depth > 8:
            raise Refuse("definition chain too deep")
        x = strip(n)
        k = x.get("kind")
        if k == "MemberExpr":
            base = x["inner"][0]
            if self.is_param(base, self.mname):
                return "m->" + x["name"]
            if self.is_param(base, self.dname):
                return "d->" + x["name"]
            return text(self.path, n)
        if k == "IntegerLiteral":
            return str(int(x["value"]))
        if k == "DeclRefExpr":
            rd = x.get("referencedDecl", {})
            if rd.get("kind") == "EnumConstantDecl":
                return rd["name"]
            if rd.get("kind") == "VarDecl":
                nm = rd["name"]
                if self.ndefs.get(nm) == 1 and self.defs.get(nm) is not None:
                    return self.norm(self.defs[nm], depth + 1)
                raise Refuse("local `%s` has %s definitions" % (nm, self.ndefs.get(nm)))
            if rd.get("kind") == "ParmVarDecl":
                return "param:" + rd["name"]
        if k == "ConditionalOperator":
            c, a, b = x["inner"]
            return "%s ? %s : %s" % (self.norm_text(c, depth + 1), self.norm(a, depth + 1), self.norm(b, depth + 1))
        return self.norm_text(n, depth)

    def norm_text(self, n, depth=0):
        """source text with single-definition scalar locals substituted (for conditions)"""
        t = text(self.path, n)
        names = set()

        def refs(x, stack):
            if x.get("kind") == "DeclRefExpr" and x.get("referencedDecl", {}).get("kind") == "VarDecl":
                names.add(x["referencedDecl"]["name"])
        walk(n, refs)
        for nm in sorted(names, key=len, reverse=True):
            if self.ndefs.get(nm) == 1 and self.defs.get(nm) is not None and depth < 8:
                q = self.defs[nm].get("type", {}).get("qualType", "")
                if "*" in q or "[" in q:
                    continue
                t = re.sub(r"\b%s\b" % re.escape(nm), "(" + self.norm(self.defs[nm], depth + 1) + ")", t)
        return t


def is_call_to(n, name):
    n = strip(n)
    return n.get("kind") == "CallExpr" and skeleton.callee_decl(n).get("name") == name


def array_of(fi, base):
    """(array description, declared count) of the scanned pointer expression"""
    b = strip(base)
    if b.get("kind") == "MemberExpr" and fi.is_param(b["inner"][0], fi.dname):
        sz = skeleton.declared_sizes().get(b["name"])
        if not sz:
            raise Refuse("no declared size for d->%s in mjxmacro.h" % b["name"])
        return "d->" + b["name"], sz
    if b.get("kind") == "DeclRefExpr" and b.get("referencedDecl", {}).get("kind") == "VarDecl":
        nm = b["referencedDecl"]["name"]
        if fi.ndefs.get(nm) != 1 or fi.defs.get(nm) is None:
            raise Refuse("scanned pointer `%s` is assigned more than once" % nm)
        init = fi.defs[nm]
        i = strip(init)
        if i.get("kind") == "MemberExpr" and fi.is_param(i["inner"][0], fi.dname):
            return array_of(fi, init)
        # a stack allocation: the macro invocation text `mjSTACKALLOC(d, count, type)`
        mac = skeleton.macro_name(fi.path, init)
        t = text(fi.path, init)
        m = re.fullmatch(r"mjSTACKALLOC\(\s*(\w+)\s*,\s*(.+?)\s*,\s*(\w+)\s*\)", t)
        if mac == "mjSTACKALLOC" and m:
            cnt = m.group(2)
            if re.fullmatch(r"[A-Za-z_]\w*", cnt):
                if fi.ndefs.get(cnt) != 1 or fi.defs.get(cnt) is None:
                    raise Refuse("allocation count `%s` is not a single-definition local" % cnt)
                cnt = fi.norm(fi.defs[cnt])
            elif not re.fullmatch(r"\d+|m->\w+", cnt):
                raise Refuse("allocation count not understood: " + cnt)
            return "local " + nm, cnt
        raise Refuse("scanned pointer `%s` is neither a field of mjData nor a stack allocation: %s" % (nm, t))
    raise Refuse("scanned array not understood: " + text(fi.path, base))


def site_of(path, fname, fi, loop):
    init, _, cond, inc, body = loop["inner"]
    # counter
    if init.get("kind") != "DeclStmt" or len(init["inner"]) != 1:
        raise Refuse("loop init not a single declaration")
    cv = init["inner"][0]
    cinit = [c for c in cv.get("inner", []) if "kind" in c]
    if not cinit or strip(cinit[0]).get("kind") != "IntegerLiteral":
        raise Refuse("loop counter not initialised by a literal")
    start = int(strip(cinit[0])["value"])
    counter = cv["name"]
    c = strip(cond)
    if not (c.get("kind") == "BinaryOperator" and c.get("opcode") == "<" and
            strip(c["inner"][0]).get("referencedDecl", {}).get("name") == counter):
        raise Refuse("loop condition is not `counter < bound`: " + text(path, cond))
    i = strip(inc)
    if not (i.get("kind") == "UnaryOperator" and i.get("opcode") == "++" and
            strip(i["inner"][0]).get("referencedDecl", {}).get("name") == counter):
        raise Refuse("loop increment is not `counter++`")
    # bound, possibly `flag ? a : b` through a local
    bnode = strip(c["inner"][1])
    if bnode.get("kind") == "DeclRefExpr" and bnode.get("referencedDecl", {}).get("kind") == "VarDecl":
        nm = bnode["referencedDecl"]["name"]
        if fi.ndefs.get(nm) != 1 or fi.defs.get(nm) is None:
            raise Refuse("bound `%s` is not a single-definition local" % nm)
        bnode = strip(fi.defs[nm])
    filt = fbound = None
    if bnode.get("kind") == "ConditionalOperator":
        fc, fa, fb = bnode["inner"]
        filt, fbound, bound = fi.norm_text(fc), fi.norm(fa), fi.norm(fb)
    else:
        bound = fi.norm(bnode)
    # the test: first statement(s) of the body: optional index definition, then `if (mju_isBad(A[idx])) {...}`
    stmts = body["inner"] if body.get("kind") == "CompoundStmt" else [body]
    index = "direct"
    idxvar = counter
    test = None
    for s in stmts:
        if s.get("kind") == "DeclStmt" and test is None:
            v = s["inner"][0]
            vin = [x for x in v.get("inner", []) if "kind" in x]
            if len(s["inner"]) != 1 or not vin:
                raise Refuse("declaration in the scan body not understood")
            idxvar = v["name"]
            index = "%s = %s" % (idxvar, fi.norm_text(vin[0]))
        elif s.get("kind") == "IfStmt" and is_call_to(s["inner"][0], "mju_isBad"):
            if test is not None:
                raise Refuse("two bad-value tests in one loop body")
            test = s
        else:
            raise Refuse("statement in the scan body not understood: " + text(path, s)[:80])
    if test is None:
        raise Refuse("no `if (mju_isBad(...))` directly in the loop body")
    arg = strip(strip(test["inner"][0])["inner"][1])
    if arg.get("kind") != "ArraySubscriptExpr":
        raise Refuse("mju_isBad argument is not a subscript: " + text(path, arg))
    if strip(arg["inner"][1]).get("referencedDecl", {}).get("name") != idxvar:
        raise Refuse("subscript is not the loop index: " + text(path, arg))
    array, declared = array_of(fi, arg["inner"][0])
    scanned_ptr = text(path, arg["inner"][0])
    if len(test["inner"]) > 2:
        raise Refuse("bad-value test has an else branch")
    # the reaction
    warn = zero = exit_ = None
    rb = test["inner"][1]
    rstmts = rb["inner"] if rb.get("kind") == "CompoundStmt" else [rb]

    def scan_reaction(n, stack):
        nonlocal warn, zero
        if n.get("kind") == "CallExpr":
            nm = skeleton.callee_decl(n).get("name")
            if nm == "mj_warning" and warn is None:
                warn = fi.norm(n["inner"][2])
            if nm == "mju_zero" and text(path, n["inner"][1]) == scanned_ptr:
                zero = fi.norm(n["inner"][2])
    for s in rstmts:
        walk(s, scan_reaction)
    last = rstmts[-1] if rstmts else {}
    exit_ = {"ReturnStmt": "return", "BreakStmt": "break"}.get(last.get("kind"))
    if exit_ is None:
        raise Refuse("the reaction does not end in return / break")
    if warn is None:
        raise Refuse("the reaction raises no mj_warning")
    return {"func": fname, "array": array, "declared": declared, "start": start, "bound": bound, "filter": filt,
            "filterBound": fbound, "index": index, "warn": warn, "zeroCount": zero, "exit": exit_,
            "text": text(path, loop)[:400]}


def esc(s):
    return s.replace("\\", "\\\\").replace('"', '\\"')


def opt(s):
    return "none" if s is None else '(some "%s")' % esc(s)


def emit(sites, refused):
    out = ["import MjProof.Model.BadCheck", "/-",
           "GENERATED by translate/c30_scans.py from src/engine/engine_forward.c of the working tree. Do not edit.", "-/",
           "namespace MjProof.Gen.C30Scans", "open MjProof.BadCheck", "",
           "/-- every loop that tests `mju_isBad(A[i])`, in source order -/", "def sites : List ScanSite := ["]
    rows = []
    for s in sites:
        rows.append('  { func := "%s", array := "%s", declared := "%s", start := %d, bound := "%s",\n'
                    '    filter := %s, filterBound := %s, index := "%s", warn := "%s", zeroCount := %s, exit := "%s" }'
                    % (esc(s["func"]), esc(s["array"]), esc(s["declared"]), s["start"], esc(s["bound"]), opt(s["filter"]),
                       opt(s["filterBound"]), esc(s["index"]), esc(s["warn"]), opt(s["zeroCount"]), esc(s["exit"])))
    out.append(",\n".join(rows) + "]")
    out += ["", "/-- loops the translator refused (must be empty for the theorems to mean anything) -/",
            "def refused : List String := [%s]" % ", ".join('"%s"' % esc(r) for r in refused), "",
            "end MjProof.Gen.C30Scans", ""]
    return "\n".join(out)


def main():
    sites, refused = [], []
    for file in FILES:
        path = os.path.join(REPO, file)
        try:
            funcs, gvars = c2lean.load_ast(path)
        except Exception as e:      # noqa: BLE001
            refused.append("%s: %s" % (file, e))
            continue
        order = sorted({id(f): (f.get("range", {}).get("begin", {}).get("offset", 0), n, f)
                        for n, f in funcs.items() if "::" not in n}.values(), key=lambda t: t[0])
        for _, fname, fdecl in order:
            loops = []

            def find(n, stack):
                if n.get("kind") == "ForStmt":
                    body = n["inner"][-1]
                    hit = []

                    def inner(x, st):
                        if is_call_to(x, "mju_isBad") and not any(y.get("kind") in ("ForStmt", "WhileStmt", "DoStmt") for y in st[1:]):
                            hit.append(x)
                    walk(body, inner, (n,))
                    if hit:
                        loops.append(n)
            walk(fdecl, find)
            # any other use of mju_isBad in this function (outside a recognised loop) is reported as a refusal
            calls = []
            walk(fdecl, lambda n, st: calls.append((n, st)) if is_call_to(n, "mju_isBad") else None)
            for n, st in calls:
                if not any(l in st for l in loops):
                    refused.append("%s: mju_isBad outside a for loop: %s" % (fname, text(path, n)))
            if not loops:
                continue
            fi = FnInfo(path, fdecl)
            for l in loops:
                try:
                    sites.append(site_of(path, fname, fi, l))
                except (Refuse, skeleton.Refuse, c2lean.Refuse, KeyError, IndexError, ValueError, TypeError) as e:
                    refused.append("%s: %s: %s" % (fname, type(e).__name__, e))
    lean = emit(sites, refused)
    os.makedirs(os.path.dirname(OUT), exist_ok=True)
    if not os.path.exists(OUT) or open(OUT).read() != lean:
        tmp = OUT + ".tmp%d" % os.getpid()
        open(tmp, "w").write(lean)
        os.replace(tmp, OUT)
    json.dump({"repo": REPO, "sites": sites, "refused": refused}, open(MAN, "w"), indent=1)
    print("c30_scans: %d sites, %d refused %s" % (len(sites), len(refused), refused if refused else ""))
    return 3 if refused else 0


if __name__ == "__main__":
    sys.exit(main())
