#!/usr/bin/env python3
"""C49 translator: regenerates lean/MjProof/Gen/IntrospectHeaders.lean, IntrospectPython.lean and
IntrospectTables.json from the source tree (repository root = $VERIF_REPO, default /repo).

Header side (what the C compiler sees):
  clang -Xclang -ast-dump=json -fsyntax-only -x c include/mujoco/mujoco.h
    EnumDecl / TypedefDecl            -> enum tables (name, declname, ordered (constant, value))
    RecordDecl / FieldDecl            -> struct tables (name, declname, ordered members, anonymous
                                         struct/union members flattened with open/close markers)
    FunctionDecl / ParmVarDecl        -> function tables (name, return type, ordered parameters)
  plus three things the compiler does not keep and that are read from the header *text*:
    array syntax of parameters (`mjtNum res[3]` decays to a pointer in the AST),
    the `(n x m)` suffix of a member's trailing comment (StructFieldDecl.array_extent),
    the `// Nullable: a, b` line of a function's comment (FunctionParameterDecl.nullable).
  Every type is kept as the *string* clang prints (or the header spells) and listed once in a type
  table together with the AST computed by the small parser below; Lean re-parses every string of
  the table with the model of type_parsing.parse_type (theorem header_type_strings_parse).
Python side: python/mujoco/introspect/{enums,structs,functions}.py are imported by file path under
  a private package name (the pre-built `mujoco` wheel is never imported) and dumped as they are.
The exclusion list (types / functions the generator deliberately skips) is read from
  python/mujoco/introspect/codegen/generate.py (`_EXCLUDED`).

Refuses (exit 3) whenever a construct is outside the understood shape.
usage: c49_tables.py [--out DIR] [--json-only]
"""
import ast as pyast
import hashlib
import importlib
import json
import os
import re
import subprocess
import sys
import types

VERIF = os.path.dirname(os.path.dirname(os.path.abspath(__file__)))
REPO = os.environ.get("VERIF_REPO", "/repo")
INC = os.path.join(REPO, "include")
TOP = os.path.join(INC, "mujoco", "mujoco.h")
PYDIR = os.path.join(REPO, "python", "mujoco", "introspect")


class Refuse(Exception):
    pass


# ------------------------------------------------------------------------------------------ types
IDENT = re.compile(r"[A-Za-z_][A-Za-z0-9_]*\Z")
ARR = re.compile(r"((?:\[\s*[0-9]+\s*\]\s*)+)\Z")


def parse_ctype(s):
    """Own parser for the type spellings found in the headers: qualifiers, base words, stars with
    qualifiers, trailing [n]...; anything else is refused.  AST: ["V",name,c,v] | ["P",inner,n,c,v,r]
    | ["A",inner,[extents]]"""
    t = s.strip()
    if "(" in t or ")" in t:
        raise Refuse("type %r: parenthesised declarators are not handled by the translator" % s)
    exts = None
    m = ARR.search(t)
    if m:
        exts = [int(x) for x in re.findall(r"\[\s*([0-9]+)\s*\]", m.group(1))]
        t = t[:m.start()].strip()
    if "[" in t or "]" in t:
        raise Refuse("type %r: stray bracket" % s)
    segs = t.split("*")
    words = segs[0].split()
    c = words.count("const")
    v = words.count("volatile")
    if c > 1 or v > 1:
        raise Refuse("type %r: duplicate qualifier" % s)
    base = [w for w in words if w not in ("const", "volatile")]
    if not base or not all(IDENT.match(w) for w in base):
        raise Refuse("type %r: base type not understood" % s)
    node = ["V", " ".join(base), bool(c), bool(v)]
    for seg in segs[1:]:
        q = seg.split()
        if any(w not in ("const", "volatile", "restrict") for w in q) or len(set(q)) != len(q):
            raise Refuse("type %r: pointer qualifiers not understood" % s)
        node = ["P", node, False, "const" in q, "volatile" in q, "restrict" in q]
    if exts is not None:
        node = ["A", node, exts]
    return node


def render_ctype(node, name=""):
    """Own C renderer (used for the compiler cross-check of the header-side extraction)."""
    k = node[0]
    if k == "V":
        q = ("const " if node[2] else "") + ("volatile " if node[3] else "")
        return q + node[1] + ((" " + name) if name else "")
    if k == "P":
        q = "*" + (" const" if node[3] else "") + (" volatile" if node[4] else "") + (" restrict" if node[5] else "")
        inner = q + ((" " + name) if name else "")
        if node[1][0] == "A":
            inner = "(" + inner + ")"
        return render_ctype(node[1], inner)
    if k == "A":
        return render_ctype(node[1], name + "".join("[%d]" % e for e in node[2]))
    raise Refuse("bad AST node %r" % (node,))


# ------------------------------------------------------------------------------------------ header side
def read(path):
    with open(path, encoding="utf-8", errors="replace") as f:
        return f.read()


def clang_ast():
    if not os.path.exists(TOP):
        raise Refuse("missing %s" % TOP)
    cmd = ["clang", "-Xclang", "-ast-dump=json", "-fsyntax-only", "-w", "-x", "c", "-I" + INC, TOP]
    r = subprocess.run(cmd, capture_output=True, text=True)
    if r.returncode != 0 or not r.stdout.strip():
        raise Refuse("clang could not parse mujoco.h: %s" % r.stderr[-600:])
    return json.loads(r.stdout)


class FileTracker:
    """clang's JSON dumper prints "file" only when it differs from the last printed location;
    locations are printed in the order loc, range.begin, range.end (spellingLoc before expansionLoc)."""

    def __init__(self):
        self.cur = None

    def _one(self, o):
        if not isinstance(o, dict):
            return
        if "spellingLoc" in o or "expansionLoc" in o:
            self._one(o.get("spellingLoc"))
            self._one(o.get("expansionLoc"))
            return
        if "file" in o:
            self.cur = o["file"]

    def loc(self, node):
        """updates the tracker with the node's locations; returns the file of node['loc']"""
        self._one(node.get("loc"))
        f = self.cur
        rng = node.get("range") or {}
        self._one(rng.get("begin"))
        self._one(rng.get("end"))
        return f

    def index(self, root):
        """file of every node's `loc`, by a full pre-order pass (the order clang printed them in)"""
        out = {}
        stack = [root]
        while stack:
            n = stack.pop()
            out[id(n)] = self.loc(n)
            stack.extend(reversed(n.get("inner", [])))
        return out


def plain_loc(o):
    """offset/tokLen of a location (expansion location for macro locations)"""
    if o is None:
        return None
    if "expansionLoc" in o:
        o = o["expansionLoc"]
    if "offset" not in o:
        return None
    return o["offset"], o.get("tokLen", 0)


def excluded_names():
    p = os.path.join(PYDIR, "codegen", "generate.py")
    m = re.search(r"^_EXCLUDED\s*=\s*(\[.*?^\])", read(p), re.S | re.M)
    if not m:
        raise Refuse("codegen/generate.py: _EXCLUDED list not found")
    try:
        v = pyast.literal_eval(m.group(1))
    except Exception as e:
        raise Refuse("codegen/generate.py: _EXCLUDED is not a literal list (%s)" % e)
    if not all(isinstance(x, str) for x in v):
        raise Refuse("codegen/generate.py: _EXCLUDED has non-string entries")
    return set(v)


EXT_COMMENT = re.compile(r"\(([^()]+) x ([^()]+)\)\s*\Z")


def trailing_extent(text, off):
    """array_extent from the `(a x b)` suffix of the member's trailing `//` comment: the comment that
    starts on the line containing offset `off`, continued by directly following comment-only lines"""
    e = text.find("\n", off)
    if e < 0:
        e = len(text)
    line = text[off:e]
    k = line.find("//")
    if k < 0:
        return None
    comment = line[k + 2:].rstrip()
    while e < len(text):
        e2 = text.find("\n", e + 1)
        if e2 < 0:
            e2 = len(text)
        nxt = text[e + 1:e2].strip()
        if not nxt.startswith("//"):
            break
        comment += " " + nxt[2:].rstrip()
        e = e2
    m = EXT_COMMENT.search(comment)
    if not m:
        return None
    a, b = m.group(1).strip(), m.group(2).strip()

    def ent(x):
        return "i:%d" % int(x) if re.fullmatch(r"[0-9]+", x) else "s:" + x
    if re.fullmatch(r"[0-9]+", b) and int(b) == 1:
        return ["s:" + a]
    return ["s:" + a, ent(b)]


def nullable_params(text, off):
    """names after `Nullable:` in the comment block directly above the declaration at offset `off`"""
    ls = text.rfind("\n", 0, off) + 1
    names = set()
    pos = ls
    while pos > 0:
        pe = pos - 1
        ps = text.rfind("\n", 0, pe) + 1
        line = text[ps:pe].strip()
        if not line.startswith("//"):
            break
        if "Nullable" in line:
            parts = line.split(":")
            if len(parts) < 2:
                raise Refuse("Nullable comment without ':' near offset %d" % off)
            for p in parts[1].split(","):
                if p.strip():
                    names.add(p.strip())
        pos = ps
    return names


class Headers:
    def __init__(self):
        self.ast = clang_ast()
        self.excluded = excluded_names()
        self.text = {}
        self.enum_defs = {}      # "enum X" -> [(name, value)]
        self.struct_defs = {}    # "struct X" -> items
        self.struct_typedefs = {}  # "struct X" -> typedef name (first one)
        self.enums, self.structs, self.functions = [], [], []
        self.type_strings = []   # ordered distinct
        self.type_index = {}
        self.file_of = FileTracker().index(self.ast)
        self.walk_top()

    def src(self, path):
        if path not in self.text:
            self.text[path] = read(path)
        return self.text[path]

    def tindex(self, s):
        s = " ".join(s.split()) if "\n" in s or "\t" in s else s.strip()
        if s not in self.type_index:
            self.type_index[s] = len(self.type_strings)
            self.type_strings.append(s)
        return self.type_index[s]

    # ---- enums
    def enum_values(self, node):
        vals = []
        for c in node.get("inner", []):
            if c.get("kind") != "EnumConstantDecl":
                continue
            v = None
            for e in c.get("inner", []):
                if e.get("kind") == "FullComment":
                    continue
                v = self.const_value(e)
                break
            if v is None:
                v = vals[-1][1] + 1 if vals else 0
            vals.append((c["name"], v))
        return vals

    def const_value(self, e):
        """value of an enumerator initialiser: clang evaluates it (ConstantExpr.value)"""
        if "value" in e and e.get("kind") in ("ConstantExpr", "IntegerLiteral"):
            return int(e["value"])
        raise Refuse("enumerator initialiser without an evaluated value (%s)" % e.get("kind"))

    # ---- structs
    def record_items(self, node, path):
        items = []
        pending = None   # anonymous RecordDecl waiting for its FieldDecl
        for c in node.get("inner", []):
            f = self.file_of.get(id(c)) or path
            k = c.get("kind")
            if k == "RecordDecl":
                if "name" in c:
                    raise Refuse("named nested record %s" % c["name"])
                pending = (c["tagUsed"], self.record_items(c, f))
            elif k == "FieldDecl":
                q = c["type"]["qualType"]
                anon = "(unnamed " in q or "(anonymous " in q
                if anon:
                    if pending is None:
                        raise Refuse("member of anonymous type without a preceding record")
                    tag, sub = pending
                    pending = None
                    nm = c.get("name", "")
                    if tag == "struct":
                        if not nm:
                            raise Refuse("anonymous struct member without a name")
                        items.append(["openStruct", nm])
                    elif tag == "union":
                        items.append(["openUnion", nm])
                    else:
                        raise Refuse("anonymous %s" % tag)
                    items += sub
                    items.append(["close"])
                else:
                    if "name" not in c:
                        raise Refuse("unnamed member of type %s" % q)
                    q = self.typedef_name(q)
                    lo = plain_loc(c.get("loc"))
                    ext = trailing_extent(self.src(f), lo[0]) if (lo and f) else None
                    items.append(["field", c["name"], self.tindex(q), ext])
            elif k in ("IndirectFieldDecl", "FullComment", "MaxFieldAlignmentAttr", "AlignedAttr"):
                pass
            else:
                raise Refuse("unexpected %s inside a record" % k)
        if pending is not None:
            raise Refuse("anonymous record without a member")
        return items

    def typedef_name(self, q):
        """`struct X_` spelled in a member declaration -> its typedef name if one was declared before"""
        return self.struct_typedefs.get(q, q)

    # ---- functions
    def function(self, node, path):
        name = node["name"]
        fq = node["type"]["qualType"]
        k = fq.find("(")
        if k < 0:
            raise Refuse("function type %r" % fq)
        ret = fq[:k].strip()
        text = self.src(path)
        lo = plain_loc(node.get("loc"))
        if lo is None or text[lo[0]:lo[0] + lo[1]] != name:
            raise Refuse("function %s: source location does not point at its name" % name)
        nullable = nullable_params(text, lo[0])
        params = []
        for c in node.get("inner", []):
            if c.get("kind") != "ParmVarDecl":
                continue
            if "name" not in c:
                raise Refuse("function %s: unnamed parameter" % name)
            q = c["type"]["qualType"]
            if q.rstrip().endswith("*"):
                # arrays decay in the AST: take the spelling from the header text
                b = plain_loc(c["range"]["begin"])
                e = plain_loc(c["range"]["end"])
                nl = plain_loc(c["loc"])
                if not (b and e and nl):
                    raise Refuse("function %s parameter %s: no source range" % (name, c["name"]))
                decl = text[b[0]:e[0] + e[1]]
                if text[nl[0]:nl[0] + nl[1]] != c["name"]:
                    raise Refuse("function %s parameter %s: location mismatch" % (name, c["name"]))
                if "[" in decl:
                    q = decl[:nl[0] - b[0]] + decl[nl[0] - b[0] + nl[1]:]
            params.append([c["name"], self.tindex(q), c["name"] in nullable])
        unknown = nullable - {p[0] for p in params}
        if unknown:
            raise Refuse("function %s: Nullable names %s are not parameters" % (name, sorted(unknown)))
        return {"name": name, "ret": self.tindex(ret), "params": params, "variadic": bool(node.get("variadic"))}

    # ---- top level
    def walk_top(self):
        seen_funcs = set()
        for n in self.ast.get("inner", []):
            path = self.file_of.get(id(n))
            k = n.get("kind")
            nm = n.get("name", "")
            if k == "EnumDecl" and nm.startswith("mj"):
                self.enum_defs["enum " + nm] = self.enum_values(n)
            elif k == "RecordDecl":
                if nm.startswith("mj") and nm not in self.excluded and n.get("completeDefinition"):
                    self.struct_defs["%s %s" % (n["tagUsed"], nm)] = self.record_items(n, path)
            elif k == "TypedefDecl":
                q = n["type"]["qualType"]
                if q.startswith("enum mj"):
                    if q not in self.enum_defs:
                        raise Refuse("typedef %s of undefined %s" % (nm, q))
                    self.enums.append({"name": nm, "declname": q, "values": [list(x) for x in self.enum_defs[q]]})
                elif q.startswith("struct mj") and nm not in self.excluded:
                    self.struct_typedefs.setdefault(q, nm)
                    self.structs.append({"name": nm, "declname": q, "items": None})
            elif k == "FunctionDecl" and nm.startswith("mj") and nm not in self.excluded:
                if nm in seen_funcs:
                    raise Refuse("function %s declared twice" % nm)
                seen_funcs.add(nm)
                self.functions.append(self.function(n, path))
        # a struct may be defined after its typedef (forward typedef): resolve at the end
        for s in self.structs:
            s["items"] = self.struct_defs.get(s["declname"], [])


# ------------------------------------------------------------------------------------------ python side
def load_python():
    pkg_name = "c49_tree_introspect"
    pkg = types.ModuleType(pkg_name)
    pkg.__path__ = [PYDIR]
    pkg.__package__ = pkg_name
    sys.modules[pkg_name] = pkg
    mods = {}
    for m in ("ast_nodes", "enums", "structs", "functions"):
        try:
            mods[m] = importlib.import_module(pkg_name + "." + m)
        except Exception as e:
            raise Refuse("cannot import introspect/%s.py from the tree: %s: %s" % (m, type(e).__name__, e))
        if not os.path.realpath(mods[m].__file__).startswith(os.path.realpath(PYDIR)):
            raise Refuse("introspect/%s.py was not loaded from the tree" % m)
    return mods


def py_type(an, t):
    if isinstance(t, an.ValueType):
        return ["V", t.name, bool(t.is_const), bool(t.is_volatile)]
    if isinstance(t, an.PointerType):
        return ["P", py_type(an, t.inner_type), bool(t.nullable), bool(t.is_const), bool(t.is_volatile), bool(t.is_restrict)]
    if isinstance(t, an.ArrayType):
        ex = []
        for e in t.extents:
            if not isinstance(e, int) or isinstance(e, bool):
                raise Refuse("ArrayType extent %r is not an int" % (e,))
            ex.append(e)
        return ["A", py_type(an, t.inner_type), ex]
    raise Refuse("unexpected type node %s" % type(t).__name__)


def py_items(an, fields):
    out = []
    for f in fields:
        if isinstance(f, an.AnonymousUnionDecl):
            out.append(["openUnion", ""])
            out += py_items(an, f.fields)
            out.append(["close"])
        elif isinstance(f, an.AnonymousStructDecl):
            raise Refuse("anonymous struct without a member name in structs.py")
        elif isinstance(f, an.StructFieldDecl):
            if isinstance(f.type, an.AnonymousUnionDecl):
                out.append(["openUnion", f.name])
                out += py_items(an, f.type.fields)
                out.append(["close"])
            elif isinstance(f.type, an.AnonymousStructDecl):
                out.append(["openStruct", f.name])
                out += py_items(an, f.type.fields)
                out.append(["close"])
            else:
                ext = None
                if f.array_extent is not None:
                    ext = []
                    for e in f.array_extent:
                        if isinstance(e, bool) or not isinstance(e, (int, str)):
                            raise Refuse("array_extent entry %r" % (e,))
                        ext.append("i:%d" % e if isinstance(e, int) else "s:" + e)
                out.append(["field", f.name, py_type(an, f.type), ext])
        else:
            raise Refuse("unexpected struct member %s" % type(f).__name__)
    return out


def python_tables():
    mods = load_python()
    an = mods["ast_nodes"]
    enums = []
    for k, e in mods["enums"].ENUMS.items():
        vals = []
        for n, v in e.values.items():
            if isinstance(v, bool) or not isinstance(v, int):
                raise Refuse("enum %s.%s value %r is not an int" % (k, n, v))
            vals.append([n, v])
        enums.append({"key": k, "name": e.name, "declname": e.declname, "values": vals})
    structs = []
    for k, s in mods["structs"].STRUCTS.items():
        structs.append({"key": k, "name": s.name, "declname": s.declname, "items": py_items(an, s.fields)})
    funcs = []
    for k, f in mods["functions"].FUNCTIONS.items():
        funcs.append({"key": k, "name": f.name, "ret": py_type(an, f.return_type),
                      "params": [[p.name, py_type(an, p.type), bool(p.nullable)] for p in f.parameters]})
    for tbl, what in ((enums, "ENUMS"), (structs, "STRUCTS"), (funcs, "FUNCTIONS")):
        for x in tbl:
            if x["key"] != x["name"]:
                raise Refuse("%s: key %r differs from the name %r of its entry" % (what, x["key"], x["name"]))
    return {"enums": enums, "structs": structs, "functions": funcs}


# ------------------------------------------------------------------------------------------ Lean
def lstr(s):
    """a text as the numeral understood by `MjProof.CType.dS`: bytes big-endian after a leading 1"""
    n = 1
    for ch in s:
        if not (0 < ord(ch) < 256):
            raise Refuse("text %r has a character outside 1..255" % s)
        n = n * 256 + ord(ch)
    return "0x%x" % n


def cmt(s):
    return s.replace("\n", " ").replace("-/", "- /")


def tstr(t):
    """plain C-like rendering for comments"""
    if t[0] == "V":
        return ("const " if t[2] else "") + ("volatile " if t[3] else "") + t[1]
    if t[0] == "P":
        return tstr(t[1]) + " *" + ("nullable " if t[2] else "") + ("const " if t[3] else "") + ("volatile " if t[4] else "") + ("restrict" if t[5] else "")
    return tstr(t[1]) + "".join("[%d]" % e for e in t[2])


def lbool(b):
    return "true" if b else "false"


def lint(n):
    return "%d" % n if n >= 0 else "(%d)" % n


def ltype(t):
    if t[0] == "V":
        return "(.value %s %s %s)" % (lstr(t[1]), lbool(t[2]), lbool(t[3]))
    if t[0] == "P":
        return "(.pointer %s %s %s %s %s)" % (ltype(t[1]), lbool(t[2]), lbool(t[3]), lbool(t[4]), lbool(t[5]))
    return "(.array %s [%s])" % (ltype(t[1]), ", ".join(lint(e) for e in t[2]))


def lext(e):
    return "none" if e is None else "(some [%s])" % ", ".join(lstr(x) for x in e)


def ident(s):
    return re.sub(r"[^A-Za-z0-9_]", "_", s)


def chunked_list(name, typ, elems, L, per=1):
    """`def name : List typ := [e0, e1, ...]` split into small defs so that elaboration stays fast"""
    L.append("def %s : List %s := [" % (name, typ))
    for i, e in enumerate(elems):
        L.append("  %s%s" % (e, "," if i + 1 < len(elems) else ""))
    L.append("]")
    L.append("")


def emit_python(py):
    L = ["-- GENERATED by translate/c49_tables.py from python/mujoco/introspect/{enums,structs,functions}.py.",
         "-- Do not edit; regenerated on every run.  Texts are numerals (see Model/Introspect.lean); comments give the plain text.",
         "import MjProof.Model.Introspect",
         "namespace MjProof.Gen.IntrospectPython",
         "open MjProof.CType MjProof.Introspect",
         "noncomputable section", ""]
    names = []
    for e in py["enums"]:
        n = "e_" + ident(e["name"])
        names.append(n)
        L.append("def %s : EnumT := { name := %s, declname := %s, values := [  -- %s" % (n, lstr(e["name"]), lstr(e["declname"]), cmt(e["declname"])))
        L.append(join_commented([("  (%s, %s)" % (lstr(a), lint(b)), a) for a, b in e["values"]]))
        L.append("] }")
    L.append("")
    chunked_list("enums", "EnumT", names, L)
    names = []
    for s in py["structs"]:
        n = "s_" + ident(s["name"])
        names.append(n)
        L.append("def %s : StructT := { name := %s, declname := %s, items := [  -- %s" % (n, lstr(s["name"]), lstr(s["declname"]), cmt(s["declname"])))
        its = []
        for it in s["items"]:
            if it[0] == "field":
                its.append(("  .field %s %s %s" % (lstr(it[1]), ltype(it[2]), lext(it[3])), "%s : %s" % (it[1], tstr(it[2]))))
            elif it[0] == "close":
                its.append(("  .close", ""))
            else:
                its.append(("  .%s %s" % (it[0], lstr(it[1])), it[1]))
        L.append(join_commented(its))
        L.append("] }")
    L.append("")
    chunked_list("structs", "StructT", names, L)
    names = []
    for f in py["functions"]:
        n = "f_" + ident(f["name"])
        names.append(n)
        L.append("def %s : FuncT := { name := %s, ret := %s, params := [  -- %s %s" % (n, lstr(f["name"]), ltype(f["ret"]), tstr(f["ret"]), f["name"]))
        L.append(join_commented([("  { name := %s, type := %s, nullable := %s }" % (lstr(p[0]), ltype(p[1]), lbool(p[2])),
                                  "%s : %s" % (p[0], tstr(p[1]))) for p in f["params"]]))
        L.append("] }")
    L.append("")
    chunked_list("functions", "FuncT", names, L)
    L.append("end")
    L.append("end MjProof.Gen.IntrospectPython")
    return "\n".join(L) + "\n"


def join_commented(pairs):
    out = []
    for i, (code, comment) in enumerate(pairs):
        sep = "," if i + 1 < len(pairs) else ""
        out.append(code + sep + (("  -- " + cmt(comment)) if comment else ""))
    return "\n".join(out)


def emit_headers(h, types_ast):
    L = ["-- GENERATED by translate/c49_tables.py from include/mujoco/mujoco.h (clang -ast-dump=json) and the header text.",
         "-- Do not edit; regenerated on every run.  Texts are numerals (see Model/Introspect.lean); comments give the plain text.",
         "import MjProof.Model.Introspect",
         "namespace MjProof.Gen.IntrospectHeaders",
         "open MjProof.CType MjProof.Introspect",
         "noncomputable section", "",
         "/-- every distinct type spelling of the API (as clang prints it, or as the header text spells an array",
         "    parameter) with the AST computed by the translator -/",
         "def typeTable : TypeTable := ["]
    for i, (s, t) in enumerate(zip(h.type_strings, types_ast)):
        L.append("  (%s, %s)%s  -- %d: %s" % (lstr(s), ltype(t), "," if i + 1 < len(types_ast) else "", i, cmt(s)))
    L.append("]")
    L.append("")
    names = []
    for e in h.enums:
        n = "e_" + ident(e["name"])
        names.append(n)
        L.append("def %s : EnumT := { name := %s, declname := %s, values := [  -- %s" % (n, lstr(e["name"]), lstr(e["declname"]), cmt(e["declname"])))
        L.append(join_commented([("  (%s, %s)" % (lstr(a), lint(b)), a) for a, b in e["values"]]))
        L.append("] }")
    L.append("")
    chunked_list("enums", "EnumT", names, L)
    names = []
    for s in h.structs:
        n = "s_" + ident(s["name"])
        names.append(n)
        L.append("def %s : StructH := { name := %s, declname := %s, items := [  -- %s" % (n, lstr(s["name"]), lstr(s["declname"]), cmt(s["declname"])))
        its = []
        for it in s["items"]:
            if it[0] == "field":
                its.append(("  .field %s %d %s" % (lstr(it[1]), it[2], lext(it[3])), "%s : %s" % (it[1], h.type_strings[it[2]])))
            elif it[0] == "close":
                its.append(("  .close", ""))
            else:
                its.append(("  .%s %s" % (it[0], lstr(it[1])), it[1]))
        L.append(join_commented(its))
        L.append("] }")
    L.append("")
    chunked_list("structs", "StructH", names, L)
    names = []
    for f in h.functions:
        n = "f_" + ident(f["name"])
        names.append(n)
        L.append("def %s : FuncH := { name := %s, ret := %d, params := [  -- %s %s" % (n, lstr(f["name"]), f["ret"], h.type_strings[f["ret"]], f["name"]))
        L.append(join_commented([("  { name := %s, ty := %d, nullable := %s }" % (lstr(p[0]), p[1], lbool(p[2])),
                                  "%s : %s" % (p[0], h.type_strings[p[1]])) for p in f["params"]]))
        L.append("] }")
    L.append("")
    chunked_list("functions", "FuncH", names, L)
    L.append("end")
    L.append("end MjProof.Gen.IntrospectHeaders")
    return "\n".join(L) + "\n"


def write_if_changed(path, text):
    os.makedirs(os.path.dirname(path), exist_ok=True)
    if os.path.exists(path) and open(path).read() == text:
        return False
    tmp = path + ".tmp%d" % os.getpid()
    with open(tmp, "w") as f:
        f.write(text)
    os.replace(tmp, path)
    return True


def translate():
    h = Headers()
    types_ast = [parse_ctype(s) for s in h.type_strings]
    py = python_tables()
    hdr = {"enums": h.enums, "structs": h.structs, "functions": h.functions,
           "type_strings": h.type_strings, "types": types_ast, "excluded": sorted(h.excluded)}
    return h, types_ast, py, hdr


def input_key():
    """content hash of everything the output depends on (so that an unchanged tree costs nothing)"""
    hs = hashlib.sha256()
    files = [os.path.abspath(__file__), os.path.join(PYDIR, "codegen", "generate.py")]
    inc = os.path.join(INC, "mujoco")
    for root, _, names in os.walk(inc):
        files += [os.path.join(root, n) for n in names if n.endswith(".h")]
    files += [os.path.join(PYDIR, n) for n in ("ast_nodes.py", "enums.py", "structs.py", "functions.py", "__init__.py")]
    for f in sorted(files):
        # names relative to the tree, so that an identical copy of the tree (a scratch worktree of another
        # property's mutation run) shares the key
        rel = os.path.relpath(f, REPO) if f.startswith(REPO + os.sep) else os.path.basename(f)
        hs.update(rel.encode() + b"\0")
        try:
            with open(f, "rb") as fh:
                hs.update(fh.read())
        except OSError:
            hs.update(b"<missing>")
    try:
        v = subprocess.run(["clang", "--version"], capture_output=True, text=True).stdout
    except OSError:
        v = "<no clang>"
    hs.update(v.encode())
    return hs.hexdigest()[:32]


def main():
    out = os.path.join(VERIF, "lean", "MjProof", "Gen")
    args = sys.argv[1:]
    if "--out" in args:
        out = args[args.index("--out") + 1]
    key = input_key()
    jp = os.path.join(out, "IntrospectTables.json")
    if "--force" not in args and os.path.exists(jp) and all(
            os.path.exists(os.path.join(out, n)) for n in ("IntrospectHeaders.lean", "IntrospectPython.lean")):
        try:
            old = json.load(open(jp))
            lh = open(os.path.join(out, "IntrospectHeaders.lean")).read()
            lp = open(os.path.join(out, "IntrospectPython.lean")).read()
            if old.get("input_key") == key and old.get("table_id") == hashlib.sha256((lh + lp).encode()).hexdigest()[:24]:
                print("c49_tables: inputs unchanged (key %s), outputs kept -> %s" % (key, out))
                return
        except Exception:
            pass
    try:
        h, types_ast, py, hdr = translate()
    except Refuse as e:
        print("c49_tables: REFUSED: %s" % e, file=sys.stderr)
        sys.exit(3)
    lean_h = emit_headers(h, types_ast)
    lean_p = emit_python(py)
    tid = hashlib.sha256((lean_h + lean_p).encode()).hexdigest()[:24]
    info = {"table_id": tid, "input_key": key, "repo": REPO, "headers": hdr, "python": py}
    write_if_changed(os.path.join(out, "IntrospectTables.json"), json.dumps(info, indent=0) + "\n")
    if "--json-only" not in args:
        write_if_changed(os.path.join(out, "IntrospectHeaders.lean"), lean_h)
        write_if_changed(os.path.join(out, "IntrospectPython.lean"), lean_p)
    print("c49_tables: headers %d enums / %d structs / %d functions / %d type spellings; python %d / %d / %d -> %s" % (
        len(h.enums), len(h.structs), len(h.functions), len(h.type_strings),
        len(py["enums"]), len(py["structs"]), len(py["functions"]), out))


if __name__ == "__main__":
    main()
