"""C30 kernels: the bad-value predicate of the check functions (engine_util_misc.c: mju_isBad).
mj_checkPos / mj_checkVel / mj_checkAcc read through mjModel* / mjData* (outside c2lean's subset); their control
structure is translated by translate/skeleton.py (lean/MjProof/Gen/Pipeline.lean) and given a semantics in
lean/MjProof/Model/BadCheck.lean (refinement theorem in Props/C30.lean)."""
MISC = "src/engine/engine_util_misc.c"
KERNELS = [
    {"name": "mju_isBad", "file": MISC},
    # the per-slot control clamp of mj_fwdActuation (clampVec -> mju_clip) runs BEFORE the bad-control scan: the Lean
    # driver's `ctrlscan` op uses the generated kernel (listed by other checks too; duplicates are merged)
    {"name": "mju_clip", "file": MISC},
]
INLINE_FILES = [MISC]
