"""C16 kernels: per-primitive ray intersection functions of engine_ray.c (all file-static except
mju_rayGeom).  `normal: None` variants are the distance-only paths that mj_ray uses when the caller passes
normal == NULL; the variants with a normal output are translated too where the C subset allows it."""
RAY = "src/engine/engine_ray.c"
KERNELS = [
    {"name": "ray_quad", "file": RAY, "static": True},
    {"name": "ray_map", "file": RAY, "static": True},
    # distance-only variants (normal == NULL)
    {"name": "ray_plane", "file": RAY, "static": True, "fix": {"normal": None}, "lean": "ray_plane_nn"},
    {"name": "ray_sphere", "file": RAY, "static": True, "fix": {"mat": None, "normal": None}, "lean": "ray_sphere_nn"},
    {"name": "ray_capsule", "file": RAY, "static": True, "fix": {"normal": None}, "lean": "ray_capsule_nn"},
    {"name": "ray_ellipsoid", "file": RAY, "static": True, "fix": {"normal": None}, "lean": "ray_ellipsoid_nn"},
    {"name": "ray_cylinder", "file": RAY, "static": True, "fix": {"normal": None}, "lean": "ray_cylinder_nn"},
    {"name": "ray_box", "file": RAY, "static": True, "fix": {"all": None, "normal": None}, "lean": "ray_box_nn"},
    {"name": "ray_box", "file": RAY, "static": True, "fix": {"normal": None}, "lean": "ray_box_all"},
    # variants with the surface normal
    {"name": "ray_plane", "file": RAY, "static": True},
    {"name": "ray_sphere", "file": RAY, "static": True, "fix": {"mat": None}},
    {"name": "ray_ellipsoid", "file": RAY, "static": True},
    {"name": "ray_cylinder", "file": RAY, "static": True},
    # ray_capsule with a normal is refused by c2lean ("read of uninitialised local type": the C code reads
    # `type` only when x >= 0, which implies it was written; the translator evaluates both branches) -> not listed
    # the exported dispatcher, specialised per geom type (enumerators of mjtGeom: see gen/enums.py)
    {"name": "mju_rayGeom", "file": RAY, "fix": {"geomtype": 0, "normal": None}, "lean": "mju_rayGeom_plane"},
    {"name": "mju_rayGeom", "file": RAY, "fix": {"geomtype": 2, "normal": None}, "lean": "mju_rayGeom_sphere"},
    {"name": "mju_rayGeom", "file": RAY, "fix": {"geomtype": 3, "normal": None}, "lean": "mju_rayGeom_capsule"},
    {"name": "mju_rayGeom", "file": RAY, "fix": {"geomtype": 4, "normal": None}, "lean": "mju_rayGeom_ellipsoid"},
    {"name": "mju_rayGeom", "file": RAY, "fix": {"geomtype": 5, "normal": None}, "lean": "mju_rayGeom_cylinder"},
    {"name": "mju_rayGeom", "file": RAY, "fix": {"geomtype": 6, "normal": None}, "lean": "mju_rayGeom_box"},
    {"name": "mju_rayGeom", "file": RAY, "fix": {"geomtype": 1, "normal": None}, "lean": "mju_rayGeom_badtype"},
]
INLINE_FILES = [RAY]
