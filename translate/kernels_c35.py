"""C35/C36 kernels: the plain free functions of src/user/user_util.cc that c2lean can translate.

user_util.cc is C++ (mangled symbols, no extern "C"), so these kernels must NOT enter the shared list that
translate/kernels.py merges (the shared validation harness is a C translation unit and would no longer link):
`KERNELS` is therefore empty and the list lives in `USER_KERNELS`, consumed by translate/c35_userutil.py, which
emits its own module lean/MjProof/Gen/UserUtil.lean, its own dispatcher and its own C++ validation harness.

Refused by c2lean (recorded in Gen/userutil_manifest.json, hand-modelled in Model/MassProps.lean and
Model/Orient.lean and tied by bitwise differential instead): mjuu_normvec / mjuu_mulquat / mjuu_frameaccum* /
mjuu_z2quat / mjuu_localquat (std::abs resolves to the long double overload set in clang's AST),
mjuu_frame2quat (array of pointers), mjuu_rotVecQuat / mjuu_trnVecPose (chained assignment),
mjuu_mulmat / mjuu_transposemat (template mjuu_copyvec -> std::copy), mjuu_eig3 (data-dependent loop),
mjuu_fullInertia (returns const char*)."""
UU = "src/user/user_util.cc"
KERNELS = []
USER_KERNELS = [
    {"name": "mjuu_dot3", "file": UU},
    {"name": "mjuu_quat2mat", "file": UU},
    {"name": "mjuu_mulvecmat", "file": UU},
    {"name": "mjuu_mulvecmatT", "file": UU},
    {"name": "mjuu_mulRMRT", "file": UU},
    {"name": "mjuu_crossvec", "file": UU},
    {"name": "mjuu_localaxis", "file": UU},
    {"name": "mjuu_localpos", "file": UU},
    {"name": "mjuu_frameinvert", "file": UU},
    {"name": "mjuu_globalinertia", "file": UU},
    {"name": "mjuu_offcenter", "file": UU},
]
# attempted on every regeneration so that the manifest records why they are hand-modelled
USER_REFUSED_EXPECTED = ["mjuu_mulquat", "mjuu_frameaccum", "mjuu_z2quat", "mjuu_frame2quat", "mjuu_eig3"]
USER_INLINE_FILES = [UU]
