#!/usr/bin/env python3
"""C05 translator: regenerates lean/MjProof/Gen/RK4.lean (+ rk4_manifest.json) from the source tree.

Reads (repository root = $VERIF_REPO, default /repo):
  src/engine/engine_forward.c   the initialisers of `const mjtNum RK4_A[9]` and `const mjtNum RK4_B[4]`
                                (each entry: a decimal literal or `literal / literal`; anything else is refused),
                                and the body of mj_RungeKutta, whose *use* of the tables must match the shape
                                that lean/MjProof/Model/Integrate.lean models:
                                  A = (N == 4 ? RK4_A : 0), B = (N == 4 ? RK4_B : 0),
                                  C[i-1] += A[(i-1)*(N-1)+j]  for j < i        (C = row sums of A)
                                  T[i-1] = d->time + C[i-1]*h
                                  dX += A[(i-1)*(N-1)+j] * (X[j]+nq | F[j])    for j < i   (mju_addToScl)
                                  dX += B[j] * (X[j]+nq | F[j])                for j < N
                                  mj_step calls mj_RungeKutta(m, d, 4)
  include/mujoco/mjtype.h, mjmodel.h   enumerators used by the hand model (mjtJoint, mjtDyn, mjtGain, mjtBias,
                                mjtTrn, mjtIntegrator, mjtDisableBit) and the literals mjMINVAL, mjPI

The entries are emitted as expressions over the law-free number class `MjNum α` in the shape of the C
initialiser (`1.0/6.0` becomes `ofInt 1 / ofInt 6`): on `Float` they evaluate to the doubles the C compiler
folds, on `ℝ` they are exact rationals (Props/C05.lean proves the order conditions about exactly these).
Nothing is hard-coded: a changed tableau gives a changed Lean file and the proofs about it are re-checked.
On refusal a stub with empty tables is written (so no stale table can be used) and the reason is recorded in
rk4_manifest.json; exit status 3.
"""
import json
import os
import re
import sys

VERIF = os.path.dirname(os.path.dirname(os.path.abspath(__file__)))
REPO = os.environ.get("VERIF_REPO", "/repo")
sys.path.insert(0, os.path.dirname(os.path.abspath(__file__)))


class Refuse(Exception):
    pass


def read(rel):
    p = os.path.join(REPO, rel)
    if not os.path.exists(p):
        raise Refuse("missing source file %s" % p)
    with open(p, encoding="utf-8", errors="replace") as f:
        return f.read()


def strip_comments(s):
    s = re.sub(r"/\*.*?\*/", " ", s, flags=re.S)
    return re.sub(r"//[^\n]*", " ", s)


def squeeze(s):
    return re.sub(r"\s+", "", s)


LIT = r"[0-9]+(?:\.[0-9]*)?|\.[0-9]+"


def lit_to_lean(t):
    """decimal literal (no exponent, no suffix) -> (lean expression over MjNum, exact rational as (num, den))"""
    if not re.fullmatch(LIT, t):
        raise Refuse("unsupported literal %r in a tableau initialiser" % t)
    ip, _, fp = t.partition(".")
    fp = fp.rstrip("0")
    mant = int((ip + fp) or "0")
    if not fp:
        return "MjNum.ofInt %d" % mant, (mant, 1)
    return "MjNum.ofSci %d true %d" % (mant, len(fp)), (mant, 10 ** len(fp))


def entry_to_lean(e):
    e = e.strip()
    if re.fullmatch(LIT, e):
        return lit_to_lean(e)
    m = re.fullmatch(r"(%s)\s*/\s*(%s)" % (LIT, LIT), e)
    if m:
        (a, (an, ad)), (b, (bn, bd)) = lit_to_lean(m.group(1)), lit_to_lean(m.group(2))
        if bn == 0:
            raise Refuse("division by a zero literal in %r" % e)
        return "(%s) / (%s)" % (a, b), (an * bd, ad * bn)
    raise Refuse("tableau entry %r is neither a decimal literal nor literal/literal" % e)


def table(src, name, size):
    ms = list(re.finditer(r"\bconst\s+mjtNum\s+%s\s*\[\s*(\d+)\s*\]\s*=\s*\{([^}]*)\}\s*;" % name, src))
    if len(ms) != 1:
        raise Refuse("expected exactly one definition `const mjtNum %s[...] = {...};`, found %d" % (name, len(ms)))
    if int(ms[0].group(1)) != size:
        raise Refuse("%s has declared size %s, the model of mj_RungeKutta(N=4) needs %d" % (name, ms[0].group(1), size))
    ents = [x for x in ms[0].group(2).split(",")]
    if ents and not ents[-1].strip():
        ents.pop()
    if len(ents) != size:
        raise Refuse("%s has %d initialisers, expected %d" % (name, len(ents), size))
    return [entry_to_lean(x) for x in ents]


def function_body(src, header_re, what):
    ms = list(re.finditer(header_re, src))
    if len(ms) != 1:
        raise Refuse("%s: expected exactly one definition, found %d" % (what, len(ms)))
    i = src.index("{", ms[0].end() - 1)
    depth = 0
    for j in range(i, len(src)):
        if src[j] == "{":
            depth += 1
        elif src[j] == "}":
            depth -= 1
            if depth == 0:
                return src[i:j + 1]
    raise Refuse("%s: unbalanced braces" % what)


USE_SHAPES = [
    ("table selection A", "constmjtNum*A=(N==4?RK4_A:0);"),
    ("table selection B", "constmjtNum*B=(N==4?RK4_B:0);"),
    ("row sums C", "for(inti=1;i<N;i++){C[i-1]=0;for(intj=0;j<i;j++){C[i-1]+=A[(i-1)*(N-1)+j];}T[i-1]=d->time+C[i-1]*h;}"),
    ("stage combination", "mju_zero(dX,2*nv+na);for(intj=0;j<i;j++){mju_addToScl(dX,X[j]+nq,A[(i-1)*(N-1)+j],nv);"
                          "mju_addToScl(dX+nv,F[j],A[(i-1)*(N-1)+j],nv+na);}"),
    ("stage state", "mju_copy(X[i],X[0],nq+nv+na);mj_integratePos(m,X[i],dX,h);mju_addToScl(X[i]+nq,dX+nv,h,nv+na);"),
    ("stage time", "d->time=T[i-1];"),
    ("stage derivative", "mj_forwardSkip(m,d,mjSTAGE_NONE,1);mju_copy(F[i],d->qacc,nv);if(na){mju_copy(F[i]+nv,d->act_dot,na);}"),
    ("final combination", "mju_zero(dX,2*nv+na);for(intj=0;j<N;j++){mju_addToScl(dX,X[j]+nq,B[j],nv);"
                          "mju_addToScl(dX+nv,F[j],B[j],nv+na);}"),
    ("reset and advance", "d->time=time;mju_copy(d->qpos,X[0],nq);mju_copy(d->qvel,X[0]+nq,nv);mju_copy(d->act,X[0]+nq+nv,na);"
                          "mj_advance(m,d,dX+2*nv,dX+nv,dX);"),
]

ENUMS = ["mjJNT_FREE", "mjJNT_BALL", "mjJNT_SLIDE", "mjJNT_HINGE",
         "mjDYN_NONE", "mjDYN_INTEGRATOR", "mjDYN_FILTER", "mjDYN_FILTEREXACT", "mjDYN_MUSCLE", "mjDYN_DCMOTOR",
         "mjGAIN_FIXED", "mjGAIN_SO3", "mjGAIN_PID", "mjBIAS_AFFINE",
         "mjTRN_JOINT", "mjTRN_JOINTINPARENT", "mjTRN_SITE",
         "mjINT_EULER", "mjINT_RK4", "mjINT_IMPLICIT", "mjINT_IMPLICITFAST",
         "mjDSBL_ACTUATION", "mjDSBL_EULERDAMP", "mjDSBL_DAMPER"]


def define_literal(name):
    for h in ("include/mujoco/mjtype.h", "include/mujoco/mjmodel.h"):
        src = strip_comments(read(h))
        ms = re.findall(r"#\s*define\s+%s\s+([0-9.eE+\-]+)[fF]?\s" % name, src)
        ms = [x for x in ms]
        if ms:
            # the double-precision definition comes first (mjUSESINGLE variant carries an f suffix and is listed second)
            return ms[0]
    raise Refuse("#define %s not found" % name)


def translate():
    import c2lean
    sys.path.insert(0, VERIF)
    from gen import enums
    src = strip_comments(read("src/engine/engine_forward.c"))
    A = table(src, "RK4_A", 9)
    B = table(src, "RK4_B", 4)
    body = squeeze(function_body(src, r"\bvoid\s+mj_RungeKutta\s*\(\s*const\s+mjModel\s*\*\s*m\s*,\s*mjData\s*\*\s*d\s*,\s*int\s+N\s*\)\s*\{",
                                 "mj_RungeKutta"))
    for what, shape in USE_SHAPES:
        if body.count(shape) != 1:
            raise Refuse("mj_RungeKutta: the %s no longer has the modelled shape `%s`" % (what, shape))
    step = squeeze(function_body(src, r"\bvoid\s+mj_step\s*\(\s*const\s+mjModel\s*\*\s*m\s*,\s*mjData\s*\*\s*d\s*\)\s*\{", "mj_step"))
    if "casemjINT_RK4:mj_RungeKutta(m,d,4);break;" not in step:
        raise Refuse("mj_step no longer calls mj_RungeKutta(m, d, 4) for mjINT_RK4")
    ev = enums.load()
    consts = []
    for e in ENUMS:
        if e not in ev:
            raise Refuse("enumerator %s not found in the headers" % e)
        consts.append((e, ev[e]))
    lits = {}
    for nm in ("mjMINVAL", "mjPI"):
        txt = define_literal(nm)
        lits[nm] = (txt, c2lean.float_literal("%.17g" % float(txt)).v)
    L = ["import MjProof.Num", "/-",
         "GENERATED by translate/c05_rk4.py from src/engine/engine_forward.c and include/mujoco/*.h of the working tree.",
         "Do not edit.", "-/", "namespace MjProof.Gen.RK4", "open MjProof", ""]
    L.append("/-- `RK4_A[9]`, row-major (N-1)×(N-1): entry (i-1)*(N-1)+j is a_{i,j} (stage i = 1..N-1, j < i) -/")
    L.append("def A {α : Type} [MjNum α] : List α :=")
    L.append("  [" + ", ".join(x for x, _ in A) + "]")
    L.append("/-- `RK4_B[4]` -/")
    L.append("def B {α : Type} [MjNum α] : List α :=")
    L.append("  [" + ", ".join(x for x, _ in B) + "]")
    L.append("/-- the same entries as exact fractions (numerator, denominator), for reference -/")
    L.append("def A_frac : List (Int × Nat) := [" + ", ".join("(%d, %d)" % q for _, q in A) + "]")
    L.append("def B_frac : List (Int × Nat) := [" + ", ".join("(%d, %d)" % q for _, q in B) + "]")
    L.append("")
    for nm, (txt, lean) in lits.items():
        L.append("/-- `#define %s %s` (as the double the compiler sees, printed with 17 significant digits) -/" % (nm, txt))
        L.append("def %s {α : Type} [MjNum α] : α := %s" % (nm, lean))
    L.append("")
    for e, v in consts:
        L.append("def %s : Int := %d" % (e, v))
    L += ["", "end MjProof.Gen.RK4", ""]
    info = {"repo": REPO, "A": [x for x, _ in A], "B": [x for x, _ in B], "A_frac": [q for _, q in A], "B_frac": [q for _, q in B],
            "enums": dict(consts), "literals": {k: v[0] for k, v in lits.items()}, "refused": None}
    return "\n".join(L), info


STUB = """import MjProof.Num
/- GENERATED by translate/c05_rk4.py: the translator REFUSED the working tree (%s). Empty tables. -/
namespace MjProof.Gen.RK4
open MjProof
def A {α : Type} [MjNum α] : List α := []
def B {α : Type} [MjNum α] : List α := []
end MjProof.Gen.RK4
"""


def write_if_changed(p, text):
    if not os.path.exists(p) or open(p).read() != text:
        tmp = p + ".%d.tmp" % os.getpid()
        with open(tmp, "w") as f:
            f.write(text)
        os.replace(tmp, p)


def main():
    out = os.path.join(VERIF, "lean", "MjProof", "Gen")
    rc = 0
    try:
        lean, info = translate()
        msg = "c05_rk4: A=%s B=%s" % (info["A_frac"], info["B_frac"])
    except Refuse as e:
        reason = str(e).replace("-/", "- /")
        lean, info = STUB % reason, {"repo": REPO, "refused": str(e)}
        msg = "c05_rk4: REFUSED: %s" % e
        rc = 3
    if "--stdout" in sys.argv[1:]:
        sys.stdout.write(lean)
        return rc
    os.makedirs(out, exist_ok=True)
    write_if_changed(os.path.join(out, "RK4.lean"), lean)
    write_if_changed(os.path.join(out, "rk4_manifest.json"), json.dumps(info, indent=1) + "\n")
    print(msg, file=sys.stderr if rc else sys.stdout)
    return rc


if __name__ == "__main__":
    sys.exit(main())
