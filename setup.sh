#!/bin/sh
# Offline setup: build the tree library (cached by content), regenerate translated Lean, build Lean library + drivers.
set -e
cd "$(dirname "$0")"
python3 harness/build.py lib scalar >/dev/null
if [ -x translate/regen_all.py ]; then python3 translate/regen_all.py; fi
cd lean
lake build MjProof Drivers $(python3 ../tools/list_exes.py)
