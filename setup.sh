#!/bin/sh
# Offline setup: build the tree library (cached by content), regenerate translated Lean, build Lean library + drivers.
set -e
cd "$(dirname "$0")"
python3 harness/build.py lib scalar >/dev/null
# second library variant with src/xml + the tinyxml2 stand-in (C32, C37)
if [ -f harness/build_xml.py ]; then python3 harness/build_xml.py lib >/dev/null; fi
if [ -x translate/regen_all.py ]; then python3 translate/regen_all.py; fi
cd lean
lake build MjProof Drivers $(python3 ../tools/list_exes.py)
