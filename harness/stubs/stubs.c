// Stub symbols for the offline from-source build of /repo (DESIGN.md §1).
#include <stddef.h>
#include <ccd/ccd.h>
#include <mujoco/mujoco.h>
void ccdFirstDirDefault(const void* o1, const void* o2, ccd_vec3_t* dir) { (void)o1; (void)o2; ccdVec3Set(dir, 1, 0, 0); }
int ccdMPRPenetration(const void* obj1, const void* obj2, const ccd_t* ccd,
                      ccd_real_t* depth, ccd_vec3_t* dir, ccd_vec3_t* pos) {
  (void)obj1; (void)obj2; (void)ccd; (void)depth; (void)dir; (void)pos; return -1;
}
