// Stub of qhull's reentrant API: qh_qhull longjmps to the error exit, so MakeGraph reports
// "qhull error" (convex hulls of meshes cannot be computed in the verification build).
#ifndef VERIF_STUB_QHULL_RA_H_
#define VERIF_STUB_QHULL_RA_H_
#include <csetjmp>
#include <cstdio>
extern "C" {
typedef double coordT; typedef coordT pointT; typedef unsigned int boolT;
#define qh_False 0
#define qh_True 1
#define qh_ALL 1
typedef struct setT { int maxsize; union { void* p; int i; } e[1]; } setT;
typedef struct vertexT vertexT; typedef struct facetT facetT;
struct vertexT { vertexT* next; vertexT* previous; pointT* point; setT* neighbors; };
struct facetT { facetT* next; facetT* previous; setT* vertices; unsigned toporient : 1; };
typedef struct qhT { jmp_buf errexit; boolT NOerrexit; int num_vertices; int num_facets;
                     vertexT* vertex_list; facetT* facet_list; } qhT;
static inline void qh_zero(qhT* qh, FILE*) { qh->num_vertices = 0; qh->num_facets = 0; qh->vertex_list = 0; qh->facet_list = 0; }
static inline void qh_init_A(qhT*, FILE*, FILE*, FILE*, int, char**) {}
static inline void qh_initflags(qhT*, char*) {}
static inline void qh_init_B(qhT*, coordT*, int, int, boolT) {}
static inline void qh_qhull(qhT* qh) { longjmp(qh->errexit, 1); }
static inline void qh_triangulate(qhT*) {}
static inline void qh_vertexneighbors(qhT*) {}
static inline int qh_pointid(qhT*, pointT*) { return -1; }
static inline void qh_freeqhull(qhT*, boolT) {}
static inline void qh_memfreeshort(qhT*, int* a, int* b) { *a = 0; *b = 0; }
#define FORALLvertices for (vertexT* vertex = qh->vertex_list; vertex && vertex->next; vertex = vertex->next)
#define FORALLfacets for (facetT* facet = qh->facet_list; facet && facet->next; facet = facet->next)
#define FOREACHsetelement_(type, set, variable) \
  if (((variable = 0), set)) for (type** variable##p = (type**)&((set)->e[0].p); (variable = *variable##p++);)
}
#endif
