// Stub symbols standing in for src/xml (needs tinyxml2, absent offline; DESIGN.md §1).
#include <cstring>
#include <mujoco/mujoco.h>
static void seterr(char* error, int error_sz) {
  if (error && error_sz > 0) { std::strncpy(error, "XML support is not available in the verification build", error_sz); error[error_sz - 1] = 0; }
}
extern "C" {
mjSpec* mj_parseXML(const char*, const mjVFS*, char* error, int error_sz) { seterr(error, error_sz); return nullptr; }
mjSpec* mj_parseXMLString(const char*, const mjVFS*, char* error, int error_sz) { seterr(error, error_sz); return nullptr; }
int mj_saveXML(const mjSpec*, const char*, char* error, int error_sz) { seterr(error, error_sz); return -1; }
int mj_saveXMLString(const mjSpec*, char*, int, char* error, int error_sz) { seterr(error, error_sz); return -1; }
int mj_saveLastXML(const char*, const mjModel*, char* error, int error_sz) { seterr(error, error_sz); return 0; }
}
