// Stub of lodepng.h: PNG decoding is unavailable offline; lodepng_decode always fails.
#ifndef VERIF_STUB_LODEPNG_H_
#define VERIF_STUB_LODEPNG_H_
#include <cstddef>
typedef enum LodePNGColorType { LCT_GREY = 0, LCT_RGB = 2, LCT_PALETTE = 3, LCT_GREY_ALPHA = 4, LCT_RGBA = 6 } LodePNGColorType;
typedef struct LodePNGColorMode { LodePNGColorType colortype; unsigned bitdepth; } LodePNGColorMode;
typedef struct LodePNGInfo { LodePNGColorMode color; unsigned srgb_defined; } LodePNGInfo;
typedef struct LodePNGState { LodePNGColorMode info_raw; LodePNGInfo info_png; } LodePNGState;
namespace lodepng { struct State : public LodePNGState { State() { info_raw.colortype = LCT_RGBA; info_raw.bitdepth = 8; info_png.color = info_raw; info_png.srgb_defined = 0; } }; }
inline unsigned lodepng_decode(unsigned char** out, unsigned* w, unsigned* h, LodePNGState*, const unsigned char*, size_t) { *out = 0; *w = 0; *h = 0; return 1; }
inline const char* lodepng_error_text(unsigned) { return "PNG decoding not available in the verification build"; }
inline size_t lodepng_get_raw_size(unsigned w, unsigned h, const LodePNGColorMode*) { return (size_t)w * h * 4; }
#endif
