// Stub of MarchingCubeCpp: produces an empty mesh.
#ifndef VERIF_STUB_MC_H_
#define VERIF_STUB_MC_H_
#include <vector>
namespace MC {
typedef float MC_FLOAT;
typedef unsigned int muint;
struct mcVec3f { MC_FLOAT x, y, z; };
struct mcMesh { std::vector<mcVec3f> vertices; std::vector<mcVec3f> normals; std::vector<muint> indices; };
inline void marching_cube(MC_FLOAT*, muint, muint, muint, mcMesh&) {}
}
#endif
