// Minimal API-compatible stand-in for tinyxml2 (https://github.com/leethomason/tinyxml2) used ONLY by the
// verification build of /repo/src/xml (DESIGN.md §5.C32 / §5.C37).  tinyxml2 itself is not available offline.
//
// THIS IS NOT tinyxml2.  It is a re-implementation of the subset of the DOM API that src/xml/*.cc uses
// (XMLDocument / XMLNode / XMLElement / XMLAttribute / XMLComment / XMLText / XMLDeclaration / XMLUnknown /
// XMLPrinter), following tinyxml2's documented parse rules and printer format:
//   * parser: elements, attributes (both quote kinds, duplicate attribute = error), the five predefined entities
//     and numeric character references (decimal / hex, UTF-8 encoded), comments, declarations, CDATA, <!...>
//     unknown nodes, text; newline normalisation (CR LF / CR -> LF); line numbers of nodes and attributes;
//     nesting depth limit; tinyxml2's error ids and "Error=... ErrorID=... Line number=..." error strings.
//   * printer: tinyxml2's non-compact layout (newline + PrintSpace(depth) before each node that is not inside
//     text, "/>" for empty elements, attribute values with & < > " ' escaped, text with & < > escaped), with
//     the virtual PrintSpace / protected Write hooks that xml_native_writer.cc overrides.
// It joins the trusted base of every check that runs src/xml (C32, C37): a disagreement between this file and
// the real tinyxml2 on some input is outside what those checks can see.
#ifndef VERIF_TINYXML2_SHIM_H_
#define VERIF_TINYXML2_SHIM_H_

#include <cstddef>
#include <cstdint>
#include <cstdio>
#include <string>
#include <unordered_set>
#include <vector>

#define TINYXML2_SHIM 1
#define TINYXML2_MAX_ELEMENT_DEPTH 500

namespace tinyxml2 {

class XMLDocument;
class XMLElement;
class XMLAttribute;
class XMLComment;
class XMLText;
class XMLDeclaration;
class XMLUnknown;
class XMLPrinter;

enum XMLError {
  XML_SUCCESS = 0,
  XML_NO_ATTRIBUTE,
  XML_WRONG_ATTRIBUTE_TYPE,
  XML_ERROR_FILE_NOT_FOUND,
  XML_ERROR_FILE_COULD_NOT_BE_OPENED,
  XML_ERROR_FILE_READ_ERROR,
  XML_ERROR_PARSING_ELEMENT,
  XML_ERROR_PARSING_ATTRIBUTE,
  XML_ERROR_PARSING_TEXT,
  XML_ERROR_PARSING_CDATA,
  XML_ERROR_PARSING_COMMENT,
  XML_ERROR_PARSING_DECLARATION,
  XML_ERROR_PARSING_UNKNOWN,
  XML_ERROR_EMPTY_DOCUMENT,
  XML_ERROR_MISMATCHED_ELEMENT,
  XML_ERROR_PARSING,
  XML_CAN_NOT_CONVERT_TEXT,
  XML_NO_TEXT_NODE,
  XML_ELEMENT_DEPTH_EXCEEDED,
  XML_ERROR_COUNT
};

enum Whitespace { PRESERVE_WHITESPACE, COLLAPSE_WHITESPACE, PEDANTIC_WHITESPACE };

class XMLAttribute {
  friend class XMLElement;
  friend class XMLDocument;

 public:
  const char* Name() const { return name_.c_str(); }
  const char* Value() const { return value_.c_str(); }
  int GetLineNum() const { return line_; }
  const XMLAttribute* Next() const { return next_; }
  void SetAttribute(const char* value) { value_ = value ? value : ""; }

 private:
  XMLAttribute() = default;
  std::string name_;
  std::string value_;
  int line_ = 0;
  XMLAttribute* next_ = nullptr;
};

class XMLNode {
  friend class XMLDocument;
  friend class XMLElement;
  friend class XMLPrinter;

 public:
  const XMLDocument* GetDocument() const { return doc_; }
  XMLDocument* GetDocument() { return doc_; }

  virtual XMLElement* ToElement() { return nullptr; }
  virtual XMLText* ToText() { return nullptr; }
  virtual XMLComment* ToComment() { return nullptr; }
  virtual XMLDocument* ToDocument() { return nullptr; }
  virtual XMLDeclaration* ToDeclaration() { return nullptr; }
  virtual XMLUnknown* ToUnknown() { return nullptr; }
  virtual const XMLElement* ToElement() const { return nullptr; }
  virtual const XMLText* ToText() const { return nullptr; }
  virtual const XMLComment* ToComment() const { return nullptr; }
  virtual const XMLDocument* ToDocument() const { return nullptr; }
  virtual const XMLDeclaration* ToDeclaration() const { return nullptr; }
  virtual const XMLUnknown* ToUnknown() const { return nullptr; }

  // element name / comment text / text / declaration body; null for the document
  const char* Value() const;
  void SetValue(const char* v, bool = false) { value_ = v ? v : ""; }
  int GetLineNum() const { return line_; }

  const XMLNode* Parent() const { return parent_; }
  XMLNode* Parent() { return parent_; }
  bool NoChildren() const { return !first_; }

  const XMLNode* FirstChild() const { return first_; }
  XMLNode* FirstChild() { return first_; }
  const XMLNode* LastChild() const { return last_; }
  XMLNode* LastChild() { return last_; }
  const XMLNode* PreviousSibling() const { return prev_; }
  XMLNode* PreviousSibling() { return prev_; }
  const XMLNode* NextSibling() const { return next_; }
  XMLNode* NextSibling() { return next_; }

  const XMLElement* FirstChildElement(const char* name = nullptr) const;
  XMLElement* FirstChildElement(const char* name = nullptr) {
    return const_cast<XMLElement*>(const_cast<const XMLNode*>(this)->FirstChildElement(name));
  }
  const XMLElement* LastChildElement(const char* name = nullptr) const;
  XMLElement* LastChildElement(const char* name = nullptr) {
    return const_cast<XMLElement*>(const_cast<const XMLNode*>(this)->LastChildElement(name));
  }
  const XMLElement* NextSiblingElement(const char* name = nullptr) const;
  XMLElement* NextSiblingElement(const char* name = nullptr) {
    return const_cast<XMLElement*>(const_cast<const XMLNode*>(this)->NextSiblingElement(name));
  }
  const XMLElement* PreviousSiblingElement(const char* name = nullptr) const;
  XMLElement* PreviousSiblingElement(const char* name = nullptr) {
    return const_cast<XMLElement*>(const_cast<const XMLNode*>(this)->PreviousSiblingElement(name));
  }

  XMLNode* InsertEndChild(XMLNode* addThis);
  XMLNode* LinkEndChild(XMLNode* addThis) { return InsertEndChild(addThis); }
  XMLNode* InsertFirstChild(XMLNode* addThis);
  XMLNode* InsertAfterChild(XMLNode* afterThis, XMLNode* addThis);
  void DeleteChildren();
  void DeleteChild(XMLNode* node);

  virtual XMLNode* ShallowClone(XMLDocument* document) const = 0;
  XMLNode* DeepClone(XMLDocument* target) const;

 protected:
  explicit XMLNode(XMLDocument* doc) : doc_(doc) {}
  virtual ~XMLNode();
  XMLNode(const XMLNode&) = delete;
  XMLNode& operator=(const XMLNode&) = delete;

  void Unlink(XMLNode* child);
  void InsertChildPreamble(XMLNode* insertThis) const;
  static void DeleteNode(XMLNode* node);

  XMLDocument* doc_;
  XMLNode* parent_ = nullptr;
  XMLNode* first_ = nullptr;
  XMLNode* last_ = nullptr;
  XMLNode* prev_ = nullptr;
  XMLNode* next_ = nullptr;
  std::string value_;
  int line_ = 0;
};

class XMLText : public XMLNode {
  friend class XMLDocument;

 public:
  XMLText* ToText() override { return this; }
  const XMLText* ToText() const override { return this; }
  void SetCData(bool c) { cdata_ = c; }
  bool CData() const { return cdata_; }
  XMLNode* ShallowClone(XMLDocument* document) const override;

 protected:
  explicit XMLText(XMLDocument* doc) : XMLNode(doc) {}
  bool cdata_ = false;
};

class XMLComment : public XMLNode {
  friend class XMLDocument;

 public:
  XMLComment* ToComment() override { return this; }
  const XMLComment* ToComment() const override { return this; }
  XMLNode* ShallowClone(XMLDocument* document) const override;

 protected:
  explicit XMLComment(XMLDocument* doc) : XMLNode(doc) {}
};

class XMLDeclaration : public XMLNode {
  friend class XMLDocument;

 public:
  XMLDeclaration* ToDeclaration() override { return this; }
  const XMLDeclaration* ToDeclaration() const override { return this; }
  XMLNode* ShallowClone(XMLDocument* document) const override;

 protected:
  explicit XMLDeclaration(XMLDocument* doc) : XMLNode(doc) {}
};

class XMLUnknown : public XMLNode {
  friend class XMLDocument;

 public:
  XMLUnknown* ToUnknown() override { return this; }
  const XMLUnknown* ToUnknown() const override { return this; }
  XMLNode* ShallowClone(XMLDocument* document) const override;

 protected:
  explicit XMLUnknown(XMLDocument* doc) : XMLNode(doc) {}
};

class XMLElement : public XMLNode {
  friend class XMLDocument;

 public:
  const char* Name() const { return Value(); }
  void SetName(const char* s, bool = false) { SetValue(s); }
  XMLElement* ToElement() override { return this; }
  const XMLElement* ToElement() const override { return this; }

  // value of the attribute, or null; with `value` given: only if it equals it
  const char* Attribute(const char* name, const char* value = nullptr) const;
  const XMLAttribute* FindAttribute(const char* name) const;
  const XMLAttribute* FirstAttribute() const { return attrs_; }

  void SetAttribute(const char* name, const char* value);
  void SetAttribute(const char* name, int value);
  void SetAttribute(const char* name, unsigned value);
  void SetAttribute(const char* name, int64_t value);
  void SetAttribute(const char* name, uint64_t value);
  void SetAttribute(const char* name, bool value);
  void SetAttribute(const char* name, double value);
  void SetAttribute(const char* name, float value);
  void DeleteAttribute(const char* name);

  const char* GetText() const;

  XMLElement* InsertNewChildElement(const char* name);

  enum ElementClosingType { OPEN, CLOSED, CLOSING };
  ElementClosingType ClosingType() const { return closing_; }
  XMLNode* ShallowClone(XMLDocument* document) const override;

 protected:
  explicit XMLElement(XMLDocument* doc) : XMLNode(doc) {}
  ~XMLElement() override;
  XMLAttribute* FindOrCreateAttribute(const char* name);
  XMLAttribute* attrs_ = nullptr;
  ElementClosingType closing_ = OPEN;
};

class XMLDocument : public XMLNode {
  friend class XMLNode;
  friend class XMLElement;

 public:
  explicit XMLDocument(bool processEntities = true, Whitespace whitespaceMode = PRESERVE_WHITESPACE);
  ~XMLDocument() override;

  XMLDocument* ToDocument() override { return this; }
  const XMLDocument* ToDocument() const override { return this; }

  // parse a buffer of nBytes bytes (or NUL-terminated when nBytes == -1); like tinyxml2 the text is treated as
  // NUL-terminated: an embedded NUL ends the document
  XMLError Parse(const char* xml, size_t nBytes = static_cast<size_t>(-1));
  XMLError LoadFile(const char* filename);
  XMLError SaveFile(const char* filename, bool compact = false);

  bool ProcessEntities() const { return process_entities_; }
  Whitespace WhitespaceMode() const { return whitespace_; }
  bool HasBOM() const { return bom_; }
  void SetBOM(bool b) { bom_ = b; }

  XMLElement* RootElement() { return FirstChildElement(); }
  const XMLElement* RootElement() const { return FirstChildElement(); }

  void Print(XMLPrinter* streamer = nullptr) const;

  XMLElement* NewElement(const char* name);
  XMLComment* NewComment(const char* comment);
  XMLText* NewText(const char* text);
  XMLDeclaration* NewDeclaration(const char* text = nullptr);
  XMLUnknown* NewUnknown(const char* text);
  void DeleteNode(XMLNode* node);

  void ClearError() { SetError(XML_SUCCESS, 0, nullptr); }
  bool Error() const { return error_ != XML_SUCCESS; }
  XMLError ErrorID() const { return error_; }
  const char* ErrorName() const { return ErrorIDToName(error_); }
  static const char* ErrorIDToName(XMLError errorID);
  const char* ErrorStr() const { return error_str_.c_str(); }
  int ErrorLineNum() const { return error_line_; }
  void PrintError() const;
  void Clear();

  XMLNode* ShallowClone(XMLDocument*) const override { return nullptr; }

 private:
  void SetError(XMLError error, int lineNum, const char* format, ...);
  // recursive-descent parser over [p, end) (text is NUL-terminated at end)
  const char* ParseChildren(XMLNode* parent, const char* p, std::string* parentEndTag);
  const char* Identify(const char* p, XMLNode** node);
  const char* ParseElement(XMLElement* e, const char* p, std::string* parentEndTag);
  const char* ParseAttributes(XMLElement* e, const char* p);
  const char* SkipWhiteSpace(const char* p);
  // scan to endTag, count lines; returns pointer past endTag or null; raw text in *out
  const char* ScanText(const char* p, const char* endTag, std::string* out);
  static std::string Normalize(const std::string& raw, bool entities);

  bool process_entities_;
  Whitespace whitespace_;
  bool bom_ = false;
  XMLError error_ = XML_SUCCESS;
  std::string error_str_;
  int error_line_ = 0;
  int cur_line_ = 0;
  int depth_ = 0;
  std::string buffer_;
  std::unordered_set<XMLNode*> unlinked_;
};

class XMLPrinter {
 public:
  XMLPrinter(FILE* file = nullptr, bool compact = false, int depth = 0);
  virtual ~XMLPrinter() = default;

  void PushHeader(bool writeBOM, bool writeDeclaration);
  void OpenElement(const char* name, bool compactMode = false);
  void PushAttribute(const char* name, const char* value);
  virtual void CloseElement(bool compactMode = false);
  void PushText(const char* text, bool cdata = false);
  void PushComment(const char* comment);
  void PushDeclaration(const char* value);
  void PushUnknown(const char* value);

  // walk a DOM subtree (what tinyxml2 does through XMLNode::Accept)
  void PrintNode(const XMLNode* node);
  void PrintDocument(const XMLDocument* doc);

  const char* CStr() const { return buffer_.c_str(); }
  // size including the terminating NUL, as in tinyxml2
  size_t CStrSize() const { return buffer_.size() + 1; }
  void ClearBuffer(bool resetToFirstElement = true) {
    buffer_.clear();
    first_element_ = resetToFirstElement;
  }

 protected:
  virtual bool CompactMode(const XMLElement&) { return compact_; }
  virtual void PrintSpace(int depth);
  virtual void Print(const char* format, ...);
  virtual void Write(const char* data, size_t size);
  virtual void Putc(char ch);
  inline void Write(const char* data) { Write(data, std::char_traits<char>::length(data)); }
  void SealElementIfJustOpened();

  bool element_just_opened_ = false;
  std::vector<std::string> stack_;

 private:
  void PrepareForNewNode(bool compactMode);
  void PrintString(const char*, bool restrictedEntitySet);

  bool first_element_ = true;
  FILE* fp_;
  int depth_;
  int text_depth_ = -1;
  bool process_entities_ = true;
  bool compact_;
  std::string buffer_;
};

}  // namespace tinyxml2

#endif  // VERIF_TINYXML2_SHIM_H_
