// Self-test of the tinyxml2 stand-in (harness/stubs/tinyxml2): parse rules, error ids, line numbers, entity handling,
// DOM editing, DeepClone and the printer layout that src/xml relies on.  Run by checks/c37.py as a trusted-base sanity
// obligation; prints "fails=<n>" and exits with n.
#include "tinyxml2.h"
#include <cstdio>
#include <cstring>
using namespace tinyxml2;
static int fails=0;
#define CHECK(c) do{ if(!(c)){ printf("FAIL line %d: %s\n",__LINE__,#c); fails++; } }while(0)
int main(){
  { XMLDocument d; CHECK(d.Parse("<a x='1' y=\"&lt;&amp;&gt;&quot;&apos;&#65;&#x42;\">\n <!-- c -->\n <b/>\n text &amp; more\n <c k=\"v\"></c>\n</a>")==XML_SUCCESS);
    XMLElement* a=d.RootElement(); CHECK(a && !strcmp(a->Name(),"a")); CHECK(!strcmp(a->Attribute("y"),"<&>\"'AB")); CHECK(a->GetLineNum()==1);
    CHECK(a->FirstChild()->ToComment() && !strcmp(a->FirstChild()->Value()," c "));
    XMLElement* b=a->FirstChildElement(); CHECK(b && b->GetLineNum()==3 && b->NoChildren());
    XMLElement* c=b->NextSiblingElement(); CHECK(c && !strcmp(c->Name(),"c") && c->GetLineNum()==5); CHECK(c->NextSiblingElement()==nullptr);
    CHECK(a->FirstChildElement("c")==c); CHECK(c->Parent()==a); CHECK(a->Parent()->ToDocument()==&d); CHECK(a->Parent()->ToElement()==nullptr);
    XMLPrinter p; d.Print(&p);
    CHECK(!strcmp(p.CStr(), "<a x=\"1\" y=\"&lt;&amp;&gt;&quot;&apos;AB\">\n    <!-- c -->\n    <b/>\n text &amp; more\n <c k=\"v\"/></a>\n")); }
  { XMLDocument d; CHECK(d.Parse("<a><b></a>")==XML_ERROR_MISMATCHED_ELEMENT); CHECK(strstr(d.ErrorStr(), "Line number=1") != nullptr); CHECK(d.RootElement()==nullptr); }
  { XMLDocument d; CHECK(d.Parse("<a x='1' x='2'/>")==XML_ERROR_PARSING_ATTRIBUTE); CHECK(strstr(d.ErrorStr(), "Line number=1") != nullptr); }
  { XMLDocument d; CHECK(d.Parse("<a")==XML_ERROR_PARSING_ELEMENT); }
  { XMLDocument d; CHECK(d.Parse("")==XML_ERROR_EMPTY_DOCUMENT); CHECK(d.Parse("   \n ")==XML_ERROR_EMPTY_DOCUMENT); }
  { XMLDocument d; CHECK(d.Parse("<a/> trailing")==XML_ERROR_PARSING_TEXT); }
  { XMLDocument d; CHECK(d.Parse("<a><!-- x </a>")==XML_ERROR_PARSING_COMMENT); }
  { XMLDocument d; CHECK(d.Parse("<?xml version=\"1.0\"?>\n<a/>")==XML_SUCCESS); CHECK(d.RootElement()->GetLineNum()==2); }
  { XMLDocument d; CHECK(d.Parse("<a><?xml version=\"1.0\"?></a>")==XML_ERROR_PARSING_DECLARATION); }
  { std::string deep; for(int i=0;i<600;i++) deep+="<a>"; XMLDocument d; CHECK(d.Parse(deep.c_str())==XML_ELEMENT_DEPTH_EXCEEDED); }
  { XMLDocument d; XMLElement* r=d.NewElement("r"); d.InsertFirstChild(r); r->SetAttribute("n",5); r->SetAttribute("s","a<b&\"c'"); r->SetAttribute("n",7);
    XMLElement* k=d.NewElement("k"); r->InsertEndChild(k); XMLElement* k2=d.NewElement("k2"); r->InsertEndChild(k2); r->DeleteChild(k);
    r->LinkEndChild(d.NewComment("hi")); XMLPrinter p(nullptr,false); d.Print(&p);
    CHECK(!strcmp(p.CStr(), "<r n=\"7\" s=\"a&lt;b&amp;&quot;c&apos;\">\n    <k2/>\n    <!--hi-->\n</r>\n"));
    XMLDocument d2; XMLNode* cl=r->DeepClone(&d2); d2.InsertEndChild(cl); XMLPrinter p2; d2.Print(&p2); CHECK(!strcmp(p.CStr(),p2.CStr())); }
  printf("fails=%d\n",fails); return fails;
}
