// Minimal API-compatible stand-in for tinyxml2 -- see tinyxml2.h in this directory.  NOT tinyxml2.
#include "tinyxml2.h"

#include <cctype>
#include <cstdarg>
#include <cstdlib>
#include <cstring>

namespace tinyxml2 {

namespace {

struct Entity {
  const char* pattern;
  int length;
  char value;
};
const int NUM_ENTITIES = 5;
const Entity entities[NUM_ENTITIES] = {
    {"quot", 4, '\"'}, {"amp", 3, '&'}, {"apos", 4, '\''}, {"lt", 2, '<'}, {"gt", 2, '>'}};

inline bool IsUTF8Continuation(char p) { return (p & 0x80) != 0; }
inline bool IsWhiteSpace(char p) { return !IsUTF8Continuation(p) && isspace(static_cast<unsigned char>(p)); }
inline bool IsNameStartChar(unsigned char ch) {
  if (ch >= 128) return true;  // any UTF-8 byte
  if (isalpha(ch)) return true;
  return ch == ':' || ch == '_';
}
inline bool IsNameChar(unsigned char ch) {
  return IsNameStartChar(ch) || isdigit(ch) || ch == '.' || ch == '-';
}
inline bool StringEqual(const char* p, const char* q) { return p == q || (p && q && strcmp(p, q) == 0); }

void ConvertUTF32ToUTF8(unsigned long input, char* output, int* length) {
  const unsigned long BYTE_MASK = 0xBF;
  const unsigned long BYTE_MARK = 0x80;
  const unsigned long FIRST_BYTE_MARK[7] = {0x00, 0x00, 0xC0, 0xE0, 0xF0, 0xF8, 0xFC};
  if (input < 0x80) {
    *length = 1;
  } else if (input < 0x800) {
    *length = 2;
  } else if (input < 0x10000) {
    *length = 3;
  } else if (input < 0x200000) {
    *length = 4;
  } else {
    *length = 0;  // out of range
    return;
  }
  output += *length;
  switch (*length) {
    case 4:
      --output;
      *output = static_cast<char>((input | BYTE_MARK) & BYTE_MASK);
      input >>= 6;
      [[fallthrough]];
    case 3:
      --output;
      *output = static_cast<char>((input | BYTE_MARK) & BYTE_MASK);
      input >>= 6;
      [[fallthrough]];
    case 2:
      --output;
      *output = static_cast<char>((input | BYTE_MARK) & BYTE_MASK);
      input >>= 6;
      [[fallthrough]];
    case 1:
      --output;
      *output = static_cast<char>(input | FIRST_BYTE_MARK[*length]);
      break;
    default:
      break;
  }
}

// p points at "&#"; returns pointer past the ';' and the UTF-8 bytes in value/length, or null if malformed
// (no ';', no digits, a non-digit, value 0 or above 0x10FFFF): the caller then keeps the '&' literally
const char* GetCharacterRef(const char* p, char* value, int* length) {
  *length = 0;
  const char* q = p + 2;
  const bool hex = *q == 'x';
  if (hex) ++q;
  const char* const digits = q;
  unsigned long ucs = 0;
  while (*q && *q != ';') {
    unsigned d;
    if (*q >= '0' && *q <= '9') d = static_cast<unsigned>(*q - '0');
    else if (hex && *q >= 'a' && *q <= 'f') d = static_cast<unsigned>(*q - 'a' + 10);
    else if (hex && *q >= 'A' && *q <= 'F') d = static_cast<unsigned>(*q - 'A' + 10);
    else return nullptr;
    ucs = ucs * (hex ? 16 : 10) + d;
    if (ucs > 0x10FFFFUL) return nullptr;
    ++q;
  }
  if (*q != ';' || q == digits || ucs == 0) return nullptr;
  ConvertUTF32ToUTF8(ucs, value, length);
  return q + 1;
}

}  // namespace

// ------------------------------------------------------------------------------------------ XMLNode

XMLNode::~XMLNode() {
  // children are deleted by DeleteChildren(); the owner unlinks before deleting
  while (first_) {
    XMLNode* n = first_;
    Unlink(n);
    DeleteNode(n);
  }
}

const char* XMLNode::Value() const {
  if (ToDocument()) return nullptr;
  return value_.c_str();
}

void XMLNode::DeleteNode(XMLNode* node) {
  if (!node) return;
  if (!node->parent_ && node->doc_ && node != node->doc_) node->doc_->unlinked_.erase(node);
  delete node;
}

void XMLNode::Unlink(XMLNode* child) {
  if (child == first_) first_ = first_->next_;
  if (child == last_) last_ = last_->prev_;
  if (child->prev_) child->prev_->next_ = child->next_;
  if (child->next_) child->next_->prev_ = child->prev_;
  child->next_ = nullptr;
  child->prev_ = nullptr;
  child->parent_ = nullptr;
}

void XMLNode::DeleteChildren() {
  while (first_) DeleteChild(first_);
  first_ = last_ = nullptr;
}

void XMLNode::DeleteChild(XMLNode* node) {
  if (!node || node->parent_ != this) return;
  Unlink(node);
  DeleteNode(node);
}

void XMLNode::InsertChildPreamble(XMLNode* insertThis) const {
  if (insertThis->parent_) {
    insertThis->parent_->Unlink(insertThis);
  } else {
    insertThis->doc_->unlinked_.erase(insertThis);
  }
}

XMLNode* XMLNode::InsertEndChild(XMLNode* addThis) {
  if (!addThis || addThis->doc_ != doc_) return nullptr;
  InsertChildPreamble(addThis);
  if (last_) {
    last_->next_ = addThis;
    addThis->prev_ = last_;
    last_ = addThis;
    addThis->next_ = nullptr;
  } else {
    first_ = last_ = addThis;
    addThis->prev_ = nullptr;
    addThis->next_ = nullptr;
  }
  addThis->parent_ = this;
  return addThis;
}

XMLNode* XMLNode::InsertFirstChild(XMLNode* addThis) {
  if (!addThis || addThis->doc_ != doc_) return nullptr;
  InsertChildPreamble(addThis);
  if (first_) {
    first_->prev_ = addThis;
    addThis->next_ = first_;
    first_ = addThis;
    addThis->prev_ = nullptr;
  } else {
    first_ = last_ = addThis;
    addThis->prev_ = nullptr;
    addThis->next_ = nullptr;
  }
  addThis->parent_ = this;
  return addThis;
}

XMLNode* XMLNode::InsertAfterChild(XMLNode* afterThis, XMLNode* addThis) {
  if (!addThis || addThis->doc_ != doc_) return nullptr;
  if (!afterThis || afterThis->parent_ != this) return nullptr;
  if (afterThis == addThis) return addThis;
  if (afterThis->next_ == nullptr) return InsertEndChild(addThis);
  InsertChildPreamble(addThis);
  addThis->prev_ = afterThis;
  addThis->next_ = afterThis->next_;
  afterThis->next_->prev_ = addThis;
  afterThis->next_ = addThis;
  addThis->parent_ = this;
  return addThis;
}

static const XMLElement* ElementWithName(const XMLNode* node, const char* name) {
  const XMLElement* e = node->ToElement();
  if (!e) return nullptr;
  if (!name) return e;
  return StringEqual(e->Name(), name) ? e : nullptr;
}

const XMLElement* XMLNode::FirstChildElement(const char* name) const {
  for (const XMLNode* n = first_; n; n = n->next_) {
    if (const XMLElement* e = ElementWithName(n, name)) return e;
  }
  return nullptr;
}

const XMLElement* XMLNode::LastChildElement(const char* name) const {
  for (const XMLNode* n = last_; n; n = n->prev_) {
    if (const XMLElement* e = ElementWithName(n, name)) return e;
  }
  return nullptr;
}

const XMLElement* XMLNode::NextSiblingElement(const char* name) const {
  for (const XMLNode* n = next_; n; n = n->next_) {
    if (const XMLElement* e = ElementWithName(n, name)) return e;
  }
  return nullptr;
}

const XMLElement* XMLNode::PreviousSiblingElement(const char* name) const {
  for (const XMLNode* n = prev_; n; n = n->prev_) {
    if (const XMLElement* e = ElementWithName(n, name)) return e;
  }
  return nullptr;
}

XMLNode* XMLNode::DeepClone(XMLDocument* target) const {
  XMLNode* clone = ShallowClone(target);
  if (!clone) return nullptr;
  for (const XMLNode* child = first_; child; child = child->next_) {
    XMLNode* childClone = child->DeepClone(target);
    if (childClone) clone->InsertEndChild(childClone);
  }
  return clone;
}

// ------------------------------------------------------------------------------------------ leaf nodes

XMLNode* XMLText::ShallowClone(XMLDocument* doc) const {
  if (!doc) doc = doc_;
  XMLText* t = doc->NewText(Value());
  t->SetCData(CData());
  return t;
}
XMLNode* XMLComment::ShallowClone(XMLDocument* doc) const {
  if (!doc) doc = doc_;
  return doc->NewComment(Value());
}
XMLNode* XMLDeclaration::ShallowClone(XMLDocument* doc) const {
  if (!doc) doc = doc_;
  return doc->NewDeclaration(Value());
}
XMLNode* XMLUnknown::ShallowClone(XMLDocument* doc) const {
  if (!doc) doc = doc_;
  return doc->NewUnknown(Value());
}

// ------------------------------------------------------------------------------------------ XMLElement

XMLElement::~XMLElement() {
  while (attrs_) {
    XMLAttribute* n = attrs_->next_;
    delete attrs_;
    attrs_ = n;
  }
}

const XMLAttribute* XMLElement::FindAttribute(const char* name) const {
  for (XMLAttribute* a = attrs_; a; a = a->next_) {
    if (StringEqual(a->Name(), name)) return a;
  }
  return nullptr;
}

const char* XMLElement::Attribute(const char* name, const char* value) const {
  const XMLAttribute* a = FindAttribute(name);
  if (!a) return nullptr;
  if (!value || StringEqual(a->Value(), value)) return a->Value();
  return nullptr;
}

XMLAttribute* XMLElement::FindOrCreateAttribute(const char* name) {
  XMLAttribute* last = nullptr;
  XMLAttribute* attrib = nullptr;
  for (attrib = attrs_; attrib; last = attrib, attrib = attrib->next_) {
    if (StringEqual(attrib->Name(), name)) break;
  }
  if (!attrib) {
    attrib = new XMLAttribute();
    if (last) last->next_ = attrib; else attrs_ = attrib;
    attrib->name_ = name ? name : "";
  }
  return attrib;
}

void XMLElement::SetAttribute(const char* name, const char* value) { FindOrCreateAttribute(name)->SetAttribute(value); }
void XMLElement::SetAttribute(const char* name, int value) {
  char buf[64];
  snprintf(buf, sizeof buf, "%d", value);
  SetAttribute(name, buf);
}
void XMLElement::SetAttribute(const char* name, unsigned value) {
  char buf[64];
  snprintf(buf, sizeof buf, "%u", value);
  SetAttribute(name, buf);
}
void XMLElement::SetAttribute(const char* name, int64_t value) {
  char buf[64];
  snprintf(buf, sizeof buf, "%lld", static_cast<long long>(value));
  SetAttribute(name, buf);
}
void XMLElement::SetAttribute(const char* name, uint64_t value) {
  char buf[64];
  snprintf(buf, sizeof buf, "%llu", static_cast<unsigned long long>(value));
  SetAttribute(name, buf);
}
void XMLElement::SetAttribute(const char* name, bool value) { SetAttribute(name, value ? "true" : "false"); }
void XMLElement::SetAttribute(const char* name, double value) {
  char buf[64];
  snprintf(buf, sizeof buf, "%.17g", value);
  SetAttribute(name, buf);
}
void XMLElement::SetAttribute(const char* name, float value) {
  char buf[64];
  snprintf(buf, sizeof buf, "%.8g", static_cast<double>(value));
  SetAttribute(name, buf);
}

void XMLElement::DeleteAttribute(const char* name) {
  XMLAttribute* prev = nullptr;
  for (XMLAttribute* a = attrs_; a; a = a->next_) {
    if (StringEqual(name, a->Name())) {
      if (prev) prev->next_ = a->next_; else attrs_ = a->next_;
      delete a;
      break;
    }
    prev = a;
  }
}

const char* XMLElement::GetText() const {
  const XMLNode* node = FirstChild();
  while (node && node->ToComment()) node = node->NextSibling();
  if (node && node->ToText()) return node->Value();
  return nullptr;
}

XMLElement* XMLElement::InsertNewChildElement(const char* name) {
  XMLElement* node = doc_->NewElement(name);
  return InsertEndChild(node) ? node : nullptr;
}

XMLNode* XMLElement::ShallowClone(XMLDocument* doc) const {
  if (!doc) doc = doc_;
  XMLElement* element = doc->NewElement(Value());
  for (const XMLAttribute* a = FirstAttribute(); a; a = a->Next()) element->SetAttribute(a->Name(), a->Value());
  return element;
}

// ------------------------------------------------------------------------------------------ XMLDocument

XMLDocument::XMLDocument(bool processEntities, Whitespace whitespaceMode)
    : XMLNode(nullptr), process_entities_(processEntities), whitespace_(whitespaceMode) {
  doc_ = this;
}

XMLDocument::~XMLDocument() { Clear(); }

void XMLDocument::Clear() {
  DeleteChildren();
  while (!unlinked_.empty()) DeleteNode(*unlinked_.begin());  // DeleteNode erases it from the set
  ClearError();
  buffer_.clear();
  depth_ = 0;
}

void XMLDocument::DeleteNode(XMLNode* node) {
  if (!node) return;
  if (node->parent_) node->parent_->DeleteChild(node); else XMLNode::DeleteNode(node);
}

XMLElement* XMLDocument::NewElement(const char* name) {
  XMLElement* e = new XMLElement(this);
  unlinked_.insert(e);
  e->SetName(name);
  return e;
}
XMLComment* XMLDocument::NewComment(const char* str) {
  XMLComment* c = new XMLComment(this);
  unlinked_.insert(c);
  c->SetValue(str);
  return c;
}
XMLText* XMLDocument::NewText(const char* str) {
  XMLText* t = new XMLText(this);
  unlinked_.insert(t);
  t->SetValue(str);
  return t;
}
XMLDeclaration* XMLDocument::NewDeclaration(const char* str) {
  XMLDeclaration* d = new XMLDeclaration(this);
  unlinked_.insert(d);
  d->SetValue(str ? str : "xml version=\"1.0\" encoding=\"UTF-8\"");
  return d;
}
XMLUnknown* XMLDocument::NewUnknown(const char* str) {
  XMLUnknown* u = new XMLUnknown(this);
  unlinked_.insert(u);
  u->SetValue(str);
  return u;
}

const char* XMLDocument::ErrorIDToName(XMLError errorID) {
  static const char* names[XML_ERROR_COUNT] = {
      "XML_SUCCESS", "XML_NO_ATTRIBUTE", "XML_WRONG_ATTRIBUTE_TYPE", "XML_ERROR_FILE_NOT_FOUND",
      "XML_ERROR_FILE_COULD_NOT_BE_OPENED", "XML_ERROR_FILE_READ_ERROR", "XML_ERROR_PARSING_ELEMENT",
      "XML_ERROR_PARSING_ATTRIBUTE", "XML_ERROR_PARSING_TEXT", "XML_ERROR_PARSING_CDATA",
      "XML_ERROR_PARSING_COMMENT", "XML_ERROR_PARSING_DECLARATION", "XML_ERROR_PARSING_UNKNOWN",
      "XML_ERROR_EMPTY_DOCUMENT", "XML_ERROR_MISMATCHED_ELEMENT", "XML_ERROR_PARSING",
      "XML_CAN_NOT_CONVERT_TEXT", "XML_NO_TEXT_NODE", "XML_ELEMENT_DEPTH_EXCEEDED"};
  if (errorID < 0 || errorID >= XML_ERROR_COUNT) return "XML_ERROR_UNKNOWN";
  return names[errorID];
}

void XMLDocument::SetError(XMLError error, int lineNum, const char* format, ...) {
  error_ = error;
  error_line_ = lineNum;
  error_str_.clear();
  if (error == XML_SUCCESS) return;
  const size_t BUFFER_SIZE = 1000;
  char buffer[BUFFER_SIZE];
  snprintf(buffer, BUFFER_SIZE, "Error=%s ErrorID=%d (0x%x) Line number=%d", ErrorIDToName(error),
           static_cast<int>(error), static_cast<int>(error), lineNum);
  if (format) {
    size_t len = strlen(buffer);
    snprintf(buffer + len, BUFFER_SIZE - len, ": ");
    len = strlen(buffer);
    va_list va;
    va_start(va, format);
    vsnprintf(buffer + len, BUFFER_SIZE - len, format, va);
    va_end(va);
  }
  error_str_ = buffer;
}

void XMLDocument::PrintError() const { fprintf(stdout, "%s\n", ErrorStr()); }

XMLError XMLDocument::LoadFile(const char* filename) {
  if (!filename) {
    SetError(XML_ERROR_FILE_COULD_NOT_BE_OPENED, 0, "filename=<null>");
    return error_;
  }
  Clear();
  FILE* fp = fopen(filename, "rb");
  if (!fp) {
    SetError(XML_ERROR_FILE_NOT_FOUND, 0, "filename=%s", filename);
    return error_;
  }
  std::string data;
  char chunk[65536];
  size_t n;
  while ((n = fread(chunk, 1, sizeof chunk, fp)) > 0) data.append(chunk, n);
  bool bad = ferror(fp) != 0;
  fclose(fp);
  if (bad) {
    SetError(XML_ERROR_FILE_READ_ERROR, 0, nullptr);
    return error_;
  }
  if (data.empty()) {
    SetError(XML_ERROR_EMPTY_DOCUMENT, 0, nullptr);
    return error_;
  }
  return Parse(data.data(), data.size());
}

XMLError XMLDocument::SaveFile(const char* filename, bool compact) {
  if (!filename) {
    SetError(XML_ERROR_FILE_COULD_NOT_BE_OPENED, 0, "filename=<null>");
    return error_;
  }
  FILE* fp = fopen(filename, "w");
  if (!fp) {
    SetError(XML_ERROR_FILE_COULD_NOT_BE_OPENED, 0, "filename=%s", filename);
    return error_;
  }
  ClearError();
  XMLPrinter stream(fp, compact);
  Print(&stream);
  fclose(fp);
  return error_;
}

void XMLDocument::Print(XMLPrinter* streamer) const {
  if (streamer) {
    streamer->PrintDocument(this);
  } else {
    XMLPrinter stdoutStreamer(stdout);
    stdoutStreamer.PrintDocument(this);
  }
}

// ---------------------------------------------------------------- parsing

const char* XMLDocument::SkipWhiteSpace(const char* p) {
  while (IsWhiteSpace(*p)) {
    if (*p == '\n') ++cur_line_;
    ++p;
  }
  return p;
}

const char* XMLDocument::ScanText(const char* p, const char* endTag, std::string* out) {
  const char* start = p;
  const char endChar = *endTag;
  const size_t length = strlen(endTag);
  while (*p) {
    if (*p == endChar && strncmp(p, endTag, length) == 0) {
      out->assign(start, p - start);
      return p + length;
    } else if (*p == '\n') {
      ++cur_line_;
    }
    ++p;
  }
  return nullptr;
}

// newline normalisation (always) and entity processing (optional), as tinyxml2's StrPair::GetStr
std::string XMLDocument::Normalize(const std::string& raw, bool ents) {
  std::string out;
  out.reserve(raw.size());
  const char* p = raw.c_str();
  const char CR = 0x0d, LF = 0x0a;
  while (*p) {
    if (*p == CR) {
      // CR-LF pair becomes LF; CR alone becomes LF
      if (*(p + 1) == LF) p += 2; else ++p;
      out += LF;
    } else if (*p == LF) {
      // LF-CR pair becomes LF
      if (*(p + 1) == CR) p += 2; else ++p;
      out += LF;
    } else if (ents && *p == '&') {
      if (*(p + 1) == '#') {
        char buf[10] = {0};
        int len = 0;
        const char* adjusted = GetCharacterRef(p, buf, &len);
        if (adjusted == nullptr) {
          out += *p;
          ++p;
        } else {
          p = adjusted;
          out.append(buf, len);
        }
      } else {
        bool entityFound = false;
        for (int i = 0; i < NUM_ENTITIES; ++i) {
          const Entity& entity = entities[i];
          if (strncmp(p + 1, entity.pattern, entity.length) == 0 && *(p + entity.length + 1) == ';') {
            out += entity.value;
            p += entity.length + 2;
            entityFound = true;
            break;
          }
        }
        if (!entityFound) {
          out += *p;
          ++p;
        }
      }
    } else {
      out += *p;
      ++p;
    }
  }
  return out;
}

XMLError XMLDocument::Parse(const char* xml, size_t nBytes) {
  Clear();
  if (nBytes == 0 || !xml || !*xml) {
    SetError(XML_ERROR_EMPTY_DOCUMENT, 0, nullptr);
    return error_;
  }
  if (nBytes == static_cast<size_t>(-1)) nBytes = strlen(xml);
  buffer_.assign(xml, nBytes);
  // like tinyxml2 (which parses a NUL-terminated copy): an embedded NUL ends the text
  buffer_.resize(strlen(buffer_.c_str()));

  cur_line_ = 1;
  line_ = 1;
  depth_ = 0;
  const char* p = buffer_.c_str();
  p = SkipWhiteSpace(p);
  // UTF-8 byte order mark
  bom_ = false;
  if (static_cast<unsigned char>(p[0]) == 0xEF && static_cast<unsigned char>(p[1]) == 0xBB &&
      static_cast<unsigned char>(p[2]) == 0xBF) {
    bom_ = true;
    p += 3;
  }
  if (!*p) {
    SetError(XML_ERROR_EMPTY_DOCUMENT, 0, nullptr);
    return error_;
  }
  ParseChildren(this, p, nullptr);
  if (Error()) {
    // clean up now, but keep the error
    DeleteChildren();
    while (!unlinked_.empty()) DeleteNode(*unlinked_.begin());
  }
  buffer_.clear();
  return error_;
}

// classify the node starting at p (after optional white space); *node = null at end of input
const char* XMLDocument::Identify(const char* p, XMLNode** node) {
  const char* const start = p;
  const int startLine = cur_line_;
  p = SkipWhiteSpace(p);
  if (!*p) {
    *node = nullptr;
    return p;
  }
  XMLNode* ret = nullptr;
  if (strncmp(p, "<?", 2) == 0) {
    ret = new XMLDeclaration(this);
    ret->line_ = cur_line_;
    p += 2;
  } else if (strncmp(p, "<!--", 4) == 0) {
    ret = new XMLComment(this);
    ret->line_ = cur_line_;
    p += 4;
  } else if (strncmp(p, "<![CDATA[", 9) == 0) {
    XMLText* text = new XMLText(this);
    ret = text;
    ret->line_ = cur_line_;
    p += 9;
    text->SetCData(true);
  } else if (strncmp(p, "<!", 2) == 0) {
    ret = new XMLUnknown(this);
    ret->line_ = cur_line_;
    p += 2;
  } else if (*p == '<') {
    ret = new XMLElement(this);
    ret->line_ = cur_line_;
    p += 1;
  } else {
    ret = new XMLText(this);
    ret->line_ = cur_line_;  // line of the first non-blank character
    p = start;               // all the text counts, leading white space included
    cur_line_ = startLine;
  }
  unlinked_.insert(ret);
  *node = ret;
  return p;
}

const char* XMLDocument::ParseAttributes(XMLElement* e, const char* p) {
  XMLAttribute* prevAttribute = nullptr;
  while (p) {
    p = SkipWhiteSpace(p);
    if (!*p) {
      SetError(XML_ERROR_PARSING_ELEMENT, e->line_, "XMLElement name=%s", e->Name());
      return nullptr;
    }
    if (IsNameStartChar(static_cast<unsigned char>(*p))) {
      const int attrLineNum = cur_line_;
      // name
      const char* q = p + 1;
      while (*q && IsNameChar(static_cast<unsigned char>(*q))) ++q;
      std::string name(p, q - p);
      std::string raw;
      p = q;
      bool ok = *p != 0;
      if (ok) {
        p = SkipWhiteSpace(p);
        ok = *p == '=';
      }
      if (ok) {
        ++p;
        p = SkipWhiteSpace(p);
        ok = *p == '\"' || *p == '\'';
      }
      if (ok) {
        const char endTag[2] = {*p, 0};
        ++p;
        p = ScanText(p, endTag, &raw);
        ok = p != nullptr;
      }
      if (!ok || e->FindAttribute(name.c_str())) {
        SetError(XML_ERROR_PARSING_ATTRIBUTE, attrLineNum, "XMLElement name=%s", e->Name());
        return nullptr;
      }
      XMLAttribute* attrib = new XMLAttribute();
      attrib->name_ = name;
      attrib->value_ = Normalize(raw, process_entities_);
      attrib->line_ = attrLineNum;
      if (prevAttribute) prevAttribute->next_ = attrib; else e->attrs_ = attrib;
      prevAttribute = attrib;
    } else if (*p == '>') {
      ++p;
      break;
    } else if (*p == '/' && *(p + 1) == '>') {
      e->closing_ = XMLElement::CLOSED;
      return p + 2;
    } else {
      SetError(XML_ERROR_PARSING_ELEMENT, e->line_, nullptr);
      return nullptr;
    }
  }
  return p;
}

const char* XMLDocument::ParseElement(XMLElement* e, const char* p, std::string* parentEndTag) {
  p = SkipWhiteSpace(p);
  // the closing element is the </element> form: parsed like an element, then dropped by the caller
  if (*p == '/') {
    e->closing_ = XMLElement::CLOSING;
    ++p;
  }
  if (!*p || !IsNameStartChar(static_cast<unsigned char>(*p))) return nullptr;
  const char* q = p + 1;
  while (*q && IsNameChar(static_cast<unsigned char>(*q))) ++q;
  e->value_.assign(p, q - p);
  p = ParseAttributes(e, q);
  if (!p || !*p || e->closing_ != XMLElement::OPEN) return p;
  return ParseChildren(e, p, parentEndTag);
}

// parse the children of `parent` until its end tag (returned through parentEndTag) or the end of input
const char* XMLDocument::ParseChildren(XMLNode* parent, const char* p, std::string* parentEndTag) {
  struct DepthTracker {
    XMLDocument* d;
    explicit DepthTracker(XMLDocument* doc) : d(doc) {
      d->depth_++;
      if (d->depth_ == TINYXML2_MAX_ELEMENT_DEPTH) {
        d->SetError(XML_ELEMENT_DEPTH_EXCEEDED, d->cur_line_, "Element nesting is too deep.");
      }
    }
    ~DepthTracker() { d->depth_--; }
  } tracker(this);
  if (Error()) return nullptr;

  while (p && *p) {
    XMLNode* node = nullptr;
    p = Identify(p, &node);
    if (node == nullptr) break;
    const int initialLineNum = node->line_;

    std::string endTag;
    if (XMLElement* el = node->ToElement()) {
      p = ParseElement(el, p, &endTag);
    } else if (XMLText* tx = node->ToText()) {
      std::string raw;
      if (tx->CData()) {
        p = ScanText(p, "]]>", &raw);
        if (!p) SetError(XML_ERROR_PARSING_CDATA, node->line_, nullptr);
        else node->value_ = Normalize(raw, false);
      } else {
        const char* r = ScanText(p, "<", &raw);
        if (!r) {
          SetError(XML_ERROR_PARSING_TEXT, node->line_, nullptr);
          p = nullptr;
        } else {
          node->value_ = Normalize(raw, process_entities_);
          p = r - 1;  // back to the '<'
        }
      }
    } else if (node->ToComment()) {
      std::string raw;
      p = ScanText(p, "-->", &raw);
      if (!p) SetError(XML_ERROR_PARSING_COMMENT, node->line_, nullptr);
      else node->value_ = Normalize(raw, false);
    } else if (node->ToDeclaration()) {
      std::string raw;
      p = ScanText(p, "?>", &raw);
      if (!p) SetError(XML_ERROR_PARSING_DECLARATION, node->line_, nullptr);
      else node->value_ = Normalize(raw, false);
    } else {
      std::string raw;
      p = ScanText(p, ">", &raw);
      if (!p) SetError(XML_ERROR_PARSING_UNKNOWN, node->line_, nullptr);
      else node->value_ = Normalize(raw, false);
    }

    if (!p) {
      DeleteNode(node);
      if (!Error()) SetError(XML_ERROR_PARSING, initialLineNum, nullptr);
      break;
    }

    if (const XMLDeclaration* decl = node->ToDeclaration()) {
      // declarations are only allowed at document level, before anything else
      bool wellLocated = false;
      if (parent->ToDocument()) {
        if (parent->FirstChild()) {
          wellLocated = parent->FirstChild()->ToDeclaration() && parent->LastChild() &&
                        parent->LastChild()->ToDeclaration();
        } else {
          wellLocated = true;
        }
      }
      if (!wellLocated) {
        SetError(XML_ERROR_PARSING_DECLARATION, initialLineNum, "XMLDeclaration value=%s", decl->Value());
        DeleteNode(node);
        break;
      }
    }

    if (XMLElement* ele = node->ToElement()) {
      // we read the end tag: return it to the parent
      if (ele->ClosingType() == XMLElement::CLOSING) {
        if (parentEndTag) *parentEndTag = ele->value_;
        DeleteNode(node);
        return p;
      }
      // handle an end tag returned to this level
      bool mismatch = false;
      if (endTag.empty()) {
        if (ele->ClosingType() == XMLElement::OPEN) mismatch = true;
      } else {
        if (ele->ClosingType() != XMLElement::OPEN) mismatch = true;
        else if (endTag != ele->Name()) mismatch = true;
      }
      if (mismatch) {
        SetError(XML_ERROR_MISMATCHED_ELEMENT, initialLineNum, "XMLElement name=%s", ele->Name());
        DeleteNode(node);
        break;
      }
    }
    parent->InsertEndChild(node);
  }
  return nullptr;
}

// ------------------------------------------------------------------------------------------ XMLPrinter

XMLPrinter::XMLPrinter(FILE* file, bool compact, int depth) : fp_(file), depth_(depth), compact_(compact) {}

void XMLPrinter::Print(const char* format, ...) {
  va_list va;
  va_start(va, format);
  va_list va2;
  va_copy(va2, va);
  int len = vsnprintf(nullptr, 0, format, va);
  va_end(va);
  if (len > 0) {
    std::string s(static_cast<size_t>(len) + 1, '\0');
    vsnprintf(&s[0], s.size(), format, va2);
    Write(s.data(), static_cast<size_t>(len));
  }
  va_end(va2);
}

void XMLPrinter::Write(const char* data, size_t size) {
  if (fp_) fwrite(data, sizeof(char), size, fp_); else buffer_.append(data, size);
}

void XMLPrinter::Putc(char ch) {
  if (fp_) fputc(ch, fp_); else buffer_ += ch;
}

void XMLPrinter::PrintSpace(int depth) {
  for (int i = 0; i < depth; ++i) Write("    ");
}

void XMLPrinter::PrintString(const char* p, bool restricted) {
  const char* q = p;
  if (process_entities_) {
    while (*q) {
      const char c = *q;
      bool flagged = c == '&' || c == '<' || c == '>' || (!restricted && (c == '\"' || c == '\''));
      if (flagged) {
        if (p < q) Write(p, static_cast<size_t>(q - p));
        p = q;
        for (int i = 0; i < NUM_ENTITIES; ++i) {
          if (entities[i].value == c) {
            Putc('&');
            Write(entities[i].pattern, entities[i].length);
            Putc(';');
            break;
          }
        }
        ++p;
      }
      ++q;
    }
    if (p < q) Write(p, static_cast<size_t>(q - p));
  } else {
    Write(p);
  }
}

void XMLPrinter::PushHeader(bool writeBOM, bool writeDec) {
  if (writeBOM) {
    static const unsigned char bom[] = {0xEF, 0xBB, 0xBF, 0};
    Write(reinterpret_cast<const char*>(bom));
  }
  if (writeDec) PushDeclaration("xml version=\"1.0\"");
}

void XMLPrinter::PrepareForNewNode(bool compactMode) {
  SealElementIfJustOpened();
  if (compactMode) return;
  if (first_element_) {
    PrintSpace(depth_);
  } else if (text_depth_ < 0) {
    Putc('\n');
    PrintSpace(depth_);
  }
  first_element_ = false;
}

void XMLPrinter::OpenElement(const char* name, bool compactMode) {
  PrepareForNewNode(compactMode);
  stack_.push_back(name);
  Write("<");
  Write(name);
  element_just_opened_ = true;
  ++depth_;
}

void XMLPrinter::PushAttribute(const char* name, const char* value) {
  Putc(' ');
  Write(name);
  Write("=\"");
  PrintString(value, false);
  Putc('\"');
}

void XMLPrinter::CloseElement(bool compactMode) {
  --depth_;
  std::string name = stack_.back();
  stack_.pop_back();
  if (element_just_opened_) {
    Write("/>");
  } else {
    if (text_depth_ < 0 && !compactMode) {
      Putc('\n');
      PrintSpace(depth_);
    }
    Write("</");
    Write(name.c_str());
    Write(">");
  }
  if (text_depth_ == depth_) text_depth_ = -1;
  if (depth_ == 0 && !compactMode) Putc('\n');
  element_just_opened_ = false;
}

void XMLPrinter::SealElementIfJustOpened() {
  if (!element_just_opened_) return;
  element_just_opened_ = false;
  Putc('>');
}

void XMLPrinter::PushText(const char* text, bool cdata) {
  text_depth_ = depth_ - 1;
  SealElementIfJustOpened();
  if (cdata) {
    Write("<![CDATA[");
    Write(text);
    Write("]]>");
  } else {
    PrintString(text, true);
  }
}

void XMLPrinter::PushComment(const char* comment) {
  PrepareForNewNode(compact_);
  Write("<!--");
  Write(comment);
  Write("-->");
}

void XMLPrinter::PushDeclaration(const char* value) {
  PrepareForNewNode(compact_);
  Write("<?");
  Write(value);
  Write("?>");
}

void XMLPrinter::PushUnknown(const char* value) {
  PrepareForNewNode(compact_);
  Write("<!");
  Write(value);
  Putc('>');
}

void XMLPrinter::PrintDocument(const XMLDocument* doc) {
  process_entities_ = doc->ProcessEntities();
  if (doc->HasBOM()) PushHeader(true, false);
  for (const XMLNode* n = doc->FirstChild(); n; n = n->NextSibling()) PrintNode(n);
}

void XMLPrinter::PrintNode(const XMLNode* node) {
  if (const XMLElement* e = node->ToElement()) {
    const XMLElement* parentElem = e->Parent() ? e->Parent()->ToElement() : nullptr;
    const bool compactMode = parentElem ? CompactMode(*parentElem) : compact_;
    OpenElement(e->Name(), compactMode);
    for (const XMLAttribute* a = e->FirstAttribute(); a; a = a->Next()) PushAttribute(a->Name(), a->Value());
    for (const XMLNode* n = e->FirstChild(); n; n = n->NextSibling()) PrintNode(n);
    CloseElement(CompactMode(*e));
  } else if (const XMLText* t = node->ToText()) {
    PushText(t->Value(), t->CData());
  } else if (node->ToComment()) {
    PushComment(node->Value());
  } else if (node->ToDeclaration()) {
    PushDeclaration(node->Value());
  } else if (node->ToUnknown()) {
    PushUnknown(node->Value());
  }
}

}  // namespace tinyxml2
