#!/usr/bin/env python3
"""From-source build of /repo's engine + user code without CMake (DESIGN.md §1).

Every object file is cached under /verif/.cache/obj keyed by the SHA-256 of (its source text, the
text of every header under include/ src/ and harness/stubs, the compiler flags), so a check always
runs code compiled from /repo's *current working tree*: an edited file gets a new key and is
recompiled.  Nothing is kept under /tmp.

  build.py lib [variant]        -> prints path of libmujoco_verif.so   (variants: scalar avx asan)
  build.py flags [variant]      -> prints compiler flags for harness translation units
"""
import concurrent.futures as cf
import fcntl
import hashlib
import os
import subprocess
import sys

REPO = os.environ.get("VERIF_REPO", "/repo")
VERIF = os.path.dirname(os.path.dirname(os.path.abspath(__file__)))
CACHE = os.path.join(VERIF, ".cache")
STUBS = os.path.join(VERIF, "harness", "stubs")

COMMON = ["-fPIC", "-DMJ_STATIC", "-D_GNU_SOURCE", "-DmjUSEDOUBLE", "-ffp-contract=off",
          "-fno-fast-math", "-w", "-pthread"]
VARIANTS = {
    "scalar": ["-O2"],
    "avx": ["-O2", "-mavx", "-DmjUSEPLATFORMSIMD"],
    # -U__SANITIZE_ADDRESS__: include/mujoco/mjsan.h uses a clang-only attribute placement when that macro is
    # defined; compiler ASan/UBSan instrumentation stays on, only the engine's own poisoning hooks are off
    "asan": ["-O1", "-g", "-fsanitize=address,undefined", "-fno-omit-frame-pointer",
             "-fno-sanitize-recover=undefined", "-U__SANITIZE_ADDRESS__"],
    "debug": ["-O0", "-g"],
}


def incflags():
    return ["-I" + os.path.join(REPO, "include"), "-I" + os.path.join(REPO, "src"), "-I" + STUBS]


def sha(b):
    return hashlib.sha256(b).hexdigest()


def header_hash():
    h = hashlib.sha256()
    roots = [os.path.join(REPO, "include"), os.path.join(REPO, "src", "engine"),
             os.path.join(REPO, "src", "user"), os.path.join(REPO, "src", "cc"), STUBS]
    for root in roots:
        for dp, dn, fn in sorted(os.walk(root)):
            dn.sort()
            for f in sorted(fn):
                if f.endswith((".h", ".inc", ".hpp")):
                    p = os.path.join(dp, f)
                    # path relative to its root: a scratch worktree with identical headers shares /repo's cache entries
                    h.update(os.path.relpath(p, root).encode())
                    with open(p, "rb") as fh:
                        h.update(fh.read())
    return h.hexdigest()


def sources():
    out = []
    for sub in ("engine", "user"):
        d = os.path.join(REPO, "src", sub)
        for f in sorted(os.listdir(d)):
            if f.endswith((".c", ".cc")):
                out.append(os.path.join(d, f))
    out.append(os.path.join(STUBS, "stubs.c"))
    out.append(os.path.join(STUBS, "xml_stubs.cc"))
    return out


def flags(variant):
    return COMMON + VARIANTS[variant] + incflags()


def compile_one(src, variant, hh):
    cxx = src.endswith(".cc")
    cc = ["g++", "-std=c++20"] if cxx else ["gcc", "-std=c11"]
    fl = flags(variant)
    # the key is independent of where the tree lives (relative source path, include roots replaced by a placeholder):
    # it still covers the source text, every header's text, the compiler and all flags
    rel = os.path.relpath(src, REPO) if src.startswith(REPO + os.sep) else os.path.relpath(src, VERIF)
    flkey = " ".join(cc + fl).replace(REPO, "<repo>")
    with open(src, "rb") as fh:
        key = sha(fh.read() + hh.encode() + flkey.encode() + rel.encode())
    od = os.path.join(CACHE, "obj", key[:2])
    os.makedirs(od, exist_ok=True)
    obj = os.path.join(od, key + ".o")
    if not os.path.exists(obj):
        tmp = obj + ".%d.tmp" % os.getpid()
        r = subprocess.run(cc + fl + ["-c", src, "-o", tmp], capture_output=True, text=True)
        if r.returncode != 0:
            raise RuntimeError("compile failed: %s\n%s" % (src, r.stderr[-4000:]))
        os.replace(tmp, obj)
    else:
        _touch(obj)
    return obj, key


def _touch(p):
    """mark a cache entry as just used (atime is unreliable on relatime mounts)"""
    try:
        os.utime(p, None)
    except OSError:
        pass


def build_lib(variant="scalar"):
    os.makedirs(CACHE, exist_ok=True)
    with open(os.path.join(CACHE, "build.lock"), "w") as lk:
        fcntl.flock(lk, fcntl.LOCK_EX)
        hh = header_hash()
        srcs = sources()
        with cf.ThreadPoolExecutor(max_workers=os.cpu_count() or 4) as ex:
            res = list(ex.map(lambda s: compile_one(s, variant, hh), srcs))
        objs = [o for o, _ in res]
        libkey = sha(("".join(k for _, k in res) + variant).encode())
        ld = os.path.join(CACHE, "lib", libkey[:16])
        os.makedirs(ld, exist_ok=True)
        lib = os.path.join(ld, "libmujoco_verif.so")
        if not os.path.exists(lib):
            extra = ["-fsanitize=address,undefined"] if variant == "asan" else []
            tmp = lib + ".%d.tmp" % os.getpid()
            r = subprocess.run(["g++", "-shared", "-o", tmp] + objs + ["-lm", "-lpthread", "-ldl"] + extra,
                               capture_output=True, text=True)
            if r.returncode != 0:
                raise RuntimeError("link failed:\n" + r.stderr[-4000:])
            os.replace(tmp, lib)
        else:
            _touch(lib)
        prune()
        return lib


def prune(max_bytes=20 << 30):
    """Keep the cache bounded: drop the least recently used objects/libs beyond max_bytes.  Files used within the last two hours
    are never dropped (another check may be running with them)."""
    ents = []
    for dp, _, fn in os.walk(CACHE):
        for f in fn:
            p = os.path.join(dp, f)
            try:
                st = os.stat(p)
                ents.append((max(st.st_atime, st.st_mtime), st.st_size, p))
            except OSError:
                pass
    tot = sum(e[1] for e in ents)
    if tot <= max_bytes:
        return
    import time
    now = time.time()
    for at, sz, p in sorted(ents):
        if p.endswith(".lock") or now - at < 7200:
            continue
        try:
            os.remove(p)
        except OSError:
            pass
        tot -= sz
        if tot <= max_bytes * 0.7:
            break


def harness_cmd(src, out, variant="scalar", extra=(), link_lib=True):
    """Command line to build a harness TU against the tree build."""
    cxx = src.endswith((".cc", ".cpp"))
    cc = ["g++", "-std=c++20"] if cxx else ["gcc", "-std=gnu11"]
    cmd = cc + flags(variant) + ["-I" + os.path.join(VERIF, "harness")] + list(extra) + [src, "-o", out]
    if link_lib:
        lib = build_lib(variant)
        cmd += [lib, "-Wl,-rpath," + os.path.dirname(lib)]
    cmd += ["-lm", "-lpthread", "-ldl"]
    if variant == "asan":
        cmd += ["-fsanitize=address,undefined"]
    return cmd


def build_harness(src, name, variant="scalar", extra=(), link_lib=True, deps=()):
    """Build (cached by content) a harness executable; returns its path."""
    os.makedirs(CACHE, exist_ok=True)
    lib = build_lib(variant) if link_lib else ""
    h = hashlib.sha256()
    for p in [src] + list(deps):
        with open(p, "rb") as fh:
            h.update(fh.read())
    h.update(header_hash().encode())
    h.update((lib + variant + " ".join(extra)).encode())
    d = os.path.join(CACHE, "bin", h.hexdigest()[:16])
    os.makedirs(d, exist_ok=True)
    out = os.path.join(d, name)
    if not os.path.exists(out):
        tmp = out + ".%d.tmp" % os.getpid()
        cmd = harness_cmd(src, tmp, variant, extra, link_lib)
        r = subprocess.run(cmd, capture_output=True, text=True)
        if r.returncode != 0:
            raise RuntimeError("harness build failed: %s\n%s" % (" ".join(cmd), r.stderr[-6000:]))
        os.replace(tmp, out)
    else:
        _touch(out)
    return out


if __name__ == "__main__":
    what = sys.argv[1] if len(sys.argv) > 1 else "lib"
    variant = sys.argv[2] if len(sys.argv) > 2 else "scalar"
    if what == "lib":
        print(build_lib(variant))
    elif what == "flags":
        print(" ".join(flags(variant)))
