// C23 implementation-side driver: answers the line protocol of lean/Drivers/C23.lean with the *real* routines of
// the tree (engine_util_blas.c, engine_util_solve.c, engine_util_sparse.c/.h incl. the static-inline ones, in
// whatever variant -- scalar or AVX -- this translation unit and the linked library are compiled).
// Additional ops `o_*` are answered only by this side: they feed the property oracle of checks/c23.py
// (certificate checks on mju_eig3 / mju_boxQP / mju_QCQP*, band and sparse routines against dense ones, the
// consumers of row supernodes).
#include <stdio.h>
#include <stdlib.h>
#include <string.h>
#include <stdint.h>
#include <math.h>
#include <mujoco/mujoco.h>
#include "engine/engine_util_blas.h"
#include "engine/engine_util_solve.h"
#include "engine/engine_util_sparse.h"
#include "engine/engine_util_misc.h"

// per-line bump allocator (zero-filled), reset for every op
static char* pool; static size_t pool_cap, pool_used;
static void* palloc(size_t bytes) {
  bytes = (bytes + 31) & ~(size_t)15;
  if (pool_used + bytes > pool_cap) { fprintf(stderr, "pool exhausted\n"); exit(3); }
  void* p = pool + pool_used; pool_used += bytes; memset(p, 0, bytes); return p;
}

// ---------------------------------------------------------------- tokens
static char* save_ptr;
static int bad;
static char* tok(void) { char* t = strtok_r(NULL, " \n", &save_ptr); if (!t) bad = 1; return t; }
static int geti(void) {
  char* t = tok(); if (!t) return 0;
  char* e; long v = strtol(t, &e, 10);
  if (*e || e == t || v < 0 || v > 100000000) { bad = 1; return 0; }
  return (int)v;
}
static double getf(void) {
  char* t = tok(); if (!t) return 0;
  if (!strcmp(t, "nan")) return NAN;
  if (strlen(t) != 16) { bad = 1; return 0; }
  uint64_t u = 0;
  for (int i = 0; i < 16; i++) {
    char c = t[i]; int d;
    if (c >= '0' && c <= '9') d = c - '0'; else if (c >= 'a' && c <= 'f') d = c - 'a' + 10; else { bad = 1; return 0; }
    u = (u << 4) | (uint64_t)d;
  }
  double x; memcpy(&x, &u, 8); return x;
}
static double* getfv(int n) {
  double* v = palloc((n + 1) * sizeof(double));
  for (int i = 0; i < n && !bad; i++) v[i] = getf();
  return v;
}
static int* getiv(int n) {
  int* v = palloc((n + 1) * sizeof(int));
  for (int i = 0; i < n && !bad; i++) v[i] = geti();
  return v;
}
static int at_end(void) { char* t = strtok_r(NULL, " \n", &save_ptr); return t == NULL; }

// ---------------------------------------------------------------- output
static int first;
static void sep(void) { if (!first) putchar(' '); first = 0; }
static void outf(double x) {
  sep();
  if (isnan(x)) { printf("nan"); return; }
  uint64_t u; memcpy(&u, &x, 8); printf("%016llx", (unsigned long long)u);
}
static void outi(long v) { sep(); printf("%ld", v); }
static void outfv(const double* v, int n) { for (int i = 0; i < n; i++) outf(v[i]); }
static void outiv(const int* v, int n) { for (int i = 0; i < n; i++) outi(v[i]); }
static void outg(double x) { sep(); printf("%.17g", x); }
static void outgv(const double* v, int n) { for (int i = 0; i < n; i++) outg(v[i]); }

// pattern `nr nc cap rownnz rowadr colind`, validated like the model's `Pat`
typedef struct { int nr, nc, cap; int *rownnz, *rowadr, *colind; } pat_t;
static pat_t getpat(void) {
  pat_t p; p.nr = geti(); p.nc = geti(); p.cap = geti();
  if (bad) { p.rownnz = p.rowadr = p.colind = NULL; return p; }
  p.rownnz = getiv(p.nr); p.rowadr = getiv(p.nr); p.colind = getiv(p.cap);
  for (int r = 0; r < p.nr && !bad; r++) {
    if ((long)p.rowadr[r] + p.rownnz[r] > p.cap) { bad = 1; break; }
    for (int k = 0; k < p.rownnz[r]; k++) if (p.colind[p.rowadr[r] + k] >= p.nc) { bad = 1; break; }
  }
  return p;
}

static mjData* g_d = NULL;   // only for the stack of the sparse squaring routines (oracle ops)
static mjData* get_data(void) {
  if (!g_d) {
    mjSpec* s = mj_makeSpec();
    s->memory = 256 << 20;
    mjModel* m = mj_compile(s, NULL);
    if (!m) { fprintf(stderr, "cannot compile empty model\n"); exit(3); }
    g_d = mj_makeData(m);
  }
  return g_d;
}

#define FINISH() do { if (bad || !at_end()) goto badop; } while (0)

int main(void) {
  size_t cap = 1 << 22; char* line = malloc(cap);
  pool_cap = 64u << 20; pool = malloc(pool_cap);
#define malloc(x) palloc(x)
#define calloc(n, s) palloc((size_t)(n) * (s))
  while (fgets(line, cap, stdin)) {
    bad = 0; first = 1; pool_used = 0;
    char* op = strtok_r(line, " \n", &save_ptr);
    if (!op) goto badop;
    if (!strcmp(op, "dot")) {
      int n = geti(); double* x = getfv(n); double* y = getfv(n); FINISH();
      outf(mju_dot(x, y, n));
    } else if (!strcmp(op, "mv")) {
      int nr = geti(), nc = geti(); double* m = getfv(nr * nc); double* v = getfv(nc); FINISH();
      double* r = calloc(nr + 1, 8); mju_mulMatVec(r, m, v, nr, nc); outfv(r, nr);
    } else if (!strcmp(op, "mtv")) {
      int nr = geti(), nc = geti(); double* m = getfv(nr * nc); double* v = getfv(nr); FINISH();
      double* r = calloc(nc + 1, 8); mju_mulMatTVec(r, m, v, nr, nc); outfv(r, nc);
    } else if (!strcmp(op, "cholf")) {
      int n = geti(); double mind = getf(); double* m = getfv(n * n); FINISH();
      int rank = mju_cholFactor(m, n, mind); outi(rank); outfv(m, n * n);
    } else if (!strcmp(op, "chols")) {
      int n = geti(); double* m = getfv(n * n); double* b = getfv(n); FINISH();
      double* r = calloc(n + 1, 8); mju_cholSolve(r, m, b, n); outfv(r, n);
    } else if (!strcmp(op, "cholu")) {
      int n = geti(), plus = geti(); double* m = getfv(n * n); double* x = getfv(n); FINISH();
      if (plus > 1) goto badop;
      int rank = mju_cholUpdate(m, x, n, plus); outi(rank); outfv(m, n * n); outfv(x, n);
    } else if (!strcmp(op, "d2b")) {
      int nt = geti(), nb = geti(), nd = geti(); double fill = getf(); double* m = getfv(nt * nt); FINISH();
      if (nb < 1 || nd > nt) goto badop;
      int sz = (nt - nd) * nb + nd * nt; double* r = malloc((sz + 1) * 8);
      for (int i = 0; i < sz; i++) r[i] = fill;
      mju_dense2Band(r, m, nt, nb, nd); outfv(r, sz);
    } else if (!strcmp(op, "b2d")) {
      int nt = geti(), nb = geti(), nd = geti(), sym = geti();
      if (bad || nd > nt) goto badop;
      int sz = (nt - nd) * nb + nd * nt; double* b = getfv(sz); FINISH();
      if (nb < 1 || sym > 1) goto badop;
      double* r = malloc((nt * nt + 1) * 8); mju_band2Dense(r, b, nt, nb, nd, sym); outfv(r, nt * nt);
    } else if (!strcmp(op, "bdiag")) {
      int i = geti(), nt = geti(), nb = geti(), nd = geti(); FINISH();
      if (nb < 1 || nd > nt || i >= nt) goto badop;
      outi(mju_bandDiag(i, nt, nb, nd));
    } else if (!strcmp(op, "lufac")) {
      int n = geti(); double* m = getfv(n * n); FINISH();
      int* piv = calloc(n + 1, sizeof(int));
      int ok = mju_factorLU(m, n, piv);
      outi(ok); if (ok) { outiv(piv, n); outfv(m, n * n); }
    } else if (!strcmp(op, "lusolve")) {
      int n = geti(); double* lu = getfv(n * n); int* piv = getiv(n); double* b = getfv(n); FINISH();
      for (int i = 0; i < n; i++) if (piv[i] >= n) goto badop;
      double* x = calloc(n + 1, 8); mju_solveLU(x, lu, b, piv, n); outfv(x, n);
    } else if (!strcmp(op, "sqrtd")) {
      int nr = geti(), nc = geti(), used = geti(); double* m = getfv(nr * nc);
      if (bad || used > 1) goto badop;
      double* dg = used ? getfv(nr) : NULL; FINISH();
      double* r = malloc((nc * nc + 1) * 8); mju_sqrMatTD(r, m, dg, nr, nc); outfv(r, nc * nc);
    } else if (!strcmp(op, "spdot")) {
      int nnz = geti(), n = geti(); double* v1 = getfv(nnz); int* ind = getiv(nnz); double* v2 = getfv(n); FINISH();
      for (int i = 0; i < nnz; i++) if (ind[i] >= n) goto badop;
      outf(mju_dotSparse(v1, v2, nnz, ind));
    } else if (!strcmp(op, "spmv") || !strcmp(op, "spmv_super")) {
      pat_t p = getpat(); if (bad) goto badop;
      double* m = getfv(p.cap); double* v = getfv(p.nc); FINISH();
      double* r = calloc(p.nr + 1, 8);
      int* super = NULL;
      if (!strcmp(op, "spmv_super")) {   // oracle-only variant: with supernodes (only the AVX build reads them)
        super = calloc(p.nr + 1, sizeof(int)); mju_superSparse(p.nr, super, p.rownnz, p.rowadr, p.colind);
      }
      mju_mulMatVecSparse(r, m, v, p.nr, p.rownnz, p.rowadr, p.colind, super); outfv(r, p.nr);
    } else if (!strcmp(op, "spmtv")) {
      pat_t p = getpat(); if (bad) goto badop;
      double* m = getfv(p.cap); double* v = getfv(p.nr); FINISH();
      double* r = calloc(p.nc + 1, 8);
      mju_mulMatTVecSparse(r, m, v, p.nr, p.nc, p.rownnz, p.rowadr, p.colind); outfv(r, p.nc);
    } else if (!strcmp(op, "spsym")) {
      pat_t p = getpat(); if (bad || p.nr != p.nc) goto badop;
      double* m = getfv(p.cap); int upper = geti(); double* res = getfv(p.nr * p.nr); FINISH();
      if (upper > 1) goto badop;
      mju_addToSymSparse(res, m, p.nr, p.rownnz, p.rowadr, p.colind, upper); outfv(res, p.nr * p.nr);
    } else if (!strcmp(op, "symv")) {
      pat_t p = getpat(); if (bad || p.nr != p.nc) goto badop;
      double* m = getfv(p.cap); double* v = getfv(p.nr); FINISH();
      for (int r = 0; r < p.nr; r++) if (p.rownnz[r] == 0) goto badop;
      double* res = calloc(p.nr + 1, 8);
      mju_mulSymVecSparse(res, m, v, p.nr, p.rownnz, p.rowadr, p.colind); outfv(res, p.nr);
    } else if (!strcmp(op, "s2d")) {
      pat_t p = getpat(); if (bad) goto badop;
      double* m = getfv(p.cap); FINISH();
      double* res = malloc((p.nr * p.nc + 1) * 8);
      mju_sparse2dense(res, m, p.nr, p.nc, p.rownnz, p.rowadr, p.colind); outfv(res, p.nr * p.nc);
    } else if (!strcmp(op, "d2s")) {
      int nr = geti(), nc = geti(), nnz = geti(); double* m = getfv(nr * nc); FINISH();
      double* res = calloc(nnz + 1, 8); int* rownnz = calloc(nr + 1, 4); int* rowadr = calloc(nr + 1, 4);
      int* colind = calloc(nnz + 1, 4);
      int full = mju_dense2sparse(res, m, nr, nc, rownnz, rowadr, colind, nnz);
      if (full) outi(1);
      else {
        int adr = 0; for (int r = 0; r < nr; r++) adr += rownnz[r];
        outi(0); outi(adr); outiv(rownnz, nr); outiv(rowadr, nr); outiv(colind, adr); outfv(res, adr);
      }
    } else if (!strcmp(op, "spcomp")) {
      pat_t p = getpat(); if (bad) goto badop;
      double* m = getfv(p.cap); double minval = getf(); FINISH();
      if (p.nr == 0) goto badop;
      int ret = mju_compressSparse(m, p.nr, p.nc, p.rownnz, p.rowadr, p.colind, minval);
      outi(ret); outiv(p.rownnz, p.nr); outiv(p.rowadr, p.nr); outiv(p.colind, p.cap); outfv(m, p.cap);
    } else if (!strcmp(op, "sptr") || !strcmp(op, "sptrs")) {
      int with_super = !strcmp(op, "sptrs");   // sptrs: res_rowsuper != NULL (buffer pre-filled with 3)
      pat_t p = getpat(); if (bad) goto badop;
      int capT = geti(); double* m = getfv(p.cap); FINISH();
      int tot = 0; for (int r = 0; r < p.nr; r++) { tot += p.rownnz[r]; if (p.rowadr[r] < p.rowadr[0]) goto badop; }
      if (tot > capT) goto badop;
      double* res = calloc(capT + 1, 8); int* rnz = calloc(p.nc + 1, 4); int* radr = calloc(p.nc + 1, 4);
      int* rcol = calloc(capT + 1, 4);
      int* rsup = NULL;
      if (with_super) { rsup = calloc(p.nc + 1, 4); for (int c = 0; c < p.nc; c++) rsup[c] = 3; }
      // the routine addresses mat/colind relative to rowadr[0]; every row extent must stay inside the buffers
      for (int r = 0; r < p.nr; r++) if (p.rowadr[r] - p.rowadr[0] + p.rownnz[r] > p.cap) goto badop;
      for (int r = 0; r < p.nr; r++) for (int k = 0; k < p.rownnz[r]; k++)
        if (p.colind[p.rowadr[r] - p.rowadr[0] + k] >= p.nc) goto badop;
      mju_transposeSparse(res, m, p.nr, p.nc, rnz, radr, rcol, rsup, p.rownnz, p.rowadr, p.colind);
      outiv(rnz, p.nc); outiv(radr, p.nc); outiv(rcol, capT); outfv(res, capT);
      if (with_super) outiv(rsup, p.nc);
    } else if (!strcmp(op, "spsuper")) {
      pat_t p = getpat(); FINISH();
      int* sup = calloc(p.nr + 1, 4); for (int r = 0; r < p.nr; r++) sup[r] = 3;
      mju_superSparse(p.nr, sup, p.rownnz, p.rowadr, p.colind); outiv(sup, p.nr);
    } else if (!strcmp(op, "spcount")) {
      int na = geti(), nb = geti(); int* a = getiv(na); int* b = getiv(nb); FINISH();
      outi(mju_combineSparseCount(na, nb, a, b));
    } else if (!strcmp(op, "spcomb")) {
      double a = getf(), b = getf(); int dn = geti(), ns = geti(), cp = geti();
      if (bad) goto badop;
      int* dind = getiv(cp); double* dst = getfv(cp); int* sind = getiv(ns); double* src = getfv(ns); FINISH();
      if (dn > cp || dn + ns > cp + ns) goto badop;
      // capacity needed = size of the union; the generator guarantees it, re-checked here to stay in bounds
      int need = mju_combineSparseCount(dn, ns, dind, sind);
      if (need > cp) goto badop;
      int nnz = mju_combineSparse(dst, src, a, b, dn, ns, dind, sind);
      outi(nnz); outiv(dind, nnz); outfv(dst, nnz);
    }
    // ------------------------------------------------------------ oracle-only ops (decimal %.17g output)
    else if (!strcmp(op, "o_eig3")) {
      double* m = getfv(9); FINISH();
      double eigval[3], eigvec[9], quat[4];
      int it = mju_eig3(eigval, eigvec, quat, m);
      outi(it); outgv(eigval, 3); outgv(eigvec, 9); outgv(quat, 4);
    } else if (!strcmp(op, "o_boxqp")) {
      int n = geti(); double* H = getfv(n * n); double* g = getfv(n); double* lo = getfv(n); double* hi = getfv(n);
      double* x0 = getfv(n); FINISH();
      if (n < 1) goto badop;
      for (int i = 0; i < n; i++) if (!(lo[i] < hi[i])) goto badop;
      double* R = calloc(n * (n + 7) + 1, 8); int* index = calloc(n + 1, 4);
      int nfree = mju_boxQP(x0, R, index, H, g, n, lo, hi);
      outi(nfree + 1);   // protocol ints are naturals: rank+1 (0 = failure)
      outgv(x0, n); if (nfree > 0) outiv(index, nfree);
    } else if (!strcmp(op, "o_qcqp")) {
      int n = geti(); if (bad || n < 2 || n > 5) goto badop;
      double* A = getfv(n * n); double* b = getfv(n); double* d = getfv(n); double r = getf(); int generic = geti(); FINISH();
      double res[5]; int act;
      if (n == 2 && !generic) act = mju_QCQP2(res, A, b, d, r);
      else if (n == 3 && !generic) act = mju_QCQP3(res, A, b, d, r);
      else act = mju_QCQP(res, A, b, d, r, n);
      outi(act); outgv(res, n);
    } else if (!strcmp(op, "o_band")) {
      // band Cholesky factor + solve and band mat-vec on the band form of a dense SPD matrix
      int nt = geti(), nb = geti(), nd = geti(); double* A = getfv(nt * nt); double* b = getfv(nt); FINISH();
      if (nb < 1 || nd > nt) goto badop;
      int sz = (nt - nd) * nb + nd * nt; double* B = calloc(sz + 1, 8);
      mju_dense2Band(B, A, nt, nb, nd);
      double* mv = calloc(nt + 1, 8); mju_bandMulMatVec(mv, B, b, nt, nb, nd, 1, 1);
      double mind = mju_cholFactorBand(B, nt, nb, nd, 0, 0);
      double* x = calloc(nt + 1, 8); mju_cholSolveBand(x, B, b, nt, nb, nd);
      double* L = calloc(nt * nt + 1, 8); mju_band2Dense(L, B, nt, nb, nd, 0);
      outg(mind); outgv(mv, nt); outgv(x, nt); outgv(L, nt * nt);
    } else if (!strcmp(op, "o_sqr")) {
      // sparse M'*diag*M through transposeSparse + Symbolic + Numeric (as MakeHessian does), through
      // mju_sqrMatTDSparse and the row-based mju_sqrMatTDSparse_row on the uncompressed layout, each with the lower
      // triangle only and with diagind != NULL (upper triangle filled in); every result as a dense matrix + the dense
      // reference.  `super` = 1: the transposed supernodes computed by mju_transposeSparse are passed as rowsuperT.
      pat_t p = getpat(); if (bad) goto badop;
      double* m = getfv(p.cap); double* dg = getfv(p.nr); int super = geti(); FINISH();
      if (p.nr == 0 || p.nc == 0) goto badop;
      int nr = p.nr, nc = p.nc;
      int tot = 0; for (int r = 0; r < nr; r++) tot += p.rownnz[r];
      if (p.rowadr[0] != 0) goto badop;
      mjData* d = get_data();
      double* mT = calloc(tot + 1, 8); int* Tnnz = calloc(nc + 1, 4); int* Tadr = calloc(nc + 1, 4);
      int* Tcol = calloc(tot + 1, 4); int* Tsuper = super ? calloc(nc + 1, 4) : NULL;
      mju_transposeSparse(mT, m, nr, nc, Tnnz, Tadr, Tcol, Tsuper, p.rownnz, p.rowadr, p.colind);
      int* Hnnz = calloc(nc + 1, 4); int* Hadr = calloc(nc + 1, 4);
      int nH = mju_sqrMatTDSparseSymbolic(Hnnz, Hadr, NULL, NULL, nr, nc, p.rownnz, p.rowadr, p.colind,
                                          Tnnz, Tadr, Tcol, Tsuper, d);
      double* H = calloc(nH + 1, 8); int* Hcol = calloc(nH + 1, 4);
      mju_sqrMatTDSparseSymbolic(Hnnz, Hadr, Hcol, NULL, nr, nc, p.rownnz, p.rowadr, p.colind,
                                 Tnnz, Tadr, Tcol, Tsuper, d);
      mju_sqrMatTDSparseNumeric(H, nc, Hnnz, Hadr, Hcol, NULL, m, p.rownnz, p.rowadr, p.colind,
                                mT, Tnnz, Tadr, Tcol, Tsuper, dg, d);
      double* Hd = calloc(nc * nc + 1, 8); mju_sparse2dense(Hd, H, nc, nc, Hnnz, Hadr, Hcol);
      // legacy
      int* Lnnz = calloc(nc + 1, 4); int* Ladr = calloc(nc + 1, 4); int* Lcol = calloc(nc * nc + 1, 4);
      double* Lm = calloc(nc * nc + 1, 8);
      mju_sqrMatTDUncompressedInit(Ladr, nc);
      int* rsuper = calloc(nr + 1, 4); mju_superSparse(nr, rsuper, p.rownnz, p.rowadr, p.colind);
      mju_sqrMatTDSparse(Lm, m, mT, dg, nr, nc, Lnnz, Ladr, Lcol, p.rownnz, p.rowadr, p.colind, rsuper,
                         Tnnz, Tadr, Tcol, Tsuper, d, NULL);
      double* Ld = calloc(nc * nc + 1, 8); mju_sparse2dense(Ld, Lm, nc, nc, Lnnz, Ladr, Lcol);
      // dense reference
      double* Md = calloc(nr * nc + 1, 8); mju_sparse2dense(Md, m, nr, nc, p.rownnz, p.rowadr, p.colind);
      double* Rd = calloc(nc * nc + 1, 8); mju_sqrMatTD(Rd, Md, dg, nr, nc);
      outi(nH); outgv(Hd, nc * nc); outgv(Ld, nc * nc); outgv(Rd, nc * nc);
      // upper triangle filled in (diagind != NULL): Symbolic/Numeric, then mju_sqrMatTDSparse
      int* Unnz = calloc(nc + 1, 4); int* Uadr = calloc(nc + 1, 4); int* Udiag = calloc(nc + 1, 4);
      int nU = mju_sqrMatTDSparseSymbolic(Unnz, Uadr, NULL, Udiag, nr, nc, p.rownnz, p.rowadr, p.colind,
                                          Tnnz, Tadr, Tcol, Tsuper, d);
      double* U = calloc(nU + 1, 8); int* Ucol = calloc(nU + 1, 4);
      mju_sqrMatTDSparseSymbolic(Unnz, Uadr, Ucol, Udiag, nr, nc, p.rownnz, p.rowadr, p.colind,
                                 Tnnz, Tadr, Tcol, Tsuper, d);
      mju_sqrMatTDSparseNumeric(U, nc, Unnz, Uadr, Ucol, Udiag, m, p.rownnz, p.rowadr, p.colind,
                                mT, Tnnz, Tadr, Tcol, Tsuper, dg, d);
      double* Ud = calloc(nc * nc + 1, 8); mju_sparse2dense(Ud, U, nc, nc, Unnz, Uadr, Ucol);
      int diag_ok = 1;
      // (a column of M without entries has no diagonal entry in the symbolic pattern: diagind = rowadr - 1 there)
      for (int c = 0; c < nc; c++)
        if (Tnnz[c] && (Udiag[c] < Uadr[c] || Udiag[c] >= Uadr[c] + Unnz[c] || Ucol[Udiag[c]] != c)) diag_ok = 0;
      int* Fnnz = calloc(nc + 1, 4); int* Fcol = calloc(nc * nc + 1, 4); int* Fdiag = calloc(nc + 1, 4);
      double* Fm = calloc(nc * nc + 1, 8);
      mju_sqrMatTDSparse(Fm, m, mT, dg, nr, nc, Fnnz, Ladr, Fcol, p.rownnz, p.rowadr, p.colind, rsuper,
                         Tnnz, Tadr, Tcol, Tsuper, d, Fdiag);
      double* Fd = calloc(nc * nc + 1, 8); mju_sparse2dense(Fd, Fm, nc, nc, Fnnz, Ladr, Fcol);
      for (int c = 0; c < nc; c++)
        if (Fdiag[c] < Ladr[c] || Fdiag[c] >= Ladr[c] + Fnnz[c] || Fcol[Fdiag[c]] != c) diag_ok &= 1, diag_ok |= 2;
      // row-based variant, lower triangle
      int* Wnnz = calloc(nc + 1, 4); int* Wcol = calloc(nc * nc + 1, 4); double* Wm = calloc(nc * nc + 1, 8);
      mju_sqrMatTDSparse_row(Wm, m, mT, dg, nr, nc, Wnnz, Ladr, Wcol, p.rownnz, p.rowadr, p.colind, rsuper,
                             Tnnz, Tadr, Tcol, Tsuper, d, NULL);
      double* Wd = calloc(nc * nc + 1, 8); mju_sparse2dense(Wd, Wm, nc, nc, Wnnz, Ladr, Wcol);
      outi(nU); outi(diag_ok); outgv(Ud, nc * nc); outgv(Fd, nc * nc); outgv(Wd, nc * nc);
    } else if (!strcmp(op, "o_trmv")) {
      // consumer of the transposed supernodes: M' v as mulMatVecSparse(transposeSparse(M) with res_rowsuper) (the AVX
      // build batches the rows of a supernode and reads only the first row's colind; the scalar build ignores them),
      // plus the supernode array itself
      pat_t p = getpat(); if (bad) goto badop;
      double* m = getfv(p.cap); double* v = getfv(p.nr); FINISH();
      if (p.nr == 0 || p.nc == 0 || p.rowadr[0] != 0) goto badop;
      int nr = p.nr, nc = p.nc;
      int tot = 0; for (int r = 0; r < nr; r++) tot += p.rownnz[r];
      double* mT = calloc(tot + 1, 8); int* Tnnz = calloc(nc + 1, 4); int* Tadr = calloc(nc + 1, 4);
      int* Tcol = calloc(tot + 1, 4); int* Tsuper = calloc(nc + 1, 4);
      mju_transposeSparse(mT, m, nr, nc, Tnnz, Tadr, Tcol, Tsuper, p.rownnz, p.rowadr, p.colind);
      double* r = calloc(nc + 1, 8);
      mju_mulMatVecSparse(r, mT, v, nc, Tnnz, Tadr, Tcol, Tsuper);
      outiv(Tsuper, nc); outgv(r, nc);
    } else goto badop;
    putchar('\n');
    continue;
  badop:
    if (!first) { /* partial output is impossible: outputs are produced only after FINISH */ }
    printf("bad-op\n");
  }
  return 0;
}
