// C22 implementation-side driver: instantiates the *unmodified* macros of engine_sort.h and calls
// mju_insertionSortInt from the tree build; same line protocol as lean/Drivers/C22.lean.
#include <stdio.h>
#include <stdlib.h>
#include <string.h>
#include <mujoco/mujoco.h>
#include "engine/engine_sort.h"
#include "engine/engine_util_misc.h"

typedef struct { int key; int tag; } rec;
static int ncmp = 0;
static inline int reccmp(const rec* a, const rec* b, void* ctx) {
  (void)ctx; ncmp++;
  return a->key < b->key ? -1 : (a->key > b->key ? 1 : 0);
}
mjSORT(recsort, rec, reccmp);
mjPARTIAL_SORT(recpsort, rec, reccmp);

int main(void) {
  size_t cap = 1 << 20; char* line = malloc(cap);
  while (fgets(line, cap, stdin)) {
    char* save; char* tok = strtok_r(line, " \n", &save);
    if (!tok) { printf("bad-op\n"); continue; }
    int mode = !strcmp(tok, "sort") ? 0 : !strcmp(tok, "isort") ? 1 : !strcmp(tok, "psort") ? 2 : -1;
    if (mode < 0) { printf("bad-op\n"); continue; }
    int k = 0;
    if (mode == 2) { tok = strtok_r(NULL, " \n", &save); if (!tok) { printf("bad-op\n"); continue; } k = atoi(tok); }
    int n = 0, capn = 16; int* keys = malloc(capn * sizeof(int));
    while ((tok = strtok_r(NULL, " \n", &save))) {
      if (n == capn) { capn *= 2; keys = realloc(keys, capn * sizeof(int)); }
      keys[n++] = atoi(tok);
    }
    if (mode == 1) {
      mju_insertionSortInt(keys, n);
      for (int i = 0; i < n; i++) printf(i ? " %d" : "%d", keys[i]);
      printf("\n");
    } else {
      // canaries around arr and buf detect out-of-range writes
      rec* arr = malloc((n + 2) * sizeof(rec)); rec* buf = malloc((n + 2) * sizeof(rec));
      arr[0].key = arr[n + 1].key = buf[0].key = buf[n + 1].key = 0x5a5a5a5a;
      arr[0].tag = arr[n + 1].tag = buf[0].tag = buf[n + 1].tag = -7;
      for (int i = 0; i < n; i++) { arr[i + 1].key = keys[i]; arr[i + 1].tag = i; }
      if (mode == 0) recsort(arr + 1, buf + 1, n, NULL); else recpsort(arr + 1, buf + 1, n, k, NULL);
      int ok = arr[0].tag == -7 && arr[n + 1].tag == -7 && buf[0].tag == -7 && buf[n + 1].tag == -7;
      if (!ok) printf("canary-overwritten");
      else for (int i = 0; i < n; i++) printf(i ? " %d" : "%d", arr[i + 1].tag);
      printf("\n");
      free(arr); free(buf);
    }
    free(keys);
  }
  return 0;
}
