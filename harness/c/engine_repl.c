// engine_repl.c — shared implementation-side driver over the tree build (DESIGN.md §3.6).
// stdin: a model description (harness/mjbuild.h format, terminated by "end"), then commands, one per
// line; stdout: one result line per command.  Several models may follow each other: "model" starts
// a new description (previous model/data are freed).
//
//   model                          (followed by description lines ... end)   -> "ok nq nv na nu nmocap nbody ..." | "error <msg>"
//   data <k>                       make mjData in slot k                      -> ok
//   deldata <k>
//   set <k> <field> v...           write doubles/ints into d-><field> (prefix must fit)  -> ok
//   setm <field> v...              write into m-><field> (e.g. opt fields via "opt.<name>")
//   setat <k> <field> <i> v        write one element
//   get <k> <field>                print every element (doubles as 16-hex IEEE bits, ints decimal)
//   getm <field>
//   num <k> <field>                print with %.17g (for oracles in Python)
//   numm <field>
//   scalar <k> <name>              ncon nefc nisland nJ time pstack parena narena ... and warning counters "warn.<i>"
//   forward|inverse|step|step1|step2|kinematics|collision|resetdata <k> [n]
//   resetkey <k> <i>
//   copydata <dst> <src>
//   copystate <dst> <src> <sig>    (mj_copyState)
//   getstate <k> <sig> / setstate <k> <sig> v... / statesize <sig>
//   poison <k> <seed> <what>       fill derived arrays (what=derived), arena (what=arena) or both with junk
//   hash <k> <group>               64-bit FNV over the bytes of a group of fields: state | outputs | all
//   contacts <k>                   "ncon: geom1 geom2 dist(hex) ..." in order
//   errors                         number of mju_error calls caught since last query (and last message)
// Engine errors (mju_error) are caught with longjmp and reported as "error <msg>" for that command.
#include <math.h>
#include <setjmp.h>
#include <stdint.h>
#include <stdio.h>
#include <stdlib.h>
#include <string.h>
#include <mujoco/mujoco.h>
#include <mujoco/mjxmacro.h>
#include "mjbuild.h"
// sizes inside the X-macros refer to the current model / data
#undef MJ_M
#undef MJ_D
#define MJ_M(n) m->n
#define MJ_D(n) d->n

#define NSLOT 16
static mjModel* m = NULL;
static mjSpec* spec = NULL;
static mjData* D[NSLOT];
static jmp_buf jb;
static int jb_armed = 0;
static char lasterr[1024];
static int nerr = 0, nwarn = 0;

static void on_error(const char* msg) {
  snprintf(lasterr, sizeof lasterr, "%s", msg);
  for (char* c = lasterr; *c; c++) if (*c == '\n') *c = ' ';
  nerr++;
  if (jb_armed) longjmp(jb, 1);
  fprintf(stderr, "unguarded mju_error: %s\n", msg);
  exit(3);
}
static void on_warning(const char* msg) { (void)msg; nwarn++; }

typedef struct { const char* name; int type; void* ptr; long n; } Field;  // type 0 double 1 int 2 byte 3 size_t/other8
#define MAXF 1024
static Field F[MAXF];
static int nF;

static int tcode_mjtNum = 0, tcode_int = 1, tcode_mjtByte = 2, tcode_mjtBool = 2, tcode_float = 4, tcode_uintptr_t = 3,
           tcode_mjtSize = 3, tcode_size_t = 3, tcode_mjContact = 5, tcode_mjWarningStat = 5, tcode_mjTimerStat = 5,
           tcode_mjSolverStat = 5, tcode_char = 2, tcode_mjtObj = 1, tcode_uint64_t = 3, tcode_double = 0,
           tcode_mjtSleepState = 1;

static void add(const char* name, int type, void* ptr, long n) {
  if (nF < MAXF) { F[nF].name = name; F[nF].type = type; F[nF].ptr = ptr; F[nF].n = n; nF++; }
}

// field table for mjData d (rebuilt on demand because arena pointers move)
static void fields_data(mjData* d) {
  nF = 0;
#define X(type, name, nr, nc) add(#name, tcode_##type, d->name, (long)(m->nr) * (long)(nc));
#define XNV X
  MJDATA_POINTERS
#undef XNV
#undef X
#define X(type, name, nr, nc) add(#name, tcode_##type, d->name, d->name ? (long)(nr) * (long)(nc) : 0);
#define XNV X
  MJDATA_ARENA_POINTERS
#undef XNV
#undef X
  add("time", 0, &d->time, 1);
  add("energy", 0, d->energy, 2);
}

static void fields_model(void) {
  nF = 0;
#define X(type, name, nr, nc) add(#name, tcode_##type, m->name, (long)(m->nr) * (long)(nc));
#define XNV X
  MJMODEL_POINTERS
#undef XNV
#undef X
  // mjOption fields (scalars and small vectors)
  add("opt.timestep", 0, &m->opt.timestep, 1); add("opt.impratio", 0, &m->opt.impratio, 1);
  add("opt.tolerance", 0, &m->opt.tolerance, 1); add("opt.ls_tolerance", 0, &m->opt.ls_tolerance, 1);
  add("opt.noslip_tolerance", 0, &m->opt.noslip_tolerance, 1); add("opt.ccd_tolerance", 0, &m->opt.ccd_tolerance, 1);
  add("opt.sleep_tolerance", 0, &m->opt.sleep_tolerance, 1);
  add("opt.gravity", 0, m->opt.gravity, 3); add("opt.wind", 0, m->opt.wind, 3); add("opt.magnetic", 0, m->opt.magnetic, 3);
  add("opt.density", 0, &m->opt.density, 1); add("opt.viscosity", 0, &m->opt.viscosity, 1);
  add("opt.o_margin", 0, &m->opt.o_margin, 1); add("opt.o_solref", 0, m->opt.o_solref, mjNREF);
  add("opt.o_solimp", 0, m->opt.o_solimp, mjNIMP); add("opt.o_friction", 0, m->opt.o_friction, 5);
  add("opt.integrator", 1, &m->opt.integrator, 1); add("opt.cone", 1, &m->opt.cone, 1);
  add("opt.jacobian", 1, &m->opt.jacobian, 1); add("opt.solver", 1, &m->opt.solver, 1);
  add("opt.iterations", 1, &m->opt.iterations, 1); add("opt.ls_iterations", 1, &m->opt.ls_iterations, 1);
  add("opt.noslip_iterations", 1, &m->opt.noslip_iterations, 1); add("opt.ccd_iterations", 1, &m->opt.ccd_iterations, 1);
  add("opt.disableflags", 1, &m->opt.disableflags, 1); add("opt.enableflags", 1, &m->opt.enableflags, 1);
  add("opt.disableactuator", 1, &m->opt.disableactuator, 1);
}

static Field* find(const char* name) {
  for (int i = 0; i < nF; i++) if (!strcmp(F[i].name, name)) return &F[i];
  return NULL;
}

static void print_field(Field* f, int numeric) {
  printf("%ld:", f->n);
  for (long i = 0; i < f->n; i++) {
    switch (f->type) {
      case 0: {
        double x = ((double*)f->ptr)[i];
        if (numeric) printf(" %.17g", x);
        else if (x != x) printf(" nan");
        else { uint64_t u; memcpy(&u, &x, 8); printf(" %016llx", (unsigned long long)u); }
        break;
      }
      case 1: printf(" %d", ((int*)f->ptr)[i]); break;
      case 2: printf(" %d", (int)((unsigned char*)f->ptr)[i]); break;
      case 3: printf(" %llu", (unsigned long long)((uint64_t*)f->ptr)[i]); break;
      case 4: printf(" %.9g", (double)((float*)f->ptr)[i]); break;
      default: printf(" ?"); break;
    }
  }
  printf("\n");
}

static int write_field(Field* f, long off, char** tok, int n) {
  if (off < 0 || off + n > f->n) return 0;
  for (int i = 0; i < n; i++) {
    switch (f->type) {
      case 0: {
        double x;
        if (!strcmp(tok[i], "nan")) x = NAN;
        else if (!strcmp(tok[i], "inf")) x = INFINITY;
        else if (!strcmp(tok[i], "-inf")) x = -INFINITY;
        else if (tok[i][0] == 'x') { uint64_t u = strtoull(tok[i] + 1, NULL, 16); memcpy(&x, &u, 8); }
        else x = strtod(tok[i], NULL);
        ((double*)f->ptr)[off + i] = x; break;
      }
      case 1: ((int*)f->ptr)[off + i] = (int)strtol(tok[i], NULL, 0); break;
      case 2: ((unsigned char*)f->ptr)[off + i] = (unsigned char)strtol(tok[i], NULL, 0); break;
      case 3: ((uint64_t*)f->ptr)[off + i] = strtoull(tok[i], NULL, 0); break;
      case 4: ((float*)f->ptr)[off + i] = (float)strtod(tok[i], NULL); break;
      default: return 0;
    }
  }
  return 1;
}

static uint64_t fnv(uint64_t h, const void* p, size_t n) {
  const unsigned char* c = (const unsigned char*)p;
  for (size_t i = 0; i < n; i++) { h ^= c[i]; h *= 1099511628211ULL; }
  return h;
}

static const char* STATE_FIELDS[] = {"time", "qpos", "qvel", "act", "history", "qacc_warmstart", "plugin_state", "ctrl", "qfrc_applied",
                                     "xfrc_applied", "eq_active", "mocap_pos", "mocap_quat", "userdata", NULL};
// fields that are inputs/bookkeeping rather than results of forward/step
static int is_state(const char* nm) { for (int i = 0; STATE_FIELDS[i]; i++) if (!strcmp(nm, STATE_FIELDS[i])) return 1; return 0; }
static int is_noncomparable(const char* nm) { return !strcmp(nm, "plugin_data") || !strcmp(nm, "plugin") || !strcmp(nm, "contact"); }

static size_t tsize(int t) { return t == 0 ? 8 : t == 1 ? 4 : t == 2 ? 1 : t == 3 ? 8 : t == 4 ? 4 : 0; }

static uint64_t hash_group(mjData* d, const char* group) {
  fields_data(d);
  uint64_t h = 1469598103934665603ULL;
  for (int i = 0; i < nF; i++) {
    if (is_noncomparable(F[i].name) || !F[i].ptr || tsize(F[i].type) == 0) continue;
    int st = is_state(F[i].name);
    if ((!strcmp(group, "state") && !st) || (!strcmp(group, "outputs") && st)) continue;
    h = fnv(h, F[i].name, strlen(F[i].name));
    h = fnv(h, F[i].ptr, (size_t)F[i].n * tsize(F[i].type));
  }
  if (strcmp(group, "state")) {
    // contacts: hash the semantic fields only (padding bytes are unspecified)
    h = fnv(h, &d->ncon, sizeof(int)); h = fnv(h, &d->nefc, sizeof(int)); h = fnv(h, &d->nisland, sizeof(int));
    for (int i = 0; i < d->ncon; i++) {
      mjContact* c = d->contact + i;
      h = fnv(h, &c->dist, 8); h = fnv(h, c->pos, 24); h = fnv(h, c->frame, 72); h = fnv(h, &c->includemargin, 8);
      h = fnv(h, c->friction, 40); h = fnv(h, c->solref, sizeof c->solref); h = fnv(h, c->solimp, sizeof c->solimp);
      h = fnv(h, &c->mu, 8); h = fnv(h, c->H, sizeof c->H); h = fnv(h, &c->dim, 4); h = fnv(h, &c->geom1, 4); h = fnv(h, &c->geom2, 4);
      h = fnv(h, &c->exclude, 4); h = fnv(h, &c->efc_address, 4);
    }
    h = fnv(h, d->energy, 16);
  }
  return h;
}

static uint64_t rng_s;
static uint64_t rnd(void) { rng_s ^= rng_s << 13; rng_s ^= rng_s >> 7; rng_s ^= rng_s << 17; return rng_s; }

static void poison(mjData* d, uint64_t seed, const char* what) {
  rng_s = seed * 2654435761ULL + 88172645463325252ULL;
  int derived = !strcmp(what, "derived") || !strcmp(what, "both");
  int arena = !strcmp(what, "arena") || !strcmp(what, "both");
  if (derived) {
    nF = 0;
#define X(type, name, nr, nc) add(#name, tcode_##type, d->name, (long)(m->nr) * (long)(nc));
#define XNV X
    MJDATA_POINTERS
#undef XNV
#undef X
    for (int i = 0; i < nF; i++) {
      if (is_state(F[i].name) || is_noncomparable(F[i].name) || !strcmp(F[i].name, "tree_asleep")) continue;
      size_t nb = (size_t)F[i].n * tsize(F[i].type);
      unsigned char* p = (unsigned char*)F[i].ptr;
      if (F[i].type == 0) { for (long k = 0; k < F[i].n; k++) ((double*)p)[k] = (double)(int64_t)(rnd() % 2001) - 1000.0 + 0.37; }
      else if (F[i].type == 1) { for (long k = 0; k < F[i].n; k++) ((int*)p)[k] = (int)(rnd() % 7); }
      else for (size_t k = 0; k < nb; k++) p[k] = (unsigned char)rnd();
    }
    d->energy[0] = 123.25; d->energy[1] = -7.5;
  }
  if (arena) {
    // junk in the unused part of the arena (between parena and the stack) and, when nothing is allocated, everywhere
    unsigned char* a = (unsigned char*)d->arena;
    size_t lo = d->parena, hi = d->narena - d->pstack;
    for (size_t k = lo; k < hi; k++) a[k] = (unsigned char)rnd();
  }
}

#define SLOT(i) (((i) >= 0 && (i) < NSLOT) ? D[i] : NULL)

int main(void) {
  mju_user_error = on_error;
  mju_user_warning = on_warning;
  static char line[1 << 20];
  static char* tok[1 << 16];
  while (fgets(line, sizeof line, stdin)) {
    int n = 0; char* save; char* t = strtok_r(line, " \t\r\n", &save);
    while (t && n < (1 << 16)) { tok[n++] = t; t = strtok_r(NULL, " \t\r\n", &save); }
    if (!n) { printf("bad-op\n"); fflush(stdout); continue; }
    const char* op = tok[0];
    jb_armed = 1;
    if (setjmp(jb)) { jb_armed = 0; printf("error %s\n", lasterr); fflush(stdout); continue; }
    if (!strcmp(op, "model")) {
      for (int i = 0; i < NSLOT; i++) if (D[i]) { mj_deleteData(D[i]); D[i] = NULL; }
      if (m) { mj_deleteModel(m); m = NULL; }
      if (spec) { mj_deleteSpec(spec); spec = NULL; }
      char err[1024];
      m = mjb_compile(stdin, &spec, err, sizeof err);
      if (!m) printf("error %s\n", err);
      else printf("ok nq %d nv %d na %d nu %d nmocap %d nbody %d ngeom %d njnt %d nsensordata %d neq %d ntree %d nkey %d narena %llu\n",
                  (int)m->nq, (int)m->nv, (int)m->na, (int)m->nu, (int)m->nmocap, (int)m->nbody, (int)m->ngeom, (int)m->njnt,
                  (int)m->nsensordata, (int)m->neq, (int)m->ntree, (int)m->nkey, (unsigned long long)m->narena);
    } else if (!m) {
      printf("error no model\n");
    } else if (!strcmp(op, "data") && n == 2) {
      int k = atoi(tok[1]);
      if (k < 0 || k >= NSLOT) printf("bad-op\n");
      else { if (D[k]) mj_deleteData(D[k]); D[k] = mj_makeData(m); printf(D[k] ? "ok\n" : "error makeData\n"); }
    } else if (!strcmp(op, "deldata") && n == 2) {
      int k = atoi(tok[1]);
      if (SLOT(k)) { mj_deleteData(D[k]); D[k] = NULL; printf("ok\n"); } else printf("bad-op\n");
    } else if ((!strcmp(op, "set") || !strcmp(op, "get") || !strcmp(op, "num") || !strcmp(op, "setat")) && n >= 3) {
      mjData* d = SLOT(atoi(tok[1]));
      if (!d) { printf("bad-op\n"); fflush(stdout); continue; }
      fields_data(d);
      Field* f = find(tok[2]);
      if (!f) printf("bad-op\n");
      else if (!strcmp(op, "get")) print_field(f, 0);
      else if (!strcmp(op, "num")) print_field(f, 1);
      else if (!strcmp(op, "set")) printf(write_field(f, 0, tok + 3, n - 3) ? "ok\n" : "bad-op\n");
      else printf((n == 5 && write_field(f, atol(tok[3]), tok + 4, 1)) ? "ok\n" : "bad-op\n");
    } else if ((!strcmp(op, "setm") || !strcmp(op, "getm") || !strcmp(op, "numm")) && n >= 2) {
      fields_model();
      Field* f = find(tok[1]);
      if (!f) printf("bad-op\n");
      else if (!strcmp(op, "getm")) print_field(f, 0);
      else if (!strcmp(op, "numm")) print_field(f, 1);
      else printf(write_field(f, 0, tok + 2, n - 2) ? "ok\n" : "bad-op\n");
    } else if (!strcmp(op, "scalar") && n == 3) {
      mjData* d = SLOT(atoi(tok[1]));
      const char* s = tok[2];
      if (!d) printf("bad-op\n");
      else if (!strcmp(s, "ncon")) printf("%d\n", d->ncon);
      else if (!strcmp(s, "nefc")) printf("%d\n", d->nefc);
      else if (!strcmp(s, "ne")) printf("%d\n", d->ne);
      else if (!strcmp(s, "nf")) printf("%d\n", d->nf);
      else if (!strcmp(s, "nl")) printf("%d\n", d->nl);
      else if (!strcmp(s, "nisland")) printf("%d\n", d->nisland);
      else if (!strcmp(s, "nJ")) printf("%d\n", (int)d->nJ);
      else if (!strcmp(s, "pstack")) printf("%llu\n", (unsigned long long)d->pstack);
      else if (!strcmp(s, "pbase")) printf("%llu\n", (unsigned long long)d->pbase);
      else if (!strcmp(s, "parena")) printf("%llu\n", (unsigned long long)d->parena);
      else if (!strcmp(s, "narena")) printf("%llu\n", (unsigned long long)d->narena);
      else if (!strcmp(s, "time")) printf("%.17g\n", d->time);
      else if (!strncmp(s, "warn.", 5)) { int w = atoi(s + 5); if (w >= 0 && w < mjNWARNING) printf("%d\n", d->warning[w].number); else printf("bad-op\n"); }
      else if (!strcmp(s, "solver_niter")) printf("%d\n", d->solver_niter[0]);
      else printf("bad-op\n");
    } else if ((!strcmp(op, "forward") || !strcmp(op, "inverse") || !strcmp(op, "step") || !strcmp(op, "step1") || !strcmp(op, "step2") ||
                !strcmp(op, "kinematics") || !strcmp(op, "collision") || !strcmp(op, "resetdata") || !strcmp(op, "fwdPosition") ||
                !strcmp(op, "fwdVelocity") || !strcmp(op, "energy")) && n >= 2) {
      mjData* d = SLOT(atoi(tok[1]));
      int reps = n > 2 ? atoi(tok[2]) : 1;
      if (!d) { printf("bad-op\n"); fflush(stdout); continue; }
      for (int r = 0; r < reps; r++) {
        if (!strcmp(op, "forward")) mj_forward(m, d);
        else if (!strcmp(op, "inverse")) mj_inverse(m, d);
        else if (!strcmp(op, "step")) mj_step(m, d);
        else if (!strcmp(op, "step1")) mj_step1(m, d);
        else if (!strcmp(op, "step2")) mj_step2(m, d);
        else if (!strcmp(op, "kinematics")) mj_kinematics(m, d);
        else if (!strcmp(op, "collision")) mj_collision(m, d);
        else if (!strcmp(op, "fwdPosition")) mj_fwdPosition(m, d);
        else if (!strcmp(op, "fwdVelocity")) mj_fwdVelocity(m, d);
        else if (!strcmp(op, "energy")) { mj_energyPos(m, d); mj_energyVel(m, d); }
        else mj_resetData(m, d);
      }
      printf("ok\n");
    } else if (!strcmp(op, "resetkey") && n == 3) {
      mjData* d = SLOT(atoi(tok[1]));
      if (!d) printf("bad-op\n"); else { mj_resetDataKeyframe(m, d, atoi(tok[2])); printf("ok\n"); }
    } else if (!strcmp(op, "copydata") && n == 3) {
      mjData* a = SLOT(atoi(tok[1])); mjData* b = SLOT(atoi(tok[2]));
      if (!a || !b) printf("bad-op\n"); else { mj_copyData(a, m, b); printf("ok\n"); }
    } else if (!strcmp(op, "copystate") && n == 4) {
      mjData* a = SLOT(atoi(tok[1])); mjData* b = SLOT(atoi(tok[2]));
      if (!a || !b) printf("bad-op\n"); else { mj_copyState(m, b, a, (int)strtol(tok[3], NULL, 0)); printf("ok\n"); }
    } else if (!strcmp(op, "statesize") && n == 2) {
      printf("%d\n", (int)mj_stateSize(m, (int)strtol(tok[1], NULL, 0)));
    } else if (!strcmp(op, "getstate") && n == 3) {
      mjData* d = SLOT(atoi(tok[1])); int sig = (int)strtol(tok[2], NULL, 0);
      if (!d) { printf("bad-op\n"); fflush(stdout); continue; }
      int sz = (int)mj_stateSize(m, sig); double* v = (double*)malloc(sizeof(double) * (sz + 1));
      mj_getState(m, d, v, sig);
      printf("%d:", sz);
      for (int i = 0; i < sz; i++) { uint64_t u; memcpy(&u, v + i, 8); if (v[i] != v[i]) printf(" nan"); else printf(" %016llx", (unsigned long long)u); }
      printf("\n"); free(v);
    } else if (!strcmp(op, "setstate") && n >= 3) {
      mjData* d = SLOT(atoi(tok[1])); int sig = (int)strtol(tok[2], NULL, 0);
      if (!d) { printf("bad-op\n"); fflush(stdout); continue; }
      int sz = (int)mj_stateSize(m, sig);
      if (sz != n - 3) printf("bad-op\n");
      else {
        double* v = (double*)malloc(sizeof(double) * (sz + 1));
        for (int i = 0; i < sz; i++) { if (tok[3 + i][0] == 'x') { uint64_t u = strtoull(tok[3 + i] + 1, NULL, 16); memcpy(v + i, &u, 8); } else v[i] = strtod(tok[3 + i], NULL); }
        mj_setState(m, d, v, sig); free(v); printf("ok\n");
      }
    } else if (!strcmp(op, "poison") && n == 4) {
      mjData* d = SLOT(atoi(tok[1]));
      if (!d) printf("bad-op\n"); else { poison(d, strtoull(tok[2], NULL, 0), tok[3]); printf("ok\n"); }
    } else if (!strcmp(op, "hash") && n == 3) {
      mjData* d = SLOT(atoi(tok[1]));
      if (!d) printf("bad-op\n"); else printf("%016llx\n", (unsigned long long)hash_group(d, tok[2]));
    } else if (!strcmp(op, "contacts") && n == 2) {
      mjData* d = SLOT(atoi(tok[1]));
      if (!d) { printf("bad-op\n"); fflush(stdout); continue; }
      printf("%d:", d->ncon);
      for (int i = 0; i < d->ncon; i++) { uint64_t u; memcpy(&u, &d->contact[i].dist, 8); printf(" %d %d %d %016llx", d->contact[i].geom1, d->contact[i].geom2, d->contact[i].dim, (unsigned long long)u); }
      printf("\n");
    } else if (!strcmp(op, "errors")) {
      printf("%d %d %s\n", nerr, nwarn, nerr ? lasterr : "-");
      nerr = 0; nwarn = 0;
    } else {
      printf("bad-op\n");
    }
    jb_armed = 0;
    fflush(stdout);
  }
  return 0;
}
