// c43_engine.c — the C side of C43: the tree's engine on a model description, with everything the shared REPL
// offers (its field tables and helpers are reused by including the file; its main is not used) plus the full
// contact list, which the shared REPL does not print.
//
//   model            (followed by description lines ... end)   -> "ok nq .. " | "error <msg>"
//   data <k> | set <k> <field> v... | num <k> <field> | numm <field> | setm <field> v... | scalar <k> <name>
//   forward <k> | step <k> [n] | resetdata <k>
//   contactsfull <k>   -> "ncon: g1 g2 dim exclude dist includemargin pos(3) frame(9) efc_address | ..."   (%.17g)
//   efcnz <k>          -> "nefc: b b b ..."  b = 1 iff the row's Jacobian has a non-zero entry (dense or sparse storage)
//   kbip <rs> <ts> <sr0> <sr1> <d0> <d1> <width> <mid> <power> <pos>     (16-hex-digit IEEE tokens; rs = 1: REFSAFE active, 0: disabled)
//                    requires a model whose first equality is a single-joint `joint` equality on the only (scalar) joint: writes
//                    eq_solref/eq_solimp of equality 0, opt.timestep, the REFSAFE bit and qpos[0], runs mj_forward (the real
//                    getsolparam / getimpedance / mj_makeImpedance) and prints (efc_pos-efc_margin) K B I of row 0 as hex tokens
// Engine errors (mju_error) are caught and reported as "error <msg>".
#define main engine_repl_main_unused
#include "engine_repl.c"
#undef main

int main(void) {
  mju_user_error = on_error;
  mju_user_warning = on_warning;
  static char line[1 << 20];
  static char* tok[1 << 16];
  while (fgets(line, sizeof line, stdin)) {
    int n = 0; char* save; char* t = strtok_r(line, " \t\r\n", &save);
    while (t && n < (1 << 16)) { tok[n++] = t; t = strtok_r(NULL, " \t\r\n", &save); }
    if (!n) { printf("bad-op\n"); fflush(stdout); continue; }
    const char* op = tok[0];
    jb_armed = 1;
    if (setjmp(jb)) { jb_armed = 0; printf("error %s\n", lasterr); fflush(stdout); continue; }
    if (!strcmp(op, "model")) {
      for (int i = 0; i < NSLOT; i++) if (D[i]) { mj_deleteData(D[i]); D[i] = NULL; }
      if (m) { mj_deleteModel(m); m = NULL; }
      if (spec) { mj_deleteSpec(spec); spec = NULL; }
      char err[1024];
      m = mjb_compile(stdin, &spec, err, sizeof err);
      if (!m) printf("error %s\n", err);
      else printf("ok nq %d nv %d na %d nu %d nmocap %d nbody %d ngeom %d njnt %d nsensordata %d neq %d ntendon %d nsite %d ncam %d nC %d nuserdata %d\n",
                  (int)m->nq, (int)m->nv, (int)m->na, (int)m->nu, (int)m->nmocap, (int)m->nbody, (int)m->ngeom, (int)m->njnt,
                  (int)m->nsensordata, (int)m->neq, (int)m->ntendon, (int)m->nsite, (int)m->ncam, (int)m->nC, (int)m->nuserdata);
    } else if (!m) {
      printf("error no model\n");
    } else if (!strcmp(op, "data") && n == 2) {
      int k = atoi(tok[1]);
      if (k < 0 || k >= NSLOT) printf("bad-op\n");
      else { if (D[k]) mj_deleteData(D[k]); D[k] = mj_makeData(m); printf(D[k] ? "ok\n" : "error makeData\n"); }
    } else if ((!strcmp(op, "set") || !strcmp(op, "num")) && n >= 3) {
      mjData* d = SLOT(atoi(tok[1]));
      if (!d) { printf("bad-op\n"); fflush(stdout); continue; }
      fields_data(d);
      Field* f = find(tok[2]);
      if (!f) printf("bad-op\n");
      else if (!strcmp(op, "num")) print_field(f, 1);
      else printf(write_field(f, 0, tok + 3, n - 3) ? "ok\n" : "bad-op\n");
    } else if ((!strcmp(op, "setm") || !strcmp(op, "numm")) && n >= 2) {
      fields_model();
      Field* f = find(tok[1]);
      if (!f) printf("bad-op\n");
      else if (!strcmp(op, "numm")) print_field(f, 1);
      else printf(write_field(f, 0, tok + 2, n - 2) ? "ok\n" : "bad-op\n");
    } else if (!strcmp(op, "scalar") && n == 3) {
      mjData* d = SLOT(atoi(tok[1]));
      const char* s = tok[2];
      if (!d) printf("bad-op\n");
      else if (!strcmp(s, "ncon")) printf("%d\n", d->ncon);
      else if (!strcmp(s, "nefc")) printf("%d\n", d->nefc);
      else if (!strcmp(s, "ne")) printf("%d\n", d->ne);
      else if (!strcmp(s, "nf")) printf("%d\n", d->nf);
      else if (!strcmp(s, "nl")) printf("%d\n", d->nl);
      else if (!strcmp(s, "time")) printf("%.17g\n", d->time);
      else if (!strcmp(s, "solver_niter")) printf("%d\n", d->solver_niter[0]);
      else if (!strncmp(s, "warn.", 5)) { int w = atoi(s + 5); if (w >= 0 && w < mjNWARNING) printf("%d\n", d->warning[w].number); else printf("bad-op\n"); }
      else printf("bad-op\n");
    } else if ((!strcmp(op, "forward") || !strcmp(op, "step") || !strcmp(op, "resetdata")) && n >= 2) {
      mjData* d = SLOT(atoi(tok[1]));
      int reps = n > 2 ? atoi(tok[2]) : 1;
      if (!d) { printf("bad-op\n"); fflush(stdout); continue; }
      for (int r = 0; r < reps; r++) {
        if (!strcmp(op, "forward")) mj_forward(m, d);
        else if (!strcmp(op, "step")) mj_step(m, d);
        else mj_resetData(m, d);
      }
      printf("ok\n");
    } else if (!strcmp(op, "efcnz") && n == 2) {
      mjData* d = SLOT(atoi(tok[1]));
      if (!d) { printf("bad-op\n"); fflush(stdout); continue; }
      printf("%d:", d->nefc);
      for (int i = 0; i < d->nefc; i++) {
        int nz = 0;
        if (mj_isSparse(m)) { for (int j = 0; j < d->efc_J_rownnz[i]; j++) if (d->efc_J[d->efc_J_rowadr[i] + j] != 0) nz = 1; }
        else { for (int j = 0; j < m->nv; j++) if (d->efc_J[(size_t)i * m->nv + j] != 0) nz = 1; }
        printf(" %d", nz);
      }
      printf("\n");
    } else if (!strcmp(op, "kbip") && n == 11) {
      mjData* d = SLOT(0);
      double v[10]; int okp = 1;
      for (int i = 0; i < 10; i++) {
        if (strlen(tok[1 + i]) != 16 || strspn(tok[1 + i], "0123456789abcdef") != 16) { okp = 0; break; }
        uint64_t u = strtoull(tok[1 + i], NULL, 16); memcpy(v + i, &u, 8);
      }
      if (!okp || !(v[0] == 0.0 || v[0] == 1.0)) printf("bad-op\n");
      else if (!d || m->neq < 1 || m->eq_type[0] != mjEQ_JOINT || m->eq_obj2id[0] != -1 || m->nq != 1 || m->nv != 1) printf("error kbip needs the one-joint-equality model and data slot 0\n");
      else {
        m->opt.timestep = v[1];
        if (v[0] == 1.0) m->opt.disableflags &= ~mjDSBL_REFSAFE; else m->opt.disableflags |= mjDSBL_REFSAFE;
        m->eq_solref[0] = v[2]; m->eq_solref[1] = v[3];
        for (int i = 0; i < 5; i++) m->eq_solimp[i] = v[4 + i];
        d->qpos[0] = v[9];
        mj_forward(m, d);
        if (d->nefc < 1 || d->efc_type[0] != mjCNSTR_EQUALITY) printf("error kbip: no equality row\n");
        else {
          double o[4] = { d->efc_pos[0] - d->efc_margin[0], d->efc_KBIP[0], d->efc_KBIP[1], d->efc_KBIP[2] };
          for (int i = 0; i < 4; i++) { uint64_t u; memcpy(&u, o + i, 8); if (o[i] != o[i]) printf("%snan", i ? " " : ""); else printf("%s%016llx", i ? " " : "", (unsigned long long)u); }
          printf("\n");
        }
      }
    } else if (!strcmp(op, "contactsfull") && n == 2) {
      mjData* d = SLOT(atoi(tok[1]));
      if (!d) { printf("bad-op\n"); fflush(stdout); continue; }
      printf("%d:", d->ncon);
      for (int i = 0; i < d->ncon; i++) {
        mjContact* c = d->contact + i;
        printf(" %d %d %d %d %.17g %.17g", c->geom[0], c->geom[1], c->dim, c->exclude, c->dist, c->includemargin);
        for (int j = 0; j < 3; j++) printf(" %.17g", c->pos[j]);
        for (int j = 0; j < 9; j++) printf(" %.17g", c->frame[j]);
        printf(" %d |", c->efc_address);
      }
      printf("\n");
    } else {
      printf("bad-op\n");
    }
    jb_armed = 0;
    fflush(stdout);
  }
  return 0;
}
