// c05_integrate.c — implementation-side driver of property C05 (time integration).
//
// Everything here calls the REAL code of the tree build (libmujoco_verif.so).  Two kinds of ops:
//
// (1) direct ops (same line goes to the Lean driver drv_c05; outputs are compared bitwise):
//     TAB                                 RK4_A[9] RK4_B[4] of engine_forward.c (exported const arrays)
//     CLIP x lo hi                        mju_clip
//     QI q0 q1 q2 q3 v0 v1 v2 h           mju_quatIntegrate
//     IP n t1..tn h | qpos.. | qvel..     mj_integratePos on a hand-built mjModel holding only the joint layout
//     NA dyn lim off h act adot vel lo hi p0 p2 p5 p7 p8 g5 b3 b4 b5
//                                         mj_nextActivation on a hand-built one-actuator mjModel/mjData
//     floats are 16 hex digits (IEEE bits), ints decimal.  Malformed -> bad-op.
//
// (2) engine-trace ops (answered by this harness only; checks/c05.py feeds the trace to the Lean model):
//     model <description lines joined by '|'>     (harness/mjbuild.h format)        -> ok ... | error <msg>
//     set <field> v...        time qpos qvel act ctrl qfrc_applied xfrc_applied mocap_pos mocap_quat
//     setopt integrator|disableflags|enableflags|disableactuator <int> , setopt timestep <double>
//     info                    static parameters of the loaded model (joint layout, activation slots, wrap data)
//     step                    one mj_step; prints the trace record of that step
//     stepd [eps]             the same, and the record also carries the velocity-derivative data of that step
//                             (groups d_*): central differences (default eps 1e-6) of the engine's OWN smooth forces
//                             qfrc_passive / qfrc_actuator / qfrc_bias (and of the per-term arrays qfrc_damper, qfrc_fluid,
//                             qfrc_spring, qfrc_gravcomp) with respect to qvel at the pre-step state, taken on a scratch
//                             copy of mjData with mj_fwdVelocity + mj_fwdActuation under the CURRENT option flags; the
//                             dense qDeriv that mj_step left behind (the D of the implicit solve), its sparsity pattern,
//                             the dense M, the 6x6 blocks of mjd_freeMhat for standalone free bodies, and two
//                             classification aids (mjd_smooth_vel with d->ctrl clamped to ctrlrange; number of
//                             ellipsoid-fluid geoms whose mjMINVAL guard in mjd_viscous_drag is active)
//     The trace is taken by ELF symbol interposition: this executable defines mj_forwardSkip, mju_addToScl and
//     mj_integratePosInd, records their arguments and forwards to the library's definitions (dlsym RTLD_NEXT).
//     So the record holds the engine's own stage states / derivatives (every mj_forwardSkip call of the step),
//     the acceleration vector that mj_advance really added to d->qvel, and the velocity vector that it really
//     used to integrate d->qpos — for every integrator, without modifying or recompiling any engine code.
#define _GNU_SOURCE
#include <dlfcn.h>
#include <math.h>
#include <setjmp.h>
#include <stdint.h>
#include <stdio.h>
#include <stdlib.h>
#include <string.h>
#include <mujoco/mujoco.h>
#include "mjbuild.h"
#include "engine/engine_support.h"
#include "engine/engine_core_util.h"
#include "engine/engine_derivative.h"
#include "engine/engine_util_misc.h"
#include "engine/engine_util_spatial.h"

extern const mjtNum RK4_A[9];
extern const mjtNum RK4_B[4];

static mjModel* m = NULL;
static mjSpec* spec = NULL;
static mjData* d = NULL;
static jmp_buf jb;
static int jb_armed = 0;
static char lasterr[1024];

static void on_error(const char* msg) {
  snprintf(lasterr, sizeof lasterr, "%s", msg);
  for (char* c = lasterr; *c; c++) if (*c == '\n') *c = ' ';
  if (jb_armed) longjmp(jb, 1);
  fprintf(stderr, "unguarded mju_error: %s\n", msg);
  exit(3);
}
static int nwarn = 0;
static void on_warning(const char* msg) { (void)msg; nwarn++; }

// ------------------------------------------------------------------------------------------- trace buffers
#define MAXFW 8
typedef struct {
  double time; double *qpos, *qvel, *act, *qacc, *act_dot, *avel, *alen;
} FwRec;
static FwRec fw[MAXFW];
static int nfw = 0, tracing = 0;
static double *tr_acc = NULL; static double tr_acc_scl; static int n_acc = 0;     // mju_addToScl(d->qvel, vec, scl, nv)
static double *tr_pvel = NULL; static double tr_pvel_dt; static int n_pvel = 0;   // mj_integratePosInd(m, d->qpos, vel, dt, ..)
static int tr_pvel_isdqvel = 0, tr_pvel_index_null = 0, tr_pvel_nbody = 0;

static double* dup(const double* p, int n) {
  double* r = (double*)malloc(sizeof(double) * (n > 0 ? n : 1));
  if (n > 0) memcpy(r, p, sizeof(double) * n);
  return r;
}
static void free_trace(void) {
  for (int i = 0; i < nfw; i++) { free(fw[i].qpos); free(fw[i].qvel); free(fw[i].act); free(fw[i].qacc); free(fw[i].act_dot); free(fw[i].avel); free(fw[i].alen); }
  nfw = 0;
  free(tr_acc); tr_acc = NULL; n_acc = 0;
  free(tr_pvel); tr_pvel = NULL; n_pvel = 0;
}

// ------------------------------------------------------------------------------------------- interposed symbols
typedef void (*fwdskip_t)(const mjModel*, mjData*, int, int);
typedef void (*addtoscl_t)(mjtNum*, const mjtNum*, mjtNum, int);
typedef void (*intposind_t)(const mjModel*, mjtNum*, const mjtNum*, mjtNum, const int*, int);

void mj_forwardSkip(const mjModel* mm, mjData* dd, int skipstage, int skipsensor) {
  static fwdskip_t real = NULL;
  if (!real) real = (fwdskip_t)dlsym(RTLD_NEXT, "mj_forwardSkip");
  real(mm, dd, skipstage, skipsensor);
  if (tracing && dd == d && nfw < MAXFW) {
    FwRec* r = &fw[nfw++];
    r->time = dd->time;
    r->qpos = dup(dd->qpos, mm->nq); r->qvel = dup(dd->qvel, mm->nv); r->act = dup(dd->act, mm->na);
    r->qacc = dup(dd->qacc, mm->nv); r->act_dot = dup(dd->act_dot, mm->na);
    r->avel = dup(dd->actuator_velocity, mm->nout); r->alen = dup(dd->actuator_length, mm->nout);
  }
}

void mju_addToScl(mjtNum* res, const mjtNum* vec, mjtNum scl, int n) {
  static addtoscl_t real = NULL;
  if (!real) real = (addtoscl_t)dlsym(RTLD_NEXT, "mju_addToScl");
  if (tracing && d && res == d->qvel) {
    if (!n_acc) { tr_acc = dup(vec, n); tr_acc_scl = scl; }
    n_acc++;
  }
  real(res, vec, scl, n);
}

void mj_integratePosInd(const mjModel* mm, mjtNum* qpos, const mjtNum* qvel, mjtNum dt, const int* index, int nbody) {
  static intposind_t real = NULL;
  if (!real) real = (intposind_t)dlsym(RTLD_NEXT, "mj_integratePosInd");
  if (tracing && d && qpos == d->qpos) {
    if (!n_pvel) {
      tr_pvel = dup(qvel, mm->nv); tr_pvel_dt = dt; tr_pvel_isdqvel = (qvel == d->qvel);
      tr_pvel_index_null = (index == NULL); tr_pvel_nbody = nbody;
    }
    n_pvel++;
  }
  real(mm, qpos, qvel, dt, index, nbody);
}

// ------------------------------------------------------------------------------------------- printing / parsing
static void pbits(double x) {
  if (x != x) { printf(" nan"); return; }
  uint64_t u; memcpy(&u, &x, 8); printf(" %016llx", (unsigned long long)u);
}
static void pvec(const char* key, const double* p, int n) {
  printf(" %s %d", key, n);
  for (int i = 0; i < n; i++) pbits(p[i]);
}
static void pivec(const char* key, const int* p, int n) {
  printf(" %s %d", key, n);
  for (int i = 0; i < n; i++) printf(" %d", p[i]);
}
static int parse_f(const char* t, double* out) {
  if (!strcmp(t, "nan")) { *out = NAN; return 1; }
  if (strlen(t) != 16) return 0;
  for (int i = 0; i < 16; i++) if (!((t[i] >= '0' && t[i] <= '9') || (t[i] >= 'a' && t[i] <= 'f'))) return 0;
  uint64_t u = strtoull(t, NULL, 16); memcpy(out, &u, 8); return 1;
}
static int parse_i(const char* t, int* out) {
  char* e; long v = strtol(t, &e, 10);
  if (e == t || *e) return 0;
  *out = (int)v; return 1;
}
// value for `set`: hex bits prefixed by x, or decimal
static double parse_val(const char* t) {
  if (t[0] == 'x') { double x; if (parse_f(t + 1, &x)) return x; }
  if (!strcmp(t, "nan")) return NAN;
  return strtod(t, NULL);
}

// ------------------------------------------------------------------------------------------- direct ops
static void op_ip(char** tok, int n) {
  int nj, pos = 1;
  if (n < 2 || !parse_i(tok[pos++], &nj) || nj < 0 || nj > 64) { printf("bad-op\n"); return; }
  int types[64], padr[64], vadr[64], nq = 0, nv = 0;
  for (int j = 0; j < nj; j++) {
    if (pos >= n || !parse_i(tok[pos++], &types[j]) || types[j] < 0 || types[j] > 3) { printf("bad-op\n"); return; }
    padr[j] = nq; vadr[j] = nv;
    nq += types[j] == mjJNT_FREE ? 7 : types[j] == mjJNT_BALL ? 4 : 1;
    nv += types[j] == mjJNT_FREE ? 6 : types[j] == mjJNT_BALL ? 3 : 1;
  }
  double h;
  if (pos >= n || !parse_f(tok[pos++], &h)) { printf("bad-op\n"); return; }
  if (n - pos != nq + nv) { printf("bad-op\n"); return; }
  double qpos[7 * 64 + 1], qvel[6 * 64 + 1];
  for (int i = 0; i < nq; i++) if (!parse_f(tok[pos++], &qpos[i])) { printf("bad-op\n"); return; }
  for (int i = 0; i < nv; i++) if (!parse_f(tok[pos++], &qvel[i])) { printf("bad-op\n"); return; }
  // hand-built model: body 0 = world, body 1 carries all joints (mj_integratePosInd only reads the layout)
  static mjModel fm; memset(&fm, 0, sizeof fm);
  int body_jntadr[2] = {-1, 0}, body_jntnum[2] = {0, nj};
  fm.nbody = 2; fm.njnt = nj; fm.nq = nq; fm.nv = nv;
  fm.body_jntadr = body_jntadr; fm.body_jntnum = body_jntnum;
  fm.jnt_qposadr = padr; fm.jnt_dofadr = vadr; fm.jnt_type = types;
  mj_integratePos(&fm, qpos, qvel, h);
  printf("%d:", nq);
  for (int i = 0; i < nq; i++) pbits(qpos[i]);
  printf("\n");
}

static void op_na(char** tok, int n) {
  int dyn, lim, off, actn;
  double f[15];
  if (n != 20 || !parse_i(tok[1], &dyn) || !parse_i(tok[2], &lim) || !parse_i(tok[3], &off) || off < 0 || off > 7 ||
      !parse_i(tok[4], &actn) || actn <= off || actn > 8 ||
      (lim != 0 && lim != 1)) { printf("bad-op\n"); return; }
  for (int i = 0; i < 15; i++) if (!parse_f(tok[5 + i], &f[i])) { printf("bad-op\n"); return; }
  double h = f[0], act = f[1], adot = f[2], vel = f[3], lo = f[4], hi = f[5];
  static mjModel fm; static mjData fd; memset(&fm, 0, sizeof fm); memset(&fd, 0, sizeof fd);
  int dyntype[1] = {dyn}, actadr[1] = {0}, outadr[1] = {0}, actnum[1] = {actn};
  mjtByte actlimited[1] = {(mjtByte)lim};
  double dynprm[mjNDYN] = {0}, gainprm[mjNGAIN] = {0}, biasprm[mjNBIAS] = {0}, actrange[2] = {lo, hi};
  dynprm[0] = f[6]; dynprm[2] = f[7]; dynprm[5] = f[8]; dynprm[7] = f[9]; dynprm[8] = f[10];
  gainprm[5] = f[11]; biasprm[3] = f[12]; biasprm[4] = f[13]; biasprm[5] = f[14];
  double actv[8] = {0}, avel[1] = {vel};
  actv[off] = act;
  fm.nactuator = 1; fm.nu = 1; fm.na = 8; fm.nout = 1;
  fm.opt.timestep = h;
  fm.actuator_dyntype = dyntype; fm.actuator_actadr = actadr; fm.actuator_actnum = actnum; fm.actuator_outadr = outadr;
  fm.actuator_actlimited = actlimited; fm.actuator_dynprm = dynprm; fm.actuator_gainprm = gainprm;
  fm.actuator_biasprm = biasprm; fm.actuator_actrange = actrange;
  fd.act = actv; fd.actuator_velocity = avel;
  double r = mj_nextActivation(&fm, &fd, 0, off, adot);
  printf("r"); pbits(r); printf("\n");
}

// ------------------------------------------------------------------------------------------- model info
static int wrap_fields_ok = 1;

static void op_info(void) {
  printf("info");
  printf(" h 1"); pbits(m->opt.timestep);
  int iv[8] = {m->opt.integrator, m->opt.disableflags, m->opt.enableflags, m->opt.disableactuator,
               (int)m->nq, (int)m->nv, (int)m->na, (int)m->nout};
  pivec("opt", iv, 8);
  int misc[6] = {(int)m->nbody, (int)m->njnt, (int)m->nactuator, (int)m->nhistory, (int)m->nplugin, (int)m->nflex};
  pivec("sizes", misc, 6);
  // joint layout in the order mj_integratePosInd visits it (bodies 1..nbody-1, joints body_jntadr..+body_jntnum)
  int nj = 0; int* order = (int*)malloc(sizeof(int) * (m->njnt + 1));
  for (int b = 1; b < m->nbody; b++)
    for (int j = m->body_jntadr[b]; j < m->body_jntadr[b] + m->body_jntnum[b]; j++) order[nj++] = j;
  printf(" jtype %d", nj); for (int k = 0; k < nj; k++) printf(" %d", m->jnt_type[order[k]]);
  printf(" jpadr %d", nj); for (int k = 0; k < nj; k++) printf(" %d", m->jnt_qposadr[order[k]]);
  printf(" jvadr %d", nj); for (int k = 0; k < nj; k++) printf(" %d", m->jnt_dofadr[order[k]]);
  free(order);
  // per actuator
  int na_ = (int)m->nactuator;
  pivec("dyntype", m->actuator_dyntype, na_);
  pivec("gaintype", m->actuator_gaintype, na_);
  pivec("biastype", m->actuator_biastype, na_);
  pivec("trntype", m->actuator_trntype, na_);
  pivec("actadr", m->actuator_actadr, na_);
  pivec("actnum", m->actuator_actnum, na_);
  pivec("outadr", m->actuator_outadr, na_);
  pivec("trnid", m->actuator_trnid, 2 * na_);
  printf(" actlimited %d", na_); for (int i = 0; i < na_; i++) printf(" %d", (int)m->actuator_actlimited[i]);
  printf(" disabled %d", na_); for (int i = 0; i < na_; i++) printf(" %d", mj_actuatorDisabled(m, i));
  printf(" trnjtype %d", na_);
  for (int i = 0; i < na_; i++) {
    int t = m->actuator_trntype[i], id = m->actuator_trnid[2 * i];
    printf(" %d", ((t == mjTRN_JOINT || t == mjTRN_JOINTINPARENT) && id >= 0 && id < m->njnt) ? m->jnt_type[id] : -1);
  }
  pvec("actrange", m->actuator_actrange, 2 * na_);
  pvec("dynprm", m->actuator_dynprm, mjNDYN * na_);
  pvec("gainprm", m->actuator_gainprm, mjNGAIN * na_);
  pvec("biasprm", m->actuator_biasprm, mjNBIAS * na_);
  pvec("gear", m->actuator_gear, 6 * (int)m->nout);
  printf("\n");
}

// ------------------------------------------------------------------------------------------- linear-solve certificate
// After an Euler(with implicit damping)/implicit/implicitfast step: residual of  Mhat * x = qfrc_smooth + qfrc_constraint
// where x is the vector the engine added to qvel (times h) and Mhat is assembled densely from the engine's own
// M and qDeriv (still those of the pre-step state).  Prints: kind  max|residual|  scale  (doubles as %.17g).
static void certificate(void) {
  int nv = (int)m->nv;
  int integ = m->opt.integrator;
  if (!nv || !tr_acc || integ == mjINT_RK4) { printf(" cert 0"); return; }
  double h = m->opt.timestep;
  double* M = (double*)calloc((size_t)nv * nv, sizeof(double));
  double* Mh = (double*)calloc((size_t)nv * nv, sizeof(double));
  mj_fullM(m, d, M);
  memcpy(Mh, M, sizeof(double) * nv * nv);
  int kind = 0;   // 0 explicit (no certificate), 1 euler-damping, 2 implicit, 3 implicitfast
  if (integ == mjINT_EULER) {
    int damp = 0;
    if (!(m->opt.disableflags & mjDSBL_EULERDAMP) && !(m->opt.disableflags & mjDSBL_DAMPER)) {
      for (int i = 0; i < nv; i++) {
        int polynz = 0;
        for (int k = 0; k < mjNPOLY; k++) if (m->dof_dampingpoly[mjNPOLY * i + k] != 0) polynz = 1;
        if (m->dof_damping[i] > 0 || polynz || m->jnt_actuatorid[m->dof_jntid[i]] != -1) damp = 1;
      }
    }
    if (damp) {
      kind = 1;
      for (int i = 0; i < nv; i++) {
        double poly[mjNPOLY];
        for (int k = 0; k < mjNPOLY; k++) poly[k] = m->dof_dampingpoly[mjNPOLY * i + k];
        double damping = m->dof_damping[i] + mj_actuatorDamping(m, mjOBJ_JOINT, m->dof_jntid[i], poly);
        // derivative at the PRE-step velocity (fw[0].qvel)
        double dd = mjd_xPolyForce(damping, poly, fw[0].qvel[i], mjNPOLY, 1);
        Mh[i * nv + i] += h * dd;
      }
    }
  } else if (integ == mjINT_IMPLICIT) {
    kind = 2;
    for (int r = 0; r < nv; r++)
      for (int k = 0; k < m->D_rownnz[r]; k++) {
        int c = m->D_colind[m->D_rowadr[r] + k];
        Mh[r * nv + c] -= h * d->qDeriv[m->D_rowadr[r] + k];
      }
  } else if (integ == mjINT_IMPLICITFAST) {
    kind = 3;
    // as documented: D symmetrised; as coded: the lower triangle of qDeriv (computed without the RNE terms) mirrored
    for (int r = 0; r < nv; r++)
      for (int k = 0; k < m->M_rownnz[r]; k++) {
        int adr = m->M_rowadr[r] + k;
        int c = m->M_colind[adr];
        double v = d->M[adr] - h * d->qDeriv[m->mapD2M[adr]];
        Mh[r * nv + c] = v; Mh[c * nv + r] = v;
      }
    // mjd_freeMhat reads d->qvel (gyroscopic derivative): evaluate it at the PRE-step velocity, as the engine did
    double* vpost = dup(d->qvel, nv);
    memcpy(d->qvel, fw[0].qvel, sizeof(double) * nv);
    for (int j = 0; j < m->njnt; j++) {
      double A[36];
      int isfree = mjd_freeMhat(m, d, j, h, A);
      if (!isfree) continue;
      int adr = m->jnt_dofadr[j];
      for (int r = 0; r < 6; r++) {
        for (int c = 0; c < nv; c++) Mh[(adr + r) * nv + c] = 0;
        for (int c = 0; c < 6; c++) Mh[(adr + r) * nv + adr + c] = A[6 * r + c];
      }
    }
    memcpy(d->qvel, vpost, sizeof(double) * nv);
    free(vpost);
  }
  double maxres = 0, nrmM = 0, nrmx = 0, nrmr = 0;
  for (int r = 0; r < nv; r++) {
    double s = 0, rowsum = 0;
    for (int c = 0; c < nv; c++) { s += Mh[r * nv + c] * tr_acc[c]; rowsum += fabs(Mh[r * nv + c]); }
    double rhs = d->qfrc_smooth[r] + d->qfrc_constraint[r];
    double res = fabs(s - rhs);
    if (res != res) res = INFINITY;
    if (res > maxres) maxres = res;
    if (rowsum > nrmM) nrmM = rowsum;
    if (fabs(tr_acc[r]) > nrmx) nrmx = fabs(tr_acc[r]);
    if (fabs(rhs) > nrmr) nrmr = fabs(rhs);
  }
  printf(" cert 4 %d %.17g %.17g %.17g", kind, maxres, nrmM * nrmx + nrmr, nrmM);
  free(M); free(Mh);
}

// ------------------------------------------------------------------------------------------- velocity-derivative data
// (op `stepd`)  Everything is measured on the engine's own functions; nothing of the derivative code is re-implemented.
static int want_d = 0, d_have = 0, d_nv = 0, d_ctrlout = 0, d_guard = 0, d_nfree = 0;
static double d_eps = 1e-6;
static double *d_Fpas = NULL, *d_Fact = NULL, *d_Fbias = NULL, *d_Aclamp = NULL, *d_M = NULL, *d_freeA = NULL;
static int* d_freeadr = NULL;
static double d_Jt[6], d_frc[3];
static mjData* d_scratch = NULL;

static void d_free_all(void) {
  free(d_Fpas); free(d_Fact); free(d_Fbias); free(d_Aclamp); free(d_M); free(d_freeA); free(d_freeadr);
  d_Fpas = d_Fact = d_Fbias = d_Aclamp = d_M = d_freeA = NULL; d_freeadr = NULL;
  if (d_scratch) { mj_deleteData(d_scratch); d_scratch = NULL; }
  d_have = 0;
}

static void dense_from_D(const mjData* dd, double* out) {
  int nv = (int)m->nv;
  for (int i = 0; i < nv * nv; i++) out[i] = 0;
  for (int r = 0; r < nv; r++)
    for (int k = 0; k < m->D_rownnz[r]; k++) {
      int adr = m->D_rowadr[r] + k;
      out[r * nv + m->D_colind[adr]] += dd->qDeriv[adr];
    }
}

static double amax(const double* p, int n) {
  double r = 0;
  for (int i = 0; i < n; i++) { double a = fabs(p[i]); if (a != a) return INFINITY; if (a > r) r = a; }
  return r;
}

// called BEFORE mj_step: finite differences of the forces at the pre-step state (scratch copy; d itself is not touched)
static void d_prepare(void) {
  d_free_all();
  int nv = (int)m->nv, integ = m->opt.integrator;
  if (!nv || integ == mjINT_RK4) return;
  d_nv = nv;
  d_scratch = mj_makeData(m);
  mjData* d2 = d_scratch;
  mj_copyData(d2, m, d);
  mj_forward(m, d2);
  size_t nn = (size_t)nv * nv;
  d_Fpas = (double*)calloc(nn, sizeof(double)); d_Fact = (double*)calloc(nn, sizeof(double));
  d_Fbias = (double*)calloc(nn, sizeof(double)); d_M = (double*)calloc(nn, sizeof(double));
  d_frc[0] = amax(d2->qfrc_passive, nv); d_frc[1] = amax(d2->qfrc_actuator, nv); d_frc[2] = amax(d2->qfrc_bias, nv);
  mj_fullM(m, d2, d_M);
  // 7 force arrays: passive actuator bias | damper fluid spring gravcomp
  double* fp = (double*)malloc(sizeof(double) * 7 * nv); double* fm = (double*)malloc(sizeof(double) * 7 * nv);
  for (int t = 0; t < 6; t++) d_Jt[t] = 0;
  for (int j = 0; j < nv; j++) {
    double save = d2->qvel[j];
    for (int sgn = 0; sgn < 2; sgn++) {
      d2->qvel[j] = sgn ? save - d_eps : save + d_eps;
      mj_fwdVelocity(m, d2); mj_fwdActuation(m, d2);
      double* f = sgn ? fm : fp;
      memcpy(f, d2->qfrc_passive, sizeof(double) * nv); memcpy(f + nv, d2->qfrc_actuator, sizeof(double) * nv);
      memcpy(f + 2 * nv, d2->qfrc_bias, sizeof(double) * nv); memcpy(f + 3 * nv, d2->qfrc_damper, sizeof(double) * nv);
      memcpy(f + 4 * nv, d2->qfrc_fluid, sizeof(double) * nv); memcpy(f + 5 * nv, d2->qfrc_spring, sizeof(double) * nv);
      memcpy(f + 6 * nv, d2->qfrc_gravcomp, sizeof(double) * nv);
    }
    d2->qvel[j] = save;
    for (int r = 0; r < nv; r++) {
      d_Fpas[r * nv + j] = (fp[r] - fm[r]) / (2 * d_eps);
      d_Fact[r * nv + j] = (fp[nv + r] - fm[nv + r]) / (2 * d_eps);
      d_Fbias[r * nv + j] = (fp[2 * nv + r] - fm[2 * nv + r]) / (2 * d_eps);
      // per-term arrays: damper fluid spring gravcomp -> d_Jt[0..3]; actuator, bias -> d_Jt[4], d_Jt[5]
      for (int t = 0; t < 4; t++) {
        double v = fabs((fp[(3 + t) * nv + r] - fm[(3 + t) * nv + r]) / (2 * d_eps));
        if (v != v) v = INFINITY;
        if (v > d_Jt[t]) d_Jt[t] = v;
      }
    }
  }
  free(fp); free(fm);
  d_Jt[4] = amax(d_Fact, (int)nn); d_Jt[5] = amax(d_Fbias, (int)nn);
  mj_fwdVelocity(m, d2); mj_fwdActuation(m, d2);
  // classification aid 1: the analytic derivative with d->ctrl clamped the way mj_fwdActuation clamps it
  d_ctrlout = 0;
  for (int i = 0; i < m->nu; i++)
    if (m->actuator_ctrllimited[i] && !(d2->ctrl[i] >= m->actuator_ctrlrange[2 * i] && d2->ctrl[i] <= m->actuator_ctrlrange[2 * i + 1])) d_ctrlout++;
  if (d_ctrlout && (integ == mjINT_IMPLICIT || integ == mjINT_IMPLICITFAST)) {
    double* cs = dup(d2->ctrl, (int)m->nu);
    for (int i = 0; i < m->nu; i++) if (m->actuator_ctrllimited[i]) {
      if (d2->ctrl[i] < m->actuator_ctrlrange[2 * i]) d2->ctrl[i] = m->actuator_ctrlrange[2 * i];
      if (d2->ctrl[i] > m->actuator_ctrlrange[2 * i + 1]) d2->ctrl[i] = m->actuator_ctrlrange[2 * i + 1];
    }
    mjd_smooth_vel(m, d2, integ == mjINT_IMPLICIT);
    d_Aclamp = (double*)calloc(nn, sizeof(double));
    dense_from_D(d2, d_Aclamp);
    memcpy(d2->ctrl, cs, sizeof(double) * m->nu); free(cs);
  }
  // classification aid 2: ellipsoid-fluid geoms whose mjMINVAL guard of mjd_viscous_drag is active at this state
  // (dA_coef = pi / max(mjMINVAL, sqrt(proj_num^3 proj_denom)); quantities as documented in engine_derivative.c)
  d_guard = 0;
  if (m->opt.viscosity > 0 || m->opt.density > 0)
    for (int g = 0; g < m->ngeom; g++) {
      if (!(m->geom_fluid[mjNFLUID * g] > 0)) continue;
      double sa[3], lv[6], w6[6] = {0, 0, 0, m->opt.wind[0], m->opt.wind[1], m->opt.wind[2]}, lw[6];
      int b = m->geom_bodyid[g];
      mju_geomSemiAxes(sa, m->geom_size + 3 * g, (mjtGeom)m->geom_type[g]);
      mj_objectVelocity(m, d2, mjOBJ_GEOM, g, lv, 1);
      mju_transformSpatial(lw, w6, 0, d2->geom_xpos + 3 * g, d2->subtree_com + 3 * m->body_rootid[b], d2->geom_xmat + 9 * g);
      double x = lv[3] - lw[3], y = lv[4] - lw[4], z = lv[5] - lw[5];
      double a = sa[1] * sa[2], bb = sa[2] * sa[0], c = sa[0] * sa[1];
      a *= a; bb *= bb; c *= c;
      double den = a * a * x * x + bb * bb * y * y + c * c * z * z, num = a * x * x + bb * y * y + c * z * z;
      int degenerate = sa[0] == sa[1] && sa[1] == sa[2];
      if (!degenerate && (x || y || z) && sqrt(num * num * num * den) < mjMINVAL) d_guard++;
    }
  // implicitfast: the 6x6 blocks M - h D of standalone free bodies as the engine assembles them (mjd_freeMhat)
  d_nfree = 0;
  if (integ == mjINT_IMPLICITFAST) {
    d_freeadr = (int*)malloc(sizeof(int) * (m->njnt + 1));
    d_freeA = (double*)malloc(sizeof(double) * 36 * (m->njnt + 1));
    mjd_smooth_vel(m, d2, 0);
    for (int j = 0; j < m->njnt; j++) {
      double A[36];
      if (!mjd_freeMhat(m, d2, j, m->opt.timestep, A)) continue;
      d_freeadr[d_nfree] = m->jnt_dofadr[j];
      memcpy(d_freeA + 36 * d_nfree, A, sizeof A);
      d_nfree++;
    }
  }
  mj_deleteData(d_scratch); d_scratch = NULL;
  d_have = 1;
}

// called AFTER mj_step
static void d_print(void) {
  if (!d_have) { printf(" d_have 1 0"); return; }
  int nv = d_nv, integ = m->opt.integrator, nn = nv * nv;
  printf(" d_have 1 1 d_eps 1"); pbits(d_eps);
  printf(" d_mask %d", nn);
  { char* mask = (char*)calloc((size_t)nn + 1, 1);
    for (int r = 0; r < nv; r++) for (int k = 0; k < m->D_rownnz[r]; k++) mask[r * nv + m->D_colind[m->D_rowadr[r] + k]] = 1;
    for (int i = 0; i < nn; i++) printf(" %d", mask[i]);
    free(mask); }
  if (integ == mjINT_IMPLICIT || integ == mjINT_IMPLICITFAST) {
    double* A = (double*)calloc((size_t)nn + 1, sizeof(double));
    dense_from_D(d, A);
    pvec("d_A", A, nn);
    free(A);
  }
  pvec("d_Fpas", d_Fpas, nn); pvec("d_Fact", d_Fact, nn); pvec("d_Fbias", d_Fbias, nn);
  pvec("d_Jt", d_Jt, 6); pvec("d_frc", d_frc, 3);
  printf(" d_ctrlout 1 %d d_guard 1 %d", d_ctrlout, d_guard);
  pvec("d_Aclamp", d_Aclamp, d_Aclamp ? nn : 0);
  pvec("d_M", d_M, nn);
  pivec("d_freeadr", d_freeadr, d_nfree);
  pvec("d_freeA", d_freeA, 36 * d_nfree);
}

static void op_step(void) {
  free_trace();
  int nq = (int)m->nq, nv = (int)m->nv, na = (int)m->na, nout = (int)m->nout;
  double t0 = d->time;
  double* q0 = dup(d->qpos, nq); double* v0 = dup(d->qvel, nv); double* a0 = dup(d->act, na);
  nwarn = 0;
  if (want_d) d_prepare();
  tracing = 1;
  mj_step(m, d);
  tracing = 0;
  printf("step");
  printf(" entry_time 1"); pbits(t0);
  pvec("entry_qpos", q0, nq); pvec("entry_qvel", v0, nv); pvec("entry_act", a0, na);
  free(q0); free(v0); free(a0);
  printf(" nfw 1 %d", nfw);
  for (int k = 0; k < nfw; k++) {
    char key[32];
    snprintf(key, sizeof key, "fw%d_time", k); printf(" %s 1", key); pbits(fw[k].time);
    snprintf(key, sizeof key, "fw%d_qpos", k); pvec(key, fw[k].qpos, nq);
    snprintf(key, sizeof key, "fw%d_qvel", k); pvec(key, fw[k].qvel, nv);
    snprintf(key, sizeof key, "fw%d_act", k); pvec(key, fw[k].act, na);
    snprintf(key, sizeof key, "fw%d_qacc", k); pvec(key, fw[k].qacc, nv);
    snprintf(key, sizeof key, "fw%d_actdot", k); pvec(key, fw[k].act_dot, na);
    snprintf(key, sizeof key, "fw%d_avel", k); pvec(key, fw[k].avel, nout);
    snprintf(key, sizeof key, "fw%d_alen", k); pvec(key, fw[k].alen, nout);
  }
  printf(" nacc 1 %d", n_acc);
  if (tr_acc) { pvec("acc", tr_acc, nv); printf(" acc_scl 1"); pbits(tr_acc_scl); }
  printf(" npvel 1 %d", n_pvel);
  if (tr_pvel) {
    pvec("pvel", tr_pvel, nv); printf(" pvel_dt 1"); pbits(tr_pvel_dt);
    printf(" pvel_flags 3 %d %d %d", tr_pvel_isdqvel, tr_pvel_index_null, tr_pvel_nbody);
  }
  printf(" post_time 1"); pbits(d->time);
  pvec("post_qpos", d->qpos, nq); pvec("post_qvel", d->qvel, nv); pvec("post_act", d->act, na);
  pvec("post_warmstart", d->qacc_warmstart, nv); pvec("post_qacc", d->qacc, nv);
  printf(" warn 1 %d", nwarn);
  int wn[mjNWARNING]; for (int i = 0; i < mjNWARNING; i++) wn[i] = d->warning[i].number;
  pivec("warnings", wn, mjNWARNING);
  printf(" awake 2 %d %d", (int)d->ntree_awake, (int)m->ntree);
  certificate();
  if (want_d) d_print();
  d_free_all();
  printf("\n");
}

int main(void) {
  mju_user_error = on_error;
  mju_user_warning = on_warning;
  static char line[1 << 22];
  static char* tok[1 << 18];
  while (fgets(line, sizeof line, stdin)) {
    size_t L = strlen(line);
    // model: description packed on one line, '|' separates the builder's lines
    if (!strncmp(line, "model ", 6)) {
      jb_armed = 1;
      if (setjmp(jb)) { jb_armed = 0; printf("error %s\n", lasterr); fflush(stdout); continue; }
      d_free_all();
      if (d) { mj_deleteData(d); d = NULL; }
      if (m) { mj_deleteModel(m); m = NULL; }
      if (spec) { mj_deleteSpec(spec); spec = NULL; }
      for (size_t i = 6; i < L; i++) if (line[i] == '|') line[i] = '\n';
      FILE* f = fmemopen(line + 6, L - 6, "r");
      char err[1024];
      m = mjb_compile(f, &spec, err, sizeof err);
      fclose(f);
      if (!m) printf("error %s\n", err);
      else {
        d = mj_makeData(m);
        printf("ok nq %d nv %d na %d nu %d njnt %d nbody %d nactuator %d nmocap %d\n", (int)m->nq, (int)m->nv, (int)m->na,
               (int)m->nu, (int)m->njnt, (int)m->nbody, (int)m->nactuator, (int)m->nmocap);
      }
      jb_armed = 0; fflush(stdout); continue;
    }
    int n = 0; char* save; char* t = strtok_r(line, " \t\r\n", &save);
    while (t && n < (1 << 18)) { tok[n++] = t; t = strtok_r(NULL, " \t\r\n", &save); }
    if (!n) { printf("bad-op\n"); fflush(stdout); continue; }
    const char* op = tok[0];
    jb_armed = 1;
    if (setjmp(jb)) { jb_armed = 0; tracing = 0; printf("error %s\n", lasterr); fflush(stdout); continue; }
    if (!strcmp(op, "TAB") && n == 1) {
      printf("A"); for (int i = 0; i < 9; i++) pbits(RK4_A[i]);
      printf(" B"); for (int i = 0; i < 4; i++) pbits(RK4_B[i]);
      printf("\n");
    } else if (!strcmp(op, "CLIP")) {
      double x, lo, hi;
      if (n != 4 || !parse_f(tok[1], &x) || !parse_f(tok[2], &lo) || !parse_f(tok[3], &hi)) printf("bad-op\n");
      else { printf("r"); pbits(mju_clip(x, lo, hi)); printf("\n"); }
    } else if (!strcmp(op, "QI")) {
      double v[8]; int ok = n == 9;
      for (int i = 0; ok && i < 8; i++) ok = parse_f(tok[1 + i], &v[i]);
      if (!ok) printf("bad-op\n");
      else { mju_quatIntegrate(v, v + 4, v[7]); printf("4:"); for (int i = 0; i < 4; i++) pbits(v[i]); printf("\n"); }
    } else if (!strcmp(op, "IP")) {
      op_ip(tok, n);
    } else if (!strcmp(op, "NA")) {
      op_na(tok, n);
    } else if (!m || !d) {
      printf(!strcmp(op, "set") || !strcmp(op, "setopt") || !strcmp(op, "info") || !strcmp(op, "step") || !strcmp(op, "stepd") || !strcmp(op, "reset")
             ? "error no model\n" : "bad-op\n");
    } else if (!strcmp(op, "set") && n >= 2) {
      double* p = NULL; int cnt = -1;
      if (!strcmp(tok[1], "time")) { p = &d->time; cnt = 1; }
      else if (!strcmp(tok[1], "qpos")) { p = d->qpos; cnt = (int)m->nq; }
      else if (!strcmp(tok[1], "qvel")) { p = d->qvel; cnt = (int)m->nv; }
      else if (!strcmp(tok[1], "act")) { p = d->act; cnt = (int)m->na; }
      else if (!strcmp(tok[1], "ctrl")) { p = d->ctrl; cnt = (int)m->nu; }
      else if (!strcmp(tok[1], "qfrc_applied")) { p = d->qfrc_applied; cnt = (int)m->nv; }
      else if (!strcmp(tok[1], "xfrc_applied")) { p = d->xfrc_applied; cnt = 6 * (int)m->nbody; }
      else if (!strcmp(tok[1], "mocap_pos")) { p = d->mocap_pos; cnt = 3 * (int)m->nmocap; }
      else if (!strcmp(tok[1], "mocap_quat")) { p = d->mocap_quat; cnt = 4 * (int)m->nmocap; }
      if (cnt < 0 || n - 2 != cnt) printf("bad-op\n");
      else { for (int i = 0; i < cnt; i++) p[i] = parse_val(tok[2 + i]); printf("ok\n"); }
    } else if (!strcmp(op, "setopt") && n == 3) {
      if (!strcmp(tok[1], "integrator")) { m->opt.integrator = atoi(tok[2]); printf("ok\n"); }
      else if (!strcmp(tok[1], "disableflags")) { m->opt.disableflags = atoi(tok[2]); printf("ok\n"); }
      else if (!strcmp(tok[1], "enableflags")) { m->opt.enableflags = atoi(tok[2]); printf("ok\n"); }
      else if (!strcmp(tok[1], "disableactuator")) { m->opt.disableactuator = atoi(tok[2]); printf("ok\n"); }
      else if (!strcmp(tok[1], "timestep")) { m->opt.timestep = parse_val(tok[2]); printf("ok\n"); }
      else printf("bad-op\n");
    } else if (!strcmp(op, "reset") && n == 1) {
      mj_resetData(m, d); printf("ok\n");
    } else if (!strcmp(op, "info") && n == 1) {
      op_info();
    } else if (!strcmp(op, "step") && n == 1) {
      want_d = 0;
      op_step();
    } else if (!strcmp(op, "stepd") && (n == 1 || n == 2)) {
      want_d = 1;
      d_eps = n == 2 ? parse_val(tok[1]) : 1e-6;
      if (!(d_eps > 0)) { printf("bad-op\n"); want_d = 0; }
      else { op_step(); want_d = 0; }
    } else {
      printf("bad-op\n");
    }
    jb_armed = 0;
    fflush(stdout);
  }
  return 0;
}
