// c25_deriv.c — C25 implementation-side driver on the real engine (never a re-implementation).
//
// (A) differential ops (one line in / one line out; the same lines lean/Drivers/C25.lean reads).  The unmodified
//     mjd_transitionFD / mjd_inverseFD run on a small model built here through the public mjs_* API; engine callbacks
//     (mjcb_control inside mj_stepSkip, mjcb_act_gain inside mj_fwdActuation) observe, at every internal evaluation,
//     which input differs from the saved base point, in which direction, and which pipeline stages were re-run
//     (sentinels in light_xpos / cdof_dot, which only mj_fwdPosition / mj_fwdVelocity rewrite):
//       trace_step <centered> <A> <B> <C> <D> <warmstart-disabled> <eps> <nv> <na> <nu> {<limited> <lo> <hi> <ctrl>}*nu
//       trace_inv  <DfDq> <DfDv> <DfDa> <Ds> <DmDq> <eps> <nv>
//     -> "<events> | <restored flags>", event = <skipstage N|P|V>:<base | (u|a|v|q|c)<index>(+|-)>
//     (doubles as 16 hex digits of their IEEE bits)
// (B) oracle ops on generated models (harness/mjbuild.h description format), results printed with %.17g:
//       model ... end ; state <field> v...
//       qderiv <eps>          analytic d(smooth force)/d(qvel) (mjd_smooth_vel, parts mjd_actuator_vel / mjd_passive_vel /
//                             bias) as dense matrices + central differences of qfrc_actuator / qfrc_passive / qfrc_bias
//       implicit              d->qDeriv left by one mj_step of the implicit integrators vs mjd_smooth_vel at the same state
//       transfd <centered> <eps>   mjd_transitionFD A,B,C,D + direct perturbation of mj_step on copies + state hashes
//       invfd <eps> <flg_actuation> mjd_inverseFD DfDq,DfDv,DfDa + direct perturbation of mj_inverse + state hashes
// mju_error is caught (longjmp) and reported as "error <msg>".
#include <math.h>
#include <setjmp.h>
#include <stdint.h>
#include <stdio.h>
#include <stdlib.h>
#include <string.h>
#include <mujoco/mujoco.h>
#include "mjbuild.h"
#include "engine/engine_derivative.h"
#include "engine/engine_forward.h"
#include "engine/engine_util_misc.h"

static jmp_buf jb;
static int armed = 0;
static char lasterr[1024];
static void on_error(const char* msg) {
  snprintf(lasterr, sizeof lasterr, "%s", msg);
  for (char* c = lasterr; *c; c++) if (*c == '\n') *c = ' ';
  if (armed) longjmp(jb, 1);
  fprintf(stderr, "unguarded mju_error: %s\n", msg);
  exit(3);
}
static void on_warning(const char* msg) { (void)msg; }

static int getf(const char* t, double* x) {
  if (!strcmp(t, "nan")) { *x = NAN; return 1; }
  if (strlen(t) != 16) return 0;
  char* e; uint64_t u = strtoull(t, &e, 16);
  if (*e) return 0;
  memcpy(x, &u, 8); return 1;
}
static int getn(const char* t, int* x) {
  if (!*t || *t == '+' || *t == '-') return 0;
  char* e; long v = strtol(t, &e, 10);
  if (*e) return 0;
  *x = (int)v; return 1;
}
static int getb(const char* t, int* x) { return getn(t, x) && (*x == 0 || *x == 1); }

// ------------------------------------------------------------------ (A) traces
#define SENT 12345.678
static char tlog[1 << 16];
static int tlen;
static const mjModel* tm;
static double *b_qpos, *b_qvel, *b_act, *b_ctrl, *b_qacc;

static void observe(const mjModel* m, mjData* d) {
  // which stages were re-run since the previous observation
  int pos_ran = d->light_xpos[0] != SENT, vel_ran = m->nv ? d->cdof_dot[0] != SENT : 1;
  char st = pos_ran ? 'N' : vel_ran ? 'P' : 'V';
  d->light_xpos[0] = SENT;
  if (m->nv) d->cdof_dot[0] = SENT;
  char ev[64] = "base";
  struct { char c; const double* cur; const double* base; int n; } T[] = {
    {'u', d->ctrl, b_ctrl, m->nu}, {'a', d->act, b_act, m->na}, {'v', d->qvel, b_qvel, m->nv},
    {'q', d->qpos, b_qpos, m->nq}, {'c', d->qacc, b_qacc, b_qacc ? m->nv : 0}};
  int found = 0;
  for (int k = 0; k < 5 && !found; k++)
    for (int i = 0; i < T[k].n && !found; i++)
      if (memcmp(&T[k].cur[i], &T[k].base[i], 8)) { snprintf(ev, sizeof ev, "%c%d%c", T[k].c, i, T[k].cur[i] > T[k].base[i] ? '+' : '-'); found = 1; }
  tlen += snprintf(tlog + tlen, sizeof(tlog) - tlen, "%s%c:%s", tlen ? " " : "", st, ev);
}
static void cb_control(const mjModel* m, mjData* d) { observe(m, d); }
static mjtNum cb_gain(const mjModel* m, const mjData* d, int id) { (void)id; observe(m, (mjData*)d); return 1.0; }

// chain of nv one-dof bodies, nu actuators (the first na with integrator dynamics), a light, a joint sensor
static mjModel* chain_model(int nv, int na, int nu, const int* limited, const double* lo, const double* hi, int warmdis,
                            int user_gain, mjSpec** spec_out) {
  mjSpec* s = mj_makeSpec();
  s->option.gravity[2] = -9.81;
  s->option.integrator = mjINT_EULER;
  if (warmdis) s->option.disableflags |= mjDSBL_WARMSTART;
  mjsBody* w = mjs_findBody(s, "world");
  mjsLight* l = mjs_addLight(w, NULL); (void)l;
  mjsBody* parent = w;
  char nm[32];
  for (int i = 0; i < nv; i++) {
    mjsBody* b = mjs_addBody(parent, NULL);
    b->pos[0] = 0.1; b->pos[2] = i ? -0.2 : 1.0;
    mjsJoint* j = mjs_addJoint(b, NULL);
    j->type = (i % 2) ? mjJNT_SLIDE : mjJNT_HINGE;
    j->axis[0] = 0; j->axis[1] = 1; j->axis[2] = 0;
    j->damping[0] = 0.1;
    snprintf(nm, sizeof nm, "j%d", i); mjs_setName(j->element, nm);
    mjsGeom* g = mjs_addGeom(b, NULL);
    g->type = mjGEOM_SPHERE; g->size[0] = 0.05; g->contype = 0; g->conaffinity = 0;
    parent = b;
  }
  for (int i = 0; i < nu; i++) {
    mjsActuator* a = mjs_addActuator(s, NULL);
    a->trntype = mjTRN_JOINT;
    snprintf(nm, sizeof nm, "j%d", nv ? i % nv : 0); mjs_setString(a->target, nm);
    if (i < na) { a->dyntype = mjDYN_INTEGRATOR; }
    if (user_gain && i == 0) a->gaintype = mjGAIN_USER;
    if (limited && limited[i]) { a->ctrllimited = mjLIMITED_TRUE; a->ctrlrange[0] = lo[i]; a->ctrlrange[1] = hi[i]; }
    else a->ctrllimited = mjLIMITED_FALSE;
  }
  if (nv) {
    mjsSensor* sn = mjs_addSensor(s);
    sn->type = mjSENS_JOINTPOS; sn->objtype = mjOBJ_JOINT; mjs_setString(sn->objname, "j0");
  }
  mjModel* m = mj_compile(s, NULL);
  if (!m) { snprintf(lasterr, sizeof lasterr, "compile: %s", mjs_getError(s)); mj_deleteSpec(s); return NULL; }
  *spec_out = s;
  return m;
}

static int same(const double* a, const double* b, int n) { return n == 0 || !memcmp(a, b, sizeof(double) * n); }

static void op_trace_step(char** tok, int n) {
  int cen, fA, fB, fC, fD, wd, nv, na, nu; double eps;
  if (n < 10 || !getb(tok[0], &cen) || !getb(tok[1], &fA) || !getb(tok[2], &fB) || !getb(tok[3], &fC) || !getb(tok[4], &fD) ||
      !getb(tok[5], &wd) || !getf(tok[6], &eps) || !getn(tok[7], &nv) || !getn(tok[8], &na) || !getn(tok[9], &nu) ||
      nv > 12 || nu > 12 || na > nu || (nu && !nv) || n != 10 + 4 * nu || !(eps == eps)) { printf("bad-op\n"); return; }
  int lim[12]; double lo[12], hi[12], ctrl[12];
  for (int i = 0; i < nu; i++)
    if (!getb(tok[10 + 4 * i], &lim[i]) || !getf(tok[11 + 4 * i], &lo[i]) || !getf(tok[12 + 4 * i], &hi[i]) ||
        !getf(tok[13 + 4 * i], &ctrl[i]) || !(lo[i] < hi[i]) || !(ctrl[i] == ctrl[i])) { printf("bad-op\n"); return; }
  mjSpec* volatile spec = NULL; mjModel* volatile m = NULL; mjData* volatile d = NULL;
  armed = 1;
  if (setjmp(jb)) {
    armed = 0; mjcb_control = NULL; printf("error %s\n", lasterr);
    if (d) mj_deleteData(d); if (m) mj_deleteModel(m); if (spec) mj_deleteSpec(spec);
    return;
  }
  mjSpec* sp = NULL;
  m = chain_model(nv, na, nu, lim, lo, hi, wd, 0, &sp);
  spec = sp;
  if (!m) { armed = 0; printf("error %s\n", lasterr); return; }
  d = mj_makeData(m);
  for (int i = 0; i < m->nq; i++) d->qpos[i] = 0.1 * (i + 1);
  for (int i = 0; i < m->nv; i++) d->qvel[i] = 0.3 - 0.05 * i;
  for (int i = 0; i < m->na; i++) d->act[i] = 0.2 + 0.1 * i;
  for (int i = 0; i < m->nu; i++) d->ctrl[i] = ctrl[i];
  d->time = 0.5;
  mj_forward(m, d);
  for (int i = 0; i < m->nv; i++) d->qacc_warmstart[i] = d->qacc[i];
  int ndx = 2 * m->nv + m->na, ns = m->nsensordata;
  double* A = fA ? (double*)malloc(sizeof(double) * (ndx * ndx + 1)) : NULL;
  double* B = fB ? (double*)malloc(sizeof(double) * (ndx * m->nu + 1)) : NULL;
  double* C = fC ? (double*)malloc(sizeof(double) * (ns * ndx + 1)) : NULL;
  double* Dm = fD ? (double*)malloc(sizeof(double) * (ns * m->nu + 1)) : NULL;
  double t0 = d->time;
  double* sv = (double*)malloc(sizeof(double) * (m->nq + 3 * m->nv + m->na + m->nu + 8));
  b_qpos = sv; b_qvel = b_qpos + m->nq; b_act = b_qvel + m->nv; b_ctrl = b_act + m->na;
  double* b_warm = b_ctrl + m->nu; b_qacc = NULL;
  memcpy(b_qpos, d->qpos, sizeof(double) * m->nq); memcpy(b_qvel, d->qvel, sizeof(double) * m->nv);
  memcpy(b_act, d->act, sizeof(double) * m->na); memcpy(b_ctrl, d->ctrl, sizeof(double) * m->nu);
  memcpy(b_warm, d->qacc_warmstart, sizeof(double) * m->nv);
  tlen = 0; tlog[0] = 0;
  d->light_xpos[0] = 0; if (m->nv) d->cdof_dot[0] = 0;
  mjcb_control = cb_control;
  mjd_transitionFD(m, d, eps, cen, A, B, C, Dm);
  mjcb_control = NULL;
  armed = 0;
  printf("%s | time=%d qpos=%d qvel=%d act=%d ctrl=%d warmstart=%s\n", tlog, d->time == t0, same(d->qpos, b_qpos, m->nq),
         same(d->qvel, b_qvel, m->nv), same(d->act, b_act, m->na), same(d->ctrl, b_ctrl, m->nu),
         wd ? "-" : same(d->qacc_warmstart, b_warm, m->nv) ? "1" : "0");
  free(A); free(B); free(C); free(Dm); free(sv);
  mj_deleteData(d); mj_deleteModel(m); mj_deleteSpec(spec);
}

static void op_trace_inv(char** tok, int n) {
  int fq, fv, fa, fs, fm, nv; double eps;
  if (n != 7 || !getb(tok[0], &fq) || !getb(tok[1], &fv) || !getb(tok[2], &fa) || !getb(tok[3], &fs) || !getb(tok[4], &fm) ||
      !getf(tok[5], &eps) || !getn(tok[6], &nv) || nv < 1 || nv > 12 || !(eps == eps)) { printf("bad-op\n"); return; }
  mjSpec* volatile spec = NULL; mjModel* volatile m = NULL; mjData* volatile d = NULL;
  armed = 1;
  if (setjmp(jb)) {
    armed = 0; mjcb_act_gain = NULL; printf("error %s\n", lasterr);
    if (d) mj_deleteData(d); if (m) mj_deleteModel(m); if (spec) mj_deleteSpec(spec);
    return;
  }
  mjSpec* sp = NULL;
  m = chain_model(nv, 0, 1, NULL, NULL, NULL, 0, 1, &sp);
  spec = sp;
  if (!m) { armed = 0; printf("error %s\n", lasterr); return; }
  d = mj_makeData(m);
  for (int i = 0; i < m->nq; i++) d->qpos[i] = 0.1 * (i + 1);
  for (int i = 0; i < m->nv; i++) { d->qvel[i] = 0.3 - 0.05 * i; d->qacc[i] = 0.7 - 0.2 * i; }
  d->ctrl[0] = 0.4;
  int ns = m->nsensordata;
  double* F[7];
  int want[7] = {fq, fv, fa, fs, fs, fs, fm};
  long sz[7] = {(long)nv * nv, (long)nv * nv, (long)nv * nv, (long)nv * ns, (long)nv * ns, (long)nv * ns, (long)nv * m->nC};
  for (int k = 0; k < 7; k++) F[k] = want[k] ? (double*)malloc(sizeof(double) * (sz[k] + 1)) : NULL;
  double* sv = (double*)malloc(sizeof(double) * (m->nq + 2 * m->nv + m->nu + 8));
  b_qpos = sv; b_qvel = b_qpos + m->nq; b_qacc = b_qvel + m->nv; b_ctrl = b_qacc + m->nv; b_act = b_ctrl;
  memcpy(b_qpos, d->qpos, sizeof(double) * m->nq); memcpy(b_qvel, d->qvel, sizeof(double) * m->nv);
  memcpy(b_qacc, d->qacc, sizeof(double) * m->nv); memcpy(b_ctrl, d->ctrl, sizeof(double) * m->nu);
  tlen = 0; tlog[0] = 0;
  d->light_xpos[0] = 0; d->cdof_dot[0] = 0;
  mjcb_act_gain = cb_gain;
  mjd_inverseFD(m, d, eps, 1, F[0], F[1], F[2], F[3], F[4], F[5], F[6]);
  mjcb_act_gain = NULL;
  armed = 0;
  printf("%s | qpos=%d qvel=%d qacc=%d\n", tlog, same(d->qpos, b_qpos, m->nq), same(d->qvel, b_qvel, m->nv), same(d->qacc, b_qacc, m->nv));
  for (int k = 0; k < 7; k++) free(F[k]);
  free(sv); b_qacc = NULL;
  mj_deleteData(d); mj_deleteModel(m); mj_deleteSpec(spec);
}

// ------------------------------------------------------------------ (B) model session
static mjModel* M = NULL;
static mjSpec* SPEC = NULL;
static mjData* D = NULL;

static void free_model(void) {
  if (D) mj_deleteData(D);
  if (M) mj_deleteModel(M);
  if (SPEC) mj_deleteSpec(SPEC);
  D = NULL; M = NULL; SPEC = NULL;
}

static void pmat(const char* name, const double* x, long n) {
  printf("mat %s %ld", name, n);
  for (long i = 0; i < n; i++) printf(" %.17g", x[i]);
  printf("\n");
}

static uint64_t fnv(uint64_t h, const void* p, size_t n) {
  const unsigned char* c = (const unsigned char*)p;
  for (size_t i = 0; i < n; i++) { h ^= c[i]; h *= 1099511628211ULL; }
  return h;
}
static uint64_t state_hash(const mjModel* m, const mjData* d, unsigned int spec) {
  int n = mj_stateSize(m, spec);
  double* s = (double*)malloc(sizeof(double) * (n + 1));
  mj_getState(m, d, s, spec);
  uint64_t h = fnv(1469598103934665603ULL, s, sizeof(double) * n);
  free(s);
  return h;
}

// dense copy of the sparse qDeriv
static void dense_qderiv(const mjModel* m, const mjData* d, double* out) {
  int nv = m->nv;
  for (int i = 0; i < nv * nv; i++) out[i] = 0;
  for (int r = 0; r < nv; r++)
    for (int k = 0; k < m->D_rownnz[r]; k++) {
      int adr = m->D_rowadr[r] + k;
      out[r * nv + m->D_colind[adr]] += d->qDeriv[adr];
    }
}

static void op_qderiv(char** tok, int n) {
  const mjModel* m = M; mjData* d = D;
  if (!m || !d || n < 1 || n > 2) { printf("error usage\ndone\n"); return; }
  double eps = strtod(tok[0], NULL);
  double velscale = n > 1 ? strtod(tok[1], NULL) : 1.0;
  int nv = m->nv;
  armed = 1;
  static int saved_integ = -1;
  static double* saved_qvel = NULL;
  static double saved_wind[3];
  if (setjmp(jb)) {
    armed = 0;
    if (saved_integ >= 0) ((mjModel*)M)->opt.integrator = saved_integ;
    saved_integ = -1;
    if (saved_qvel) { memcpy(D->qvel, saved_qvel, sizeof(double) * M->nv); memcpy(((mjModel*)M)->opt.wind, saved_wind, sizeof saved_wind); free(saved_qvel); saved_qvel = NULL; }
    printf("error %s\ndone\n", lasterr); return;
  }
  saved_integ = m->opt.integrator;
  // probe mode: the same state with every velocity (and the wind) scaled
  saved_qvel = (double*)malloc(sizeof(double) * (nv + 1));
  memcpy(saved_qvel, d->qvel, sizeof(double) * nv); memcpy(saved_wind, m->opt.wind, sizeof saved_wind);
  for (int i = 0; i < nv; i++) d->qvel[i] *= velscale;
  for (int i = 0; i < 3; i++) ((mjModel*)m)->opt.wind[i] *= velscale;
  mj_forward(m, d);
  printf("sizes %d %d %d %d\n", nv, (int)m->nu, (int)m->na, (int)m->nD);
  double* buf = (double*)malloc(sizeof(double) * (9 * nv * nv + 8 * nv + 8));
  double* Aclamp = buf + 8 * nv * nv + 8 * nv;
  double *Aact = buf, *Apas = Aact + nv * nv, *A0 = Apas + nv * nv, *A1 = A0 + nv * nv;
  double *Fact = A1 + nv * nv, *Fpas = Fact + nv * nv, *Fbias = Fpas + nv * nv, *mask = Fbias + nv * nv;
  double* fp = mask + nv * nv; double* fm = fp + 3 * nv;
  // the fluid derivative blocks are symmetrised on purpose when the integrator option is implicitfast (documented
  // approximation of that integrator): the analytic derivative is evaluated with the option set to implicit
  int save_integrator = m->opt.integrator;
  ((mjModel*)m)->opt.integrator = mjINT_IMPLICIT;
  mju_zero(d->qDeriv, m->nD); mjd_actuator_vel(m, d); dense_qderiv(m, d, Aact);
  // classification aid: the same analytic term with d->ctrl clamped to ctrlrange the way mj_fwdActuation clamps it
  { double* cs = (double*)malloc(sizeof(double) * (m->nu + 1));
    memcpy(cs, d->ctrl, sizeof(double) * m->nu);
    for (int i = 0; i < m->nu; i++) if (m->actuator_ctrllimited[i]) {
      if (d->ctrl[i] < m->actuator_ctrlrange[2 * i]) d->ctrl[i] = m->actuator_ctrlrange[2 * i];
      if (d->ctrl[i] > m->actuator_ctrlrange[2 * i + 1]) d->ctrl[i] = m->actuator_ctrlrange[2 * i + 1];
    }
    mju_zero(d->qDeriv, m->nD); mjd_actuator_vel(m, d); dense_qderiv(m, d, Aclamp);
    memcpy(d->ctrl, cs, sizeof(double) * m->nu); free(cs); }
  mju_zero(d->qDeriv, m->nD); mjd_passive_vel(m, d); dense_qderiv(m, d, Apas);
  mjd_smooth_vel(m, d, 0); dense_qderiv(m, d, A0);
  mjd_smooth_vel(m, d, 1); dense_qderiv(m, d, A1);
  ((mjModel*)m)->opt.integrator = save_integrator;
  for (int i = 0; i < nv * nv; i++) mask[i] = 0;
  for (int r = 0; r < nv; r++) for (int k = 0; k < m->D_rownnz[r]; k++) mask[r * nv + m->D_colind[m->D_rowadr[r] + k]] = 1;
  // central differences of the three smooth force terms w.r.t. qvel (column j = d force / d qvel_j)
  for (int j = 0; j < nv; j++) {
    double save = d->qvel[j];
    d->qvel[j] = save + eps; mj_fwdVelocity(m, d); mj_fwdActuation(m, d);
    memcpy(fp, d->qfrc_actuator, sizeof(double) * nv); memcpy(fp + nv, d->qfrc_passive, sizeof(double) * nv); memcpy(fp + 2 * nv, d->qfrc_bias, sizeof(double) * nv);
    d->qvel[j] = save - eps; mj_fwdVelocity(m, d); mj_fwdActuation(m, d);
    memcpy(fm, d->qfrc_actuator, sizeof(double) * nv); memcpy(fm + nv, d->qfrc_passive, sizeof(double) * nv); memcpy(fm + 2 * nv, d->qfrc_bias, sizeof(double) * nv);
    d->qvel[j] = save;
    for (int r = 0; r < nv; r++) {
      Fact[r * nv + j] = (fp[r] - fm[r]) / (2 * eps);
      Fpas[r * nv + j] = (fp[nv + r] - fm[nv + r]) / (2 * eps);
      Fbias[r * nv + j] = (fp[2 * nv + r] - fm[2 * nv + r]) / (2 * eps);
    }
  }
  mj_forward(m, d);
  double fluidguard = 0;
  // classification aid: for how many ellipsoid-fluid geoms is the mjMINVAL guard of mjd_viscous_drag
  // (dA_coef = pi / max(mjMINVAL, sqrt(proj_num^3 proj_denom))) active at this state?  (quantities as documented there)
  { double cnt = 0;
    for (int g = 0; g < m->ngeom; g++) {
      if (!(m->geom_fluid[mjNFLUID * g] > 0)) continue;
      double sa[3], lv[6], w6[6] = {0, 0, 0, m->opt.wind[0], m->opt.wind[1], m->opt.wind[2]}, lw[6];
      int b = m->geom_bodyid[g];
      mju_geomSemiAxes(sa, m->geom_size + 3 * g, (mjtGeom)m->geom_type[g]);
      mj_objectVelocity(m, d, mjOBJ_GEOM, g, lv, 1);
      mju_transformSpatial(lw, w6, 0, d->geom_xpos + 3 * g, d->subtree_com + 3 * m->body_rootid[b], d->geom_xmat + 9 * g);
      double x = lv[3] - lw[3], y = lv[4] - lw[4], z = lv[5] - lw[5];
      double a = sa[1] * sa[2], bb = sa[2] * sa[0], c = sa[0] * sa[1];
      a *= a; bb *= bb; c *= c;
      double den = a * a * x * x + bb * bb * y * y + c * c * z * z, num = a * x * x + bb * y * y + c * z * z;
      int degenerate = sa[0] == sa[1] && sa[1] == sa[2];
      if (!degenerate && (x || y || z) && sqrt(num * num * num * den) < mjMINVAL) cnt += 1;
    }
    fluidguard = cnt; }
  pmat("fluidguard", &fluidguard, 1);
  pmat("qvel", d->qvel, nv);
  pmat("qfrc_actuator", d->qfrc_actuator, nv); pmat("qfrc_passive", d->qfrc_passive, nv); pmat("qfrc_bias", d->qfrc_bias, nv);
  pmat("actuator_force", d->actuator_force, m->nu);
  memcpy(d->qvel, saved_qvel, sizeof(double) * nv); memcpy(((mjModel*)m)->opt.wind, saved_wind, sizeof saved_wind);
  free(saved_qvel); saved_qvel = NULL;
  mj_forward(m, d);
  pmat("A_act_clampedctrl", Aclamp, nv * nv);
  pmat("A_act", Aact, nv * nv); pmat("A_pas", Apas, nv * nv); pmat("A_smooth0", A0, nv * nv); pmat("A_smooth1", A1, nv * nv);
  pmat("F_act", Fact, nv * nv); pmat("F_pas", Fpas, nv * nv); pmat("F_bias", Fbias, nv * nv); pmat("mask", mask, nv * nv);
  { double* fr = (double*)malloc(sizeof(double) * (3 * m->nu + 1));
    for (int i = 0; i < m->nu; i++) { fr[3 * i] = m->actuator_forcelimited[i]; fr[3 * i + 1] = m->actuator_forcerange[2 * i]; fr[3 * i + 2] = m->actuator_forcerange[2 * i + 1]; }
    pmat("forcerange", fr, 3L * m->nu); free(fr); }
  { double* ci = (double*)malloc(sizeof(double) * (4 * m->nu + 1));
    for (int i = 0; i < m->nu; i++) { ci[4 * i] = m->actuator_ctrllimited[i]; ci[4 * i + 1] = m->actuator_ctrlrange[2 * i];
                                      ci[4 * i + 2] = m->actuator_ctrlrange[2 * i + 1]; ci[4 * i + 3] = d->ctrl[i]; }
    pmat("ctrlinfo", ci, 4L * m->nu); free(ci); }
  free(buf);
  saved_integ = -1;
  armed = 0;
  printf("done\n");
}

static void op_implicit(void) {
  const mjModel* m = M; mjData* d = D;
  if (!m || !d) { printf("error usage\ndone\n"); return; }
  int nv = m->nv;
  armed = 1;
  if (setjmp(jb)) { armed = 0; printf("error %s\ndone\n", lasterr); return; }
  mjData* d2 = mj_makeData(m);
  mj_copyData(d2, m, d);
  mj_forward(m, d2);
  double* A = (double*)malloc(sizeof(double) * (2 * nv * nv + 2));
  mjd_smooth_vel(m, d2, m->opt.integrator == mjINT_IMPLICIT ? 1 : 0);
  dense_qderiv(m, d2, A);
  mj_copyData(d2, m, d);
  mj_step(m, d2);
  dense_qderiv(m, d2, A + nv * nv);
  printf("sizes %d %d\n", nv, m->opt.integrator);
  pmat("A_direct", A, nv * nv); pmat("A_step", A + nv * nv, nv * nv);
  free(A); mj_deleteData(d2);
  armed = 0;
  printf("done\n");
}

// next state of a copy of d after one mj_step, as [qpos; qvel; act] and sensordata
static void step_copy(const mjModel* m, const mjData* d, mjData* tmp, int kind, int idx, double delta, double* next, double* sens) {
  mj_copyData(tmp, m, d);
  if (kind == 0) { double* dp = (double*)calloc(m->nv + 1, sizeof(double)); dp[idx] = 1; mj_integratePos(m, tmp->qpos, dp, delta); free(dp); }
  else if (kind == 1) tmp->qvel[idx] += delta;
  else if (kind == 2) tmp->act[idx] += delta;
  else if (kind == 3) tmp->ctrl[idx] += delta;
  mj_step(m, tmp);
  mj_getState(m, tmp, next, mjSTATE_PHYSICS);
  if (sens) memcpy(sens, tmp->sensordata, sizeof(double) * m->nsensordata);
}
static void sdiff(const mjModel* m, double* ds, const double* s1, const double* s2, double h) {
  int nq = m->nq, nv = m->nv, na = m->na;
  mj_differentiatePos(m, ds, h, s1, s2);
  for (int i = 0; i < nv + na; i++) ds[nv + i] = (s2[nq + i] - s1[nq + i]) / h;
}

static void op_transfd(char** tok, int n) {
  const mjModel* m = M; mjData* d = D;
  if (!m || !d || n < 2 || n > 3) { printf("error usage\ndone\n"); return; }
  int cen = atoi(tok[0]); double eps = strtod(tok[1], NULL);
  int nv = m->nv, na = m->na, nu = m->nu, nq = m->nq, ns = m->nsensordata, ndx = 2 * nv + na;
  // probe mode: the same computation with the integrator option overridden
  static int tf_saved = -1;
  armed = 1;
  if (setjmp(jb)) { armed = 0; if (tf_saved >= 0) ((mjModel*)M)->opt.integrator = tf_saved; tf_saved = -1; printf("error %s\ndone\n", lasterr); return; }
  tf_saved = m->opt.integrator;
  if (n == 3) {
    if (!strcmp(tok[2], "euler")) ((mjModel*)m)->opt.integrator = mjINT_EULER;
    else if (!strcmp(tok[2], "implicit")) ((mjModel*)m)->opt.integrator = mjINT_IMPLICIT;
    else { armed = 0; tf_saved = -1; printf("error usage\ndone\n"); return; }
  }
  mj_forward(m, d);
  unsigned int user = mjSTATE_FULLPHYSICS | mjSTATE_USER;
  uint64_t h0 = state_hash(m, d, user), w0 = state_hash(m, d, mjSTATE_WARMSTART);
  double* A = (double*)malloc(sizeof(double) * (ndx * ndx + ndx * nu + ns * ndx + ns * nu + 4));
  double *B = A + ndx * ndx, *C = B + ndx * nu, *Dm = C + ns * ndx;
  mjd_transitionFD(m, d, eps, cen, A, B, C, Dm);
  uint64_t h1 = state_hash(m, d, user), w1 = state_hash(m, d, mjSTATE_WARMSTART);
  printf("sizes %d %d %d %d %d %d\n", nv, na, nu, ns, nq, (int)!!(m->opt.disableflags & mjDSBL_WARMSTART));
  printf("hash %016llx %016llx %016llx %016llx\n", (unsigned long long)h0, (unsigned long long)h1, (unsigned long long)w0, (unsigned long long)w1);
  pmat("A", A, (long)ndx * ndx); pmat("B", B, (long)ndx * nu); pmat("C", C, (long)ns * ndx); pmat("D", Dm, (long)ns * nu);
  // direct perturbation of mj_step on copies of the data (no stage skipping, no state restoring)
  mjData* tmp = mj_makeData(m);
  double* nx = (double*)malloc(sizeof(double) * (3 * (nq + nv + na) + 3 * ns + ndx + 8));
  double *np = nx + (nq + nv + na), *nm = np + (nq + nv + na), *s0 = nm + (nq + nv + na), *sp = s0 + ns, *sm = sp + ns, *col = sm + ns;
  double* A2 = (double*)calloc((size_t)ndx * ndx + (size_t)ndx * nu + (size_t)ns * ndx + (size_t)ns * nu + 4, sizeof(double));
  double *B2 = A2 + ndx * ndx, *C2 = B2 + ndx * nu, *D2 = C2 + ns * ndx;
  step_copy(m, d, tmp, -1, 0, 0, nx, s0);
  int cnt[4] = {nv, nv, na, nu};
  for (int kind = 0; kind < 4; kind++) for (int i = 0; i < cnt[kind]; i++) {
    int fwd = 1, back = cen;
    if (kind == 3 && m->actuator_ctrllimited[i]) {
      const double* r = m->actuator_ctrlrange + 2 * i; double c = d->ctrl[i];
      fwd = c >= r[0] && c <= r[1] && c + eps >= r[0] && c + eps <= r[1];
      back = (cen || !fwd) && (c - eps >= r[0] && c - eps <= r[1] && c >= r[0] && c <= r[1]);
    }
    if (fwd) step_copy(m, d, tmp, kind, i, eps, np, sp);
    if (back) step_copy(m, d, tmp, kind, i, -eps, nm, sm);
    double h = eps; const double *a = nx, *b = np, *sa = s0, *sb = sp;
    if (fwd && back) { a = nm; b = np; sa = sm; sb = sp; h = 2 * eps; }
    else if (!fwd && back) { a = nm; b = nx; sa = sm; sb = s0; }
    int colidx = kind == 0 ? i : kind == 1 ? nv + i : kind == 2 ? 2 * nv + i : i;
    if (fwd || back) {
      sdiff(m, col, a, b, h);
      for (int r = 0; r < ndx; r++) { if (kind < 3) A2[r * ndx + colidx] = col[r]; else B2[r * nu + colidx] = col[r]; }
      for (int r = 0; r < ns; r++) { double v = (sb[r] - sa[r]) / h; if (kind < 3) C2[r * ndx + colidx] = v; else D2[r * nu + colidx] = v; }
    }
  }
  pmat("A_direct", A2, (long)ndx * ndx); pmat("B_direct", B2, (long)ndx * nu); pmat("C_direct", C2, (long)ns * ndx); pmat("D_direct", D2, (long)ns * nu);
  free(A); free(A2); free(nx); mj_deleteData(tmp);
  ((mjModel*)m)->opt.integrator = tf_saved; tf_saved = -1;
  armed = 0;
  printf("done\n");
}

static void op_invfd(char** tok, int n) {
  const mjModel* m = M; mjData* d = D;
  if (!m || !d || n != 2) { printf("error usage\ndone\n"); return; }
  double eps = strtod(tok[0], NULL); int flg = atoi(tok[1]);
  int nv = m->nv, nq = m->nq;
  armed = 1;
  if (setjmp(jb)) { armed = 0; printf("error %s\ndone\n", lasterr); return; }
  mj_forward(m, d);
  unsigned int user = mjSTATE_FULLPHYSICS | mjSTATE_USER;
  uint64_t h0 = fnv(state_hash(m, d, user), d->qacc, sizeof(double) * nv);
  double* F = (double*)malloc(sizeof(double) * (6 * nv * nv + 8));
  double *Fq = F, *Fv = F + nv * nv, *Fa = Fv + nv * nv, *Gq = Fa + nv * nv, *Gv = Gq + nv * nv, *Ga = Gv + nv * nv;
  mjd_inverseFD(m, d, eps, flg, Fq, Fv, Fa, NULL, NULL, NULL, NULL);
  uint64_t h1 = fnv(state_hash(m, d, user), d->qacc, sizeof(double) * nv);
  printf("sizes %d %d\n", nv, nq);
  printf("hash %016llx %016llx\n", (unsigned long long)h0, (unsigned long long)h1);
  pmat("DfDq", Fq, nv * nv); pmat("DfDv", Fv, nv * nv); pmat("DfDa", Fa, nv * nv);
  // direct perturbation of mj_inverse on copies
  mjData* tmp = mj_makeData(m);
  double* f0 = (double*)malloc(sizeof(double) * (2 * nv + 2)); double* f1 = f0 + nv;
  double* G[3] = {Gq, Gv, Ga};
  for (int kind = -1; kind < 3; kind++) for (int i = 0; i < (kind < 0 ? 1 : nv); i++) {
    mj_copyData(tmp, m, d);
    if (kind == 0) { double* dp = (double*)calloc(nv + 1, sizeof(double)); dp[i] = 1; mj_integratePos(m, tmp->qpos, dp, eps); free(dp); }
    else if (kind == 1) tmp->qvel[i] += eps;
    else if (kind == 2) tmp->qacc[i] += eps;
    mj_inverse(m, tmp);
    double* out = kind < 0 ? f0 : f1;
    memcpy(out, tmp->qfrc_inverse, sizeof(double) * nv);
    if (flg) { mj_fwdActuation(m, tmp); for (int r = 0; r < nv; r++) out[r] -= tmp->qfrc_actuator[r]; }
    if (kind >= 0) for (int r = 0; r < nv; r++) G[kind][i * nv + r] = (f1[r] - f0[r]) / eps;
  }
  pmat("DfDq_direct", Gq, nv * nv); pmat("DfDv_direct", Gv, nv * nv); pmat("DfDa_direct", Ga, nv * nv);
  pmat("qfrc_inverse", f0, nv);
  free(F); free(f0); mj_deleteData(tmp);
  armed = 0;
  printf("done\n");
}

static void op_state(char** tok, int n) {
  if (!M || !D || n < 1) { printf("error no model\n"); return; }
  struct { const char* nm; double* p; long cnt; } T[] = {
    {"qpos", D->qpos, M->nq}, {"qvel", D->qvel, M->nv}, {"act", D->act, M->na}, {"ctrl", D->ctrl, M->nu},
    {"mocap_pos", D->mocap_pos, 3 * M->nmocap}, {"mocap_quat", D->mocap_quat, 4 * M->nmocap},
    {"qfrc_applied", D->qfrc_applied, M->nv}, {"xfrc_applied", D->xfrc_applied, 6 * M->nbody}, {"time", &D->time, 1},
    {"qacc", D->qacc, M->nv}, {NULL, NULL, 0}};
  for (int i = 0; T[i].nm; i++) if (!strcmp(T[i].nm, tok[0])) {
    if (n - 1 != T[i].cnt) { printf("error %s takes %ld values, got %d\n", tok[0], T[i].cnt, n - 1); return; }
    for (int k = 0; k < n - 1; k++) T[i].p[k] = strtod(tok[1 + k], NULL);
    printf("ok\n"); return;
  }
  printf("error unknown state field %s\n", tok[0]);
}

int main(void) {
  mju_user_error = on_error;
  mju_user_warning = on_warning;
  static char line[1 << 20];
  static char* tok[1 << 16];
  while (fgets(line, sizeof line, stdin)) {
    int n = 0; char* save;
    for (char* t = strtok_r(line, " \t\r\n", &save); t && n < (1 << 16); t = strtok_r(NULL, " \t\r\n", &save)) tok[n++] = t;
    if (!n) { printf("bad-op\n"); fflush(stdout); continue; }
    if (!strcmp(tok[0], "trace_step")) op_trace_step(tok + 1, n - 1);
    else if (!strcmp(tok[0], "trace_inv")) op_trace_inv(tok + 1, n - 1);
    else if (!strcmp(tok[0], "model")) {
      free_model();
      char err[1024];
      armed = 1;
      if (setjmp(jb)) { armed = 0; printf("error %s\n", lasterr); free_model(); fflush(stdout); continue; }
      M = mjb_compile(stdin, &SPEC, err, sizeof err);
      if (!M) { armed = 0; printf("error %s\n", err); fflush(stdout); continue; }
      D = mj_makeData(M);
      armed = 0;
      printf("ok %d %d %d %d %d %ld\n", (int)M->nq, (int)M->nv, (int)M->na, (int)M->nu, (int)M->nsensor, (long)M->nsensordata);
    }
    else if (!strcmp(tok[0], "state")) op_state(tok + 1, n - 1);
    else if (!strcmp(tok[0], "qderiv")) op_qderiv(tok + 1, n - 1);
    else if (!strcmp(tok[0], "implicit")) op_implicit();
    else if (!strcmp(tok[0], "transfd")) op_transfd(tok + 1, n - 1);
    else if (!strcmp(tok[0], "invfd")) op_invfd(tok + 1, n - 1);
    else printf("bad-op\n");
    fflush(stdout);
  }
  free_model();
  return 0;
}
