// C20 implementation-side driver: exhausted arena memory, on the *real* code of the tree.
//
// The four engine files that call mj_arenaAllocByte are compiled into this translation unit
// (#include of the unmodified .c files) with the call redirected, by a macro, to c20_alloc(), which
// forwards to the real mj_arenaAllocByte of engine_memory.c (linked from the tree build) and records
// (function, line, parena, pstack, bytes, alignment, result).  Nothing else is changed; the static
// consumers (pushPairArena, arenaAllocEfc, arenaAllocIsland) become callable for the unit ops.
//
// usage: c20_exhaust [--model FILE]
// stdin commands (one output line per command, except `model` which consumes lines up to `end`):
//   model NAME / <description lines of harness/mjbuild.h> / end      -> "model NAME ok nq nv ngeom narena szcon szpair"
//   init qpos|qvel v...        initial state used by sweeps (default: qpos0, zero velocity)
//   sweep NSTEPS TRACE S1 S2.. every size in a forked child: mj_makeData + NSTEPS x mj_step with
//                              m->narena = Si; one output line "r Si <exit> | <child report>" per size,
//                              then "sweep-end"
//   probe efc NEFC NJ | probe island NEFC NISLAND NIDOF   -> request list "b:a b:a ..." (ample arena)
//   efc NARENA PSTACK NCON NEFC NJ | b:a ...               real arenaAllocEfc on a real mjData
//   island NARENA PSTACK PARENA NEFC NISLAND NIDOF | b:a ..   real arenaAllocIsland
//   addcon NARENA PSTACK NCON                              real mj_addContact
//   pushpair VARIANT NARENA PSTACK PARENA                  real pushPairArena in a forked child
//   alloc NARENA PARENA PSTACK BYTES AL                    real mj_arenaAllocByte
//   facts | groups                                          -> sizeof/alignof and X-macro group sizes used by the model
#include <errno.h>
#include <inttypes.h>
#include <poll.h>
#include <setjmp.h>
#include <signal.h>
#include <stdint.h>
#include <stdio.h>
#include <stdlib.h>
#include <string.h>
#include <sys/mman.h>
#include <sys/wait.h>
#include <unistd.h>

#include <mujoco/mujoco.h>
#include "engine/engine_memory.h"
#include "mjbuild.h"

static void* c20_alloc(mjData* d, size_t bytes, size_t al, const char* func, int line);
#define mj_arenaAllocByte(d, b, a) c20_alloc((d), (b), (a), __func__, __LINE__)
#include "engine/engine_collision_driver.c"
#include "engine/engine_core_constraint.c"
#include "engine/engine_island.c"
#include "engine/engine_derivative.c"
#undef mj_arenaAllocByte
#undef X
#undef XNV
#define XNV X
#undef MJ_M
#undef MJ_D

// ------------------------------------------------------------------ allocation trace
typedef struct { const char* func; int line; size_t parena0, pstack, bytes, al, parena1; long res; } Rec;
#define MAXREC 8192
static Rec g_rec[MAXREC];
static int g_nrec = 0, g_nalloc = 0, g_nnull = 0;
static int g_report_fd = -1;   // child: NULL results are written here immediately (survives a crash)
static int g_nullprinted = 0;

static void wr(int fd, const char* s) { size_t n = strlen(s); while (n) { ssize_t k = write(fd, s, n); if (k <= 0) break; s += k; n -= k; } }

static void* c20_alloc(mjData* d, size_t bytes, size_t al, const char* func, int line) {
  size_t p0 = d->parena, ps = d->pstack;
  void* r = mj_arenaAllocByte(d, bytes, al);   // the real allocator of engine_memory.c
  g_nalloc++;
  if (!r) g_nnull++;
  if (g_nrec < MAXREC) {
    Rec* q = &g_rec[g_nrec++];
    q->func = func; q->line = line; q->parena0 = p0; q->pstack = ps; q->bytes = bytes; q->al = al;
    q->parena1 = d->parena; q->res = r ? (long)((char*)r - (char*)d->arena) : -1;
  }
  if (!r && g_report_fd >= 0 && g_nullprinted < 40) {
    char b[256];
    snprintf(b, sizeof b, "null %s %d %zu;", func, line, bytes);
    wr(g_report_fd, b);
    g_nullprinted++;
  }
  return r;
}

static void reset_trace(void) { g_nrec = g_nalloc = g_nnull = 0; }

// ------------------------------------------------------------------ handlers
static jmp_buf* g_jmp = NULL;
static char g_errmsg[300];
static int g_nwarn = 0;
static void on_error(const char* msg) {
  snprintf(g_errmsg, sizeof g_errmsg, "%s", msg);
  for (char* c = g_errmsg; *c; c++) if (*c == '\n' || *c == ';' || *c == '|') *c = ' ';
  if (g_jmp) longjmp(*g_jmp, 1);
  fprintf(stderr, "c20 harness: uncaught mju_error: %s\n", msg);
  _exit(3);
}
static void on_warning(const char* msg) { (void)msg; g_nwarn++; }

// ------------------------------------------------------------------ guard-page allocator (children, non-ASan)
// Every mju_malloc block ends within 64 bytes of a PROT_NONE page and starts after a canary-filled
// slack that follows another PROT_NONE page: a write outside the arena / buffer faults or is seen.
typedef struct { unsigned char* p; size_t size, body; unsigned char* lo; } Blk;
static Blk g_blk[64];
static int g_nblk = 0;
static void* ef_malloc(size_t size) {
  if (!size || g_nblk >= 64) return NULL;
  size_t pg = 4096, body = (size + 63) & ~(size_t)63, total = ((body + pg - 1) / pg) * pg;
  unsigned char* base = mmap(NULL, total + 2 * pg, PROT_READ | PROT_WRITE, MAP_PRIVATE | MAP_ANONYMOUS, -1, 0);
  if (base == MAP_FAILED) return NULL;
  mprotect(base, pg, PROT_NONE);
  mprotect(base + pg + total, pg, PROT_NONE);
  unsigned char* p = base + pg + total - body;
  memset(base + pg, 0xA5, (size_t)(p - (base + pg)));
  memset(p + size, 0xA5, body - size);
  Blk b = {p, size, body, base + pg};
  g_blk[g_nblk++] = b;
  return p;
}
static void ef_free(void* p) { (void)p; }
static int ef_check(void) {
  for (int i = 0; i < g_nblk; i++) {
    for (unsigned char* q = g_blk[i].lo; q < g_blk[i].p; q++) if (*q != 0xA5) return 0;
    for (unsigned char* q = g_blk[i].p + g_blk[i].size; q < g_blk[i].p + g_blk[i].body; q++) if (*q != 0xA5) return 0;
  }
  return 1;
}

// ------------------------------------------------------------------ post-state invariants
static const char* check_inv(const mjModel* m, const mjData* d, char* buf, size_t n) {
  const char* a0 = (const char*)d->arena;
  if (d->parena + d->pstack > d->narena) return "parena+pstack>narena";
  if (d->pstack != 0 || d->pbase != 0) return "stack not released after mj_step";
  if (d->ncon < 0 || d->nefc < 0 || d->nisland < 0) return "negative count";
  if ((size_t)d->ncon * sizeof(mjContact) > d->parena) return "contact array extends above parena";
  if ((void*)d->contact != d->arena) return "d->contact != d->arena";
#define MJ_M(x) m->x
#define MJ_D(x) d->x
#define X(type, name, nr, nc)                                                                   \
  if (d->name) {                                                                                \
    const char* lo = (const char*)d->name; size_t sz = sizeof(type) * (size_t)(nr) * (size_t)(nc); \
    if (lo < a0 || lo + sz > a0 + d->parena) {                                                  \
      snprintf(buf, n, "%s outside [arena, arena+parena)", #name); return buf; }                \
    if (((uintptr_t)lo) % _Alignof(type)) { snprintf(buf, n, "%s misaligned", #name); return buf; } \
  }
  MJDATA_ARENA_POINTERS
#undef X
  if (d->nefc > 0) {
#define X(type, name, nr, nc) \
    if (!d->name && (size_t)(nr) * (size_t)(nc) > 0) { snprintf(buf, n, "nefc=%d but %s is NULL", d->nefc, #name); return buf; }
    MJDATA_ARENA_POINTERS_SOLVER
#undef X
  }
  if (d->nisland > 0) {
#define X(type, name, nr, nc) \
    if (!d->name && (size_t)(nr) * (size_t)(nc) > 0) { snprintf(buf, n, "nisland=%d but %s is NULL", d->nisland, #name); return buf; }
    MJDATA_ARENA_POINTERS_ISLAND
#undef X
  }
#undef MJ_M
#undef MJ_D
  return NULL;
}

// ------------------------------------------------------------------ model + state
static mjModel* g_m = NULL;
static mjSpec* g_spec = NULL;
static double* g_qpos = NULL; static int g_nqpos = 0;
static double* g_qvel = NULL; static int g_nqvel = 0;
static int g_fence = 1;

static void ef_reset(void) {
  for (int i = 0; i < g_nblk; i++) {
    size_t pg = 4096, total = ((g_blk[i].body + pg - 1) / pg) * pg;
    munmap(g_blk[i].lo - pg, total + 2 * pg);
  }
  g_nblk = 0;
}

// one size: mj_makeData + nsteps x mj_step with m->narena = narena; the report goes to fd as it is produced
static void one_size(size_t narena, int nsteps, int trace, int fd) {
  char b[600], ib[200];
  alarm(60);
  mjModel* m = g_m;
  m->narena = narena;
  jmp_buf jb;
  volatile int step = -1;
  mjData* volatile dv = NULL;
  reset_trace();
  g_nullprinted = 0;
  g_jmp = &jb;
  if (setjmp(jb)) {
    snprintf(b, sizeof b, "err %d %s;", (int)step, g_errmsg);
    wr(fd, b);
  } else {
    mjData* d = mj_makeData(m);
    dv = d;
    if (!d) { wr(fd, "err -1 mj_makeData returned NULL;"); }
    else {
      if (g_qpos && g_nqpos == m->nq) memcpy(d->qpos, g_qpos, sizeof(double) * m->nq);
      if (g_qvel && g_nqvel == m->nv) memcpy(d->qvel, g_qvel, sizeof(double) * m->nv);
      for (step = 0; step < nsteps; step++) {
        int null0 = g_nnull, w0 = d->warning[mjWARN_CONTACTFULL].number + d->warning[mjWARN_CNSTRFULL].number;
        mj_step(m, d);
        const char* why = check_inv(m, d, ib, sizeof ib);
        if (why) { snprintf(b, sizeof b, "inv %d %s;", (int)step, why); wr(fd, b); break; }
        int w1 = d->warning[mjWARN_CONTACTFULL].number + d->warning[mjWARN_CNSTRFULL].number;
        if (g_nnull > null0 && w1 == w0) {
          snprintf(b, sizeof b, "inv %d %d failed arena allocations but no CONTACTFULL/CNSTRFULL warning and no error;", (int)step, g_nnull - null0);
          wr(fd, b); break;
        }
      }
    }
  }
  g_jmp = NULL;
  mjData* d = dv;
  if (trace) {
    int lim = g_nrec < trace ? g_nrec : trace;
    // the last `trace` records are the interesting ones (around the failure)
    for (int i = g_nrec - lim; i < g_nrec; i++) {
      Rec* q = &g_rec[i];
      snprintf(b, sizeof b, "t %s %d %zu %zu %zu %zu %ld %zu;", q->func, q->line, q->parena0, q->pstack, q->bytes, q->al, q->res, q->parena1);
      wr(fd, b);
    }
  }
  // informational (not an invariant): contacts whose efc_address points at or above nefc
  int stale = 0;
  if (d && (int)step >= nsteps) for (int i = 0; i < d->ncon; i++) if (d->contact[i].efc_address >= d->nefc) stale++;
  snprintf(b, sizeof b, "fin steps=%d wC=%d wF=%d nalloc=%d nnull=%d ncon=%d nefc=%d nisland=%d maxarena=%zu stale=%d canary=%s;",
           (int)step, d ? d->warning[mjWARN_CONTACTFULL].number : -1, d ? d->warning[mjWARN_CNSTRFULL].number : -1,
           g_nalloc, g_nnull, d ? d->ncon : -1, d ? d->nefc : -1, d ? d->nisland : -1, d ? d->maxuse_arena : 0, stale,
           (!g_fence || ef_check()) ? "ok" : "BAD");
  wr(fd, b);
  // the mjData is dropped, not deleted: after a caught mju_error its stack may be in use
  if (g_fence) ef_reset();
}

typedef struct { const size_t* sizes; int n, nsteps, trace; } SweepArg;
// a batch of sizes in one child: "b <size>;<report>\n" per size; the parent restarts after a size that kills the child
static void sweep_thunk(void* a, int fd) {
  SweepArg* s = a;
  char b[64];
  g_report_fd = fd;
  dup2(fd, 2);   // sanitizer reports go to the same pipe
  if (g_fence) { mju_user_malloc = ef_malloc; mju_user_free = ef_free; }
  for (int i = 0; i < s->n; i++) {
    snprintf(b, sizeof b, "b %zu;", s->sizes[i]);
    wr(fd, b);
    one_size(s->sizes[i], s->nsteps, s->trace, fd);
    wr(fd, "\001");
  }
  _exit(0);
}

// run f in a forked child, collect its report; returns malloc'd string, sets *status text
static char* in_child2(void (*f)(void*, int), void* arg, char* status, size_t nstatus, int keep_nl) {
  int pf[2];
  if (pipe(pf)) { snprintf(status, nstatus, "pipe-failed"); return strdup(""); }
  fflush(stdout);
  pid_t pid = fork();
  if (pid == 0) { close(pf[0]); f(arg, pf[1]); _exit(0); }
  close(pf[1]);
  size_t cap = 1 << 16, len = 0; char* buf = malloc(cap);
  for (;;) {
    if (len + 4096 > cap) { cap *= 2; buf = realloc(buf, cap); }
    ssize_t k = read(pf[0], buf + len, 4095);
    if (k <= 0) break;
    len += k;
  }
  buf[len] = 0;
  close(pf[0]);
  int st = 0; waitpid(pid, &st, 0);
  if (WIFSIGNALED(st)) snprintf(status, nstatus, "sig%d", WTERMSIG(st));
  else snprintf(status, nstatus, "exit%d", WEXITSTATUS(st));
  for (size_t i = 0; i < len; i++) if ((buf[i] == '\n' && !keep_nl) || buf[i] == '\r') buf[i] = '~';
  return buf;
}
static char* in_child(void (*f)(void*, int), void* arg, char* status, size_t nstatus) { return in_child2(f, arg, status, nstatus, 0); }

// ------------------------------------------------------------------ unit ops on the real consumers
typedef struct { size_t b, a; } Req;
static int parse_reqs(char* s, Req* r, int max) {
  int n = 0; char* save; char* t = strtok_r(s, " \t\r\n", &save);
  while (t && n < max) {
    char* c = strchr(t, ':'); if (!c) return -1;
    r[n].b = strtoull(t, NULL, 10); r[n].a = strtoull(c + 1, NULL, 10); n++;
    t = strtok_r(NULL, " \t\r\n", &save);
  }
  return n;
}
static const char* reqs_check(const Req* r, int n) {
  // the requests really made must be a prefix of the announced list (all of it when nothing failed)
  if (g_nrec > n) return "MORE";
  for (int i = 0; i < g_nrec; i++) if (g_rec[i].bytes != r[i].b || g_rec[i].al != r[i].a) return "DIFF";
  if (g_nrec < n && (g_nrec == 0 || g_rec[g_nrec - 1].res >= 0)) return "FEWER";
  return "ok";
}
static mjData* unit_data(size_t narena, char* out, size_t nout) {
  static jmp_buf jb;
  g_m->narena = narena;
  g_jmp = &jb;
  if (setjmp(jb)) { g_jmp = NULL; snprintf(out, nout, "error makeData"); return NULL; }
  mjData* d = mj_makeData(g_m);
  g_jmp = NULL;
  if (!d) { snprintf(out, nout, "error makeData"); return NULL; }
  return d;
}
#define MARK(d) ((void*)(d)->arena)
static void mark_all(mjData* d) {
#define X(type, name, nr, nc) d->name = (type*)MARK(d);
  MJDATA_ARENA_POINTERS_SOLVER
  MJDATA_ARENA_POINTERS_DUAL
  MJDATA_ARENA_POINTERS_ISLAND
#undef X
}
static void print_groups(const mjData* d, char* o, size_t n) {
  size_t k = 0;
  const char* a0 = (const char*)d->arena;
  k += snprintf(o + k, n - k, " solver=");
#define X(type, name, nr, nc) k += d->name ? snprintf(o + k, n - k, "%ld,", (long)((const char*)d->name - a0)) : snprintf(o + k, n - k, "-,");
  MJDATA_ARENA_POINTERS_SOLVER
#undef X
  k += snprintf(o + k, n - k, " dual=");
#define X(type, name, nr, nc) k += snprintf(o + k, n - k, "%c", d->name ? '1' : '0');
  MJDATA_ARENA_POINTERS_DUAL
#undef X
  k += snprintf(o + k, n - k, " island=");
#define X(type, name, nr, nc) k += d->name ? snprintf(o + k, n - k, "%ld,", (long)((const char*)d->name - a0)) : snprintf(o + k, n - k, "-,");
  MJDATA_ARENA_POINTERS_ISLAND
#undef X
}

typedef struct { size_t narena, pstack, parena; } PushArg;
static void push_thunk(void* a, int fd) {
  PushArg* p = a;
  char o[200];
  dup2(fd, 2);
  mjData* d = unit_data(p->narena, o, sizeof o);
  if (!d) { wr(fd, o); _exit(0); }
  d->pstack = p->pstack; d->parena = p->parena;
  mjcPair pair; defaultPair(&pair, mjCPAIR_GEOM_GEOM);
  pair.geom_geom.g1 = 0; pair.geom_geom.g2 = 1; pair.geom_geom.ipair = -1;
  jmp_buf jb; g_jmp = &jb;
  if (setjmp(jb)) { snprintf(o, sizeof o, "error parena=%zu", d->parena); wr(fd, o); _exit(0); }
  pushPairArena(d, &pair);
  g_jmp = NULL;
  snprintf(o, sizeof o, "ok parena=%zu", d->parena);
  wr(fd, o);
  _exit(0);
}

typedef struct { size_t narena, pstack; int ncon; } AddArg;
static void addcon_thunk(void* arg, int fd) {
  AddArg* p = arg;
  static char out[1 << 14];
  dup2(fd, 2);
  mjData* d = unit_data(p->narena, out, sizeof out);
  if (!d) { wr(fd, out); _exit(0); }
  d->pstack = p->pstack; d->ncon = p->ncon;
  d->nefc = 5; d->nisland = 1; d->nJ = 3; d->nY = 7; d->nA = 9;
  d->parena = (size_t)d->ncon * sizeof(mjContact) + 24;   // something above the contact array
  mark_all(d);
  reset_trace();
  mjContact con; memset(&con, 0, sizeof con); con.dist = -0.25; con.efc_address = 3;
  int ret = mj_addContact(g_m, d, &con);
  int copied = (ret == 0) && d->ncon > 0 && d->contact[d->ncon - 1].dist == -0.25;
  size_t k = snprintf(out, sizeof out, "ret=%d parena=%zu ncon=%d nefc=%d nisland=%d nJYA=%d,%d,%d wC=%d wF=%d copied=%d", ret, d->parena, d->ncon,
                      d->nefc, d->nisland, d->nJ, d->nY, d->nA, d->warning[mjWARN_CONTACTFULL].number, d->warning[mjWARN_CNSTRFULL].number, copied);
  print_groups(d, out + k, sizeof out - k);
  wr(fd, out);
  _exit(0);
}

int main(int argc, char** argv) {
  static char line[1 << 20], out[1 << 16];
  setvbuf(stdout, NULL, _IOLBF, 0);
  mju_user_error = on_error;
  mju_user_warning = on_warning;
  if (getenv("C20_NOFENCE")) g_fence = 0;
  if (argc == 3 && !strcmp(argv[1], "--model")) {   // unit-op mode: the model comes from a file, stdin carries only ops
    FILE* f = fopen(argv[2], "r");
    char err[512];
    if (!f) { fprintf(stderr, "cannot open %s\n", argv[2]); return 2; }
    g_m = mjb_compile(f, &g_spec, err, sizeof err);
    fclose(f);
    if (!g_m) { fprintf(stderr, "model: %s\n", err); return 2; }
  }
  while (fgets(line, sizeof line, stdin)) {
    char* nl = strchr(line, '\n'); if (nl) *nl = 0;
    char* bar = strchr(line, '|');
    char* reqstr = NULL;
    if (bar) { *bar = 0; reqstr = bar + 1; }
    char* tok[4096]; int n = 0; char* save; char* t = strtok_r(line, " \t\r", &save);
    while (t && n < 4096) { tok[n++] = t; t = strtok_r(NULL, " \t\r", &save); }
    if (!n) { puts("bad-op"); continue; }
    const char* op = tok[0];
    if (!strcmp(op, "model") && n == 2) {
      char err[512];
      if (g_m) { mj_deleteModel(g_m); g_m = NULL; }
      if (g_spec) { mj_deleteSpec(g_spec); g_spec = NULL; }
      free(g_qpos); g_qpos = NULL; free(g_qvel); g_qvel = NULL;
      static jmp_buf jb; g_jmp = &jb;
      if (setjmp(jb)) { g_jmp = NULL; printf("model %s error %s\n", tok[1], g_errmsg); continue; }
      g_m = mjb_compile(stdin, &g_spec, err, sizeof err);
      g_jmp = NULL;
      if (!g_m) { for (char* c = err; *c; c++) if (*c == '\n') *c = ' '; printf("model %s fail %s\n", tok[1], err); continue; }
      printf("model %s ok nq=%d nv=%d ngeom=%d narena=%zu szcon=%zu szpair=%zu alpair=%zu\n", tok[1], (int)g_m->nq, (int)g_m->nv,
             (int)g_m->ngeom, (size_t)g_m->narena, sizeof(mjContact), sizeof(mjcPair), _Alignof(mjcPair));
      continue;
    }
    if (!strcmp(op, "facts") && n == 1) {
      printf("sites szcon=%zu alcon=%zu szpair=%zu alpair=%zu\n", sizeof(mjContact), _Alignof(mjContact), sizeof(mjcPair), _Alignof(mjcPair));
      continue;
    }
    if (!strcmp(op, "groups") && n == 1) {
      int ns = 0, nd = 0, ni = 0;
#define X(type, name, nr, nc) ns++;
      MJDATA_ARENA_POINTERS_SOLVER
#undef X
#define X(type, name, nr, nc) nd++;
      MJDATA_ARENA_POINTERS_DUAL
#undef X
#define X(type, name, nr, nc) ni++;
      MJDATA_ARENA_POINTERS_ISLAND
#undef X
      printf("groups nsolver=%d ndual=%d nisland=%d\n", ns, nd, ni);
      continue;
    }
    if (!g_m) { puts("bad-op"); continue; }
    if (!strcmp(op, "init") && n >= 2 && (!strcmp(tok[1], "qpos") || !strcmp(tok[1], "qvel"))) {
      int k = n - 2; double* v = malloc(sizeof(double) * (k ? k : 1));
      for (int i = 0; i < k; i++) v[i] = strtod(tok[i + 2], NULL);
      if (!strcmp(tok[1], "qpos")) { free(g_qpos); g_qpos = v; g_nqpos = k; printf("init qpos %s\n", k == g_m->nq ? "ok" : "size-mismatch"); }
      else { free(g_qvel); g_qvel = v; g_nqvel = k; printf("init qvel %s\n", k == g_m->nv ? "ok" : "size-mismatch"); }
      continue;
    }
    if (!strcmp(op, "sweep") && n >= 3) {
      size_t narena0 = g_m->narena;
      int ns = n - 3;
      size_t* sizes = malloc(sizeof(size_t) * (ns ? ns : 1));
      for (int i = 0; i < ns; i++) sizes[i] = strtoull(tok[i + 3], NULL, 10);
      int i = 0;
      while (i < ns) {
        int batch = ns - i < 48 ? ns - i : 48;
        SweepArg a = {sizes + i, batch, atoi(tok[1]), atoi(tok[2])};
        char st[32];
        char* rep = in_child2(sweep_thunk, &a, st, sizeof st, 1);
        // complete lines = sizes the child survived; an unterminated tail = the size that killed it
        char* p = rep; int done = 0;
        while (*p && done < batch) {
          char* e = strchr(p, '\001');
          size_t sz = 0; char* body = p;
          if (p[0] == 'b' && p[1] == ' ') { sz = strtoull(p + 2, &body, 10); if (*body == ';') body++; }
          if (e) {
            *e = 0;
            for (char* c = body; *c; c++) if (*c == '\n') *c = '~';
            printf("r %zu exit0 | %s\n", sz, body);
            p = e + 1; done++;
          } else {
            for (char* c = body; *c; c++) if (*c == '\n') *c = '~';
            printf("r %zu %s | %s\n", sz, strcmp(st, "exit0") ? st : "exit-early", body);
            done++;
            break;
          }
        }
        if (done == 0) {   // the child died before reporting anything for its first size
          printf("r %zu %s | \n", sizes[i], strcmp(st, "exit0") ? st : "exit-early");
          done = 1;
        }
        free(rep);
        i += done;
      }
      free(sizes);
      g_m->narena = narena0;
      puts("sweep-end");
      continue;
    }
    size_t narena0 = g_m->narena;
    if (!strcmp(op, "probe") && n >= 2) {
      mjData* d = unit_data(narena0 > (64u << 20) ? narena0 : (64u << 20), out, sizeof out);
      g_m->narena = narena0;
      if (!d) { puts(out); continue; }
      reset_trace();
      int ok = -1;
      if (!strcmp(tok[1], "efc") && n == 4) { d->nefc = atoi(tok[2]); d->nJ = atoi(tok[3]); ok = arenaAllocEfc(g_m, d); }
      else if (!strcmp(tok[1], "island") && n == 5) { d->nefc = atoi(tok[2]); d->nisland = atoi(tok[3]); d->nidof = atoi(tok[4]); ok = arenaAllocIsland(g_m, d); }
      if (ok != 1) { puts("bad-op"); mj_deleteData(d); continue; }
      size_t k = 0; out[0] = 0;
      for (int i = 0; i < g_nrec; i++) k += snprintf(out + k, sizeof out - k, "%s%zu:%zu", i ? " " : "", g_rec[i].bytes, g_rec[i].al);
      printf("reqs %s\n", out);
      d->nefc = d->nisland = d->nidof = 0;
      mj_deleteData(d);
      continue;
    }
    if (!strcmp(op, "efc") && n == 6 && reqstr) {
      static Req rq[512]; int nr = parse_reqs(reqstr, rq, 512);
      if (nr < 0) { puts("bad-op"); continue; }
      mjData* d = unit_data(strtoull(tok[1], NULL, 10), out, sizeof out);
      g_m->narena = narena0;
      if (!d) { puts(out); continue; }
      d->pstack = strtoull(tok[2], NULL, 10); d->ncon = atoi(tok[3]); d->nefc = atoi(tok[4]); d->nJ = atoi(tok[5]);
      d->nisland = 1; d->nY = 7; d->nA = 9;
      mark_all(d);
      reset_trace();
      int ret = arenaAllocEfc(g_m, d);
      size_t k = snprintf(out, sizeof out, "ret=%d parena=%zu ncon=%d nefc=%d nisland=%d nJYA=%d,%d,%d wC=%d wF=%d reqs=%s", ret, d->parena, d->ncon,
                          d->nefc, d->nisland, d->nJ, d->nY, d->nA, d->warning[mjWARN_CONTACTFULL].number, d->warning[mjWARN_CNSTRFULL].number, reqs_check(rq, nr));
      print_groups(d, out + k, sizeof out - k);
      puts(out);
      d->pstack = 0; d->nefc = d->ncon = d->nisland = 0;
      mj_deleteData(d);
      continue;
    }
    if (!strcmp(op, "island") && n == 7 && reqstr) {
      static Req rq[512]; int nr = parse_reqs(reqstr, rq, 512);
      if (nr < 0) { puts("bad-op"); continue; }
      mjData* d = unit_data(strtoull(tok[1], NULL, 10), out, sizeof out);
      g_m->narena = narena0;
      if (!d) { puts(out); continue; }
      d->pstack = strtoull(tok[2], NULL, 10); d->parena = strtoull(tok[3], NULL, 10);
      d->nefc = atoi(tok[4]); d->nisland = atoi(tok[5]); d->nidof = atoi(tok[6]);
      d->ncon = 0; d->nJ = 3; d->nY = 7; d->nA = 9;
      mark_all(d);
      reset_trace();
      int ret = arenaAllocIsland(g_m, d);
      size_t k = snprintf(out, sizeof out, "ret=%d parena=%zu ncon=%d nefc=%d nisland=%d nidof=%d nJYA=%d,%d,%d wC=%d wF=%d reqs=%s", ret, d->parena, d->ncon,
                          d->nefc, d->nisland, d->nidof, d->nJ, d->nY, d->nA, d->warning[mjWARN_CONTACTFULL].number, d->warning[mjWARN_CNSTRFULL].number, reqs_check(rq, nr));
      print_groups(d, out + k, sizeof out - k);
      puts(out);
      d->pstack = 0; d->nefc = d->ncon = d->nisland = 0;
      mj_deleteData(d);
      continue;
    }
    if (!strcmp(op, "addcon") && n == 4) {
      AddArg a = {strtoull(tok[1], NULL, 10), strtoull(tok[2], NULL, 10), atoi(tok[3])};
      char st[32];
      char* rep = in_child(addcon_thunk, &a, st, sizeof st);
      g_m->narena = narena0;
      if (strcmp(st, "exit0") || strstr(rep, "Sanitizer") || strstr(rep, "runtime error")) printf("FAULT\n");
      else printf("%s\n", rep);
      free(rep);
      continue;
    }
    if (!strcmp(op, "pushpair") && n == 5) {
      PushArg a = {strtoull(tok[2], NULL, 10), strtoull(tok[3], NULL, 10), strtoull(tok[4], NULL, 10)};
      char st[32];
      char* rep = in_child(push_thunk, &a, st, sizeof st);
      g_m->narena = narena0;
      if (strcmp(st, "exit0") || strstr(rep, "Sanitizer") || strstr(rep, "runtime error")) printf("FAULT\n");
      else printf("%s\n", rep);
      free(rep);
      continue;
    }
    if (!strcmp(op, "alloc") && n == 6) {
      mjData* d = unit_data(strtoull(tok[1], NULL, 10), out, sizeof out);
      g_m->narena = narena0;
      if (!d) { puts(out); continue; }
      d->parena = strtoull(tok[2], NULL, 10); d->pstack = strtoull(tok[3], NULL, 10);
      void* r = mj_arenaAllocByte(d, strtoull(tok[4], NULL, 10), strtoull(tok[5], NULL, 10));
      if (r) printf("ptr %ld %zu\n", (long)((char*)r - (char*)d->arena), d->parena); else printf("null %zu\n", d->parena);
      d->pstack = 0; d->parena = 0;
      mj_deleteData(d);
      continue;
    }
    puts("bad-op");
  }
  return 0;
}
