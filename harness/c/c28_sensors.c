// c28_sensors.c — C28 implementation-side driver on the real engine (never a re-implementation).
//
// (A) differential ops, one line in / one line out (doubles as 16 hex digits of their IEEE bits), the same
//     lines lean/Drivers/C28.lean reads.  The *unmodified* functions of engine_sensor.c (file-static ones
//     reached by #include of the .c file) are called on crafted mjModel / mjData views whose arrays come from the line:
//       cutoff <class> <typeint> <datatype> <dtint> <cutoff> <n> x1..xn          apply_cutoff
//       layout d1 .. dn                                                          mj_compile of n user sensors -> sensor_adr, nsensordata
//       sensor <kind> <typeint> <datatype> <dtint> <cutoff> <objtype> <otint> <objid> <reftype|none> <rtint> <refid>
//              <nbody> <ngeom> <nsite> <ncam> body* geom* site* cam*             mj_computeSensor
// (B) oracle ops on generated models (harness/mjbuild.h description format), results printed with %.17g:
//       model ... end        -> "ok <sizes>" | "error <msg>"
//       state <field> v...   -> ok          (qpos qvel act ctrl mocap_pos mocap_quat qfrc_applied xfrc_applied time)
//       usersensor v...      -> ok          (values a user-sensor callback writes, cyclically)
//       eval                 -> many lines (sens / arr / iarr / con / ref ...) terminated by "done"
//     eval runs mj_forward twice with sensordata pre-filled by two different poison values and reports both results,
//     the mjData / mjModel primitives the readings are documented in terms of, and reference motions of every sensor
//     object computed through the Jacobian API (mj_jac, mj_jacDot: J qvel, J qacc + Jdot qvel).
// mju_error is caught (longjmp) and reported as "error <msg>".
#include <math.h>
#include <setjmp.h>
#include <stdint.h>
#include <stdio.h>
#include <stdlib.h>
#include <string.h>
#include <mujoco/mujoco.h>
#include <mujoco/mjxmacro.h>
#include "mjbuild.h"
#include "engine/engine_sensor.c"   // static apply_cutoff, mj_computeSensorPos/Vel/Acc

static jmp_buf jb;
static int armed = 0;
static char lasterr[1024];

static void on_error(const char* msg) {
  snprintf(lasterr, sizeof lasterr, "%s", msg);
  for (char* c = lasterr; *c; c++) if (*c == '\n') *c = ' ';
  if (armed) longjmp(jb, 1);
  fprintf(stderr, "unguarded mju_error: %s\n", msg);
  exit(3);
}
static void on_warning(const char* msg) { (void)msg; }

// ------------------------------------------------------------------ token helpers
static int getf(const char* t, double* x) {
  if (!strcmp(t, "nan")) { *x = NAN; return 1; }
  if (strlen(t) != 16) return 0;
  char* e; uint64_t u = strtoull(t, &e, 16);
  if (*e) return 0;
  memcpy(x, &u, 8); return 1;
}
static int geti(const char* t, int* x) {
  if (!*t || *t == '+') return 0;
  char* e; long v = strtol(t, &e, 10);
  if (*e) return 0;
  *x = (int)v; return 1;
}
static int getn(const char* t, int* x) { return geti(t, x) && *x >= 0 && t[0] != '-'; }
static void putbits(double x, int first) {
  uint64_t u; memcpy(&u, &x, 8);
  if (x != x) printf(first ? "nan" : " nan"); else printf(first ? "%016llx" : " %016llx", (unsigned long long)u);
}

// ------------------------------------------------------------------ (A) cutoff
static void op_cutoff(char** tok, int n) {
  // <class> <typeint> <datatype> <dtint> <cutoff> <n> x...
  if (n < 6) { printf("bad-op\n"); return; }
  int type, dt, cnt; double cutoff;
  if (strcmp(tok[0], "exempt") && strcmp(tok[0], "regular")) { printf("bad-op\n"); return; }
  if (strcmp(tok[2], "real") && strcmp(tok[2], "positive") && strcmp(tok[2], "axis") && strcmp(tok[2], "quaternion")) { printf("bad-op\n"); return; }
  if (!geti(tok[1], &type) || !geti(tok[3], &dt) || !getf(tok[4], &cutoff) || !getn(tok[5], &cnt) || n != 6 + cnt) { printf("bad-op\n"); return; }
  double* data = (double*)malloc(sizeof(double) * (cnt + 2));
  for (int i = 0; i < cnt; i++) if (!getf(tok[6 + i], &data[i])) { printf("bad-op\n"); free(data); return; }
  data[cnt] = 12345.0; data[cnt + 1] = 12345.0;
  mjModel mm; memset(&mm, 0, sizeof mm);
  int s_type[1] = {type}, s_dt[1] = {dt}, s_dim[1] = {cnt};
  mjtNum s_cut[1] = {cutoff};
  mm.nsensor = 1; mm.sensor_type = s_type; mm.sensor_datatype = s_dt; mm.sensor_dim = s_dim; mm.sensor_cutoff = s_cut;
  apply_cutoff(&mm, 0, data);
  if (data[cnt] != 12345.0) { printf("overrun\n"); free(data); return; }
  for (int i = 0; i < cnt; i++) putbits(data[i], i == 0);
  printf("\n");
  free(data);
}

// ------------------------------------------------------------------ (A) layout
static void op_layout(char** tok, int n) {
  int* dims = (int*)malloc(sizeof(int) * (n + 1));
  for (int i = 0; i < n; i++) if (!getn(tok[i], &dims[i])) { printf("bad-op\n"); free(dims); return; }
  mjSpec* volatile spec = NULL;
  mjModel* volatile m = NULL;
  armed = 1;
  if (setjmp(jb)) {
    armed = 0; printf("error %s\n", lasterr);
    if (m) mj_deleteModel(m);
    if (spec) mj_deleteSpec(spec);
    free(dims); return;
  }
  spec = mj_makeSpec();
  for (int i = 0; i < n; i++) {
    mjsSensor* s = mjs_addSensor(spec);
    s->type = mjSENS_USER; s->dim = dims[i]; s->datatype = mjDATATYPE_REAL; s->needstage = mjSTAGE_POS;
    s->objtype = mjOBJ_UNKNOWN;
  }
  m = mj_compile(spec, NULL);
  if (!m) { armed = 0; printf("error compile: %s\n", mjs_getError(spec)); mj_deleteSpec(spec); free(dims); return; }
  int ok = m->nsensor == n;
  for (int i = 0; ok && i < n; i++) ok = m->sensor_dim[i] == dims[i];
  if (!ok) printf("error compiled sensors differ from the request\n");
  else {
    for (int i = 0; i < n; i++) printf(i ? " %d" : "%d", m->sensor_adr[i]);
    printf(" | %d\n", (int)m->nsensordata);
  }
  armed = 0;
  mj_deleteModel(m); mj_deleteSpec(spec); free(dims);
}

// ------------------------------------------------------------------ (A) sensor on a crafted scene
static int kind_ok(const char* k, int type) {
  struct { const char* n; int t; } K[] = {
    {"framepos", mjSENS_FRAMEPOS}, {"framexaxis", mjSENS_FRAMEXAXIS}, {"frameyaxis", mjSENS_FRAMEYAXIS},
    {"framezaxis", mjSENS_FRAMEZAXIS}, {"framequat", mjSENS_FRAMEQUAT}, {"velocimeter", mjSENS_VELOCIMETER},
    {"gyro", mjSENS_GYRO}, {"framelinvel", mjSENS_FRAMELINVEL}, {"frameangvel", mjSENS_FRAMEANGVEL},
    {"accelerometer", mjSENS_ACCELEROMETER}, {"force", mjSENS_FORCE}, {"torque", mjSENS_TORQUE},
    {"framelinacc", mjSENS_FRAMELINACC}, {"frameangacc", mjSENS_FRAMEANGACC}, {NULL, 0}};
  for (int i = 0; K[i].n; i++) if (!strcmp(K[i].n, k)) return K[i].t == type;
  return 0;
}
static int obj_ok(const char* k, int t) {
  if (!strcmp(k, "body")) return t == mjOBJ_BODY;
  if (!strcmp(k, "xbody")) return t == mjOBJ_XBODY;
  if (!strcmp(k, "geom")) return t == mjOBJ_GEOM;
  if (!strcmp(k, "site")) return t == mjOBJ_SITE;
  if (!strcmp(k, "camera")) return t == mjOBJ_CAMERA;
  return 0;
}
static int dt_ok(const char* k, int t) {
  if (!strcmp(k, "real")) return t == mjDATATYPE_REAL;
  if (!strcmp(k, "positive")) return t == mjDATATYPE_POSITIVE;
  if (!strcmp(k, "axis")) return t == mjDATATYPE_AXIS;
  if (!strcmp(k, "quaternion")) return t == mjDATATYPE_QUATERNION;
  return 0;
}
static int count_of(int objtype, int nbody, int ngeom, int nsite, int ncam) {
  switch (objtype) {
    case mjOBJ_BODY: case mjOBJ_XBODY: return nbody;
    case mjOBJ_GEOM: return ngeom;
    case mjOBJ_SITE: return nsite;
    case mjOBJ_CAMERA: return ncam;
  }
  return 0;
}

static void op_sensor(char** tok, int n) {
  if (n < 15) { printf("bad-op\n"); return; }
  int type, dt, ot, oid, rt, rid, nb, ng, ns, nc; double cutoff;
  if (!geti(tok[1], &type) || !kind_ok(tok[0], type) || !geti(tok[3], &dt) || !dt_ok(tok[2], dt) || !getf(tok[4], &cutoff) ||
      !geti(tok[6], &ot) || !obj_ok(tok[5], ot) || !getn(tok[7], &oid) || !geti(tok[9], &rt) || !geti(tok[10], &rid) ||
      !getn(tok[11], &nb) || !getn(tok[12], &ng) || !getn(tok[13], &ns) || !getn(tok[14], &nc)) { printf("bad-op\n"); return; }
  if (!strcmp(tok[8], "none")) { if (rid != -1) { printf("bad-op\n"); return; } }
  else if (!obj_ok(tok[8], rt) || rid < 0) { printf("bad-op\n"); return; }
  if (nb > 64 || ng > 64 || ns > 64 || nc > 64) { printf("bad-op\n"); return; }
  const int BODYTOK = 3 + 53, ATT = 1 + 16;
  if (n != 15 + nb * BODYTOK + (ng + ns + nc) * ATT) { printf("bad-op\n"); return; }
  int site_sensor = type == mjSENS_VELOCIMETER || type == mjSENS_GYRO || type == mjSENS_ACCELEROMETER ||
                    type == mjSENS_FORCE || type == mjSENS_TORQUE;
  int pos_stage = type == mjSENS_FRAMEPOS || type == mjSENS_FRAMEXAXIS || type == mjSENS_FRAMEYAXIS ||
                  type == mjSENS_FRAMEZAXIS || type == mjSENS_FRAMEQUAT;
  int vel_stage = type == mjSENS_VELOCIMETER || type == mjSENS_GYRO || type == mjSENS_FRAMELINVEL || type == mjSENS_FRAMEANGVEL;
  int uses_ref = pos_stage || type == mjSENS_FRAMELINVEL || type == mjSENS_FRAMEANGVEL;
  if (oid >= (site_sensor ? ns : count_of(ot, nb, ng, ns, nc))) { printf("bad-op\n"); return; }
  if (rid >= 0 && uses_ref && rid >= count_of(rt, nb, ng, ns, nc)) { printf("bad-op\n"); return; }

  static int body_weldid[64], body_rootid[64], body_dofnum[64], gb[3][64];
  static double xpos[192], xmat[576], xipos[192], ximat[576], xquat[256], iquat[256], cvel[384], cacc[384], cfrc[384], com[192];
  static double apos[3][192], amat[3][576], aquat[3][256];
  char** t = tok + 15;
#define RD(dst, cnt) for (int z = 0; z < (cnt); z++) { if (!getf(*t++, &(dst)[z])) { printf("bad-op\n"); return; } }
  for (int b = 0; b < nb; b++) {
    if (!getn(t[0], &body_weldid[b]) || !getn(t[1], &body_rootid[b]) || !getn(t[2], &body_dofnum[b]) ||
        body_weldid[b] >= nb || body_rootid[b] >= nb) { printf("bad-op\n"); return; }
    t += 3;
    RD(xpos + 3 * b, 3) RD(xmat + 9 * b, 9) RD(xipos + 3 * b, 3) RD(ximat + 9 * b, 9) RD(xquat + 4 * b, 4) RD(iquat + 4 * b, 4)
    RD(cvel + 6 * b, 6) RD(cacc + 6 * b, 6) RD(cfrc + 6 * b, 6) RD(com + 3 * b, 3)
  }
  int cnts[3] = {ng, ns, nc};
  for (int k = 0; k < 3; k++) for (int i = 0; i < cnts[k]; i++) {
    if (!getn(*t++, &gb[k][i]) || gb[k][i] >= nb) { printf("bad-op\n"); return; }
    RD(apos[k] + 3 * i, 3) RD(amat[k] + 9 * i, 9) RD(aquat[k] + 4 * i, 4)
  }
#undef RD
  mjModel mm; memset(&mm, 0, sizeof mm);
  mjData dd; memset(&dd, 0, sizeof dd);
  mm.nbody = nb; mm.ngeom = ng; mm.nsite = ns; mm.ncam = nc; mm.nsensor = 1; mm.nsensordata = 4;
  mm.body_weldid = body_weldid; mm.body_rootid = body_rootid; mm.body_dofnum = body_dofnum; mm.body_iquat = iquat;
  mm.geom_bodyid = gb[0]; mm.site_bodyid = gb[1]; mm.cam_bodyid = gb[2];
  mm.geom_quat = aquat[0]; mm.site_quat = aquat[1]; mm.cam_quat = aquat[2];
  dd.xpos = xpos; dd.xmat = xmat; dd.xipos = xipos; dd.ximat = ximat; dd.xquat = xquat;
  dd.cvel = cvel; dd.cacc = cacc; dd.cfrc_int = cfrc; dd.subtree_com = com;
  dd.geom_xpos = apos[0]; dd.geom_xmat = amat[0]; dd.site_xpos = apos[1]; dd.site_xmat = amat[1];
  dd.cam_xpos = apos[2]; dd.cam_xmat = amat[2];
  dd.flg_rnepost = 1; dd.flg_subtreevel = 1; dd.flg_energypos = 1; dd.flg_energyvel = 1;
  int s_type[1] = {type}, s_dt[1] = {dt}, s_dim[1] = {type == mjSENS_FRAMEQUAT ? 4 : 3}, s_adr[1] = {0};
  int s_stage[1] = {pos_stage ? mjSTAGE_POS : vel_stage ? mjSTAGE_VEL : mjSTAGE_ACC};
  int s_ot[1] = {ot}, s_oid[1] = {oid}, s_rt[1] = {rid < 0 ? mjOBJ_UNKNOWN : rt}, s_rid[1] = {rid};
  int s_intprm[mjNSENS]; memset(s_intprm, 0, sizeof s_intprm);
  int s_hist[2] = {0, 0};
  mjtNum s_cut[1] = {cutoff};
  mm.sensor_type = s_type; mm.sensor_datatype = s_dt; mm.sensor_dim = s_dim; mm.sensor_adr = s_adr;
  mm.sensor_needstage = s_stage; mm.sensor_objtype = s_ot; mm.sensor_objid = s_oid; mm.sensor_reftype = s_rt;
  mm.sensor_refid = s_rid; mm.sensor_intprm = s_intprm; mm.sensor_cutoff = s_cut; mm.sensor_history = s_hist;
  double out[8];
  for (int i = 0; i < 8; i++) out[i] = 12345.0;
  armed = 1;
  if (setjmp(jb)) { armed = 0; printf("error %s\n", lasterr); return; }
  mj_computeSensor(&mm, &dd, 0, out);
  armed = 0;
  for (int i = s_dim[0]; i < 8; i++) if (out[i] != 12345.0) { printf("overrun\n"); return; }
  for (int i = 0; i < s_dim[0]; i++) putbits(out[i], i == 0);
  printf("\n");
}

// ------------------------------------------------------------------ (B) model session
static mjModel* M = NULL;
static mjSpec* SPEC = NULL;
static mjData* D = NULL;
static double uservals[64];
static int nuservals = 0;

static void user_sensor_cb(const mjModel* m, mjData* d, int stage) {
  int k = 0;
  for (int i = 0; i < m->nsensor; i++) {
    if (m->sensor_type[i] == mjSENS_USER && m->sensor_needstage[i] == stage) {
      for (int j = 0; j < m->sensor_dim[i]; j++) {
        d->sensordata[m->sensor_adr[i] + j] = nuservals ? uservals[(i * 7 + j) % nuservals] : 0.0;
        k++;
      }
    }
  }
}

static void parr(const char* name, const double* x, long n) {
  printf("arr %s %ld", name, n);
  for (long i = 0; i < n; i++) printf(" %.17g", x[i]);
  printf("\n");
}
static void piarr(const char* name, const int* x, long n) {
  printf("iarr %s %ld", name, n);
  for (long i = 0; i < n; i++) printf(" %d", x[i]);
  printf("\n");
}

static void free_model(void) {
  if (D) mj_deleteData(D);
  if (M) mj_deleteModel(M);
  if (SPEC) mj_deleteSpec(SPEC);
  D = NULL; M = NULL; SPEC = NULL;
}

// object -> (body, point, rotation) as documented for the frame sensors
static int obj_frame(const mjModel* m, const mjData* d, int type, int id, int* body, const double** pos, const double** mat) {
  switch (type) {
    case mjOBJ_BODY: *body = id; *pos = d->xipos + 3 * id; *mat = d->ximat + 9 * id; return 1;
    case mjOBJ_XBODY: *body = id; *pos = d->xpos + 3 * id; *mat = d->xmat + 9 * id; return 1;
    case mjOBJ_GEOM: *body = m->geom_bodyid[id]; *pos = d->geom_xpos + 3 * id; *mat = d->geom_xmat + 9 * id; return 1;
    case mjOBJ_SITE: *body = m->site_bodyid[id]; *pos = d->site_xpos + 3 * id; *mat = d->site_xmat + 9 * id; return 1;
    case mjOBJ_CAMERA: *body = m->cam_bodyid[id]; *pos = d->cam_xpos + 3 * id; *mat = d->cam_xmat + 9 * id; return 1;
  }
  return 0;
}

// reference motion of a point fixed to a body through the Jacobian API: vel = J qvel, acc = J qacc + Jdot qvel
// out: vlin[3] vang[3] alin[3] aang[3]
static void ref_motion(const mjModel* m, mjData* d, int body, const double* point, double out[12]) {
  int nv = m->nv;
  for (int i = 0; i < 12; i++) out[i] = 0;
  if (!nv) return;
  double* jp = (double*)malloc(sizeof(double) * 3 * nv * 4);
  double *jr = jp + 3 * nv, *dp = jr + 3 * nv, *dr = dp + 3 * nv;
  mj_jac(m, d, jp, jr, point, body);
  mj_jacDot(m, d, dp, dr, point, body);
  for (int r = 0; r < 3; r++) for (int c = 0; c < nv; c++) {
    out[r] += jp[r * nv + c] * d->qvel[c];
    out[3 + r] += jr[r * nv + c] * d->qvel[c];
    out[6 + r] += jp[r * nv + c] * d->qacc[c] + dp[r * nv + c] * d->qvel[c];
    out[9 + r] += jr[r * nv + c] * d->qacc[c] + dr[r * nv + c] * d->qvel[c];
  }
  free(jp);
}

static void op_eval(void) {
  const mjModel* m = M; mjData* d = D;
  if (!m || !d) { printf("error no model\ndone\n"); return; }
  armed = 1;
  if (setjmp(jb)) { armed = 0; printf("error %s\ndone\n", lasterr); return; }
  long ns = m->nsensordata;
  double* s1 = (double*)malloc(sizeof(double) * (ns + 1));
  for (long i = 0; i < ns; i++) d->sensordata[i] = 7.7e77;
  mj_forward(m, d);
  memcpy(s1, d->sensordata, sizeof(double) * ns);
  for (long i = 0; i < ns; i++) d->sensordata[i] = -3.3e33;
  mj_forward(m, d);
  printf("sizes %d %d %d %d %d %d %d %d %d %d %d %ld %d %d %d %d %d\n", (int)m->nq, (int)m->nv, (int)m->nu, (int)m->na, (int)m->nbody, (int)m->njnt,
         (int)m->ngeom, (int)m->nsite, (int)m->ncam, (int)m->ntendon, (int)m->nsensor, ns, (int)m->nmocap, d->ncon, (int)d->nefc, d->ne, d->nf);
  for (int i = 0; i < m->nsensor; i++)
    printf("sens %d %d %d %d %d %d %d %d %d %d %.17g %d %d\n", i, m->sensor_type[i], m->sensor_datatype[i], m->sensor_needstage[i],
           m->sensor_objtype[i], m->sensor_objid[i], m->sensor_reftype[i], m->sensor_refid[i], m->sensor_dim[i], m->sensor_adr[i],
           m->sensor_cutoff[i], m->sensor_intprm[i * mjNSENS], m->sensor_intprm[i * mjNSENS + 1]);
  parr("sensordata_a", s1, ns);
  parr("sensordata_b", d->sensordata, ns);
  free(s1);
  parr("time", &d->time, 1);
  parr("energy", d->energy, 2);
  parr("opt.gravity", m->opt.gravity, 3);
  parr("opt.magnetic", m->opt.magnetic, 3);
  { double ts = m->opt.timestep; parr("opt.timestep", &ts, 1); }
  { int fl[2] = {m->opt.disableflags, m->opt.enableflags}; piarr("opt.flags", fl, 2); }
#define DD(name, cnt) parr(#name, d->name, (long)(cnt));
#define DI(name, cnt) piarr(#name, d->name, (long)(cnt));
#define MD(name, cnt) parr(#name, m->name, (long)(cnt));
#define MI(name, cnt) piarr(#name, m->name, (long)(cnt));
  DD(qpos, m->nq) DD(qvel, m->nv) DD(qacc, m->nv) DD(act, m->na) DD(ctrl, m->nu)
  DD(xpos, 3 * m->nbody) DD(xquat, 4 * m->nbody) DD(xmat, 9 * m->nbody) DD(xipos, 3 * m->nbody) DD(ximat, 9 * m->nbody)
  DD(geom_xpos, 3 * m->ngeom) DD(geom_xmat, 9 * m->ngeom) DD(site_xpos, 3 * m->nsite) DD(site_xmat, 9 * m->nsite)
  DD(cam_xpos, 3 * m->ncam) DD(cam_xmat, 9 * m->ncam)
  DD(subtree_com, 3 * m->nbody) DD(cvel, 6 * m->nbody) DD(cacc, 6 * m->nbody) DD(cfrc_int, 6 * m->nbody) DD(cfrc_ext, 6 * m->nbody)
  DD(subtree_linvel, 3 * m->nbody) DD(subtree_angmom, 3 * m->nbody)
  DD(ten_length, m->ntendon) DD(ten_velocity, m->ntendon)
  DD(actuator_length, m->nu) DD(actuator_velocity, m->nu) DD(actuator_force, m->nu) DD(qfrc_actuator, m->nv)
  DD(efc_pos, d->nefc) DD(efc_margin, d->nefc) DD(efc_vel, d->nefc) DD(efc_force, d->nefc)
  DI(efc_type, d->nefc) DI(efc_id, d->nefc)
  MD(body_mass, m->nbody) MD(body_inertia, 3 * m->nbody) MD(body_iquat, 4 * m->nbody)
  MI(body_parentid, m->nbody) MI(body_rootid, m->nbody) MI(body_weldid, m->nbody) MI(body_dofnum, m->nbody)
  MI(jnt_type, m->njnt) MI(jnt_qposadr, m->njnt) MI(jnt_dofadr, m->njnt) MI(jnt_bodyid, m->njnt)
  MD(jnt_range, 2 * m->njnt) MD(jnt_margin, m->njnt)
  MI(geom_bodyid, m->ngeom) MI(site_bodyid, m->nsite) MI(cam_bodyid, m->ncam)
  MD(geom_quat, 4 * m->ngeom) MD(site_quat, 4 * m->nsite) MD(cam_quat, 4 * m->ncam)
  MD(site_size, 3 * m->nsite) MI(site_type, m->nsite)
  MI(actuator_trntype, m->nu) MI(actuator_trnid, 2 * m->nu) MD(actuator_gear, 6 * m->nu)
  MD(tendon_range, 2 * m->ntendon) MD(tendon_margin, m->ntendon)
  { int* lim = (int*)malloc(sizeof(int) * (m->njnt + m->ntendon + 1));
    for (int i = 0; i < m->njnt; i++) lim[i] = m->jnt_limited[i];
    piarr("jnt_limited", lim, m->njnt);
    for (int i = 0; i < m->ntendon; i++) lim[i] = m->tendon_limited[i];
    piarr("tendon_limited", lim, m->ntendon);
    free(lim); }
  // names (ids are assigned by the compiler in tree order, not in description order)
  { struct { const char* k; int t; int n; } N[] = {{"body", mjOBJ_BODY, m->nbody}, {"joint", mjOBJ_JOINT, m->njnt}, {"geom", mjOBJ_GEOM, m->ngeom},
      {"site", mjOBJ_SITE, m->nsite}, {"camera", mjOBJ_CAMERA, m->ncam}, {"tendon", mjOBJ_TENDON, m->ntendon},
      {"actuator", mjOBJ_ACTUATOR, m->nu}, {NULL, 0, 0}};
    for (int k = 0; N[k].k; k++) {
      printf("names %s %d", N[k].k, N[k].n);
      for (int i = 0; i < N[k].n; i++) { const char* nm = mj_id2name(m, N[k].t, i); printf(" %s", nm && *nm ? nm : "~"); }
      printf("\n");
    } }
  // contacts with their forces (mj_contactForce: documented reference)
  for (int j = 0; j < d->ncon; j++) {
    const mjContact* c = d->contact + j;
    double f[6]; mj_contactForce(m, d, j, f);
    int b0 = c->geom[0] >= 0 ? m->geom_bodyid[c->geom[0]] : -1, b1 = c->geom[1] >= 0 ? m->geom_bodyid[c->geom[1]] : -1;
    printf("con %d %d %d %d %d %d %d %.17g", j, c->geom[0], c->geom[1], b0, b1, c->efc_address, c->dim, c->dist);
    for (int k = 0; k < 3; k++) printf(" %.17g", c->pos[k]);
    for (int k = 0; k < 9; k++) printf(" %.17g", c->frame[k]);
    for (int k = 0; k < 6; k++) printf(" %.17g", f[k]);
    printf("\n");
  }
  // reference motions: body centres of mass
  { double* bm = (double*)malloc(sizeof(double) * 12 * (m->nbody + 1));
    for (int b = 0; b < m->nbody; b++) ref_motion(m, d, b, d->xipos + 3 * b, bm + 12 * b);
    parr("ref_bodycom_motion", bm, 12L * m->nbody);
    free(bm); }
  // reference motions of the object and reference frame of every sensor that has one
  for (int i = 0; i < m->nsensor; i++) {
    int body; const double *pos, *mat; double mo[12];
    int ot = m->sensor_objtype[i], oid = m->sensor_objid[i];
    if (oid >= 0 && obj_frame(m, d, ot, oid, &body, &pos, &mat)) {
      ref_motion(m, d, body, pos, mo);
      printf("ref obj %d %d", i, body);
      for (int k = 0; k < 12; k++) printf(" %.17g", mo[k]);
      printf("\n");
    }
    int rt = m->sensor_reftype[i], rid = m->sensor_refid[i];
    if (rid >= 0 && obj_frame(m, d, rt, rid, &body, &pos, &mat)) {
      ref_motion(m, d, body, pos, mo);
      printf("ref ref %d %d", i, body);
      for (int k = 0; k < 12; k++) printf(" %.17g", mo[k]);
      printf("\n");
    }
  }
  // every built-in sensor once more through the public mj_computeSensor into a canary-guarded scratch buffer:
  // a sensor of dimension dim must write exactly dim entries
  for (int i = 0; i < m->nsensor; i++) {
    if (m->sensor_type[i] == mjSENS_USER || m->sensor_type[i] == mjSENS_PLUGIN) continue;
    // the energy sensors set the lazy-evaluation flags flg_energypos / flg_energyvel as a side effect; calling them
    // outside the pipeline would change what the next mj_forward does, so they are not re-run here
    if (m->sensor_type[i] == mjSENS_E_KINETIC || m->sensor_type[i] == mjSENS_E_POTENTIAL) continue;
    int dim = m->sensor_dim[i];
    double* buf = (double*)malloc(sizeof(double) * (dim + 8));
    for (int k = 0; k < dim + 8; k++) buf[k] = 1.2345e123;
    mj_computeSensor(m, d, i, buf);
    int over = 0, same = 1, unwritten = 0;
    for (int k = dim; k < dim + 8; k++) if (buf[k] != 1.2345e123) over = 1;
    for (int k = 0; k < dim; k++) {
      if (memcmp(&buf[k], &d->sensordata[m->sensor_adr[i] + k], 8)) same = 0;
      if (buf[k] == 1.2345e123) unwritten = 1;
    }
    printf("recomp %d %d %d %d\n", i, over, same, unwritten);
    free(buf);
  }
  // kinetic energy through the inertia API: 1/2 v' M v
  if (m->nv) {
    double* mv = (double*)malloc(sizeof(double) * m->nv);
    mj_mulM(m, d, mv, d->qvel);
    double ke = 0;
    for (int i = 0; i < m->nv; i++) ke += 0.5 * mv[i] * d->qvel[i];
    parr("ref_kinetic", &ke, 1);
    free(mv);
  }
  armed = 0;
  printf("done\n");
}

static void op_state(char** tok, int n) {
  if (!M || !D || n < 1) { printf("error no model\n"); return; }
  struct { const char* nm; double* p; long cnt; } T[] = {
    {"qpos", D->qpos, M->nq}, {"qvel", D->qvel, M->nv}, {"act", D->act, M->na}, {"ctrl", D->ctrl, M->nu},
    {"mocap_pos", D->mocap_pos, 3 * M->nmocap}, {"mocap_quat", D->mocap_quat, 4 * M->nmocap},
    {"qfrc_applied", D->qfrc_applied, M->nv}, {"xfrc_applied", D->xfrc_applied, 6 * M->nbody}, {"time", &D->time, 1},
    {NULL, NULL, 0}};
  for (int i = 0; T[i].nm; i++) if (!strcmp(T[i].nm, tok[0])) {
    if (n - 1 != T[i].cnt) { printf("error %s takes %ld values, got %d\n", tok[0], T[i].cnt, n - 1); return; }
    for (int k = 0; k < n - 1; k++) T[i].p[k] = strtod(tok[1 + k], NULL);
    printf("ok\n"); return;
  }
  printf("error unknown state field %s\n", tok[0]);
}

int main(void) {
  mju_user_error = on_error;
  mju_user_warning = on_warning;
  mjcb_sensor = user_sensor_cb;
  static char line[1 << 20];
  static char* tok[1 << 16];
  while (fgets(line, sizeof line, stdin)) {
    int n = 0; char* save;
    for (char* t = strtok_r(line, " \t\r\n", &save); t && n < (1 << 16); t = strtok_r(NULL, " \t\r\n", &save)) tok[n++] = t;
    if (!n) { printf("bad-op\n"); fflush(stdout); continue; }
    if (!strcmp(tok[0], "cutoff")) op_cutoff(tok + 1, n - 1);
    else if (!strcmp(tok[0], "layout")) op_layout(tok + 1, n - 1);
    else if (!strcmp(tok[0], "sensor")) op_sensor(tok + 1, n - 1);
    else if (!strcmp(tok[0], "model")) {
      free_model();
      char err[1024];
      armed = 1;
      if (setjmp(jb)) { armed = 0; printf("error %s\n", lasterr); free_model(); fflush(stdout); continue; }
      M = mjb_compile(stdin, &SPEC, err, sizeof err);
      if (!M) { armed = 0; printf("error %s\n", err); fflush(stdout); continue; }
      D = mj_makeData(M);
      armed = 0;
      printf("ok %d %d %d %d %d %ld\n", (int)M->nq, (int)M->nv, (int)M->na, (int)M->nu, (int)M->nsensor, (long)M->nsensordata);
    }
    else if (!strcmp(tok[0], "state")) op_state(tok + 1, n - 1);
    else if (!strcmp(tok[0], "usersensor")) {
      nuservals = 0;
      for (int i = 1; i < n && nuservals < 64; i++) uservals[nuservals++] = strtod(tok[i], NULL);
      printf("ok\n");
    }
    else if (!strcmp(tok[0], "eval")) op_eval();
    else printf("bad-op\n");
    fflush(stdout);
  }
  free_model();
  return 0;
}
