// c09_fwdinv.c — implementation side of C09 (DESIGN.md §5.C09): forward dynamics, then inverse dynamics at the resulting
// acceleration, on the real code of the tree (mj_forward, mj_step, mj_inverse, mj_compareFwdInv, and the static
// mj_discreteAcc of engine_inverse.c reached by including that file).
//
//   model ... end                     build a model (harness/mjbuild.h)                            -> ok nq nv nbody | error ..
//   state <field> v...                remembered state: qpos qvel act ctrl qfrc_applied xfrc_applied mocap_pos mocap_quat warm -> ok
//   settle <n>                        run n mj_step with the compiled options from the remembered state and remember the result -> ok ncon nefc
//   fwdinv <solver> <cone> <jacobian> <noisland> <integrator> <discrete> <disable-extra> <iterations> <tolerance>
//        discrete = 0: mj_forward, mj_compareFwdInv, mj_inverse at qacc
//        discrete = 1: mj_step; a_d = (qvel' - qvel)/h; state restored; qacc = a_d; mjENBL_INVDISCRETE; mj_inverse
//        -> {json}: qfrc_inverse, expected = qfrc_applied + J'xfrc_applied + qfrc_actuator (mj_xfrcAccumulate), efc_force of both sides …
//   dacc <integrator> <disable-extra> at the remembered state: mj_forward, then the static mj_discreteAcc on qacc = remembered `warm`
//        -> "<x hex>*nv | dacc <nv> M*(nv*nv) Mhat*(nv*nv) a_d*nv"                                  (implicit)
//        -> "<x hex>*nv | dacce <disEulerDamp> <disDamper> <anyDamping> <nv> M Mhat a_d"            (Euler; Mhat = M + h*diag(B))
//           (the part after `|` is the op line of lean/Drivers/C09.lean; the flags are READ from m->opt, the branch decision is the model's)
#include <math.h>
#include <setjmp.h>
#include <stdint.h>
#include <stdio.h>
#include <stdlib.h>
#include <string.h>
#include <mujoco/mujoco.h>
#include "mjbuild.h"
#include "engine/engine_inverse.c"   // static mj_discreteAcc

static jmp_buf jb;
static int jb_armed = 0;
static char lasterr[1024];
static void on_error(const char* msg) {
  snprintf(lasterr, sizeof lasterr, "%s", msg);
  for (char* c = lasterr; *c; c++) if (*c == '\n') *c = ' ';
  if (jb_armed) longjmp(jb, 1);
  fprintf(stderr, "unguarded mju_error: %s\n", msg);
  exit(3);
}
static void on_warning(const char* msg) { (void)msg; }

static void put_hex(double x) {
  if (x != x) { printf("nan"); return; }
  uint64_t u; memcpy(&u, &x, 8);
  printf("%016llx", (unsigned long long)u);
}
static void put_num(double x) {
  if (x != x) printf("NaN");
  else if (isinf(x)) printf(x > 0 ? "Infinity" : "-Infinity");
  else printf("%.17g", x);
}
static void put_nums(const char* key, const double* v, long n, int last) {
  printf("\"%s\":[", key);
  for (long i = 0; i < n; i++) { if (i) printf(","); put_num(v[i]); }
  printf(last ? "]" : "],");
}
static void put_ints(const char* key, const int* v, long n, int last) {
  printf("\"%s\":[", key);
  for (long i = 0; i < n; i++) printf(i ? ",%d" : "%d", v[i]);
  printf(last ? "]" : "],");
}

static mjModel* m = NULL;
static mjSpec* spec = NULL;
static mjData* d = NULL;
static mjOption opt0;
typedef struct { double* buf; long cnt; } Field;
static Field F[9];
static int have_warm = 0;
static const char* FNAMES[9] = {"qpos", "qvel", "act", "ctrl", "qfrc_applied", "xfrc_applied", "mocap_pos", "mocap_quat", "warm"};

static long field_size(int k) {
  switch (k) {
    case 0: return m->nq; case 1: case 4: case 8: return m->nv; case 2: return m->na; case 3: return m->nu;
    case 5: return 6 * m->nbody; case 6: return 3 * m->nmocap; default: return 4 * m->nmocap;
  }
}
static void alloc_fields(void) {
  for (int i = 0; i < 9; i++) { free(F[i].buf); F[i].cnt = field_size(i); F[i].buf = calloc(F[i].cnt + 1, 8); }
  memcpy(F[0].buf, m->qpos0, 8 * m->nq);
  for (int b = 0; b < m->nbody; b++) if (m->body_mocapid[b] >= 0) {
    memcpy(F[6].buf + 3 * m->body_mocapid[b], m->body_pos + 3 * b, 24);
    memcpy(F[7].buf + 4 * m->body_mocapid[b], m->body_quat + 4 * b, 32);
  }
  have_warm = 0;
}
static void load_state(void) {
  mj_resetData(m, d);
  memcpy(d->qpos, F[0].buf, 8 * m->nq); memcpy(d->qvel, F[1].buf, 8 * m->nv); memcpy(d->act, F[2].buf, 8 * m->na);
  memcpy(d->ctrl, F[3].buf, 8 * m->nu); memcpy(d->qfrc_applied, F[4].buf, 8 * m->nv); memcpy(d->xfrc_applied, F[5].buf, 48 * m->nbody);
  memcpy(d->mocap_pos, F[6].buf, 24 * m->nmocap); memcpy(d->mocap_quat, F[7].buf, 32 * m->nmocap);
  if (have_warm) memcpy(d->qacc_warmstart, F[8].buf, 8 * m->nv);
}
static void op_settle(int n) {
  m->opt = opt0;
  load_state();
  for (int i = 0; i < n; i++) mj_step(m, d);
  memcpy(F[0].buf, d->qpos, 8 * m->nq); memcpy(F[1].buf, d->qvel, 8 * m->nv); memcpy(F[2].buf, d->act, 8 * m->na);
  memcpy(F[8].buf, d->qacc_warmstart, 8 * m->nv);
  have_warm = 1;
  mj_forward(m, d);
  printf("ok %d %d\n", d->ncon, d->nefc);
}

static void set_options(char** tok) {
  m->opt = opt0;
  m->opt.solver = atoi(tok[1]); m->opt.cone = atoi(tok[2]); m->opt.jacobian = atoi(tok[3]);
  m->opt.disableflags &= ~mjDSBL_ISLAND;
  if (atoi(tok[4])) m->opt.disableflags |= mjDSBL_ISLAND;
  m->opt.integrator = atoi(tok[5]);
  m->opt.disableflags |= atoi(tok[7]);
  m->opt.iterations = atoi(tok[8]); m->opt.tolerance = strtod(tok[9], NULL);
  m->opt.ls_iterations = 50; m->opt.noslip_iterations = 0;
  m->opt.enableflags &= ~(mjENBL_SLEEP | mjENBL_FWDINV | mjENBL_INVDISCRETE);
}

static void op_fwdinv(char** tok) {
  set_options(tok);
  int discrete = atoi(tok[6]);
  load_state();
  int nv = m->nv, nq = m->nq, na = m->na;
  double* u = calloc(nv + 1, 8); double* qacc_c = calloc(nv + 1, 8); double* fc_fwd = calloc(nv + 1, 8);
  double *q0 = calloc(nq + 1, 8), *v0 = calloc(nv + 1, 8), *a0 = calloc(na + 1, 8), *ad = calloc(nv + 1, 8);
  memcpy(q0, d->qpos, 8 * nq); memcpy(v0, d->qvel, 8 * nv); memcpy(a0, d->act, 8 * na);
  double t0 = d->time, fwdinv0 = 0, fwdinv1 = 0;
  if (!discrete) {
    mj_forward(m, d);
    mj_compareFwdInv(m, d);
    fwdinv0 = d->solver_fwdinv[0]; fwdinv1 = d->solver_fwdinv[1];
  } else {
    mj_step(m, d);
    for (int i = 0; i < nv; i++) ad[i] = (d->qvel[i] - v0[i]) / m->opt.timestep;
  }
  // forward results (after mj_step they still describe the pre-step state: nothing recomputes them in the integrator)
  int nefc = d->nefc, ne = d->ne, nf = d->nf, ncon = d->ncon, nisland = d->nisland;
  double* f_fwd = calloc(nefc + 1, 8);
  memcpy(f_fwd, d->efc_force, 8 * nefc); memcpy(qacc_c, d->qacc, 8 * nv); memcpy(fc_fwd, d->qfrc_constraint, 8 * nv);
  for (int i = 0; i < nv; i++) u[i] = d->qfrc_applied[i] + d->qfrc_actuator[i];
  mj_xfrcAccumulate(m, d, u);
  // stationarity residual of the forward solve: M*qacc - qfrc_smooth - qfrc_constraint (mj_mulM on the pre-step inertia)
  double* gfwd = calloc(nv + 1, 8);
  mj_mulM(m, d, gfwd, d->qacc);
  for (int i = 0; i < nv; i++) gfwd[i] -= d->qfrc_smooth[i] + d->qfrc_constraint[i];
  int niter[mjNISLAND]; memcpy(niter, d->solver_niter, sizeof niter);
  double last_imp = 0, last_grad = 0;
  if (niter[0] > 0) { int k = niter[0] > mjNSOLVER ? mjNSOLVER : niter[0]; last_imp = d->solver[k - 1].improvement; last_grad = d->solver[k - 1].gradient; }
  int* type = calloc(nefc + 1, sizeof(int)); memcpy(type, d->efc_type, sizeof(int) * nefc);
  double maxD = 0; for (int i = 0; i < nefc; i++) if (d->efc_D[i] > maxD) maxD = d->efc_D[i];
  if (discrete) {
    memcpy(d->qpos, q0, 8 * nq); memcpy(d->qvel, v0, 8 * nv); memcpy(d->act, a0, 8 * na); d->time = t0;
    memcpy(d->qacc, ad, 8 * nv);
    m->opt.enableflags |= mjENBL_INVDISCRETE;
  }
  mj_inverse(m, d);
  printf("{\"nv\":%d,\"nefc\":%d,\"ne\":%d,\"nf\":%d,\"ncon\":%d,\"nisland\":%d,\"nefc_inv\":%d,\"discrete\":%d,\"solver\":%d,\"iterations\":%d,\"tolerance\":",
         nv, nefc, ne, nf, ncon, nisland, d->nefc, discrete, m->opt.solver, m->opt.iterations);
  put_num(m->opt.tolerance); printf(",\"meaninertia\":"); put_num(m->stat.meaninertia);
  printf(",\"last_improvement\":"); put_num(last_imp); printf(",\"last_gradient\":"); put_num(last_grad);
  printf(",\"fwdinv0\":"); put_num(fwdinv0); printf(",\"fwdinv1\":"); put_num(fwdinv1); printf(",\"maxD\":"); put_num(maxD); printf(",");
  put_ints("niter", niter, mjNISLAND, 0); put_ints("type", type, nefc, 0);
  put_nums("qfrc_inverse", d->qfrc_inverse, nv, 0); put_nums("expected", u, nv, 0);
  put_nums("force_fwd", f_fwd, nefc, 0); put_nums("force_inv", d->efc_force, d->nefc == nefc ? nefc : 0, 0);
  put_nums("qfrc_constraint_fwd", fc_fwd, nv, 0); put_nums("qfrc_constraint_inv", d->qfrc_constraint, nv, 0);
  put_nums("qacc", qacc_c, nv, 0); put_nums("qacc_discrete", ad, nv, 0); put_nums("grad_fwd", gfwd, nv, 0);
  printf("\"warn\":%d}\n", d->warning[mjWARN_BADQACC].number + d->warning[mjWARN_CNSTRFULL].number + d->warning[mjWARN_CONTACTFULL].number);
  free(u); free(qacc_c); free(fc_fwd); free(q0); free(v0); free(a0); free(ad); free(f_fwd); free(type); free(gfwd);
}

// the matrix mj_discreteAcc multiplies with, from the engine's own arrays
static void op_dacc(int integrator, int disable_extra) {
  m->opt = opt0;
  m->opt.integrator = integrator;
  m->opt.disableflags |= disable_extra;
  m->opt.enableflags &= ~(mjENBL_SLEEP | mjENBL_FWDINV);
  load_state();
  int nv = m->nv;
  mj_forward(m, d);
  double* ad = calloc(nv + 1, 8);
  memcpy(ad, F[8].buf, 8 * nv);               // any vector will do: the remembered `warm` field
  double* M = calloc((size_t)nv * nv + 1, 8); double* Mhat = calloc((size_t)nv * nv + 1, 8);
  mj_fullM(m, d, M);
  memcpy(d->qacc, ad, 8 * nv);
  mj_discreteAcc(m, d);
  int dof_damping = 0;
  if (integrator == mjINT_EULER) {
    memcpy(Mhat, M, 8 * (size_t)nv * nv);
    for (int i = 0; i < nv; i++)
      if (m->dof_damping[i] > 0 || !mju_isZero(m->dof_dampingpoly + mjNPOLY * i, mjNPOLY) || m->jnt_actuatorid[m->dof_jntid[i]] != -1) dof_damping = 1;
    for (int i = 0; i < nv; i++) {
      mjtNum poly[mjNPOLY];
      mju_copy(poly, m->dof_dampingpoly + mjNPOLY * i, mjNPOLY);
      mjtNum damping = m->dof_damping[i] + mj_actuatorDamping(m, mjOBJ_JOINT, m->dof_jntid[i], poly);
      Mhat[(size_t)i * nv + i] += m->opt.timestep * mjd_xPolyForce(damping, poly, d->qvel[i], mjNPOLY, 1);
    }
  } else {
    // implicit: d->qLU = M - h*qDeriv in the D sparsity pattern (left there by mj_discreteAcc)
    for (int i = 0; i < nv; i++)
      for (int k = 0; k < m->D_rownnz[i]; k++)
        Mhat[(size_t)i * nv + m->D_colind[m->D_rowadr[i] + k]] = d->qLU[m->D_rowadr[i] + k];
  }
  for (int i = 0; i < nv; i++) { if (i) printf(" "); put_hex(d->qacc[i]); }
  if (integrator == mjINT_EULER) printf(" | dacce %d %d %d %d", mjDISABLED(mjDSBL_EULERDAMP) ? 1 : 0, mjDISABLED(mjDSBL_DAMPER) ? 1 : 0, dof_damping, nv);
  else printf(" | dacc %d", nv);
  for (long i = 0; i < (long)nv * nv; i++) { printf(" "); put_hex(M[i]); }
  for (long i = 0; i < (long)nv * nv; i++) { printf(" "); put_hex(Mhat[i]); }
  for (int i = 0; i < nv; i++) { printf(" "); put_hex(ad[i]); }
  printf("\n");
  free(ad); free(M); free(Mhat);
}

int main(void) {
  mju_user_error = on_error;
  mju_user_warning = on_warning;
  static char line[1 << 22];
  static char* tok[1 << 18];
  while (fgets(line, sizeof line, stdin)) {
    int n = 0; char* save; char* t = strtok_r(line, " \t\r\n", &save);
    while (t && n < (1 << 18)) { tok[n++] = t; t = strtok_r(NULL, " \t\r\n", &save); }
    if (!n) { printf("bad-op\n"); fflush(stdout); continue; }
    const char* op = tok[0];
    jb_armed = 1;
    if (setjmp(jb)) { jb_armed = 0; printf("error %s\n", lasterr); fflush(stdout); continue; }
    if (!strcmp(op, "model")) {
      if (d) { mj_deleteData(d); d = NULL; }
      if (m) { mj_deleteModel(m); m = NULL; }
      if (spec) { mj_deleteSpec(spec); spec = NULL; }
      char err[1024];
      m = mjb_compile(stdin, &spec, err, sizeof err);
      if (m) d = mj_makeData(m);
      if (!m || !d) printf("error %s\n", m ? "makeData" : err);
      else { opt0 = m->opt; alloc_fields(); printf("ok %d %d %d\n", (int)m->nq, (int)m->nv, (int)m->nbody); }
    } else if (strcmp(op, "state") && strcmp(op, "settle") && strcmp(op, "fwdinv") && strcmp(op, "dacc")) {
      printf("bad-op\n");
    } else if (!m || !d) {
      printf("error no model\n");
    } else if (!strcmp(op, "state") && n >= 2) {
      int k = -1;
      for (int i = 0; i < 9; i++) if (!strcmp(tok[1], FNAMES[i])) k = i;
      if (k < 0 || n - 2 > F[k].cnt) printf("bad-op\n");
      else {
        for (int i = 0; i < n - 2; i++) F[k].buf[i] = strtod(tok[2 + i], NULL);
        if (k == 8) have_warm = 1;
        printf("ok\n");
      }
    } else if (!strcmp(op, "settle") && n == 2) op_settle(atoi(tok[1]));
    else if (!strcmp(op, "fwdinv") && n == 10) op_fwdinv(tok);
    else if (!strcmp(op, "dacc") && n == 3) op_dacc(atoi(tok[1]), atoi(tok[2]));
    else printf("bad-op\n");
    jb_armed = 0;
    fflush(stdout);
  }
  return 0;
}
