// C26 implementation-side driver: runs the *real* state API of the tree build
// (mj_stateSize / mj_getState / mj_setState / mj_extractState / mj_copyState, mj_resetData,
// mj_resetDataKeyframe) on models built through the mjSpec C API.  Same line protocol as
// lean/Drivers/C26.lean for the primitive ops; additional compound ops print raw observations for
// the property oracle in checks/c26.py (the harness itself never judges).
//
// mjData fields are reached directly by name through the MJDATA_POINTERS X-macro (plus the scalar
// `time`), never through the state API, so fills and dumps are independent of the code under test.
//
// Primitive ops (also implemented by the Lean driver):
//   model <id> name=value ... ; <spec tokens>     -> ok | size-mismatch ... | compile-error ...
//   fill <k> <base> <field> ...                   -> ok          (distinct recognisable values)
//   dump <k> <field> ...                          -> name:v v v|name:...
//   size <sig>                                    -> <n> | error:<kind>
//   get <k> <sig>                                 -> vec v v ... | error:<kind>
//   set <k> <sig> v v ...                         -> ok | error:<kind>
//   extract <srcsig> <dstsig> v v ...             -> vec ... | error:<kind>
//   copy <ksrc> <kdst> <sig>                      -> ok | error:<kind>
// Keyframe primitives (also implemented by the Lean driver; see lean/Drivers/C26.lean):
//   keyfill <base> <array> ...                    -> ok          (direct write of whole m->key_* arrays)
//   keyput <idx> <array> v v ...                  -> ok          (direct write of one keyframe's row)
//   keydump <array> ...                           -> name:v v v|name:...
//   setkey <k> <idx>                              -> ok | error:keyRange | error:keyNeg   (mj_setKeyframe)
//   loadkey <k> <idx> <base> <field> ... ; <field> ...
//        mj_resetDataKeyframe(M, D[k], idx); `reset` when D[k] is then indistinguishable from a fresh
//        mjData, else the first list of fields + `;rest=<0|1>` (1: every byte of D[k] outside those
//        fields equals the fresh mjData); then D[k] is re-filled like `fill <k> <base> <second list>`
// Compound ops (oracle only): minfo, rt, ext, cp, reset, key, put, krt  (see below).
#include <limits.h>
#include <setjmp.h>
#include <stddef.h>
#include <stdio.h>
#include <stdlib.h>
#include <string.h>
#include <mujoco/mujoco.h>
#include <mujoco/mjxmacro.h>

#define NSLOT 4
#define CANARY 7.7e300

static jmp_buf jb_main, jb_call;
static jmp_buf* cur = &jb_main;   // where mju_error unwinds to
static char errmsg[2048];
static int nwarn = 0;
static void on_error(const char* msg) { strncpy(errmsg, msg, sizeof(errmsg) - 1); errmsg[sizeof(errmsg) - 1] = 0; longjmp(*cur, 1); }
static void on_warning(const char* msg) { (void)msg; nwarn++; }

static mjModel* M = NULL;
static mjData* D[NSLOT];

typedef struct { void* p; int isbool; long n; } fld;

static int find_field(const mjModel* m, mjData* d, const char* name, fld* out) {
  if (!strcmp(name, "time")) { out->p = &d->time; out->isbool = 0; out->n = 1; return 1; }
#define X(type, nm, nr, nc)                                                          \
  if (!strcmp(name, #nm)) {                                                          \
    out->p = (void*)d->nm; out->n = (long)m->nr * (long)(nc);                        \
    out->isbool = !strcmp(#type, "mjtBool");                                         \
    return out->isbool || !strcmp(#type, "mjtNum");                                  \
  }
#define XNV X
  MJDATA_POINTERS
#undef XNV
#undef X
  return 0;
}

static int model_size(const mjModel* m, const char* name, long* out) {
#define X(nm) if (!strcmp(name, #nm)) { *out = (long)m->nm; return 1; }
  MJMODEL_SIZES
#undef X
  return 0;
}

// model key_* arrays, reached by name through MJMODEL_POINTERS (rows = nr, row = nc entries each)
typedef struct { mjtNum* p; long rows; long row; } karr;
static int find_karray(mjModel* m, const char* name, karr* out) {
  if (strncmp(name, "key_", 4)) return 0;
  MJMODEL_POINTERS_PREAMBLE(m)
#define X(type, nm, nr, nc)                                                          \
  if (!strcmp(name, #nm)) {                                                          \
    if (strcmp(#type, "mjtNum")) return 0;                                           \
    out->p = (mjtNum*)m->nm; out->rows = (long)m->nr; out->row = (long)(nc);         \
    return 1;                                                                        \
  }
#define XNV X
  MJMODEL_POINTERS
#undef XNV
#undef X
  return 0;
}

static void pnum(double v) {
  if (v == (double)(long long)v && v > -1e15 && v < 1e15) printf("%lld", (long long)v);
  else printf("%.17g", v);
}
static void pvec(const double* v, long n) { for (long i = 0; i < n; i++) { if (i) putchar(' '); pnum(v[i]); } }

static double fget(const fld* f, long j) { return f->isbool ? (double)((mjtBool*)f->p)[j] : ((mjtNum*)f->p)[j]; }

// distinct recognisable values: field position p in the op's list, entry j
static void fill_field(const fld* f, long base, int p) {
  for (long j = 0; j < f->n; j++) {
    if (f->isbool) ((mjtBool*)f->p)[j] = (mjtBool)(((base + p + j) % 2 + 2) % 2);
    else ((mjtNum*)f->p)[j] = (mjtNum)(base + 1000L * (p + 1) + j);
  }
}

static int dump_fields(mjData* d, char** names, int nn) {
  for (int i = 0; i < nn; i++) {
    fld f;
    if (!find_field(M, d, names[i], &f)) return 0;
  }
  for (int i = 0; i < nn; i++) {
    fld f; find_field(M, d, names[i], &f);
    if (i) putchar('|');
    printf("%s:", names[i]);
    for (long j = 0; j < f.n; j++) { if (j) putchar(' '); pnum(fget(&f, j)); }
  }
  return 1;
}

static const char* errkind(void) {
  static char buf[64];
  if (strstr(errmsg, "< 0")) return "sigNeg";
  if (strstr(errmsg, ">= 2^mjNSTATE")) return "sigRange";
  if (strstr(errmsg, "not a subset")) return "notSubset";
  if (strstr(errmsg, "mj_setKeyframe") && strstr(errmsg, "must be smaller")) return "keyRange";
  if (strstr(errmsg, "mj_setKeyframe") && strstr(errmsg, "negative")) return "keyNeg";
  const char* p = strstr(errmsg, "invalid state element ");
  if (p) {
    unsigned long e = strtoul(p + strlen("invalid state element "), NULL, 10);
    int b = 0; while (e > 1) { e >>= 1; b++; }
    snprintf(buf, sizeof(buf), "badElem:%d", b);
    return buf;
  }
  return "other";
}

// ---------------------------------------------------------------- model construction (mjSpec)
static mjsBody* bodies[256];
static int nbodies;

static int parse_long(const char* s, long* out) {
  char* e; if (!s || !*s) return 0;
  long v = strtol(s, &e, 10);
  if (*e) return 0;
  *out = v; return 1;
}

static mjModel* build_model(char** t, int nt, char* err, int errsz) {
  mjSpec* s = mj_makeSpec();
  bodies[0] = mjs_findBody(s, "world");
  nbodies = 1;
  char nm[64];
  int nkeys = 0; double keytime[16]; long keyseed[16];
  int i = 0;
  err[0] = 0;
  while (i < nt) {
    if (!strcmp(t[i], "dt") && i + 1 < nt) { s->option.timestep = atof(t[i + 1]); i += 2; }
    else if (!strcmp(t[i], "U") && i + 1 < nt) { s->nuserdata = atoi(t[i + 1]); i += 2; }
    else if (!strcmp(t[i], "B") && i + 5 < nt) {
      int par = atoi(t[i + 1]); const char* js = t[i + 2];
      if (par < 0 || par >= nbodies || nbodies >= 255) { snprintf(err, errsz, "bad parent"); goto fail; }
      mjsBody* b = mjs_addBody(bodies[par], NULL);
      snprintf(nm, sizeof(nm), "b%d", nbodies); mjs_setName(b->element, nm);
      b->pos[0] = atof(t[i + 3]); b->pos[1] = atof(t[i + 4]); b->pos[2] = atof(t[i + 5]);
      mjsGeom* g = mjs_addGeom(b, NULL); g->type = mjGEOM_SPHERE; g->size[0] = 0.05; g->contype = 0; g->conaffinity = 0;
      int jk = 0;
      for (const char* c = js; *c; c++) {
        if (*c == '-') continue;
        if (*c == 'm') { b->mocap = 1; b->quat[0] = 0.6; b->quat[1] = 0; b->quat[2] = 0.8; b->quat[3] = 0; continue; }
        mjsJoint* j = mjs_addJoint(b, NULL);
        snprintf(nm, sizeof(nm), "j%d_%d", nbodies, jk); mjs_setName(j->element, nm);
        j->type = *c == 'f' ? mjJNT_FREE : *c == 'b' ? mjJNT_BALL : *c == 's' ? mjJNT_SLIDE : mjJNT_HINGE;
        j->axis[0] = (jk % 3 == 0); j->axis[1] = (jk % 3 == 1); j->axis[2] = (jk % 3 == 2);
        if (*c == 's' || *c == 'h') j->ref = 0.125 * (jk + 1);
        jk++;
      }
      bodies[nbodies++] = b; i += 6;
    }
    else if (!strcmp(t[i], "A") && i + 4 < nt) {
      mjsActuator* a = mjs_addActuator(s, NULL);
      a->trntype = mjTRN_JOINT;
      snprintf(nm, sizeof(nm), "j%d_%d", atoi(t[i + 1]), atoi(t[i + 2])); mjs_setString(a->target, nm);
      char dy = t[i + 3][0];
      a->dyntype = dy == 'i' ? mjDYN_INTEGRATOR : dy == 'f' ? mjDYN_FILTER : dy == 'e' ? mjDYN_FILTEREXACT : mjDYN_NONE;
      a->dynprm[0] = 0.5;
      a->nsample = atoi(t[i + 4]);
      i += 5;
    }
    else if (!strcmp(t[i], "S") && i + 3 < nt) {
      mjsSensor* se = mjs_addSensor(s);
      se->type = mjSENS_JOINTPOS; se->objtype = mjOBJ_JOINT;
      snprintf(nm, sizeof(nm), "j%d_%d", atoi(t[i + 1]), atoi(t[i + 2])); mjs_setString(se->objname, nm);
      se->nsample = atoi(t[i + 3]);
      i += 4;
    }
    else if (!strcmp(t[i], "E") && i + 4 < nt) {
      mjsEquality* e = mjs_addEquality(s, NULL);
      e->type = t[i + 1][0] == 'w' ? mjEQ_WELD : mjEQ_CONNECT;
      e->objtype = mjOBJ_BODY;
      snprintf(nm, sizeof(nm), "b%d", atoi(t[i + 2])); mjs_setString(e->name1, nm);
      snprintf(nm, sizeof(nm), "b%d", atoi(t[i + 3])); mjs_setString(e->name2, nm);
      e->active = atoi(t[i + 4]) != 0;
      i += 5;
    }
    else if (!strcmp(t[i], "K") && i + 2 < nt) {
      if (nkeys >= 16) { snprintf(err, errsz, "too many keys"); goto fail; }
      keytime[nkeys] = atof(t[i + 1]); keyseed[nkeys] = atol(t[i + 2]); nkeys++; i += 3;
    }
    else { snprintf(err, errsz, "bad spec token %s", t[i]); goto fail; }
  }
  {
    mjModel* m = mj_compile(s, NULL);
    if (!m) { snprintf(err, errsz, "%s", mjs_getError(s)); goto fail; }
    if (nkeys) {
      // keyframe vectors need the compiled sizes: add them now and compile again
      long nq = m->nq, nv = m->nv, na = m->na, nu = m->nu, nmocap = m->nmocap;
      mj_deleteModel(m);
      for (int k = 0; k < nkeys; k++) {
        mjsKey* key = mjs_addKey(s);
        key->time = keytime[k];
        double buf[4096]; long sd = keyseed[k];
#define SETV(vec, n, off) { for (long q = 0; q < (n); q++) buf[q] = (double)(sd + (off) + q) + 0.5; mjs_setDouble(key->vec, buf, (int)(n)); }
        SETV(qpos, nq, 100) SETV(qvel, nv, 200) SETV(act, na, 300) SETV(ctrl, nu, 400) SETV(mpos, 3 * nmocap, 500) SETV(mquat, 4 * nmocap, 600)
#undef SETV
      }
      m = mj_compile(s, NULL);
      if (!m) { snprintf(err, errsz, "%s", mjs_getError(s)); goto fail; }
    }
    mj_deleteSpec(s);
    return m;
  }
fail:
  mj_deleteSpec(s);
  return NULL;
}

// ---------------------------------------------------------------- guarded calls to the real API
// all return 1 on normal return, 0 when mju_error was raised (errmsg set)
static int call_size(int sig, int* out) {
  cur = &jb_call;
  if (setjmp(jb_call)) { cur = &jb_main; return 0; }
  *out = mj_stateSize(M, sig); cur = &jb_main; return 1;
}
static double* vbuf = NULL; static long vcap = 0;
static long total_cap(void) {
  // larger than anything the API can legitimately write for this model
  long tot = 64;
#define X(type, nm, nr, nc) tot += (long)M->nr * (long)(nc);
#define XNV X
  MJDATA_POINTERS
#undef XNV
#undef X
  return 2 * tot;
}
static void canary_buf(void) {
  long cap = total_cap();
  if (cap > vcap) { vbuf = realloc(vbuf, cap * sizeof(double)); vcap = cap; }
  for (long i = 0; i < vcap; i++) vbuf[i] = CANARY;
}
static long written(void) { long w = vcap; while (w > 0 && vbuf[w - 1] == CANARY) w--; return w; }
static int call_get(const mjData* d, int sig, long* w) {
  canary_buf();
  cur = &jb_call;
  if (setjmp(jb_call)) { cur = &jb_main; return 0; }
  mj_getState(M, d, vbuf, sig);
  cur = &jb_main; *w = written(); return 1;
}
static int call_set(mjData* d, const double* v, int sig) {
  cur = &jb_call;
  if (setjmp(jb_call)) { cur = &jb_main; return 0; }
  mj_setState(M, d, v, sig); cur = &jb_main; return 1;
}
static int call_extract(const double* src, int srcsig, int dstsig, long* w) {
  canary_buf();
  cur = &jb_call;
  if (setjmp(jb_call)) { cur = &jb_main; return 0; }
  mj_extractState(M, src, srcsig, vbuf, dstsig);
  cur = &jb_main; *w = written(); return 1;
}
static int call_copy(const mjData* src, mjData* dst, int sig) {
  cur = &jb_call;
  if (setjmp(jb_call)) { cur = &jb_main; return 0; }
  mj_copyState(M, src, dst, sig); cur = &jb_main; return 1;
}

static int call_setkey(const mjData* d, int idx) {
  cur = &jb_call;
  if (setjmp(jb_call)) { cur = &jb_main; return 0; }
  mj_setKeyframe(M, d, idx); cur = &jb_main; return 1;
}

// snapshot of everything in mjData outside the arena: header (up to `buffer`) + main buffer
typedef struct { unsigned char* hdr; unsigned char* buf; size_t nb; } snap;
static snap take_snap(const mjData* d) {
  snap s; s.nb = (size_t)d->nbuffer;
  s.hdr = malloc(offsetof(mjData, buffer)); memcpy(s.hdr, d, offsetof(mjData, buffer));
  s.buf = malloc(s.nb ? s.nb : 1); memcpy(s.buf, d->buffer, s.nb);
  return s;
}
static void free_snap(snap* s) { free(s->hdr); free(s->buf); }
// 1 iff every byte of header+buffer outside the listed fields is unchanged since the snapshot
static int rest_equal_masked(const snap* s, mjData* d, char** names, int nn, const unsigned char* hdr_only) {
  size_t nh = offsetof(mjData, buffer);
  unsigned char* mh = calloc(nh, 1); unsigned char* mb = calloc(s->nb ? s->nb : 1, 1);
  for (int i = 0; i < nn; i++) {
    fld f; if (!find_field(M, d, names[i], &f)) continue;
    size_t bytes = (size_t)f.n * (f.isbool ? sizeof(mjtBool) : sizeof(mjtNum));
    unsigned char* p = (unsigned char*)f.p;
    if (p >= (unsigned char*)d && p < (unsigned char*)d + nh) memset(mh + (p - (unsigned char*)d), 1, bytes);
    else if (p >= (unsigned char*)d->buffer && p + bytes <= (unsigned char*)d->buffer + s->nb) memset(mb + (p - (unsigned char*)d->buffer), 1, bytes);
  }
  int ok = 1;
  for (size_t i = 0; i < nh && ok; i++) if (!mh[i] && (!hdr_only || hdr_only[i]) && s->hdr[i] != ((unsigned char*)d)[i]) ok = 0;
  for (size_t i = 0; i < s->nb && ok; i++) if (!mb[i] && s->buf[i] != ((unsigned char*)d->buffer)[i]) ok = 0;
  free(mh); free(mb);
  return ok;
}

static int rest_equal(const snap* s, mjData* d, char** names, int nn) { return rest_equal_masked(s, d, names, nn, NULL); }

// 1 iff the header members (MJDATA_SCALAR and MJDATA_VECTOR of mjxmacro.h: sizes, counters, statistics,
// flags, time, energy; struct padding is not compared - two separately allocated mjData differ there)
// and the main buffer of d are byte-identical to those of a fresh mjData, outside the listed fields
static int equals_fresh(mjData* d, char** names, int nn) {
  mjData* fr = mj_makeData(M);
  snap s = take_snap(fr);
  size_t nh = offsetof(mjData, buffer);
  unsigned char* only = calloc(nh, 1);
#define X(type, nm) { size_t o = offsetof(mjData, nm); if (o + sizeof(d->nm) <= nh) memset(only + o, 1, sizeof(d->nm)); }
  MJDATA_SCALAR
#undef X
#define X(type, nm, n1, n2) { size_t o = offsetof(mjData, nm); if (o + sizeof(d->nm) <= nh) memset(only + o, 1, sizeof(d->nm)); }
  MJDATA_VECTOR
#undef X
  int ok = (d->nbuffer == fr->nbuffer) && rest_equal_masked(&s, d, names, nn, only);
  free(only); free_snap(&s); mj_deleteData(fr);
  return ok;
}

static int slot(const char* s, int* k) { long v; if (!parse_long(s, &v) || v < 0 || v >= NSLOT) return 0; *k = (int)v; return 1; }
static int sigarg(const char* s, int* sig) { long v; if (!parse_long(s, &v) || v < INT_MIN || v > INT_MAX) return 0; *sig = (int)v; return 1; }

static double* parse_vec(char** t, int n) {
  double* v = malloc((n + 1) * sizeof(double));
  for (int i = 0; i < n; i++) {
    char* e; v[i] = strtod(t[i], &e);
    if (*e || e == t[i]) { free(v); return NULL; }
  }
  return v;
}

static void print_get(const mjData* d, int sig) {
  long w;
  if (call_get(d, sig, &w)) pvec(vbuf, w); else printf("error:%s", errkind());
}

int main(void) {
  mju_user_error = on_error;
  mju_user_warning = on_warning;
  size_t cap = 1 << 22; char* line = malloc(cap);
  char** t = malloc(sizeof(char*) * (1 << 20));
  while (fgets(line, cap, stdin)) {
    // any mju_error outside the guarded API calls (compile, makeData, reset, step) lands here
    if (setjmp(jb_main)) { printf("error=%s\n", errmsg); continue; }
    int nt = 0; char* save;
    for (char* tok = strtok_r(line, " \n", &save); tok; tok = strtok_r(NULL, " \n", &save)) t[nt++] = tok;
    if (nt == 0) { printf("bad-op\n"); continue; }
    const char* op = t[0];
    if (!strcmp(op, "model")) {
      int semi = -1;
      for (int i = 1; i < nt; i++) if (!strcmp(t[i], ";")) { semi = i; break; }
      if (semi < 2) { printf("bad-op\n"); continue; }
      int bad = 0;
      for (int i = 2; i < semi; i++) if (!strchr(t[i], '=')) bad = 1;
      if (bad) { printf("bad-op\n"); continue; }
      if (M) { for (int k = 0; k < NSLOT; k++) { mj_deleteData(D[k]); D[k] = NULL; } mj_deleteModel(M); M = NULL; }
      char err[1024];
      M = build_model(t + semi + 1, nt - semi - 1, err, sizeof(err));
      if (!M) { printf("compile-error %s\n", err); continue; }
      for (int k = 0; k < NSLOT; k++) D[k] = mj_makeData(M);
      int mism = 0;
      for (int i = 2; i < semi && !mism; i++) {
        char* eq = strchr(t[i], '='); *eq = 0;
        long have, want;
        if (!parse_long(eq + 1, &want)) { printf("bad-op\n"); mism = 1; break; }
        if (!strcmp(t[i], "?")) continue;
        if (!model_size(M, t[i], &have)) { printf("size-mismatch unknown size %s\n", t[i]); mism = 1; }
        else if (have != want) { printf("size-mismatch %s have %ld want %ld\n", t[i], have, want); mism = 1; }
      }
      if (!mism) printf("ok\n");
      continue;
    }
    if (!strcmp(op, "sizes")) {   // first pass: report the compiled sizes of a spec:  sizes <name> ... ; <spec tokens>
      int semi = -1;
      for (int i = 1; i < nt; i++) if (!strcmp(t[i], ";")) { semi = i; break; }
      if (semi < 1) { printf("bad-op\n"); continue; }
      char err[1024];
      mjModel* m = build_model(t + semi + 1, nt - semi - 1, err, sizeof(err));
      if (!m) { printf("compile-error %s\n", err); continue; }
      for (int i = 1; i < semi; i++) {
        long v = -1; if (!model_size(m, t[i], &v)) v = -1;
        printf(i > 1 ? " %s=%ld" : "%s=%ld", t[i], v);
      }
      printf("\n");
      mj_deleteModel(m);
      continue;
    }
    if (!strcmp(op, "quats")) {   // first pass: qpos addresses of the quaternions of a spec:  quats ; <spec tokens>
      if (nt < 2 || strcmp(t[1], ";")) { printf("bad-op\n"); continue; }
      char err[1024];
      mjModel* m = build_model(t + 2, nt - 2, err, sizeof(err));
      if (!m) { printf("compile-error %s\n", err); continue; }
      printf("quats");
      for (int j = 0; j < m->njnt; j++) {
        if (m->jnt_type[j] == mjJNT_FREE) printf(" %d", m->jnt_qposadr[j] + 3);
        else if (m->jnt_type[j] == mjJNT_BALL) printf(" %d", m->jnt_qposadr[j]);
      }
      printf("\n");
      mj_deleteModel(m);
      continue;
    }
    if (!M) { printf("bad-op\n"); continue; }
    int k, k2, k3, sig, sig2;
    if (!strcmp(op, "fill") && nt >= 3 && slot(t[1], &k)) {
      long base; fld f; int ok = parse_long(t[2], &base);
      for (int i = 3; i < nt && ok; i++) ok = find_field(M, D[k], t[i], &f);
      if (!ok) { printf("bad-op\n"); continue; }
      for (int i = 3; i < nt; i++) { find_field(M, D[k], t[i], &f); fill_field(&f, base, i - 3); }
      printf("ok\n");
    } else if (!strcmp(op, "dump") && nt >= 2 && slot(t[1], &k)) {
      if (!dump_fields(D[k], t + 2, nt - 2)) printf("bad-op");
      printf("\n");
    } else if (!strcmp(op, "size") && nt == 2 && sigarg(t[1], &sig)) {
      int n;
      if (call_size(sig, &n)) printf("%d\n", n); else printf("error:%s\n", errkind());
    } else if (!strcmp(op, "get") && nt == 3 && slot(t[1], &k) && sigarg(t[2], &sig)) {
      long w;
      if (call_get(D[k], sig, &w)) { printf("vec"); if (w) putchar(' '); pvec(vbuf, w); printf("\n"); }
      else printf("error:%s\n", errkind());
    } else if (!strcmp(op, "set") && nt >= 3 && slot(t[1], &k) && sigarg(t[2], &sig)) {
      double* v = parse_vec(t + 3, nt - 3);
      if (!v) { printf("bad-op\n"); continue; }
      int need;
      if (!call_size(sig, &need)) printf("error:%s\n", errkind());
      else if (need > nt - 3) printf("error:oob\n");   // the real call would read past the caller's vector
      else if (call_set(D[k], v, sig)) printf("ok\n");
      else printf("error:%s\n", errkind());
      free(v);
    } else if (!strcmp(op, "extract") && nt >= 3 && sigarg(t[1], &sig) && sigarg(t[2], &sig2)) {
      double* v = parse_vec(t + 3, nt - 3);
      if (!v) { printf("bad-op\n"); continue; }
      int need; long w;
      if (!call_size(sig, &need)) printf("error:%s\n", errkind());
      else if ((sig & sig2) == sig2 && need > nt - 3) printf("error:oob\n");
      else if (call_extract(v, sig, sig2, &w)) { printf("vec"); if (w) putchar(' '); pvec(vbuf, w); printf("\n"); }
      else printf("error:%s\n", errkind());
      free(v);
    } else if (!strcmp(op, "copy") && nt == 4 && slot(t[1], &k) && slot(t[2], &k2) && sigarg(t[3], &sig)) {
      if (k == k2) { printf("bad-op\n"); continue; }
      if (call_copy(D[k], D[k2], sig)) printf("ok\n"); else printf("error:%s\n", errkind());
    }
    // ------------------------------------------------------------ compound ops (oracle observations)
    else if (!strcmp(op, "minfo") && nt == 1) {
      printf("nstate=%d;dt=%.17g;nkey=%d;qpos0=", (int)mjNSTATE, M->opt.timestep, (int)M->nkey); pvec(M->qpos0, M->nq);
      printf(";eq0="); for (int i = 0; i < M->neq; i++) printf(i ? " %d" : "%d", (int)M->eq_active0[i]);
      printf(";mpos="); for (int id = 0; id < M->nmocap; id++) for (int b = 0; b < M->nbody; b++) if (M->body_mocapid[b] == id) { if (id) putchar(' '); pvec(M->body_pos + 3 * b, 3); }
      printf(";mquat="); for (int id = 0; id < M->nmocap; id++) for (int b = 0; b < M->nbody; b++) if (M->body_mocapid[b] == id) { if (id) putchar(' '); pvec(M->body_quat + 4 * b, 4); }
      printf(";ahist="); for (int i = 0; i < M->nactuator; i++) printf(i ? " %d:%d" : "%d:%d", M->actuator_history[2 * i], M->actuator_historyadr[i]);
      printf(";shist="); for (int i = 0; i < M->nsensor; i++) printf(i ? " %d:%d:%d:%.17g:%.17g" : "%d:%d:%d:%.17g:%.17g", M->sensor_history[2 * i], M->sensor_historyadr[i], M->sensor_dim[i], M->sensor_interval[2 * i], M->sensor_interval[2 * i + 1]);
      printf("\n");
    } else if (!strcmp(op, "rt") && nt >= 4 && slot(t[1], &k) && slot(t[2], &k2) && sigarg(t[3], &sig) && k != k2) {
      // get from D[k], set into D[k2]; print everything observable
      int comp = ((1 << mjNSTATE) - 1) & ~sig;
      int n = -1; long w = -1;
      snap sa = take_snap(D[k]), sb = take_snap(D[k2]);
      printf("A="); if (!dump_fields(D[k], t + 4, nt - 4)) { printf("bad-op\n"); continue; }
      printf(";B0="); dump_fields(D[k2], t + 4, nt - 4);
      printf(";c0="); print_get(D[k2], comp);
      if (!call_size(sig, &n)) { printf(";error=%s\n", errkind()); continue; }
      if (!call_get(D[k], sig, &w)) { printf(";error=%s\n", errkind()); continue; }
      double* v = malloc((w + 1) * sizeof(double)); memcpy(v, vbuf, w * sizeof(double));
      printf(";n=%d;w=%ld;vec=", n, w); pvec(v, w);
      printf(";restA=%d", rest_equal(&sa, D[k], NULL, 0));
      if (!call_set(D[k2], v, sig)) { printf(";error=%s\n", errkind()); continue; }
      printf(";rest=%d", rest_equal(&sb, D[k2], t + 4, nt - 4));
      printf(";B1="); dump_fields(D[k2], t + 4, nt - 4);
      printf(";g1="); print_get(D[k2], sig);
      printf(";c1="); print_get(D[k2], comp);
      printf("\n");
      free(v); free_snap(&sa); free_snap(&sb);
    } else if (!strcmp(op, "ext") && nt == 4 && slot(t[1], &k) && sigarg(t[2], &sig) && sigarg(t[3], &sig2)) {
      long w; int nd = -1;
      if (!call_get(D[k], sig, &w)) { printf("error=%s\n", errkind()); continue; }
      double* v = malloc((w + 1) * sizeof(double)); memcpy(v, vbuf, w * sizeof(double));
      printf("src="); pvec(v, w);
      long we;
      if (!call_extract(v, sig, sig2, &we)) { printf(";error=%s\n", errkind()); free(v); continue; }
      printf(";ex="); pvec(vbuf, we);
      printf(";sub="); print_get(D[k], sig2);
      if (call_size(sig2, &nd)) printf(";nd=%d", nd);
      printf("\n");
      free(v);
    } else if (!strcmp(op, "cp") && nt >= 5 && slot(t[1], &k) && slot(t[2], &k2) && slot(t[3], &k3) && sigarg(t[4], &sig)
               && k != k2 && k != k3 && k2 != k3) {
      // D[k3] := D[k2]; then copyState(D[k] -> D[k2]) versus get+set (D[k] -> D[k3])
      mj_copyData(D[k3], M, D[k2]);
      snap sa = take_snap(D[k]);
      if (!call_copy(D[k], D[k2], sig)) { printf("error=%s\n", errkind()); continue; }
      long w;
      if (!call_get(D[k], sig, &w)) { printf("error=%s\n", errkind()); continue; }
      double* v = malloc((w + 1) * sizeof(double)); memcpy(v, vbuf, w * sizeof(double));
      if (!call_set(D[k3], v, sig)) { printf("error=%s\n", errkind()); continue; }
      printf("B="); if (!dump_fields(D[k2], t + 5, nt - 5)) { printf("bad-op\n"); continue; }
      printf(";C="); dump_fields(D[k3], t + 5, nt - 5);
      int same = D[k2]->nbuffer == D[k3]->nbuffer && !memcmp(D[k2]->buffer, D[k3]->buffer, D[k2]->nbuffer) && D[k2]->time == D[k3]->time;
      printf(";same=%d;restA=%d\n", same, rest_equal(&sa, D[k], NULL, 0));
      free(v); free_snap(&sa);
    } else if ((!strcmp(op, "reset") || !strcmp(op, "key")) && nt >= 4 && slot(t[1], &k)) {
      // dirty everything (two real steps from the default state, then junk in every state field),
      // then reset; print the state fields of the reset data and of a freshly made one
      long base, idx = 0; fld f; int first = 3;
      if (!strcmp(op, "key")) { if (!parse_long(t[2], &idx)) { printf("bad-op\n"); continue; } first = 4; }
      if (!parse_long(t[first - 1], &base)) { printf("bad-op\n"); continue; }
      int ok = 1;
      for (int i = first; i < nt && ok; i++) ok = find_field(M, D[k], t[i], &f);
      if (!ok) { printf("bad-op\n"); continue; }
      mj_resetData(M, D[k]); mj_step(M, D[k]); mj_step(M, D[k]);
      for (int i = first; i < nt; i++) { find_field(M, D[k], t[i], &f); fill_field(&f, base, i - first); }
      if (!strcmp(op, "reset")) mj_resetData(M, D[k]); else mj_resetDataKeyframe(M, D[k], (int)idx);
      mjData* fr = mj_makeData(M);
      printf("R="); dump_fields(D[k], t + first, nt - first);
      printf(";F="); dump_fields(fr, t + first, nt - first);
      int same = fr->nbuffer == D[k]->nbuffer && !memcmp(fr->buffer, D[k]->buffer, fr->nbuffer);
      printf(";samebuf=%d;hdr=%d %d %d %d %d %d;fhdr=%d %d %d %d %d %d", same, D[k]->ncon, D[k]->nefc, D[k]->ne, D[k]->nisland,
             (int)D[k]->pstack, (int)D[k]->parena, fr->ncon, fr->nefc, fr->ne, fr->nisland, (int)fr->pstack, (int)fr->parena);
      if (!strcmp(op, "key") && idx >= 0 && idx < M->nkey) {
        printf(";ktime="); pnum(M->key_time[idx]);
        printf(";kqpos="); pvec(M->key_qpos + idx * M->nq, M->nq);
        printf(";kqvel="); pvec(M->key_qvel + idx * M->nv, M->nv);
        printf(";kact="); pvec(M->key_act + idx * M->na, M->na);
        printf(";kctrl="); pvec(M->key_ctrl + idx * M->nu, M->nu);
        printf(";kmpos="); pvec(M->key_mpos + idx * 3 * M->nmocap, 3 * M->nmocap);
        printf(";kmquat="); pvec(M->key_mquat + idx * 4 * M->nmocap, 4 * M->nmocap);
      }
      printf("\n");
      mj_deleteData(fr);
    } else if (!strcmp(op, "keyfill") && nt >= 2) {
      long base; karr a; int ok = parse_long(t[1], &base);
      for (int i = 2; i < nt && ok; i++) ok = find_karray(M, t[i], &a);
      if (!ok) { printf("bad-op\n"); continue; }
      for (int i = 2; i < nt; i++) {
        find_karray(M, t[i], &a);
        for (long j = 0; j < a.rows * a.row; j++) a.p[j] = (mjtNum)(base + 1000L * (i - 1) + j);
      }
      printf("ok\n");
    } else if (!strcmp(op, "keyput") && nt >= 3) {
      long idx; karr a;
      if (!parse_long(t[1], &idx) || !find_karray(M, t[2], &a) || idx < 0 || idx >= a.rows || nt - 3 != a.row) { printf("bad-op\n"); continue; }
      double* v = parse_vec(t + 3, nt - 3);
      if (!v) { printf("bad-op\n"); continue; }
      for (long j = 0; j < a.row; j++) a.p[idx * a.row + j] = v[j];
      free(v);
      printf("ok\n");
    } else if (!strcmp(op, "keydump")) {
      karr a; int ok = 1;
      for (int i = 1; i < nt && ok; i++) ok = find_karray(M, t[i], &a);
      if (!ok) { printf("bad-op\n"); continue; }
      for (int i = 1; i < nt; i++) {
        find_karray(M, t[i], &a);
        if (i > 1) putchar('|');
        printf("%s:", t[i]); pvec(a.p, a.rows * a.row);
      }
      printf("\n");
    } else if (!strcmp(op, "setkey") && nt == 3 && slot(t[1], &k) && sigarg(t[2], &sig)) {
      if (call_setkey(D[k], sig)) printf("ok\n"); else printf("error:%s\n", errkind());
    } else if (!strcmp(op, "loadkey") && nt >= 5 && slot(t[1], &k) && sigarg(t[2], &sig)) {
      long base; fld f; int semi = -1;
      for (int i = 4; i < nt; i++) if (!strcmp(t[i], ";")) { semi = i; break; }
      int ok = semi > 0 && parse_long(t[3], &base);
      for (int i = 4; i < nt && ok; i++) if (i != semi) ok = find_field(M, D[k], t[i], &f);
      if (!ok) { printf("bad-op\n"); continue; }
      mj_resetDataKeyframe(M, D[k], sig);
      if (equals_fresh(D[k], NULL, 0)) printf("reset\n");
      else { dump_fields(D[k], t + 4, semi - 4); printf(";rest=%d\n", equals_fresh(D[k], t + 4, semi - 4)); }
      for (int i = semi + 1; i < nt; i++) { find_field(M, D[k], t[i], &f); fill_field(&f, base, i - semi - 1); }
    }
    // ------------------------------------------------------------ keyframe compound ops (oracle observations)
    else if (!strcmp(op, "put") && nt >= 3 && slot(t[1], &k)) {
      // direct write of the leading entries of one mjData field:  put <k> <field> v v ...
      fld f;
      if (!find_field(M, D[k], t[2], &f) || nt - 3 > f.n) { printf("bad-op\n"); continue; }
      double* v = parse_vec(t + 3, nt - 3);
      if (!v) { printf("bad-op\n"); continue; }
      for (long j = 0; j < nt - 3; j++) { if (f.isbool) ((mjtBool*)f.p)[j] = v[j] != 0; else ((mjtNum*)f.p)[j] = v[j]; }
      free(v);
      printf("ok\n");
    } else if (!strcmp(op, "krt") && nt >= 5 && slot(t[1], &k) && slot(t[2], &k2) && sigarg(t[3], &sig) && k != k2) {
      // krt <ksrc> <kdst> <idx> <base> <field> ... ; <array> ...
      // mj_setKeyframe(M, D[ksrc], idx), then dirty D[kdst] and mj_resetDataKeyframe(M, D[kdst], idx);
      // prints the source fields, every listed key_* array before / after the set / after the load,
      // the loaded data and a fresh mjData
      long base; fld f; karr a; int semi = -1;
      for (int i = 5; i < nt; i++) if (!strcmp(t[i], ";")) { semi = i; break; }
      int ok = semi > 0 && parse_long(t[4], &base);
      for (int i = 5; i < semi && ok; i++) ok = find_field(M, D[k], t[i], &f);
      for (int i = semi + 1; i < nt && ok; i++) ok = find_karray(M, t[i], &a);
      if (!ok) { printf("bad-op\n"); continue; }
      snap sa = take_snap(D[k]);
      printf("A="); dump_fields(D[k], t + 5, semi - 5);
      printf(";K0="); for (int i = semi + 1; i < nt; i++) { find_karray(M, t[i], &a); if (i > semi + 1) putchar('|'); printf("%s:", t[i]); pvec(a.p, a.rows * a.row); }
      if (!call_setkey(D[k], sig)) { printf(";seterr=%s\n", errkind()); free_snap(&sa); continue; }
      printf(";restA=%d", rest_equal(&sa, D[k], NULL, 0));
      printf(";K1="); for (int i = semi + 1; i < nt; i++) { find_karray(M, t[i], &a); if (i > semi + 1) putchar('|'); printf("%s:", t[i]); pvec(a.p, a.rows * a.row); }
      mj_resetData(M, D[k2]); mj_step(M, D[k2]); mj_step(M, D[k2]);
      for (int i = 5; i < semi; i++) { find_field(M, D[k2], t[i], &f); fill_field(&f, base, i - 5); }
      mj_resetDataKeyframe(M, D[k2], sig);
      mjData* fr = mj_makeData(M);
      printf(";K2="); for (int i = semi + 1; i < nt; i++) { find_karray(M, t[i], &a); if (i > semi + 1) putchar('|'); printf("%s:", t[i]); pvec(a.p, a.rows * a.row); }
      printf(";R="); dump_fields(D[k2], t + 5, semi - 5);
      printf(";F="); dump_fields(fr, t + 5, semi - 5);
      printf(";rows="); for (int i = semi + 1; i < nt; i++) { find_karray(M, t[i], &a); printf(i > semi + 1 ? " %ld" : "%ld", a.row); }
      printf("\n");
      mj_deleteData(fr); free_snap(&sa);
    } else {
      printf("bad-op\n");
    }
  }
  return 0;
}
