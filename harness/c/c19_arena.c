// C19 implementation-side driver: drives the *real* allocator of src/engine/engine_memory.c
// (mj_markStack, mj_freeStack, mj_stackAllocByte/Info/Num/Int, mj_arenaAllocByte) and the real
// mju_threadpool / mju_dispatch of engine_thread.cc on a real mjData made by mj_makeData from a
// model compiled through the mjSpec C API.  Same line protocol as lean/Drivers/C19.lean.
//
//   new BASE NARENA      mj_makeData with m->narena = NARENA; report the fields mj_makeData set; then
//                        the arena buffer is re-seated at the fixed absolute address BASE inside a
//                        region mapped at REGION (the stack aligns *absolute* addresses, so a known
//                        base makes offsets reproducible); d is otherwise untouched
//   mark | free | lock | unlock | alloc S A | alloci S A | arena B A | num N | int N
//   par K S A            K threads reserve (S,A) concurrently (only under lock)
//   parh S1 A1 S2 A2 ..  one thread per request, concurrently (only under lock)
//   dispatch NT K S A    mju_threadpool(d, NT); mju_dispatch of K tasks each reserving (S,A)
// output:  RES | pstack parena pbase-off lock maxuse_stack maxuse_arena
//
//   mode "engine": lines  `engine MODEL FN SEED NTHREAD`  -> pstack/pbase before and after a public call
#include <inttypes.h>
#include <pthread.h>
#include <setjmp.h>
#include <stdint.h>
#include <stdio.h>
#include <stdlib.h>
#include <string.h>
#include <sys/mman.h>
#include <unistd.h>

#include <mujoco/mujoco.h>
#include "engine/engine_memory.h"
#include "engine/engine_thread.h"

#define REGION 0x200000000000ULL
#define REGION_SIZE (8ULL << 20)
#define MAXNARENA (4ULL << 20)
#define MAXK 64

static _Thread_local jmp_buf* tl_jmp = NULL;
static void on_error(const char* msg) {
  if (tl_jmp) longjmp(*tl_jmp, 1);
  fprintf(stderr, "c19 harness: uncaught mju_error: %s\n", msg);
  _exit(3);
}
static void on_warning(const char* msg) { (void)msg; }

// ------------------------------------------------------------------ models through mjSpec
static void set3(double* v, double a, double b, double c) { v[0] = a; v[1] = b; v[2] = c; }

static mjModel* make_model(int kind) {
  mjSpec* s = mj_makeSpec();
  mjsBody* world = mjs_findBody(s, "world");
  char name[64];
  if (kind == 0) {            // tiny: one hinge body
    mjsBody* b = mjs_addBody(world, NULL);
    mjsJoint* j = mjs_addJoint(b, NULL); j->type = mjJNT_HINGE; set3(j->axis, 0, 1, 0);
    mjsGeom* g = mjs_addGeom(b, NULL); g->type = mjGEOM_SPHERE; g->size[0] = 0.1; set3(g->pos, 0, 0, -0.3);
  } else if (kind == 1) {     // actuated chain with joint limits, a tendon and a joint equality
    mjsBody* parent = world;
    for (int i = 0; i < 5; i++) {
      mjsBody* b = mjs_addBody(parent, NULL); set3(b->pos, 0, 0, i ? -0.3 : 1.5);
      mjsJoint* j = mjs_addJoint(b, NULL); j->type = mjJNT_HINGE; set3(j->axis, 0, 1, 0);
      j->limited = mjLIMITED_TRUE; j->range[0] = -0.4; j->range[1] = 0.4;
      snprintf(name, sizeof name, "j%d", i); mjs_setName(j->element, name);
      mjsGeom* g = mjs_addGeom(b, NULL); g->type = mjGEOM_CAPSULE; g->size[0] = 0.04;
      g->fromto[0] = 0; g->fromto[1] = 0; g->fromto[2] = 0; g->fromto[3] = 0; g->fromto[4] = 0; g->fromto[5] = -0.3;
      g->contype = 0; g->conaffinity = 0;
      mjsActuator* a = mjs_addActuator(s, NULL); a->trntype = mjTRN_JOINT; mjs_setString(a->target, name);
      a->gear[0] = 1 + i;
      parent = b;
    }
    mjsTendon* t = mjs_addTendon(s, NULL);
    mjs_wrapJoint(t, "j0", 1.0); mjs_wrapJoint(t, "j1", -0.5);
    t->limited = mjLIMITED_TRUE; t->range[0] = -0.2; t->range[1] = 0.2;
    mjsEquality* e = mjs_addEquality(s, NULL); e->type = mjEQ_JOINT; e->objtype = mjOBJ_JOINT;
    mjs_setString(e->name1, "j3"); mjs_setString(e->name2, "j4");
    e->data[0] = 0; e->data[1] = 1; e->data[2] = 0; e->data[3] = 0; e->data[4] = 0;
  } else {                    // kind 2,3: free bodies resting / overlapping on a plane (contacts, islands)
    mjsGeom* p = mjs_addGeom(world, NULL); p->type = mjGEOM_PLANE; set3(p->size, 5, 5, 0.1);
    int n = kind == 2 ? 6 : 14;
    for (int i = 0; i < n; i++) {
      mjsBody* b = mjs_addBody(world, NULL);
      set3(b->pos, kind == 2 ? 0.5 * (i % 3) : 0.15 * i, kind == 2 ? 0.5 * (i / 3) : 0.0, 0.09 + (kind == 2 ? 0 : 0.01 * (i % 2)));
      mjsJoint* j = mjs_addJoint(b, NULL); j->type = mjJNT_FREE;
      mjsGeom* g = mjs_addGeom(b, NULL);
      if (i % 2) { g->type = mjGEOM_BOX; set3(g->size, 0.1, 0.1, 0.1); } else { g->type = mjGEOM_SPHERE; g->size[0] = 0.1; }
    }
  }
  mjModel* m = mj_compile(s, NULL);
  if (!m) { fprintf(stderr, "c19 harness: mj_compile failed: %s\n", mjs_getError(s)); _exit(4); }
  mj_deleteSpec(s);
  return m;
}

// ------------------------------------------------------------------ allocator protocol state
static mjModel* M = NULL;
static mjData* D = NULL;
static void* orig_arena = NULL;
static uintptr_t BASE = 0;

static void drop_data(void) {
  if (D) {
    if (D->threadpool) mju_threadpool(D, 0);
    D->arena = orig_arena;
    D->threadlock = 0;
    mj_deleteData(D);
    D = NULL;
  }
}

static void print_state(void) {
  printf(" | %zu %zu ", D->pstack, D->parena);
  if (D->pbase) printf("%" PRIuPTR, (uintptr_t)D->pbase - BASE); else printf("-");
  printf(" %d %" PRIu64 " %" PRIu64 "\n", (int)D->threadlock, (uint64_t)D->maxuse_stack, (uint64_t)D->maxuse_arena);
}

// write into a returned block when (and only when) the claimed extent lies inside the arena buffer:
// client writes must never disturb the allocator's own records
static void scribble(void* p, size_t size) {
  uintptr_t a = (uintptr_t)p;
  if (a >= BASE && size <= (size_t)D->narena && a - BASE <= (size_t)D->narena - size) memset(p, 0xA5, size);
}

typedef struct { size_t size, al; int err; void* res; pthread_barrier_t* bar; } job;

static void run_job(job* j) {
  jmp_buf jb; tl_jmp = &jb;
  if (!setjmp(jb)) { j->res = mj_stackAllocByte(D, j->size, j->al); j->err = 0; }
  else { j->res = NULL; j->err = 1; }
  tl_jmp = NULL;
}
static void* thread_main(void* arg) {
  job* j = (job*)arg;
  pthread_barrier_wait(j->bar);
  run_job(j);
  return NULL;
}
static void dispatch_task(const mjModel* m, mjData* d, void* arg, int thread_id, int task_id) {
  (void)m; (void)d; (void)thread_id;
  run_job(&((job*)arg)[task_id]);
}
static int cmp_u64(const void* a, const void* b) {
  uint64_t x = *(const uint64_t*)a, y = *(const uint64_t*)b; return x < y ? -1 : x > y;
}
// error entries print as "error"; pointers as offsets; sorted when `sorted`
static void print_jobs(job* js, int k, int sorted) {
  uint64_t v[MAXK]; int nv = 0, nerr = 0, nnull = 0;
  for (int i = 0; i < k; i++) {
    if (!sorted) {
      if (js[i].err) printf(" error"); else if (!js[i].res) printf(" null");
      else printf(" %" PRIu64, (uint64_t)((uintptr_t)js[i].res - BASE));
    } else if (js[i].err) nerr++; else if (!js[i].res) nnull++; else v[nv++] = (uint64_t)((uintptr_t)js[i].res - BASE);
  }
  if (sorted) {
    qsort(v, nv, sizeof(uint64_t), cmp_u64);
    for (int i = 0; i < nv; i++) printf(" %" PRIu64, v[i]);
    for (int i = 0; i < nnull; i++) printf(" null");
    for (int i = 0; i < nerr; i++) printf(" error");
  }
}

static int parse_u64(const char* t, uint64_t* out) {
  if (!t || !*t) return 0;
  for (const char* p = t; *p; p++) if (*p < '0' || *p > '9') return 0;
  if (strlen(t) > 20) return 0;
  unsigned __int128 v = 0;
  for (const char* p = t; *p; p++) v = v * 10 + (unsigned)(*p - '0');
  if (v > (unsigned __int128)UINT64_MAX) return 0;
  *out = (uint64_t)v; return 1;
}

static int alloc_protocol(void) {
  void* region = mmap((void*)REGION, REGION_SIZE, PROT_READ | PROT_WRITE,
                      MAP_PRIVATE | MAP_ANONYMOUS | MAP_FIXED_NOREPLACE, -1, 0);
  if (region != (void*)REGION) { fprintf(stderr, "c19 harness: cannot map the fixed region\n"); return 5; }
  M = make_model(0);
  size_t cap = 1 << 16; char* line = malloc(cap);
  while (fgets(line, cap, stdin)) {
    char* save; char* tok[2 * MAXK + 8]; int nt = 0;
    for (char* t = strtok_r(line, " \n", &save); t && nt < 2 * MAXK + 8; t = strtok_r(NULL, " \n", &save)) tok[nt++] = t;
    uint64_t a[2 * MAXK + 8]; int numeric = 1;
    for (int i = 1; i < nt; i++) if (!parse_u64(tok[i], &a[i])) numeric = 0;
    if (nt == 0 || !numeric) { printf("bad-op\n"); continue; }
    const char* op = tok[0];
    if (!strcmp(op, "new")) {
      if (nt != 3 || a[2] < 1 || a[2] > MAXNARENA || a[1] < REGION || a[1] > REGION + REGION_SIZE - MAXNARENA) { printf("bad-op\n"); continue; }
      drop_data();
      M->narena = (mjtSize)a[2];
      D = mj_makeData(M);
      printf("new %" PRIu64 " %zu %zu %zu %d %" PRIu64 " %" PRIu64 " %d\n", (uint64_t)D->narena, D->parena, D->pstack, D->pbase,
             (int)D->threadlock, (uint64_t)D->maxuse_stack, (uint64_t)D->maxuse_arena, (int)((uintptr_t)D->arena % 64));
      orig_arena = D->arena;
      BASE = (uintptr_t)a[1];
      D->arena = (void*)BASE;
      continue;
    }
    if (!D) { printf("bad-op\n"); continue; }
    jmp_buf jb;
    // After a caught overflow under the thread lock the reservation is not rolled back; if the lock is then
    // released without freeing the bracket frame, top < limit and the unlocked paths would write frame records
    // at wild addresses.  Such calls are outside any contract: both sides skip them (same rule in the driver).
    int over = !D->threadlock && (D->pstack > (size_t)D->narena || D->parena > (size_t)D->narena - D->pstack);
    if (over && (!strcmp(op, "mark") || !strcmp(op, "alloc") || !strcmp(op, "alloci") || !strcmp(op, "arena") ||
                 !strcmp(op, "num") || !strcmp(op, "int") || !strcmp(op, "dispatch"))) {
      printf("over-reserved"); print_state(); continue;
    }
    if (!strcmp(op, "mark") && nt == 1) {
      tl_jmp = &jb;
      if (!setjmp(jb)) { mj_markStack(D); printf("ok"); } else printf("error");
      tl_jmp = NULL; print_state();
    } else if (!strcmp(op, "free") && nt == 1) {
      tl_jmp = &jb;
      if (!setjmp(jb)) { mj_freeStack(D); printf("ok"); } else printf("error");
      tl_jmp = NULL; print_state();
    } else if (!strcmp(op, "lock") && nt == 1) { D->threadlock = 1; printf("ok"); print_state(); }
    else if (!strcmp(op, "unlock") && nt == 1) { D->threadlock = 0; printf("ok"); print_state(); }
    else if ((!strcmp(op, "alloc") || !strcmp(op, "alloci") || !strcmp(op, "arena")) && nt == 3) {
      void* volatile p = NULL; volatile int err = 0;
      tl_jmp = &jb;
      if (!setjmp(jb)) {
        if (op[1] == 'r') p = mj_arenaAllocByte(D, (size_t)a[1], (size_t)a[2]);
        else if (op[5] == 'i') p = mj_stackAllocInfo(D, (size_t)a[1], (size_t)a[2], "c19_harness", 1);
        else p = mj_stackAllocByte(D, (size_t)a[1], (size_t)a[2]);
      } else err = 1;
      tl_jmp = NULL;
      if (err) printf("error"); else if (!p) printf("null");
      else { printf("ptr %" PRIu64, (uint64_t)((uintptr_t)p - BASE)); scribble(p, (size_t)a[1]); }
      print_state();
    } else if ((!strcmp(op, "num") || !strcmp(op, "int")) && nt == 2) {
      void* volatile p = NULL; volatile int err = 0;
      tl_jmp = &jb;
      if (!setjmp(jb)) { if (op[0] == 'n') p = mj_stackAllocNum(D, (size_t)a[1]); else p = mj_stackAllocInt(D, (size_t)a[1]); }
      else err = 1;
      tl_jmp = NULL;
      if (err) printf("error"); else if (!p) printf("null");
      else { printf("ptr %" PRIu64, (uint64_t)((uintptr_t)p - BASE)); scribble(p, (size_t)a[1] * (op[0] == 'n' ? sizeof(mjtNum) : sizeof(int))); }
      print_state();
    } else if ((!strcmp(op, "par") && nt == 4 && a[1] >= 1 && a[1] <= MAXK && D->threadlock) ||
               (!strcmp(op, "parh") && nt >= 3 && nt % 2 == 1 && (nt - 1) / 2 <= MAXK && D->threadlock)) {
      int hetero = op[3] == 'h';
      int k = hetero ? (nt - 1) / 2 : (int)a[1];
      job js[MAXK]; pthread_t th[MAXK]; pthread_barrier_t bar;
      pthread_barrier_init(&bar, NULL, k);
      for (int i = 0; i < k; i++) {
        js[i].size = (size_t)(hetero ? a[1 + 2 * i] : a[2]); js[i].al = (size_t)(hetero ? a[2 + 2 * i] : a[3]);
        js[i].bar = &bar; js[i].err = 0; js[i].res = NULL;
        pthread_create(&th[i], NULL, thread_main, &js[i]);
      }
      for (int i = 0; i < k; i++) pthread_join(th[i], NULL);
      pthread_barrier_destroy(&bar);
      for (int i = 0; i < k; i++) if (!js[i].err && js[i].res) scribble(js[i].res, js[i].size);
      printf("%s", op); print_jobs(js, k, !hetero); print_state();
    } else if (!strcmp(op, "dispatch") && nt == 5 && a[1] >= 1 && a[1] <= 8 && a[2] <= MAXK && !D->threadlock) {
      int k = (int)a[2]; job js[MAXK];
      for (int i = 0; i < k; i++) { js[i].size = (size_t)a[3]; js[i].al = (size_t)a[4]; js[i].err = 0; js[i].res = NULL; }
      volatile int err = 0;
      mju_threadpool(D, (int)a[1]);
      tl_jmp = &jb;
      if (!setjmp(jb)) mju_dispatch(M, D, dispatch_task, js, k); else err = 1;
      tl_jmp = NULL;
      mju_threadpool(D, 0);
      printf("dispatch %s", err ? "error" : "ok");
      if (!err) print_jobs(js, k, 1);
      print_state();
    } else printf("bad-op\n");
  }
  fflush(stdout);
  drop_data();
  mj_deleteModel(M);
  return 0;
}

// ------------------------------------------------------------------ pstack across public engine calls
static uint64_t lcg(uint64_t* s) { *s = *s * 6364136223846793005ULL + 1442695040888963407ULL; return *s >> 33; }
static double unif(uint64_t* s) { return (double)(lcg(s) % 2000001) / 1000000.0 - 1.0; }

static const char* FN[] = {"forward", "step", "step12", "inverse", "forwardSkip", "kinematics", "fwdPosition", "energy",
                           "rnePost", "island", "fullM", "transitionFD", "resetData", "copyData", "rk4", "implicit",
                           "implicitfast", "pgs", "cg", "elliptic", "noslip", "step20", NULL};

static int engine_protocol(void) {
  mjModel* models[4];
  for (int k = 0; k < 4; k++) models[k] = make_model(k);
  char line[256];
  while (fgets(line, sizeof line, stdin)) {
    char op[32], fn[32]; int kind, nthread, prealloc; unsigned long long seed;
    if (sscanf(line, "%31s %d %31s %llu %d %d", op, &kind, fn, &seed, &nthread, &prealloc) != 6 || strcmp(op, "engine") ||
        kind < 0 || kind > 3 || nthread < 0 || nthread > 4) { printf("bad-op\n"); continue; }
    int f = -1; for (int i = 0; FN[i]; i++) if (!strcmp(FN[i], fn)) f = i;
    if (f < 0) { printf("bad-op\n"); continue; }
    mjModel* m = mj_copyModel(NULL, models[kind]);
    mjData* d = mj_makeData(m);
    uint64_t s = seed * 2654435761ULL + 12345;
    for (int i = 0; i < m->nq; i++) d->qpos[i] = m->qpos0[i] + 0.05 * unif(&s);
    for (int i = 0; i < m->nbody; i++) if (m->body_jntnum[i] && m->jnt_type[m->body_jntadr[i]] == mjJNT_FREE)
      mju_normalize4(d->qpos + m->jnt_qposadr[m->body_jntadr[i]] + 3);
    for (int i = 0; i < m->nv; i++) d->qvel[i] = 0.3 * unif(&s);
    for (int i = 0; i < m->nu; i++) d->ctrl[i] = unif(&s);
    if (nthread) mju_threadpool(d, nthread);
    jmp_buf jb; volatile int err = 0;
    size_t ps0 = 0, pb0 = 0, ps1 = 0, pb1 = 0;
    tl_jmp = &jb;
    if (!setjmp(jb)) {
      mj_forward(m, d);
      // a caller frame with a live block, so that the call under test starts from a non-trivial stack
      if (prealloc) { mj_markStack(d); void* p = mj_stackAllocByte(d, (size_t)prealloc, 8); memset(p, 0x5A, (size_t)prealloc); }
      ps0 = d->pstack; pb0 = d->pbase;
      switch (f) {
        case 0: mj_forward(m, d); break;
        case 1: mj_step(m, d); break;
        case 2: mj_step1(m, d); mj_step2(m, d); break;
        case 3: mj_inverse(m, d); break;
        case 4: mj_forwardSkip(m, d, mjSTAGE_POS, 1); break;
        case 5: mj_kinematics(m, d); break;
        case 6: mj_fwdPosition(m, d); break;
        case 7: mj_energyPos(m, d); mj_energyVel(m, d); break;
        case 8: mj_rnePostConstraint(m, d); break;
        case 9: mj_island(m, d); break;
        case 10: { mjtNum* dst = malloc(sizeof(mjtNum) * (m->nv * m->nv + 1)); mj_fullM(m, d, dst); free(dst); break; }
        case 11: {
          int n = 2 * m->nv + m->na;
          mjtNum* A = malloc(sizeof(mjtNum) * (n * n + 1)); mjtNum* B = malloc(sizeof(mjtNum) * (n * m->nu + 1));
          mjd_transitionFD(m, d, 1e-6, 1, A, B, NULL, NULL); free(A); free(B); break;
        }
        case 12: {
          // mj_resetData clears pstack/pbase by contract: compare against the cleared values
          if (prealloc) mj_freeStack(d);
          ps0 = 0; pb0 = 0; mj_resetData(m, d); break;
        }
        case 13: { mjData* d2 = mj_makeData(m); mj_copyData(d2, m, d); mj_deleteData(d2); break; }
        case 14: m->opt.integrator = mjINT_RK4; mj_step(m, d); break;
        case 15: m->opt.integrator = mjINT_IMPLICIT; mj_step(m, d); break;
        case 16: m->opt.integrator = mjINT_IMPLICITFAST; mj_step(m, d); break;
        case 17: m->opt.solver = mjSOL_PGS; mj_step(m, d); break;
        case 18: m->opt.solver = mjSOL_CG; mj_step(m, d); break;
        case 19: m->opt.cone = mjCONE_ELLIPTIC; mj_step(m, d); break;
        case 20: m->opt.noslip_iterations = 3; mj_step(m, d); break;
        case 21: for (int i = 0; i < 20; i++) mj_step(m, d); break;
      }
      ps1 = d->pstack; pb1 = d->pbase;
    } else err = 1;
    tl_jmp = NULL;
    if (err) printf("engine error\n");
    else printf("engine %zu %zu %d ncon=%d nefc=%d\n", ps0, ps1, (int)(pb0 == pb1), d->ncon, d->nefc);
    if (nthread) mju_threadpool(d, 0);
    mj_deleteData(d);
    mj_deleteModel(m);
  }
  for (int k = 0; k < 4; k++) mj_deleteModel(models[k]);
  return 0;
}

int main(int argc, char** argv) {
  mju_user_error = on_error;
  mju_user_warning = on_warning;
  if (argc > 1 && !strcmp(argv[1], "engine")) return engine_protocol();
  return alloc_protocol();
}
