// c13_contacts.c — C13 oracle harness on the real engine (never a re-implementation).
// One op per line on stdin, one result line on stdout (all reals printed with %.17g).
//
//   S t1 s1[3] p1[3] q1[4] m1 g1  t2 s2[3] p2[3] q2[4] m2 g2  distmax
//       builds a two-geom model through the public mjs_* API (geom k: type tk, size sk, world pose (pk, qk),
//       margin mk, gap gk; a plane is put in the world body, every other geom on its own free body), runs
//       mj_kinematics + mj_comPos + mj_collision and prints
//         ok <ncon> X <xpos1[3] xmat1[9] xpos2[3] xmat2[9]>
//            { C <geom0> <geom1> <dist> <includemargin> <exclude> <dim> <pos[3]> <frame[9]> }*ncon
//            G <mj_geomDistance(0,1,distmax)> <fromto[6]> <mj_geomDistance(1,0,distmax)> <fromto[6]>
//   F x[3] y[3]     calls mju_makeFrame on frame = (x, y, junk): "ok <frame[9]>"
//   anything else   "bad-op"
// mju_error is caught (longjmp) and reported as "error <msg>".
#include <math.h>
#include <setjmp.h>
#include <stdio.h>
#include <stdlib.h>
#include <string.h>
#include <mujoco/mujoco.h>

static jmp_buf jb;
static int armed = 0;
static char lasterr[512];

static void on_error(const char* msg) {
  snprintf(lasterr, sizeof lasterr, "%s", msg);
  for (char* c = lasterr; *c; c++) if (*c == '\n') *c = ' ';
  if (armed) longjmp(jb, 1);
  fprintf(stderr, "unguarded mju_error: %s\n", msg);
  exit(3);
}
static void on_warning(const char* msg) { (void)msg; }

static int parse(char* line, double* v, int maxn) {
  int n = 0;
  char* save = NULL;
  for (char* t = strtok_r(line, " \t\r\n", &save); t; t = strtok_r(NULL, " \t\r\n", &save)) {
    if (n >= maxn) return -1;
    char* end;
    v[n] = strtod(t, &end);
    if (end == t || *end) return -1;
    n++;
  }
  return n;
}

static void pr(const double* x, int n) { for (int i = 0; i < n; i++) printf(" %.17g", x[i]); }

static int valid_type(int t) {
  return t == mjGEOM_PLANE || t == mjGEOM_SPHERE || t == mjGEOM_CAPSULE || t == mjGEOM_ELLIPSOID ||
         t == mjGEOM_CYLINDER || t == mjGEOM_BOX;
}

static mjsGeom* add_geom(mjSpec* spec, const double* a) {
  // a: t s[3] p[3] q[4] m g
  int t = (int)a[0];
  mjsBody* world = mjs_findBody(spec, "world");
  mjsGeom* g;
  if (t == mjGEOM_PLANE) {
    g = mjs_addGeom(world, NULL);
    for (int i = 0; i < 3; i++) g->pos[i] = a[4 + i];
    for (int i = 0; i < 4; i++) g->quat[i] = a[7 + i];
  } else {
    mjsBody* b = mjs_addBody(world, NULL);
    for (int i = 0; i < 3; i++) b->pos[i] = a[4 + i];
    for (int i = 0; i < 4; i++) b->quat[i] = a[7 + i];
    mjs_addFreeJoint(b);
    g = mjs_addGeom(b, NULL);
  }
  g->type = (mjtGeom)t;
  for (int i = 0; i < 3; i++) g->size[i] = a[1 + i];
  g->margin = a[11];
  g->gap = a[12];
  return g;
}

static void scene(const double* v) {
  mjSpec* volatile spec = NULL;
  mjModel* volatile m = NULL;
  mjData* volatile d = NULL;
  armed = 1;
  if (setjmp(jb)) {
    armed = 0;
    printf("error %s\n", lasterr);
    if (d) mj_deleteData(d);
    if (m) mj_deleteModel(m);
    if (spec) mj_deleteSpec(spec);
    return;
  }
  spec = mj_makeSpec();
  add_geom(spec, v);
  add_geom(spec, v + 13);
  m = mj_compile(spec, NULL);
  if (!m) {
    armed = 0;
    printf("error compile: %s\n", mjs_getError(spec));
    mj_deleteSpec(spec);
    return;
  }
  d = mj_makeData(m);
  mj_kinematics(m, d);
  mj_comPos(m, d);
  mj_collision(m, d);
  printf("ok %d X", d->ncon);
  pr(d->geom_xpos, 3); pr(d->geom_xmat, 9); pr(d->geom_xpos + 3, 3); pr(d->geom_xmat + 9, 9);
  for (int i = 0; i < d->ncon; i++) {
    const mjContact* c = d->contact + i;
    printf(" C %d %d %.17g %.17g %d %d", c->geom[0], c->geom[1], c->dist, c->includemargin, c->exclude, c->dim);
    pr(c->pos, 3); pr(c->frame, 9);
  }
  double ft[6], distmax = v[26];
  double d12 = mj_geomDistance(m, d, 0, 1, distmax, ft);
  printf(" G %.17g", d12); pr(ft, 6);
  double d21 = mj_geomDistance(m, d, 1, 0, distmax, ft);
  printf(" %.17g", d21); pr(ft, 6);
  printf("\n");
  armed = 0;
  mj_deleteData(d);
  mj_deleteModel(m);
  mj_deleteSpec(spec);
}

static void frame(const double* v) {
  double f[9] = {v[0], v[1], v[2], v[3], v[4], v[5], 7, 7, 7};
  armed = 1;
  if (setjmp(jb)) {
    armed = 0;
    printf("error %s\n", lasterr);
    return;
  }
  mju_makeFrame(f);
  armed = 0;
  printf("ok"); pr(f, 9); printf("\n");
}

int main(void) {
  mju_user_error = on_error;
  mju_user_warning = on_warning;
  static char line[8192];
  double v[64];
  while (fgets(line, sizeof line, stdin)) {
    char op = line[0];
    if ((op != 'S' && op != 'F') || (line[1] != ' ')) { printf("bad-op\n"); fflush(stdout); continue; }
    int n = parse(line + 2, v, 64);
    if (op == 'S') {
      int ok = n == 27;
      for (int k = 0; ok && k < 2; k++) {
        const double* a = v + 13 * k;
        ok = a[0] == floor(a[0]) && valid_type((int)a[0]);
      }
      for (int i = 0; ok && i < n; i++) ok = isfinite(v[i]);
      if (!ok) { printf("bad-op\n"); fflush(stdout); continue; }
      scene(v);
    } else {
      if (n != 6) { printf("bad-op\n"); fflush(stdout); continue; }
      frame(v);
    }
    fflush(stdout);
  }
  return 0;
}
