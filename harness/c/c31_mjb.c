// C31 implementation-side driver: runs the *real* mj_sizeModel / mj_saveModel / mj_loadModelBuffer
// (and, for the oracle, mj_makeData + mj_forward) of the tree build.  Models are built through the
// mjSpec C API (harness/mjbuild.h) from the line format of gen/models.py.
//
// mjModel members are reached by name through the tree's own X-macros (MJMODEL_SIZES,
// MJMODEL_POINTERS) — never through the code under test — so dumps are independent of engine_io.c.
//
// Ops (one line in, one line out).  The Lean driver lean/Drivers/C31.lean implements model / size /
// save / load / sweep with the same canonical output (the part before " ;").
//   model <desc lines joined by ';'> [| <dump>]   -> ok | dump-mismatch | error <msg>
//        (the C side compiles <desc>; if a dump follows it must equal the compiled model's dump;
//         the Lean side parses the dump and ignores <desc>)
//   dump                                          -> S <sizes...> | B <hex>x5 | A <hex or ->...
//   size                                          -> <mj_sizeModel>
//   save                                          -> len=<bytes actually written by mj_saveModel> fnv=<fnv1a64 of them>
//   load <edit>*                                  -> <result> nbuf=<n|-> [; oracle fields]
//        edits (applied in order to a copy of the saved image):
//          t<n> truncate to n bytes      w<off>:<hex> overwrite     i<off>:<hex> insert
//          d<off>:<n> delete n bytes     z<off>:<n> insert n zero bytes
//        result: ok len=<n> fnv=<h>  (image re-saved from the loaded model)
//              | reject <warnings of the call joined by " | "> | fatal <mju_error text>
//        nbuf = size of the second allocation of the call (the model buffer requested by mj_makeModel)
//        oracle fields (after "oracle 1", for an accepted model): oob=<first violation of the rules or ->
//          makedata=ok|null|fatal:<msg>  forward=ok|fatal:<msg>   [leak=1] [canary=overwritten]
//        every load runs in a forked worker process (see "worker processes" below); a worker killed by a
//        signal / sanitizer gives "crash sig=<n>|exit=<n> stage=<load|check|makedata|forward|teardown>
//        [san=<first sanitizer line> at=<frames>]"
//   sweep <from> <to> <step>                      -> n=<k> reject=<k> other=<first non-reject len:result or ->
//        (truncation at lengths from, from+step, ... < to; to is clipped to the image length)
//   rule arr=<a> n=<size>[*k] stride=<s> off=<o> target=<size> min=<v> [num=<arr>] [when=<arr>:<v,v..>]...
//                                                 -> ok      (independent bounds checker, oracle only)
//   oracle <0|1>                                  -> ok      (1: after an accepted load run checker + makeData + forward + step)
//   imghex                                        -> <hex of the saved image>  (debugging / replays)
// The harness never judges: it prints observations; checks/c31.py compares and classifies them.
#define _GNU_SOURCE
#include <errno.h>
#include <limits.h>
#include <signal.h>
#include <stddef.h>
#include <stdint.h>
#include <stdio.h>
#include <stdlib.h>
#include <string.h>
#include <sys/wait.h>
#include <unistd.h>
#include <mujoco/mujoco.h>
#include <mujoco/mjxmacro.h>
#include "mjbuild.h"

// (the check builds the sanitizer variant with -DC31_SANITIZE: with gcc it has to undefine __SANITIZE_ADDRESS__
// for the tree's mjsan.h, see checks/c31.py asan_variant)
#if defined(__SANITIZE_ADDRESS__) || defined(C31_SANITIZE)
#include <sanitizer/lsan_interface.h>
#define HAVE_LSAN 1
#else
#define HAVE_LSAN 0
#endif

// ------------------------------------------------------------------ name tables from the X-macros
typedef struct { const char* name; size_t off; } SizeEnt;
static const SizeEnt SIZES[] = {
#define X(name) {#name, offsetof(mjModel, name)},
  MJMODEL_SIZES
#undef X
};
#define NSIZE ((int)(sizeof(SIZES) / sizeof(SIZES[0])))

typedef struct { const char* name; const char* type; size_t esz; size_t off; } PtrEnt;
static const PtrEnt PTRS[] = {
#define X(type, name, nr, nc) {#name, #type, sizeof(type), offsetof(mjModel, name)},
  MJMODEL_POINTERS
#undef X
};
#define NPTR ((int)(sizeof(PTRS) / sizeof(PTRS[0])))

static void counts(const mjModel* m, mjtSize* cnt) {
  MJMODEL_POINTERS_PREAMBLE(m)
  int k = 0;
#define X(type, name, nr, nc) cnt[k++] = (mjtSize)(m->nr) * (mjtSize)(nc);
  MJMODEL_POINTERS
#undef X
}

static mjtSize get_size(const mjModel* m, int i) { return *(const mjtSize*)((const char*)m + SIZES[i].off); }
static const void* get_ptr(const mjModel* m, int i) { return *(void* const*)((const char*)m + PTRS[i].off); }
static int size_index(const char* n) { for (int i = 0; i < NSIZE; i++) if (!strcmp(SIZES[i].name, n)) return i; return -1; }
static int ptr_index(const char* n) { for (int i = 0; i < NPTR; i++) if (!strcmp(PTRS[i].name, n)) return i; return -1; }

// ------------------------------------------------------------------ growable string
typedef struct { char* s; size_t n, cap; } Str;
static void s_put(Str* b, const char* t, size_t k) {
  if (b->n + k + 1 > b->cap) { b->cap = (b->n + k + 1) * 2; b->s = (char*)realloc(b->s, b->cap); }
  memcpy(b->s + b->n, t, k); b->n += k; b->s[b->n] = 0;
}
static void s_str(Str* b, const char* t) { s_put(b, t, strlen(t)); }
static void s_hex(Str* b, const unsigned char* p, size_t n) {
  static const char* H = "0123456789abcdef";
  if (n == 0) { s_str(b, "-"); return; }
  if (b->n + 2 * n + 1 > b->cap) { b->cap = (b->n + 2 * n + 1) * 2; b->s = (char*)realloc(b->s, b->cap); }
  for (size_t i = 0; i < n; i++) { b->s[b->n++] = H[p[i] >> 4]; b->s[b->n++] = H[p[i] & 15]; }
  b->s[b->n] = 0;
}

static void dump_model(const mjModel* m, Str* b) {
  char t[64];
  s_str(b, "S");
  for (int i = 0; i < NSIZE; i++) { snprintf(t, sizeof t, " %lld", (long long)get_size(m, i)); s_str(b, t); }
  s_str(b, " | B ");
  s_hex(b, (const unsigned char*)&m->opt, sizeof(mjOption)); s_str(b, " ");
  s_hex(b, (const unsigned char*)&m->vis, sizeof(mjVisual)); s_str(b, " ");
  s_hex(b, (const unsigned char*)&m->stat, sizeof(mjStatistic)); s_str(b, " ");
  s_hex(b, (const unsigned char*)&m->flg_gravcomp, sizeof(mjtBool)); s_str(b, " ");
  s_hex(b, (const unsigned char*)&m->flg_surfacevel, sizeof(mjtBool));
  s_str(b, " | A");
  mjtSize cnt[NPTR];
  counts(m, cnt);
  for (int i = 0; i < NPTR; i++) {
    s_str(b, " ");
    s_hex(b, (const unsigned char*)get_ptr(m, i), (size_t)cnt[i] * PTRS[i].esz);
  }
}

static uint64_t fnv(const unsigned char* p, size_t n) {
  uint64_t h = 14695981039346656037ULL;
  for (size_t i = 0; i < n; i++) { h ^= p[i]; h *= 1099511628211ULL; }
  return h;
}

// ------------------------------------------------------------------ handlers
static char lastwarn[2048];
static int fatal_fd = -1;          // in a child: where "fatal <msg>" goes
static const char* stage = "load";
// all warnings of one call, joined by " | "
static void on_warning(const char* msg) {
  size_t n = strlen(lastwarn);
  snprintf(lastwarn + n, sizeof(lastwarn) - n, "%s%s", n ? " | " : "", msg);
}
static char errbuf[1200];
static int in_child = 0;
static size_t alloc_seq = 0, alloc_second = 0, alloc_cap = (size_t)256 << 20;
static void wr(int fd, const char* s) { size_t n = strlen(s); while (n) { ssize_t k = write(fd, s, n); if (k <= 0) break; s += k; n -= k; } }
#define CANARY 0xA5
#if HAVE_LSAN
#define NCANARY 0   /* let the sanitizer see the first byte past the end */
#else
#define NCANARY 64
#endif
static char* model_block = NULL;   // the block handed out for the model buffer of the load in progress
static int canary_hit(const char* p) {
  size_t n = *(const size_t*)p;
  for (int i = 0; i < NCANARY; i++) if ((unsigned char)p[64 + n + i] != CANARY) return 1;
  return 0;
}
static void on_error(const char* msg) {
  if (in_child) {
    char t[1400];
    snprintf(t, sizeof t, "%sfatal %s", !strcmp(stage, "load") ? "" : " ", msg);
    for (char* c = t; *c; c++) if (*c == '\n' || *c == '\r') *c = ' ';
    // after the load stage the message is an oracle field
    if (!strcmp(stage, "load")) {
      char u[64];
      wr(fatal_fd, t);
      if (model_block && canary_hit(model_block)) wr(fatal_fd, " canary=overwritten");
      if (alloc_seq >= 2) snprintf(u, sizeof u, " nbuf=%zu", alloc_second); else snprintf(u, sizeof u, " nbuf=-");
      wr(fatal_fd, u);
      wr(fatal_fd, "\n");
    } else {
      snprintf(t, sizeof t, " %s=fatal:%s", stage, msg);
      for (char* c = t + 1; *c; c++) if (*c == ' ' || *c == '\n' || *c == '\r') *c = '_';
      wr(fatal_fd, t);
      wr(fatal_fd, "\n");
    }
    _exit(0);
  }
  snprintf(errbuf, sizeof errbuf, "%s", msg);
  fprintf(stdout, "error %s\n", msg);
  fflush(stdout);
  exit(3);
}
// Allocation hook: 64-byte aligned blocks of exactly the requested size (so that a sanitizer sees
// the first byte past the end), preceded by a 64-byte header holding the size and followed by a
// 64-byte canary that is checked on free: a write past the end of the model buffer is detected in
// every build variant, not only under ASan.
static void* cap_malloc(size_t n) {
  alloc_seq++;
  if (alloc_seq == 2) alloc_second = n;
  if (n > alloc_cap) return NULL;
  void* p = NULL;
  if (posix_memalign(&p, 64, 64 + n + NCANARY)) return NULL;
  *(size_t*)p = n;
  memset((char*)p + 64 + n, CANARY, NCANARY);
  if (alloc_seq == 2) model_block = (char*)p;
  return (char*)p + 64;
}
static void cap_free(void* q) {
  if (!q) return;
  char* p = (char*)q - 64;
  if (p == model_block) model_block = NULL;
  if (canary_hit(p)) {
    if (in_child) { wr(fatal_fd, " canary=overwritten\n"); _exit(0); }
    fprintf(stderr, "canary overwritten\n"); abort();
  }
  free(p);
}

// ------------------------------------------------------------------ state
static mjModel* M = NULL;
static unsigned char* IMG = NULL;
static int IMGN = 0;
static int oracle_on = 0;

typedef struct {
  int arr, nsize, nk, stride, off, target, minv, num;
  int nwhen; int when_arr[3]; int when_n[3]; int when_v[3][24];
  char text[256];
} Rule;
static Rule* RULES = NULL;
static int NRULES = 0;

static int parse_rule(char* line, Rule* r) {
  memset(r, 0, sizeof *r);
  r->arr = r->nsize = r->target = -1; r->num = -1; r->nk = 1; r->stride = 1; r->minv = 0;
  snprintf(r->text, sizeof r->text, "%s", line);
  for (char* tok = strtok(line, " \t\r\n"); tok; tok = strtok(NULL, " \t\r\n")) {
    char* eq = strchr(tok, '='); if (!eq) return 0; *eq = 0; char* v = eq + 1;
    if (!strcmp(tok, "arr")) { r->arr = ptr_index(v); if (r->arr < 0) return 0; }
    else if (!strcmp(tok, "n")) { char* st = strchr(v, '*'); if (st) { *st = 0; r->nk = atoi(st + 1); } r->nsize = size_index(v); if (r->nsize < 0) return 0; }
    else if (!strcmp(tok, "stride")) r->stride = atoi(v);
    else if (!strcmp(tok, "off")) r->off = atoi(v);
    else if (!strcmp(tok, "target")) { r->target = size_index(v); if (r->target < 0) return 0; }
    else if (!strcmp(tok, "min")) r->minv = atoi(v);
    else if (!strcmp(tok, "num")) { r->num = ptr_index(v); if (r->num < 0) return 0; }
    else if (!strcmp(tok, "when")) {
      if (r->nwhen >= 3) return 0;
      char* c = strchr(v, ':'); if (!c) return 0; *c = 0;
      int a = ptr_index(v); if (a < 0) return 0;
      r->when_arr[r->nwhen] = a; int k = 0;
      for (char* p = c + 1; *p && k < 24;) { r->when_v[r->nwhen][k++] = (int)strtol(p, &p, 10); if (*p == ',') p++; }
      r->when_n[r->nwhen] = k; r->nwhen++;
    } else return 0;
  }
  return r->arr >= 0 && r->nsize >= 0 && r->target >= 0 && PTRS[r->arr].esz == 4;
}

// independent bounds check of every rule against model m (element counts from the X-macros)
static void check_rules(const mjModel* m, char* out, size_t outsz) {
  mjtSize cnt[NPTR];
  counts(m, cnt);
  out[0] = 0;
  for (int k = 0; k < NRULES; k++) {
    const Rule* r = &RULES[k];
    long long n = (long long)get_size(m, r->nsize) * r->nk;
    long long target = (long long)get_size(m, r->target);
    const int* a = (const int*)get_ptr(m, r->arr);
    const int* nums = r->num >= 0 ? (const int*)get_ptr(m, r->num) : NULL;
    for (long long i = 0; i < n; i++) {
      long long e = i * r->stride + r->off;
      if (e < 0 || e >= cnt[r->arr]) { snprintf(out, outsz, "%s:shape", PTRS[r->arr].name); return; }
      int ok = 1;
      for (int w = 0; w < r->nwhen && ok; w++) {
        if (i >= cnt[r->when_arr[w]]) { ok = 0; break; }
        int tv = ((const int*)get_ptr(m, r->when_arr[w]))[i], hit = 0;
        for (int q = 0; q < r->when_n[w]; q++) if (r->when_v[w][q] == tv) hit = 1;
        ok = hit;
      }
      if (!ok) continue;
      long long v = a[e];
      long long num = 1;
      if (nums) { if (i >= cnt[r->num]) { snprintf(out, outsz, "%s:shape", PTRS[r->num].name); return; } num = nums[i]; }
      int bad = 0;
      if (v < r->minv) bad = 1;
      else if (v >= 0 && (num < 0 || v + num > target)) bad = 1;
      else if (v < 0 && nums && num > 0) bad = 1;     // "none" address with a non-empty range
      if (bad) { snprintf(out, outsz, "%s[%lld]=%lld,num=%lld,target=%lld", PTRS[r->arr].name, e, v, num, target); return; }
    }
  }
  snprintf(out, outsz, "-");
}

static void on_alarm(int s) { (void)s; const char* t = " timeout\n"; wr(fatal_fd, t); _exit(0); }

static int hexval(int c) { if (c >= '0' && c <= '9') return c - '0'; if (c >= 'a' && c <= 'f') return c - 'a' + 10; return -1; }

// apply edits; returns new buffer (malloc) and length, or NULL on a malformed edit
static unsigned char* apply_edits(char* spec, int* n_out) {
  size_t n = (size_t)IMGN, cap = n + 64;
  unsigned char* b = (unsigned char*)malloc(cap);
  memcpy(b, IMG, n);
  for (char* tok = strtok(spec, " \t\r\n"); tok; tok = strtok(NULL, " \t\r\n")) {
    char kind = tok[0];
    char* p = tok + 1;
    char* end;
    if (!*p) goto bad;
    long long a = strtoll(p, &end, 10);
    if (a < 0 || end == p) goto bad;
    if (kind == 't') {
      if (*end) goto bad;
      if ((size_t)a > n) goto bad;
      n = (size_t)a;
      continue;
    }
    if (*end != ':') goto bad;
    char* arg = end + 1;
    if (kind == 'w' || kind == 'i') {
      size_t hl = strlen(arg);
      if (hl % 2 || hl == 0) goto bad;
      size_t k = hl / 2;
      for (size_t j = 0; j < hl; j++) if (hexval(arg[j]) < 0) goto bad;
      if (kind == 'w') {
        if ((size_t)a + k > n) goto bad;
        for (size_t j = 0; j < k; j++) b[a + j] = (unsigned char)(hexval(arg[2 * j]) * 16 + hexval(arg[2 * j + 1]));
      } else {
        if ((size_t)a > n) goto bad;
        if (n + k > cap) { cap = (n + k) * 2; b = (unsigned char*)realloc(b, cap); }
        memmove(b + a + k, b + a, n - (size_t)a);
        for (size_t j = 0; j < k; j++) b[a + j] = (unsigned char)(hexval(arg[2 * j]) * 16 + hexval(arg[2 * j + 1]));
        n += k;
      }
    } else if (kind == 'd' || kind == 'z') {
      char* e2;
      long long k = strtoll(arg, &e2, 10);
      if (*e2 || e2 == arg || k < 0 || k > (1LL << 28)) goto bad;
      if (kind == 'd') {
        if ((size_t)a + (size_t)k > n) goto bad;
        memmove(b + a, b + a + k, n - (size_t)a - (size_t)k);
        n -= (size_t)k;
      } else {
        if ((size_t)a > n) goto bad;
        if (n + (size_t)k > cap) { cap = (n + (size_t)k) * 2; b = (unsigned char*)realloc(b, cap); }
        memmove(b + a + k, b + a, n - (size_t)a);
        memset(b + a, 0, (size_t)k);
        n += (size_t)k;
      }
    } else goto bad;
  }
  if (n > (size_t)INT_MAX) goto bad;
  *n_out = (int)n;
  return b;
bad:
  free(b);
  return NULL;
}

// overwrite the dead stack frames of the load so that a leaked block is not kept "reachable" by a stale
// stack slot when the leak checker scans conservatively
__attribute__((noinline)) static void clobber_stack(void) {
  volatile unsigned char junk[65536];
  for (size_t i = 0; i < sizeof junk; i++) junk[i] = 0;
}

// The leak check of the sanitizer build stops the world and scans the heap (seconds on the verification
// machines): it is run only for the first occurrence (per harness process: the table lives in memory
// shared with the workers) of each distinct outcome text, which is what determines the code path taken.
#if HAVE_LSAN
#include <sys/mman.h>
typedef struct { unsigned long long seen[128]; int cnt[128]; int leaky[128]; int n; } LeakMemo;
static LeakMemo* leak_memo = NULL;
// outcome class of a result text: what determines the exit path taken through the loader
static unsigned long long outcome_class(const char* t) {
  char key[200];
  const char* r;
  if (strstr(t, "| Invalid sizes")) snprintf(key, sizeof key, "makemodel-reject");
  else if (!strncmp(t, "reject Model ", 13) && !strstr(t, "too large")) snprintf(key, sizeof key, "header-reject");
  else if (!strncmp(t, "reject Invalid model", 20) || !strncmp(t, "reject Touch sensor", 19)) snprintf(key, sizeof key, "validate-reject");
  else if ((r = strstr(t, "while reading ")) && strncmp(r + 14, "sizes", 5) && strncmp(r + 14, "structs", 7)) snprintf(key, sizeof key, "array-truncated");
  else {
    snprintf(key, sizeof key, "%s", t);
    char* nb = strstr(key, " nbuf="); if (nb) *nb = 0;
    if (!strncmp(key, "ok", 2)) key[2] = 0;
  }
  unsigned long long h = 1469598103934665603ULL;
  for (const char* c = key; *c; c++) { h ^= (unsigned char)*c; h *= 1099511628211ULL; }
  return h;
}
// 1: run the leak check now; 0: skip it; -1: skip it and retire the worker (the class is known to leak: the
// leaked block must not be attributed to a later op)
static int leak_check_due(const char* outcome) {
  if (!leak_memo) return 1;
  unsigned long long h = outcome_class(outcome);
  for (int i = 0; i < leak_memo->n; i++) if (leak_memo->seen[i] == h) {
    if (leak_memo->leaky[i] && leak_memo->cnt[i] >= 1) return -1;
    return leak_memo->cnt[i]++ < 1;
  }
  if (leak_memo->n < 128) { leak_memo->seen[leak_memo->n] = h; leak_memo->cnt[leak_memo->n] = 1; leak_memo->n++; }
  return 1;
}
static void leak_found(const char* outcome) {
  if (!leak_memo) return;
  unsigned long long h = outcome_class(outcome);
  for (int i = 0; i < leak_memo->n; i++) if (leak_memo->seen[i] == h) leak_memo->leaky[i] = 1;
}
#endif

// runs in a worker: result text goes to fd (the caller terminates the line); returns 1 when the worker
// should retire (a leak was reported: later reports would repeat it)
static int child_load(const unsigned char* buf, int n, int fd, int with_oracle) {
  char t[1600];
  int retire = 0;
  stage = "load"; lastwarn[0] = 0;
  alloc_seq = 0; alloc_second = 0;
  alarm(20);
  // exact-size private copy so that a sanitizer sees reads past the end
  unsigned char* priv = (unsigned char*)malloc(n > 0 ? (size_t)n : 1);
  if (n > 0) memcpy(priv, buf, (size_t)n);
  alloc_seq = 0; model_block = NULL;
  mjModel* m = mj_loadModelBuffer(priv, n);
  clobber_stack();
  if (model_block && canary_hit(model_block)) { wr(fd, "crash canary=overwritten\n"); _exit(0); }
  model_block = NULL;   // (a leaked buffer must not stay reachable through this bookkeeping pointer)
  char nb[48];
  if (alloc_seq >= 2) snprintf(nb, sizeof nb, " nbuf=%zu", alloc_second); else snprintf(nb, sizeof nb, " nbuf=-");
  if (!m) {
    snprintf(t, sizeof t, "reject %s%s", lastwarn[0] ? lastwarn : "<no warning>", nb);
    wr(fd, t);
    free(priv);
#if HAVE_LSAN
    stage = "leakcheck";
    clobber_stack();
    int due = leak_check_due(t);
    if (due < 0) retire = 1;
    else if (due && __lsan_do_recoverable_leak_check()) { wr(fd, " ; leak=1"); retire = 1; leak_found(t); }
#endif
    alarm(0);
    return retire;
  }
  stage = "resave";
  mjtSize sz = mj_sizeModel(m);
  if (sz < 0 || sz > ((mjtSize)1 << 30)) { snprintf(t, sizeof t, "ok len=%lld fnv=-%s", (long long)sz, nb); wr(fd, t); }
  else {
    unsigned char* out = (unsigned char*)malloc(sz > 0 ? (size_t)sz : 1);
    mj_saveModel(m, NULL, out, (int)sz);
    snprintf(t, sizeof t, "ok len=%lld fnv=%016llx%s", (long long)sz, (unsigned long long)fnv(out, (size_t)sz), nb);
    wr(fd, t);
    free(out);
  }
  if (with_oracle) {
    wr(fd, " ;");
    stage = "check";
    char o[512];
    check_rules(m, o, sizeof o);
    snprintf(t, sizeof t, " oob=%s", o); wr(fd, t);
    stage = "makedata";
    mjData* d = mj_makeData(m);
    if (!d) { wr(fd, " makedata=null"); }
    else {
      wr(fd, " makedata=ok");
      stage = "forward";
      mj_forward(m, d);
      mj_step(m, d);
      wr(fd, " forward=ok");
      mj_deleteData(d);
    }
  }
  stage = "teardown";
  mj_deleteModel(m);
  free(priv);
#if HAVE_LSAN
  stage = "leakcheck";
  clobber_stack();
  int due = leak_check_due("ok");
  if (due < 0) retire = 1;
  else if (due && __lsan_do_recoverable_leak_check()) { wr(fd, with_oracle ? " leak=1" : " ; leak=1"); retire = 1; leak_found("ok"); }
#endif
  alarm(0);
  return retire;
}

// ------------------------------------------------------------------ worker processes
// Loads run in a forked worker so that a crash / sanitizer abort / mju_error cannot take the driver
// down.  fork() is expensive on the verification machines, so one worker serves up to WORKER_OPS
// consecutive loads of the same model; it retires early after anything that could contaminate later
// loads (mju_error, timeout, canary hit, leak report).  When a worker dies during an op that was not
// its first, the op is re-run alone in a fresh worker so that the crash is attributed to the right input.
#define WORKER_OPS 64
typedef struct { pid_t pid; int to, from, err; int nops; } Worker;
static Worker W = {0, -1, -1, -1, 0};

static void worker_main(int rfd, int wfd) {
  in_child = 1; fatal_fd = wfd;
  signal(SIGALRM, on_alarm);
  FILE* in = fdopen(rfd, "r");
  char* line = NULL; size_t cap = 0; ssize_t ln;
  while ((ln = getline(&line, &cap, in)) > 0) {
    while (ln > 0 && (line[ln - 1] == '\n' || line[ln - 1] == '\r')) line[--ln] = 0;
    int orc = line[0] == '1';
    int n = 0;
    unsigned char* b = apply_edits(ln >= 2 ? line + 2 : line + ln, &n);
    if (!b) { wr(wfd, "bad-op\n"); continue; }
    int retire = child_load(b, n, wfd, orc);
    free(b);
    wr(wfd, "\n");
    if (retire) _exit(0);
  }
  _exit(0);
}

static void worker_reap(Str* err, int* status) {
  if (W.pid <= 0) return;
  if (W.to >= 0) { close(W.to); W.to = -1; }
  char tmp[4096]; ssize_t k;
  if (W.err >= 0) {
    while ((k = read(W.err, tmp, sizeof tmp)) > 0) { if (err && err->n < 65536) s_put(err, tmp, (size_t)k); }
    close(W.err); W.err = -1;
  }
  if (W.from >= 0) { close(W.from); W.from = -1; }
  int st = 0;
  waitpid(W.pid, &st, 0);
  if (status) *status = st;
  W.pid = 0; W.nops = 0;
}

static int worker_spawn(void) {
  int a[2], b[2], e[2];
  if (pipe(a) || pipe(b) || pipe(e)) return 0;
  fflush(stdout);
  pid_t pid = fork();
  if (pid < 0) return 0;
  if (pid == 0) {
    close(a[1]); close(b[0]); close(e[0]);
    dup2(e[1], 2);
    worker_main(a[0], b[1]);
    _exit(0);
  }
  close(a[0]); close(b[1]); close(e[1]);
  W.pid = pid; W.to = a[1]; W.from = b[0]; W.err = e[0]; W.nops = 0;
  return 1;
}

static void describe_crash(const char* sofar, int st, const Str* err, Str* out, int had_text) {
  const char* stg = "load";
  if (strstr(sofar, "forward=ok")) stg = "teardown";
  else if (strstr(sofar, "makedata=ok")) stg = "forward";
  else if (strstr(sofar, "oob=")) stg = "makedata";
  else if (strstr(sofar, " ;")) stg = "check";
  else if (!strncmp(sofar, "ok", 2)) stg = "teardown";
  else if (!strncmp(sofar, "reject", 6)) stg = "teardown";
  char t[128];
  if (WIFSIGNALED(st)) snprintf(t, sizeof t, "%scrash sig=%d stage=%s", had_text ? " " : "", WTERMSIG(st), stg);
  else snprintf(t, sizeof t, "%scrash exit=%d stage=%s", had_text ? " " : "", WEXITSTATUS(st), stg);
  s_str(out, t);
  if (err->s) {
    const char* p = strstr(err->s, "ERROR: ");
    if (!p) p = strstr(err->s, "runtime error:");
    if (p) {
      char line[400]; size_t j = 0;
      while (p[j] && p[j] != '\n' && j < sizeof line - 1) { line[j] = p[j] == ' ' ? '_' : p[j]; j++; }
      line[j] = 0;
      s_str(out, " san="); s_str(out, line);
      const char* f = p; int nf = 0;
      while ((f = strstr(f, " in ")) && nf < 4) {
        f += 4; size_t q = 0; char fn[120];
        while (f[q] && f[q] != ' ' && f[q] != '\n' && q < sizeof fn - 1) { fn[q] = f[q]; q++; }
        fn[q] = 0;
        s_str(out, nf ? "<" : " at="); s_str(out, fn); nf++;
      }
    }
  }
}

// run one load (edit spec) in a worker; appends the result text to out
static void worker_load(const char* spec, int with_oracle, Str* out) {
  for (int attempt = 0, respawns = 0; attempt < 2;) {
    if (W.pid > 0) {
      int st;
      if (W.nops >= WORKER_OPS || waitpid(W.pid, &st, WNOHANG) == W.pid) {
        if (W.nops >= WORKER_OPS) worker_reap(NULL, NULL);
        else { W.pid = -1; if (W.to >= 0) close(W.to); if (W.from >= 0) close(W.from); if (W.err >= 0) close(W.err); W.to = W.from = W.err = -1; W.pid = 0; W.nops = 0; }
      }
    }
    if (W.pid <= 0 && !worker_spawn()) { s_str(out, "infra fork"); return; }
    int first_op = W.nops == 0;
    W.nops++;
    Str msg = {0};
    s_str(&msg, with_oracle ? "1 " : "0 "); s_str(&msg, spec); s_str(&msg, "\n");
    size_t off = 0; int werr = 0;
    while (off < msg.n) { ssize_t k = write(W.to, msg.s + off, msg.n - off); if (k <= 0) { werr = 1; break; } off += (size_t)k; }
    free(msg.s);
    Str got = {0};
    int complete = 0;
    if (!werr) {
      char ch[4096]; ssize_t k;
      while (!complete && (k = read(W.from, ch, sizeof ch)) > 0) {
        for (ssize_t i = 0; i < k; i++) {
          if (ch[i] == '\n') { complete = 1; break; }
          s_put(&got, ch + i, 1);
        }
      }
    }
    if (complete) {
      if (got.s) s_str(out, got.s);
      if (attempt == 1) s_str(out, got.s && strstr(got.s, " ;") ? " note=first-attempt-died-in-a-used-worker" : " ; note=first-attempt-died-in-a-used-worker");
      free(got.s);
      return;
    }
    // the worker is gone
    Str err = {0}; int st = 0;
    worker_reap(&err, &st);
    int clean_exit = WIFEXITED(st) && WEXITSTATUS(st) == 0;
    if ((!got.s || got.n == 0) && clean_exit && respawns < 3) {
      // it had retired after the previous op: not this op's doing
      respawns++; free(got.s); free(err.s);
      continue;
    }
    int sanitizer_report = err.s && (strstr(err.s, "ERROR: ") || strstr(err.s, "runtime error:"));
    // (a sanitizer stops at the faulty access: no contamination from earlier ops, no need to re-run alone)
    if (!first_op && attempt == 0 && !sanitizer_report) { attempt++; free(got.s); free(err.s); continue; }
    if (got.s) s_str(out, got.s);
    if (clean_exit) {
      // mju_error / timeout / canary handlers write their text and exit(0) without the newline
    } else {
      describe_crash(got.s ? got.s : "", st, &err, out, got.s && got.n > 0);
    }
    if (err.s && strstr(err.s, "LeakSanitizer") && !(got.s && strstr(got.s, "leak=1"))) s_str(out, " ; leak=1");
    if (err.s && ((got.s && strstr(got.s, "leak=1")) || strstr(err.s, "LeakSanitizer"))) {
      const char* f = strstr(err.s, "Direct leak");
      int nf = 0;
      while (f && (f = strstr(f, " in ")) && nf < 5) {
        f += 4; size_t q = 0; char fn[120];
        while (f[q] && f[q] != ' ' && f[q] != '\n' && q < sizeof fn - 1) { fn[q] = f[q]; q++; }
        fn[q] = 0;
        s_str(out, nf ? "<" : " leakat="); s_str(out, fn); nf++;
      }
    }
    free(got.s); free(err.s);
    return;
  }
}

static void set_model(mjModel* m) {
  worker_reap(NULL, NULL);   // workers hold the previous model's image
  if (M) mj_deleteModel(M);
  free(IMG); IMG = NULL; IMGN = 0;
  M = m;
  if (m) {
    // The number of bytes mj_saveModel writes is measured, not taken from mj_sizeModel: the model is saved
    // twice into buffers (with 64 bytes of slack) pre-filled with different patterns; the written prefix is
    // where the two agree.
    mjtSize sz = mj_sizeModel(m);
    size_t cap = (size_t)(sz > 0 ? sz : 0) + 64;
    unsigned char* a = (unsigned char*)malloc(cap);
    unsigned char* b = (unsigned char*)malloc(cap);
    memset(a, 0xAA, cap); memset(b, 0x55, cap);
    mj_saveModel(m, NULL, a, (int)cap);
    mj_saveModel(m, NULL, b, (int)cap);
    size_t n = 0;
    while (n < cap && a[n] == b[n]) n++;
    free(b);
    IMG = a;
    IMGN = (int)n;
  }
}

int main(void) {
  signal(SIGPIPE, SIG_IGN);
#if HAVE_LSAN
  leak_memo = (LeakMemo*)mmap(NULL, sizeof(LeakMemo), PROT_READ | PROT_WRITE, MAP_SHARED | MAP_ANONYMOUS, -1, 0);
  if (leak_memo == MAP_FAILED) leak_memo = NULL; else memset(leak_memo, 0, sizeof(LeakMemo));
#endif
  mju_user_warning = on_warning;
  mju_user_error = on_error;
  mju_user_malloc = cap_malloc;
  mju_user_free = cap_free;
  char* line = NULL; size_t lcap = 0; ssize_t ln;
  while ((ln = getline(&line, &lcap, stdin)) > 0) {
    while (ln > 0 && (line[ln - 1] == '\n' || line[ln - 1] == '\r')) line[--ln] = 0;
    char* p = line;
    while (*p == ' ') p++;
    char op[16] = {0};
    int k = 0;
    while (p[k] && p[k] != ' ' && k < 15) { op[k] = p[k]; k++; }
    char* rest = p + k;
    while (*rest == ' ') rest++;
    if (!strcmp(op, "model")) {
      char* bar = strstr(rest, " | ");
      char* dumpgiven = NULL;
      if (bar) { *bar = 0; dumpgiven = bar + 3; }
      size_t dl = strlen(rest);
      char* desc = (char*)malloc(dl + 8);
      for (size_t i = 0; i < dl; i++) desc[i] = rest[i] == ';' ? '\n' : rest[i];
      memcpy(desc + dl, "\nend\n", 6);
      FILE* f = fmemopen(desc, dl + 5, "r");
      char err[512] = "";
      mjModel* m = mjb_compile(f, NULL, err, sizeof err);
      fclose(f); free(desc);
      if (!m) { printf("error %s\n", err); fflush(stdout); continue; }
      set_model(m);
      if (dumpgiven) {
        Str b = {0};
        dump_model(M, &b);
        printf("%s\n", strcmp(b.s, dumpgiven) ? "dump-mismatch" : "ok");
        free(b.s);
      } else printf("ok\n");
    } else if (!strcmp(op, "dump") && M && !*rest) {
      Str b = {0}; dump_model(M, &b); printf("%s\n", b.s); free(b.s);
    } else if (!strcmp(op, "size") && M && !*rest) {
      printf("%lld\n", (long long)mj_sizeModel(M));
    } else if (!strcmp(op, "save") && M && !*rest) {
      printf("len=%d fnv=%016llx\n", IMGN, (unsigned long long)fnv(IMG, (size_t)IMGN));
    } else if (!strcmp(op, "imghex") && M && !*rest) {
      Str b = {0}; s_hex(&b, IMG, (size_t)IMGN); printf("%s\n", b.s); free(b.s);
    } else if (!strcmp(op, "oracle") && (!strcmp(rest, "0") || !strcmp(rest, "1"))) {
      oracle_on = rest[0] == '1'; printf("ok\n");
    } else if (!strcmp(op, "rule")) {
      Rule r;
      if (!parse_rule(rest, &r)) { printf("bad-op\n"); fflush(stdout); continue; }
      RULES = (Rule*)realloc(RULES, sizeof(Rule) * (size_t)(NRULES + 1));
      RULES[NRULES++] = r;
      printf("ok\n");
    } else if (!strcmp(op, "load") && M) {
      int n = 0;
      char* restcopy = strdup(rest);
      unsigned char* b = apply_edits(rest, &n);
      if (!b) { printf("bad-op\n"); fflush(stdout); free(restcopy); continue; }
      free(b);   // (validated here; the worker applies the same edits to its copy of the image)
      Str out = {0};
      char* spec = strdup(restcopy);
      worker_load(spec, oracle_on, &out);
      for (size_t i = 0; out.s && i < out.n; i++) if (out.s[i] == '\n' || out.s[i] == '\r') out.s[i] = ' ';
      printf("%s\n", out.s ? out.s : "");
      free(out.s); free(spec); free(restcopy);
    } else if (!strcmp(op, "sweep") && M) {
      long long from, to, step; char extra;
      if (sscanf(rest, "%lld %lld %lld %c", &from, &to, &step, &extra) != 3 || from < 0 || step <= 0) { printf("bad-op\n"); fflush(stdout); continue; }
      if (to > IMGN) to = IMGN;
      long long nn = 0, nrej = 0; Str first = {0};
      for (long long L = from; L < to; L += step) {
        Str out = {0};
        char spec[48];
        snprintf(spec, sizeof spec, "t%lld", L);
        worker_load(spec, 0, &out);
        nn++;
        if (out.s && !strncmp(out.s, "reject ", 7) && !strstr(out.s, "crash") && !strstr(out.s, "leak=1")) nrej++;
        else if (!first.s) { char t[32]; snprintf(t, sizeof t, "%lld:", L); s_str(&first, t); s_str(&first, out.s ? out.s : ""); }
        free(out.s);
      }
      printf("n=%lld reject=%lld other=%s\n", nn, nrej, first.s ? first.s : "-");
      free(first.s);
    } else {
      printf("bad-op\n");
    }
    fflush(stdout);
  }
  return 0;
}
