// c07_oracle.c — implementation side of property C07 (kinematics, Jacobians, configuration-space maps).
//
// Everything here calls the REAL code of the tree build (libmujoco_verif.so) on models compiled through the
// mjSpec API (harness/mjbuild.h).  No kinematics / Jacobian arithmetic is re-implemented: the harness only moves
// data in and out (world coordinates of body-fixed points come from the engine's own mj_local2Global).  Finite
// differences and all identities are formed and judged in checks/c07.py.
//
// float tokens are 16 hex digits of the IEEE-754 bits ("nan" for NaN); ints are decimal.
//
//   model <description lines joined by '|'>   -> ok nq .. nv .. nbody .. njnt .. ngeom .. nsite .. ncam .. nmocap .. | error <msg>
//   set qpos|qvel|mocap_pos|mocap_quat v..    -> ok
//   kin                    mj_kinematics; mj_comPos; mj_camlight
//                          -> FK <model + state groups> -> xpos .. xquat .. xmat .. xanchor .. xaxis .. xipos .. ximat ..
//                             geom_xpos .. geom_xmat .. site_xpos .. site_xmat .. cam_xpos .. cam_xmat .. light_xpos .. light_xdir ..
//                          (left of "->" is the op line of lean/Drivers/C07.lean, right the engine's result)
//   integ dt v..           mj_integratePos(m, d->qpos, v, dt), in place   -> INTEG jnt_type .. qpos .. qvel .. dt .. -> qpos'
//   diff dt q1.. q2..      mj_differentiatePos(m, qvel, dt, q1, q2)       -> DIFF jnt_type .. qpos1 .. qpos2 .. dt .. -> qvel
//   diffint dt v..         q2 = integratePos(qpos, v, dt); w = differentiatePos(dt, qpos, q2); q3 = integratePos(qpos, w, dt)
//                          -> q2 nq .. w nv .. q3 nq ..
//   info                   static ints: body_parentid body_rootid body_weldid body_dofnum body_dofadr dof_bodyid dof_jntid
//                          dof_parentid jnt_type jnt_dofadr jnt_bodyid geom_bodyid site_bodyid cam_bodyid + body_mass
//                          body_subtreemass geom_quat site_quat cam_quat geom_sameframe site_sameframe body_sameframe
//                          body_ipos geom_pos site_pos cam_pos
//   com                    -> subtree_com 3nb .. cdof 6nv ..
//   pts k (b r0 r1 r2)*k   world coordinates of body-fixed points (mj_local2Global)      -> pts 3k ..
//   jacs                   mj_jacBody / mj_jacBodyCom / mj_jacSubtreeCom per body, mj_jacGeom per geom, mj_jacSite per site
//                          -> per object "<name> <id>" groups: jb<b>p jb<b>r jc<b>p jc<b>r js<b>p jg<g>p jg<g>r jt<s>p jt<s>r
//   jacpt b r0 r1 r2       mj_jac at the world position of the body-fixed point     -> point 3 .. jacp 3nv .. jacr 3nv ..
//   jacsparse b            mj_bodyChain + mj_jacSparse at xipos[b]                  -> chain NV .. jacp 3NV .. jacr 3NV ..
//   vel                    mj_comVel -> cvel 6nb .. + mj_objectVelocity (world orientation and local) for every body
//                          (mjOBJ_BODY, mjOBJ_XBODY), geom, site, camera: ob<b> 12, ox<b> 12, og<g> 12, os<s> 12, oc<c> 12
//   jacdot b r0 r1 r2      mj_jacDot at the body-fixed point (needs `vel` first)     -> point 3 .. jacp 3nv .. jacr 3nv ..
//                          + mj_jacDotSparse on mj_bodyChain(b): chain NV .. sjacp 3NV .. sjacr 3NV ..
//   opt jacobian|cone k    m->opt.jacobian / m->opt.cone at run time (the engine reads both on every call)    -> ok
//   efc full|pos           mj_fwdPosition on the current qpos / mocap pose, then the constraint rows the engine built:
//                          -> efc sparse 1 counts 4 (ne nf nl ncon) warn 2 (contact-full constraint-full) type nefc .. id nefc ..
//                             pos nefc .. margin nefc .. ten_length nt .. con_geom 2ncon .. con_dim ncon .. con_efc ncon ..
//                             con_exclude ncon .. con_dist ncon ..
//                          full adds: J nefc*nv (efc_J, scattered to dense when sparse) rownnz nefc .. colind nJ .. (sparse)
//                             ten_J nt*nv (scattered) con_frame 9ncon con_pos 3ncon con_friction 5ncon con_margin ncon and
//                             per contact cj<i> 12nv = mj_jac at contact.pos for the body of geom1 (jacp, jacr), of geom2 (jacp, jacr)
//   jacdif b1 b2 r1(3) r2(3) same sparse skip
//                          mj_jacDifPair(b1, b2, p1, p2, .., issparse = sparse, flg_skipcommon = skip), p_i = world position of
//                          the point r_i fixed to body b_i (p2 := p1 when same = 1); reference mj_jac of both points
//                          -> NV 1 .. chain NV .. difp 3NV .. difr 3NV .. a1p a1r a2p a2r 3nv each (mj_jac) mchain n .. (mj_mergeChain
//                             with the same flag) simple 1 ..
//   chain b1 b2 skip       mj_mergeChain(b1, b2, flg_skipcommon = skip)
//                          -> CHAIN body_weldid nb .. body_dofnum nb .. body_dofadr nb .. dof_parentid nv .. b1 1 .. b2 1 .. skip 1 .. -> NV c1 .. cNV
//                          (left of "->" is the op line of lean/Drivers/C07.lean)
//   jacsum n (b w)*n bp r(3) rot
//                          mj_jacSum of the n bodies with weights w at the world position of r fixed to body bp (dense or
//                          sparse by the current opt.jacobian) -> NV 1 .. chain .. sump 3NV .. sumr 3NV .. and a<i>p a<i>r (mj_jac)
//   jacaxis b r(3) a(3)    mj_jacPointAxis at the body-fixed point with world axis a -> jp 3nv .. ja 3nv .. refp 3nv .. refr 3nv ..
#define _GNU_SOURCE
#include <math.h>
#include <setjmp.h>
#include <stdint.h>
#include <stdio.h>
#include <stdlib.h>
#include <string.h>
#include <mujoco/mujoco.h>
#include "mjbuild.h"
#include "engine/engine_core_smooth.h"
#include "engine/engine_core_util.h"
#include "engine/engine_core_constraint.h"
#include "engine/engine_forward.h"
#include "engine/engine_support.h"

static mjModel* m = NULL;
static mjSpec* spec = NULL;
static mjData* d = NULL;
static jmp_buf jb;
static int jb_armed = 0;
static char lasterr[1024];

static void on_error(const char* msg) {
  snprintf(lasterr, sizeof lasterr, "%s", msg);
  for (char* c = lasterr; *c; c++) if (*c == '\n') *c = ' ';
  if (jb_armed) longjmp(jb, 1);
  fprintf(stderr, "unguarded mju_error: %s\n", msg);
  exit(3);
}
static void on_warning(const char* msg) { (void)msg; }

static void pbits(double x) {
  uint64_t u; memcpy(&u, &x, 8);
  if (x != x) printf(" nan"); else printf(" %016llx", (unsigned long long)u);
}
static void pvec(const char* key, const double* p, int n) {
  printf(" %s %d", key, n);
  for (int i = 0; i < n; i++) pbits(p[i]);
}
static void pivec(const char* key, const int* p, int n) {
  printf(" %s %d", key, n);
  for (int i = 0; i < n; i++) printf(" %d", p[i]);
}
static void pbvec(const char* key, const mjtByte* p, int n) {
  printf(" %s %d", key, n);
  for (int i = 0; i < n; i++) printf(" %d", (int)p[i]);
}
static int getf(const char* t, double* x) {
  if (!strcmp(t, "nan")) { *x = NAN; return 1; }
  if (strlen(t) != 16) return 0;
  char* e; uint64_t u = strtoull(t, &e, 16);
  if (*e) return 0;
  memcpy(x, &u, 8); return 1;
}
static int getv(char** tok, int n, double* x) {
  for (int i = 0; i < n; i++) if (!getf(tok[i], &x[i])) return 0;
  return 1;
}
static double* buf(int n) { return (double*)calloc((size_t)(n > 0 ? n : 1), sizeof(double)); }

static void op_kin(void) {
  int nb = (int)m->nbody, nj = (int)m->njnt, nq = (int)m->nq, ng = (int)m->ngeom, ns = (int)m->nsite, nc = (int)m->ncam;
  int nm = (int)m->nmocap;
  // the inputs are printed BEFORE the call
  printf("FK");
  pivec("body_parentid", m->body_parentid, nb); pivec("body_jntadr", m->body_jntadr, nb);
  pivec("body_jntnum", m->body_jntnum, nb); pivec("body_mocapid", m->body_mocapid, nb);
  pvec("body_pos", m->body_pos, 3 * nb); pvec("body_quat", m->body_quat, 4 * nb);
  pvec("body_ipos", m->body_ipos, 3 * nb); pvec("body_iquat", m->body_iquat, 4 * nb);
  pbvec("body_sameframe", m->body_sameframe, nb);
  pvec("mocap_pos", d->mocap_pos, 3 * nm); pvec("mocap_quat", d->mocap_quat, 4 * nm);
  pivec("jnt_type", m->jnt_type, nj); pivec("jnt_qposadr", m->jnt_qposadr, nj);
  pvec("jnt_pos", m->jnt_pos, 3 * nj); pvec("jnt_axis", m->jnt_axis, 3 * nj);
  pvec("qpos0", m->qpos0, nq); pvec("qpos", d->qpos, nq);
  pivec("geom_bodyid", m->geom_bodyid, ng); pvec("geom_pos", m->geom_pos, 3 * ng); pvec("geom_quat", m->geom_quat, 4 * ng);
  pbvec("geom_sameframe", m->geom_sameframe, ng);
  pivec("site_bodyid", m->site_bodyid, ns); pvec("site_pos", m->site_pos, 3 * ns); pvec("site_quat", m->site_quat, 4 * ns);
  pbvec("site_sameframe", m->site_sameframe, ns);
  pivec("cam_bodyid", m->cam_bodyid, nc); pvec("cam_pos", m->cam_pos, 3 * nc); pvec("cam_quat", m->cam_quat, 4 * nc);
  int nl = (int)m->nlight;
  pivec("light_bodyid", m->light_bodyid, nl); pvec("light_pos", m->light_pos, 3 * nl); pvec("light_dir", m->light_dir, 3 * nl);
  mj_kinematics(m, d);
  mj_comPos(m, d);
  mj_camlight(m, d);
  printf(" ->");
  pvec("xpos", d->xpos, 3 * nb); pvec("xquat", d->xquat, 4 * nb); pvec("xmat", d->xmat, 9 * nb);
  pvec("xanchor", d->xanchor, 3 * nj); pvec("xaxis", d->xaxis, 3 * nj);
  pvec("xipos", d->xipos, 3 * nb); pvec("ximat", d->ximat, 9 * nb);
  pvec("geom_xpos", d->geom_xpos, 3 * ng); pvec("geom_xmat", d->geom_xmat, 9 * ng);
  pvec("site_xpos", d->site_xpos, 3 * ns); pvec("site_xmat", d->site_xmat, 9 * ns);
  pvec("cam_xpos", d->cam_xpos, 3 * nc); pvec("cam_xmat", d->cam_xmat, 9 * nc);
  pvec("light_xpos", d->light_xpos, 3 * nl); pvec("light_xdir", d->light_xdir, 3 * nl);
  printf("\n");
}

static void pjac(const char* pre, int id, const char* suf, const double* j, int n) {
  char key[32];
  snprintf(key, sizeof key, "%s%d%s", pre, id, suf);
  pvec(key, j, n);
}

static void pobjvel(const char* pre, int objtype, int id) {
  double r[12];
  mj_objectVelocity(m, d, objtype, id, r, 0);
  mj_objectVelocity(m, d, objtype, id, r + 6, 1);
  char key[32];
  snprintf(key, sizeof key, "%s%d", pre, id);
  pvec(key, r, 12);
}

int main(void) {
  mju_user_error = on_error;
  mju_user_warning = on_warning;
  static char line[1 << 22];
  static char* tok[1 << 18];
  while (fgets(line, sizeof line, stdin)) {
    size_t L = strlen(line);
    if (!strncmp(line, "model ", 6)) {
      jb_armed = 1;
      if (setjmp(jb)) { jb_armed = 0; printf("error %s\n", lasterr); fflush(stdout); continue; }
      if (d) { mj_deleteData(d); d = NULL; }
      if (m) { mj_deleteModel(m); m = NULL; }
      if (spec) { mj_deleteSpec(spec); spec = NULL; }
      for (size_t i = 6; i < L; i++) if (line[i] == '|') line[i] = '\n';
      FILE* f = fmemopen(line + 6, L - 6, "r");
      char err[1024];
      m = mjb_compile(f, &spec, err, sizeof err);
      fclose(f);
      for (char* c = err; *c; c++) if (*c == '\n' || *c == '\r') *c = ' ';
      if (!m) printf("error %s\n", err);
      else {
        d = mj_makeData(m);
        int fixedcams = 1;
        for (int i = 0; i < m->ncam; i++) if (m->cam_mode[i] != mjCAMLIGHT_FIXED) fixedcams = 0;
        for (int i = 0; i < m->nlight; i++) if (m->light_mode[i] != mjCAMLIGHT_FIXED) fixedcams = 0;
        printf("ok nq %d nv %d nbody %d njnt %d ngeom %d nsite %d ncam %d nmocap %d fixedcams %d", (int)m->nq, (int)m->nv,
               (int)m->nbody, (int)m->njnt, (int)m->ngeom, (int)m->nsite, (int)m->ncam, (int)m->nmocap, fixedcams);
        pivec("jnt_type", m->jnt_type, (int)m->njnt);   // lets the generator verify its joint order (bodies are renumbered depth-first)
        printf("\n");
      }
      jb_armed = 0;
      fflush(stdout);
      continue;
    }
    int n = 0; char* save; char* t = strtok_r(line, " \t\r\n", &save);
    while (t && n < (1 << 18)) { tok[n++] = t; t = strtok_r(NULL, " \t\r\n", &save); }
    if (!n || !m || !d) { printf("bad-op\n"); fflush(stdout); continue; }
    const char* op = tok[0];
    int nv = (int)m->nv, nq = (int)m->nq, nb = (int)m->nbody, nj = (int)m->njnt;
    jb_armed = 1;
    if (setjmp(jb)) { jb_armed = 0; printf("error %s\n", lasterr); fflush(stdout); continue; }
    if (!strcmp(op, "set") && n >= 2) {
      double* dst = NULL; int cnt = 0;
      if (!strcmp(tok[1], "qpos")) { dst = d->qpos; cnt = nq; }
      else if (!strcmp(tok[1], "qvel")) { dst = d->qvel; cnt = nv; }
      else if (!strcmp(tok[1], "mocap_pos")) { dst = d->mocap_pos; cnt = 3 * (int)m->nmocap; }
      else if (!strcmp(tok[1], "mocap_quat")) { dst = d->mocap_quat; cnt = 4 * (int)m->nmocap; }
      if (!dst || n - 2 != cnt) printf("bad-op\n");
      else {
        double* tmp = buf(cnt);
        if (!getv(tok + 2, cnt, tmp)) printf("bad-op\n");
        else { memcpy(dst, tmp, sizeof(double) * cnt); printf("ok\n"); }
        free(tmp);
      }
    } else if (!strcmp(op, "kin") && n == 1) {
      op_kin();
    } else if (!strcmp(op, "integ") && n == 2 + nv) {
      double dt; double* v = buf(nv);
      if (!getf(tok[1], &dt) || !getv(tok + 2, nv, v)) printf("bad-op\n");
      else {
        printf("INTEG"); pivec("jnt_type", m->jnt_type, nj); pvec("qpos", d->qpos, nq); pvec("qvel", v, nv); pvec("dt", &dt, 1);
        mj_integratePos(m, d->qpos, v, dt);
        printf(" ->"); for (int i = 0; i < nq; i++) pbits(d->qpos[i]); printf("\n");
      }
      free(v);
    } else if (!strcmp(op, "diff") && n == 2 + 2 * nq) {
      double dt; double* q = buf(2 * nq); double* v = buf(nv);
      if (!getf(tok[1], &dt) || !getv(tok + 2, 2 * nq, q)) printf("bad-op\n");
      else {
        printf("DIFF"); pivec("jnt_type", m->jnt_type, nj); pvec("qpos1", q, nq); pvec("qpos2", q + nq, nq); pvec("dt", &dt, 1);
        mj_differentiatePos(m, v, dt, q, q + nq);
        printf(" ->"); for (int i = 0; i < nv; i++) pbits(v[i]); printf("\n");
      }
      free(q); free(v);
    } else if (!strcmp(op, "diffint") && n == 2 + nv) {
      double dt; double* v = buf(nv); double* w = buf(nv); double* q2 = buf(nq); double* q3 = buf(nq);
      if (!getf(tok[1], &dt) || !getv(tok + 2, nv, v)) printf("bad-op\n");
      else {
        memcpy(q2, d->qpos, sizeof(double) * nq);
        mj_integratePos(m, q2, v, dt);
        mj_differentiatePos(m, w, dt, d->qpos, q2);
        memcpy(q3, d->qpos, sizeof(double) * nq);
        mj_integratePos(m, q3, w, dt);
        printf("diffint"); pvec("q2", q2, nq); pvec("w", w, nv); pvec("q3", q3, nq); printf("\n");
      }
      free(v); free(w); free(q2); free(q3);
    } else if (!strcmp(op, "info") && n == 1) {
      printf("info");
      pivec("body_parentid", m->body_parentid, nb); pivec("body_rootid", m->body_rootid, nb);
      pivec("body_weldid", m->body_weldid, nb); pivec("body_dofnum", m->body_dofnum, nb);
      pivec("body_dofadr", m->body_dofadr, nb); pivec("dof_bodyid", m->dof_bodyid, nv); pivec("dof_jntid", m->dof_jntid, nv);
      pivec("dof_parentid", m->dof_parentid, nv); pivec("jnt_type", m->jnt_type, nj); pivec("jnt_dofadr", m->jnt_dofadr, nj);
      pivec("jnt_qposadr", m->jnt_qposadr, nj);
      pivec("jnt_bodyid", m->jnt_bodyid, nj); pivec("geom_bodyid", m->geom_bodyid, (int)m->ngeom);
      pivec("site_bodyid", m->site_bodyid, (int)m->nsite); pivec("cam_bodyid", m->cam_bodyid, (int)m->ncam);
      pvec("body_mass", m->body_mass, nb); pvec("body_subtreemass", m->body_subtreemass, nb);
      pvec("geom_quat", m->geom_quat, 4 * (int)m->ngeom); pvec("site_quat", m->site_quat, 4 * (int)m->nsite);
      pvec("cam_quat", m->cam_quat, 4 * (int)m->ncam); pvec("body_iquat", m->body_iquat, 4 * nb);
      pbvec("geom_sameframe", m->geom_sameframe, (int)m->ngeom); pbvec("site_sameframe", m->site_sameframe, (int)m->nsite);
      pbvec("body_sameframe", m->body_sameframe, nb);
      pvec("body_ipos", m->body_ipos, 3 * nb); pvec("geom_pos", m->geom_pos, 3 * (int)m->ngeom);
      pvec("site_pos", m->site_pos, 3 * (int)m->nsite); pvec("cam_pos", m->cam_pos, 3 * (int)m->ncam);
      pivec("geom_type", m->geom_type, (int)m->ngeom); pbvec("body_simple", m->body_simple, nb);
      pivec("light_bodyid", m->light_bodyid, (int)m->nlight); pvec("light_pos", m->light_pos, 3 * (int)m->nlight);
      pvec("light_dir", m->light_dir, 3 * (int)m->nlight);
      pivec("eq_type", m->eq_type, (int)m->neq); pivec("eq_objtype", m->eq_objtype, (int)m->neq);
      pivec("eq_obj1id", m->eq_obj1id, (int)m->neq); pivec("eq_obj2id", m->eq_obj2id, (int)m->neq);
      pvec("jnt_range", m->jnt_range, 2 * nj); pvec("tendon_range", m->tendon_range, 2 * (int)m->ntendon);
      printf("\n");
    } else if (!strcmp(op, "com") && n == 1) {
      printf("com"); pvec("subtree_com", d->subtree_com, 3 * nb); pvec("cdof", d->cdof, 6 * nv); printf("\n");
    } else if (!strcmp(op, "pts") && n >= 2) {
      int k = atoi(tok[1]);
      if (k < 0 || k > 4096 || n != 2 + 4 * k) printf("bad-op\n");
      else {
        double* out = buf(3 * k); int ok = 1;
        for (int i = 0; i < k && ok; i++) {
          int b = atoi(tok[2 + 4 * i]); double r[3];
          if (b < 0 || b >= nb || !getv(tok + 3 + 4 * i, 3, r)) { ok = 0; break; }
          mj_local2Global(d, out + 3 * i, NULL, r, NULL, b, 0);
        }
        if (!ok) printf("bad-op\n"); else { printf("pts"); pvec("pts", out, 3 * k); printf("\n"); }
        free(out);
      }
    } else if (!strcmp(op, "jacs") && n == 1) {
      double* jp = buf(3 * nv); double* jr = buf(3 * nv);
      printf("jacs");
      for (int b = 0; b < nb; b++) {
        mj_jacBody(m, d, jp, jr, b); pjac("jb", b, "p", jp, 3 * nv); pjac("jb", b, "r", jr, 3 * nv);
        mj_jacBodyCom(m, d, jp, jr, b); pjac("jc", b, "p", jp, 3 * nv); pjac("jc", b, "r", jr, 3 * nv);
        mj_jacSubtreeCom(m, d, jp, b); pjac("js", b, "p", jp, 3 * nv);
      }
      for (int g = 0; g < m->ngeom; g++) { mj_jacGeom(m, d, jp, jr, g); pjac("jg", g, "p", jp, 3 * nv); pjac("jg", g, "r", jr, 3 * nv); }
      for (int s = 0; s < m->nsite; s++) { mj_jacSite(m, d, jp, jr, s); pjac("jt", s, "p", jp, 3 * nv); pjac("jt", s, "r", jr, 3 * nv); }
      printf("\n");
      free(jp); free(jr);
    } else if ((!strcmp(op, "jacpt") || !strcmp(op, "jacdot")) && n == 5) {
      int b = atoi(tok[1]); double r[3], p[3];
      if (b < 0 || b >= nb || !getv(tok + 2, 3, r)) printf("bad-op\n");
      else {
        double* jp = buf(3 * nv); double* jr = buf(3 * nv);
        mj_local2Global(d, p, NULL, r, NULL, b, 0);
        if (!strcmp(op, "jacpt")) mj_jac(m, d, jp, jr, p, b); else mj_jacDot(m, d, jp, jr, p, b);
        printf("%s", op); pvec("point", p, 3); pvec("jacp", jp, 3 * nv); pvec("jacr", jr, 3 * nv);
        if (!strcmp(op, "jacdot")) {
          int* chain = (int*)calloc(nv + 1, sizeof(int));
          int NV = mj_bodyChain(m, b, chain);
          double* sp = buf(3 * NV); double* sr = buf(3 * NV);
          if (NV > 0) mj_jacDotSparse(m, d, sp, sr, p, b, NV, chain);
          pivec("chain", chain, NV); pvec("sjacp", sp, 3 * NV); pvec("sjacr", sr, 3 * NV);
          free(chain); free(sp); free(sr);
        }
        printf("\n");
        free(jp); free(jr);
      }
    } else if (!strcmp(op, "jacsparse") && n == 2) {
      int b = atoi(tok[1]);
      if (b < 0 || b >= nb) printf("bad-op\n");
      else {
        int* chain = (int*)calloc(nv + 1, sizeof(int));
        int NV = mj_bodyChain(m, b, chain);
        double* jp = buf(3 * NV); double* jr = buf(3 * NV);
        if (NV > 0) mj_jacSparse(m, d, jp, jr, d->xipos + 3 * b, b, NV, chain, 0);
        printf("jacsparse"); pivec("chain", chain, NV); pvec("jacp", jp, 3 * NV); pvec("jacr", jr, 3 * NV); printf("\n");
        free(chain); free(jp); free(jr);
      }
    } else if (!strcmp(op, "vel") && n == 1) {
      mj_comVel(m, d);
      printf("vel"); pvec("cvel", d->cvel, 6 * nb);
      for (int b = 0; b < nb; b++) { pobjvel("ob", mjOBJ_BODY, b); pobjvel("ox", mjOBJ_XBODY, b); }
      for (int g = 0; g < m->ngeom; g++) pobjvel("og", mjOBJ_GEOM, g);
      for (int s = 0; s < m->nsite; s++) pobjvel("os", mjOBJ_SITE, s);
      for (int c = 0; c < m->ncam; c++) pobjvel("oc", mjOBJ_CAMERA, c);
      printf("\n");
    } else if (!strcmp(op, "opt") && n == 3) {
      int k = atoi(tok[2]);
      if (!strcmp(tok[1], "jacobian") && k >= 0 && k <= 2) { m->opt.jacobian = k; printf("ok\n"); }
      else if (!strcmp(tok[1], "cone") && k >= 0 && k <= 1) { m->opt.cone = k; printf("ok\n"); }
      else printf("bad-op\n");
    } else if (!strcmp(op, "efc") && n == 2 && (!strcmp(tok[1], "full") || !strcmp(tok[1], "pos"))) {
      int full = !strcmp(tok[1], "full");
      int w0 = d->warning[mjWARN_CONTACTFULL].number, w1 = d->warning[mjWARN_CNSTRFULL].number;
      mj_fwdPosition(m, d);
      int nefc = d->nefc, ncon = d->ncon, nt = (int)m->ntendon, sp = mj_isSparse(m);
      int counts[4] = {d->ne, d->nf, d->nl, ncon};
      int warn[2] = {d->warning[mjWARN_CONTACTFULL].number - w0, d->warning[mjWARN_CNSTRFULL].number - w1};
      printf("efc"); pivec("sparse", &sp, 1); pivec("counts", counts, 4); pivec("warn", warn, 2);
      pivec("type", d->efc_type, nefc); pivec("id", d->efc_id, nefc);
      pvec("pos", d->efc_pos, nefc); pvec("margin", d->efc_margin, nefc); pvec("ten_length", d->ten_length, nt);
      int* ci = (int*)calloc(8 * (ncon + 1), sizeof(int)); double* cd = buf(ncon);
      for (int i = 0; i < ncon; i++) {
        ci[2 * i] = d->contact[i].geom[0]; ci[2 * i + 1] = d->contact[i].geom[1];
        ci[2 * ncon + i] = d->contact[i].dim; ci[3 * ncon + i] = d->contact[i].efc_address;
        ci[4 * ncon + i] = d->contact[i].exclude; cd[i] = d->contact[i].dist;
      }
      pivec("con_geom", ci, 2 * ncon); pivec("con_dim", ci + 2 * ncon, ncon); pivec("con_efc", ci + 3 * ncon, ncon);
      pivec("con_exclude", ci + 4 * ncon, ncon); pvec("con_dist", cd, ncon);
      free(ci); free(cd);
      if (full) {
        double* J = buf(nefc * nv);
        if (sp) {
          int nJ = 0;
          for (int r = 0; r < nefc; r++) {
            int adr = d->efc_J_rowadr[r];
            for (int k = 0; k < d->efc_J_rownnz[r]; k++) {
              int c = d->efc_J_colind[adr + k];
              if (c >= 0 && c < nv) J[r * nv + c] += d->efc_J[adr + k];      // += : a repeated column would show up
            }
            if (adr + d->efc_J_rownnz[r] > nJ) nJ = adr + d->efc_J_rownnz[r];
          }
          pvec("J", J, nefc * nv); pivec("rownnz", d->efc_J_rownnz, nefc); pivec("rowadr", d->efc_J_rowadr, nefc);
          pivec("colind", d->efc_J_colind, nJ); pivec("nJ", &d->nJ, 1);
        } else {
          memcpy(J, d->efc_J, sizeof(double) * (size_t)nefc * nv);
          pvec("J", J, nefc * nv);
        }
        free(J);
        double* TJ = buf(nt * nv);
        for (int t = 0; t < nt; t++) {
          int adr = m->ten_J_rowadr[t];
          for (int k = 0; k < m->ten_J_rownnz[t]; k++) TJ[t * nv + m->ten_J_colind[adr + k]] += d->ten_J[adr + k];
        }
        pvec("ten_J", TJ, nt * nv); free(TJ);
        double* cf = buf(18 * (ncon + 1));
        for (int i = 0; i < ncon; i++) {
          memcpy(cf + 9 * i, d->contact[i].frame, 9 * sizeof(double));
          memcpy(cf + 9 * ncon + 3 * i, d->contact[i].pos, 3 * sizeof(double));
          memcpy(cf + 12 * ncon + 5 * i, d->contact[i].friction, 5 * sizeof(double));
          cf[17 * ncon + i] = d->contact[i].includemargin;
        }
        pvec("con_frame", cf, 9 * ncon); pvec("con_pos", cf + 9 * ncon, 3 * ncon);
        pvec("con_friction", cf + 12 * ncon, 5 * ncon); pvec("con_margin", cf + 17 * ncon, ncon);
        free(cf);
        double* cj = buf(12 * nv);
        for (int i = 0; i < ncon; i++) {
          int g0 = d->contact[i].geom[0], g1 = d->contact[i].geom[1];
          if (g0 < 0 || g1 < 0) continue;
          mj_jac(m, d, cj, cj + 3 * nv, d->contact[i].pos, m->geom_bodyid[g0]);
          mj_jac(m, d, cj + 6 * nv, cj + 9 * nv, d->contact[i].pos, m->geom_bodyid[g1]);
          pjac("cj", i, "", cj, 12 * nv);
        }
        free(cj);
      }
      printf("\n");
    } else if (!strcmp(op, "jacdif") && n == 12) {
      int b1 = atoi(tok[1]), b2 = atoi(tok[2]), same = atoi(tok[9]), sp = atoi(tok[10]), skip = atoi(tok[11]);
      double r1[3], r2[3], p1[3], p2[3];
      if (b1 < 0 || b1 >= nb || b2 < 0 || b2 >= nb || b1 == b2 || !getv(tok + 3, 3, r1) || !getv(tok + 6, 3, r2) ||
          (sp | 1) != 1 || (skip | 1) != 1 || (same | 1) != 1) printf("bad-op\n");
      else {
        mj_local2Global(d, p1, NULL, r1, NULL, b1, 0);
        mj_local2Global(d, p2, NULL, r2, NULL, b2, 0);
        if (same) memcpy(p2, p1, sizeof p1);
        int* chain = (int*)calloc(2 * nv + 2, sizeof(int)); int* mchain = chain + nv + 1;
        double* w = buf(18 * nv); double* a = buf(12 * nv);
        int NV = mj_jacDifPair(m, d, chain, b1, b2, p1, p2, w, w + 3 * nv, w + 6 * nv, w + 9 * nv, w + 12 * nv, w + 15 * nv, sp, skip);
        int simple = m->body_simple[b1] && m->body_simple[b2];
        int MV = simple ? mj_mergeChainSimple(m, mchain, b1, b2) : mj_mergeChain(m, mchain, b1, b2, skip);
        mj_jac(m, d, a, a + 3 * nv, p1, b1); mj_jac(m, d, a + 6 * nv, a + 9 * nv, p2, b2);
        printf("jacdif"); pivec("NV", &NV, 1); pivec("chain", chain, sp ? NV : 0);
        pvec("difp", w + 6 * nv, 3 * NV); pvec("difr", w + 15 * nv, 3 * NV);
        pvec("a1p", a, 3 * nv); pvec("a1r", a + 3 * nv, 3 * nv); pvec("a2p", a + 6 * nv, 3 * nv); pvec("a2r", a + 9 * nv, 3 * nv);
        pivec("mchain", mchain, MV); pivec("simple", &simple, 1); printf("\n");
        free(chain); free(w); free(a);
      }
    } else if (!strcmp(op, "chain") && n == 4) {
      int b1 = atoi(tok[1]), b2 = atoi(tok[2]), skip = atoi(tok[3]);
      if (b1 < 0 || b1 >= nb || b2 < 0 || b2 >= nb || (skip | 1) != 1) printf("bad-op\n");
      else {
        int* chain = (int*)calloc(2 * nv + 2, sizeof(int));
        printf("CHAIN"); pivec("body_weldid", m->body_weldid, nb); pivec("body_dofnum", m->body_dofnum, nb);
        pivec("body_dofadr", m->body_dofadr, nb); pivec("dof_parentid", m->dof_parentid, nv);
        pivec("b1", &b1, 1); pivec("b2", &b2, 1); pivec("skip", &skip, 1);
        int NV = mj_mergeChain(m, chain, b1, b2, skip);
        printf(" -> %d", NV); for (int i = 0; i < NV; i++) printf(" %d", chain[i]); printf("\n");
        free(chain);
      }
    } else if (!strcmp(op, "jacsum") && n >= 2 && atoi(tok[1]) >= 1 && atoi(tok[1]) <= 16 && n == 2 + 2 * atoi(tok[1]) + 5) {
      int k = atoi(tok[1]); int bid[16]; double wt[16]; int ok = 1;
      for (int i = 0; i < k && ok; i++) {
        bid[i] = atoi(tok[2 + 2 * i]);
        if (bid[i] < 0 || bid[i] >= nb || !getf(tok[3 + 2 * i], &wt[i])) ok = 0;
      }
      int bp = atoi(tok[2 + 2 * k]), rot = atoi(tok[n - 1]); double r[3], p[3];
      if (!ok || bp < 0 || bp >= nb || !getv(tok + 3 + 2 * k, 3, r) || (rot | 1) != 1) printf("bad-op\n");
      else {
        mj_local2Global(d, p, NULL, r, NULL, bp, 0);
        int* chain = (int*)calloc(nv + 1, sizeof(int));
        double* sp_ = buf(3 * nv); double* sr_ = buf(3 * nv); double* a = buf(6 * nv);
        int sp = mj_isSparse(m);
        int NV = mj_jacSum(m, d, chain, k, bid, wt, p, sp_, sr_, rot);
        printf("jacsum"); pivec("NV", &NV, 1); pivec("sparse", &sp, 1); pivec("chain", chain, sp ? NV : 0);
        pvec("sump", sp_, 3 * NV); pvec("sumr", sr_, rot ? 3 * NV : 0);
        for (int i = 0; i < k; i++) {
          mj_jac(m, d, a, a + 3 * nv, p, bid[i]);
          pjac("a", i, "p", a, 3 * nv); pjac("a", i, "r", a + 3 * nv, 3 * nv);
        }
        printf("\n");
        free(chain); free(sp_); free(sr_); free(a);
      }
    } else if (!strcmp(op, "jacaxis") && n == 8) {
      int b = atoi(tok[1]); double r[3], ax[3], p[3];
      if (b < 0 || b >= nb || !getv(tok + 2, 3, r) || !getv(tok + 5, 3, ax)) printf("bad-op\n");
      else {
        mj_local2Global(d, p, NULL, r, NULL, b, 0);
        double* j = buf(12 * nv);
        mj_jacPointAxis(m, d, j, j + 3 * nv, p, ax, b);
        mj_jac(m, d, j + 6 * nv, j + 9 * nv, p, b);
        printf("jacaxis"); pvec("jp", j, 3 * nv); pvec("ja", j + 3 * nv, 3 * nv); pvec("refp", j + 6 * nv, 3 * nv);
        pvec("refr", j + 9 * nv, 3 * nv); printf("\n");
        free(j);
      }
    } else {
      printf("bad-op\n");
    }
    jb_armed = 0;
    fflush(stdout);
  }
  return 0;
}
