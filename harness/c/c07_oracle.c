// c07_oracle.c — implementation side of property C07 (kinematics, Jacobians, configuration-space maps).
//
// Everything here calls the REAL code of the tree build (libmujoco_verif.so) on models compiled through the
// mjSpec API (harness/mjbuild.h).  No kinematics / Jacobian arithmetic is re-implemented: the harness only moves
// data in and out (world coordinates of body-fixed points come from the engine's own mj_local2Global).  Finite
// differences and all identities are formed and judged in checks/c07.py.
//
// float tokens are 16 hex digits of the IEEE-754 bits ("nan" for NaN); ints are decimal.
//
//   model <description lines joined by '|'>   -> ok nq .. nv .. nbody .. njnt .. ngeom .. nsite .. ncam .. nmocap .. | error <msg>
//   set qpos|qvel|mocap_pos|mocap_quat v..    -> ok
//   kin                    mj_kinematics; mj_comPos; mj_camlight
//                          -> FK <model + state groups> -> xpos .. xquat .. xmat .. xanchor .. xaxis .. xipos .. ximat ..
//                             geom_xpos .. geom_xmat .. site_xpos .. site_xmat .. cam_xpos .. cam_xmat ..
//                          (left of "->" is the op line of lean/Drivers/C07.lean, right the engine's result)
//   integ dt v..           mj_integratePos(m, d->qpos, v, dt), in place   -> INTEG jnt_type .. qpos .. qvel .. dt .. -> qpos'
//   diff dt q1.. q2..      mj_differentiatePos(m, qvel, dt, q1, q2)       -> DIFF jnt_type .. qpos1 .. qpos2 .. dt .. -> qvel
//   diffint dt v..         q2 = integratePos(qpos, v, dt); w = differentiatePos(dt, qpos, q2); q3 = integratePos(qpos, w, dt)
//                          -> q2 nq .. w nv .. q3 nq ..
//   info                   static ints: body_parentid body_rootid body_weldid body_dofnum body_dofadr dof_bodyid dof_jntid
//                          dof_parentid jnt_type jnt_dofadr jnt_bodyid geom_bodyid site_bodyid cam_bodyid + body_mass
//                          body_subtreemass geom_quat site_quat cam_quat geom_sameframe site_sameframe body_sameframe
//                          body_ipos geom_pos site_pos cam_pos
//   com                    -> subtree_com 3nb .. cdof 6nv ..
//   pts k (b r0 r1 r2)*k   world coordinates of body-fixed points (mj_local2Global)      -> pts 3k ..
//   jacs                   mj_jacBody / mj_jacBodyCom / mj_jacSubtreeCom per body, mj_jacGeom per geom, mj_jacSite per site
//                          -> per object "<name> <id>" groups: jb<b>p jb<b>r jc<b>p jc<b>r js<b>p jg<g>p jg<g>r jt<s>p jt<s>r
//   jacpt b r0 r1 r2       mj_jac at the world position of the body-fixed point     -> point 3 .. jacp 3nv .. jacr 3nv ..
//   jacsparse b            mj_bodyChain + mj_jacSparse at xipos[b]                  -> chain NV .. jacp 3NV .. jacr 3NV ..
//   vel                    mj_comVel -> cvel 6nb .. + mj_objectVelocity (world orientation and local) for every body
//                          (mjOBJ_BODY, mjOBJ_XBODY), geom, site, camera: ob<b> 12, ox<b> 12, og<g> 12, os<s> 12, oc<c> 12
//   jacdot b r0 r1 r2      mj_jacDot at the body-fixed point (needs `vel` first)     -> point 3 .. jacp 3nv .. jacr 3nv ..
#define _GNU_SOURCE
#include <math.h>
#include <setjmp.h>
#include <stdint.h>
#include <stdio.h>
#include <stdlib.h>
#include <string.h>
#include <mujoco/mujoco.h>
#include "mjbuild.h"
#include "engine/engine_core_smooth.h"
#include "engine/engine_core_util.h"
#include "engine/engine_support.h"

static mjModel* m = NULL;
static mjSpec* spec = NULL;
static mjData* d = NULL;
static jmp_buf jb;
static int jb_armed = 0;
static char lasterr[1024];

static void on_error(const char* msg) {
  snprintf(lasterr, sizeof lasterr, "%s", msg);
  for (char* c = lasterr; *c; c++) if (*c == '\n') *c = ' ';
  if (jb_armed) longjmp(jb, 1);
  fprintf(stderr, "unguarded mju_error: %s\n", msg);
  exit(3);
}
static void on_warning(const char* msg) { (void)msg; }

static void pbits(double x) {
  uint64_t u; memcpy(&u, &x, 8);
  if (x != x) printf(" nan"); else printf(" %016llx", (unsigned long long)u);
}
static void pvec(const char* key, const double* p, int n) {
  printf(" %s %d", key, n);
  for (int i = 0; i < n; i++) pbits(p[i]);
}
static void pivec(const char* key, const int* p, int n) {
  printf(" %s %d", key, n);
  for (int i = 0; i < n; i++) printf(" %d", p[i]);
}
static void pbvec(const char* key, const mjtByte* p, int n) {
  printf(" %s %d", key, n);
  for (int i = 0; i < n; i++) printf(" %d", (int)p[i]);
}
static int getf(const char* t, double* x) {
  if (!strcmp(t, "nan")) { *x = NAN; return 1; }
  if (strlen(t) != 16) return 0;
  char* e; uint64_t u = strtoull(t, &e, 16);
  if (*e) return 0;
  memcpy(x, &u, 8); return 1;
}
static int getv(char** tok, int n, double* x) {
  for (int i = 0; i < n; i++) if (!getf(tok[i], &x[i])) return 0;
  return 1;
}
static double* buf(int n) { return (double*)calloc((size_t)(n > 0 ? n : 1), sizeof(double)); }

static void op_kin(void) {
  int nb = (int)m->nbody, nj = (int)m->njnt, nq = (int)m->nq, ng = (int)m->ngeom, ns = (int)m->nsite, nc = (int)m->ncam;
  int nm = (int)m->nmocap;
  // the inputs are printed BEFORE the call
  printf("FK");
  pivec("body_parentid", m->body_parentid, nb); pivec("body_jntadr", m->body_jntadr, nb);
  pivec("body_jntnum", m->body_jntnum, nb); pivec("body_mocapid", m->body_mocapid, nb);
  pvec("body_pos", m->body_pos, 3 * nb); pvec("body_quat", m->body_quat, 4 * nb);
  pvec("body_ipos", m->body_ipos, 3 * nb); pvec("body_iquat", m->body_iquat, 4 * nb);
  pbvec("body_sameframe", m->body_sameframe, nb);
  pvec("mocap_pos", d->mocap_pos, 3 * nm); pvec("mocap_quat", d->mocap_quat, 4 * nm);
  pivec("jnt_type", m->jnt_type, nj); pivec("jnt_qposadr", m->jnt_qposadr, nj);
  pvec("jnt_pos", m->jnt_pos, 3 * nj); pvec("jnt_axis", m->jnt_axis, 3 * nj);
  pvec("qpos0", m->qpos0, nq); pvec("qpos", d->qpos, nq);
  pivec("geom_bodyid", m->geom_bodyid, ng); pvec("geom_pos", m->geom_pos, 3 * ng); pvec("geom_quat", m->geom_quat, 4 * ng);
  pbvec("geom_sameframe", m->geom_sameframe, ng);
  pivec("site_bodyid", m->site_bodyid, ns); pvec("site_pos", m->site_pos, 3 * ns); pvec("site_quat", m->site_quat, 4 * ns);
  pbvec("site_sameframe", m->site_sameframe, ns);
  pivec("cam_bodyid", m->cam_bodyid, nc); pvec("cam_pos", m->cam_pos, 3 * nc); pvec("cam_quat", m->cam_quat, 4 * nc);
  mj_kinematics(m, d);
  mj_comPos(m, d);
  mj_camlight(m, d);
  printf(" ->");
  pvec("xpos", d->xpos, 3 * nb); pvec("xquat", d->xquat, 4 * nb); pvec("xmat", d->xmat, 9 * nb);
  pvec("xanchor", d->xanchor, 3 * nj); pvec("xaxis", d->xaxis, 3 * nj);
  pvec("xipos", d->xipos, 3 * nb); pvec("ximat", d->ximat, 9 * nb);
  pvec("geom_xpos", d->geom_xpos, 3 * ng); pvec("geom_xmat", d->geom_xmat, 9 * ng);
  pvec("site_xpos", d->site_xpos, 3 * ns); pvec("site_xmat", d->site_xmat, 9 * ns);
  pvec("cam_xpos", d->cam_xpos, 3 * nc); pvec("cam_xmat", d->cam_xmat, 9 * nc);
  printf("\n");
}

static void pjac(const char* pre, int id, const char* suf, const double* j, int n) {
  char key[32];
  snprintf(key, sizeof key, "%s%d%s", pre, id, suf);
  pvec(key, j, n);
}

static void pobjvel(const char* pre, int objtype, int id) {
  double r[12];
  mj_objectVelocity(m, d, objtype, id, r, 0);
  mj_objectVelocity(m, d, objtype, id, r + 6, 1);
  char key[32];
  snprintf(key, sizeof key, "%s%d", pre, id);
  pvec(key, r, 12);
}

int main(void) {
  mju_user_error = on_error;
  mju_user_warning = on_warning;
  static char line[1 << 22];
  static char* tok[1 << 18];
  while (fgets(line, sizeof line, stdin)) {
    size_t L = strlen(line);
    if (!strncmp(line, "model ", 6)) {
      jb_armed = 1;
      if (setjmp(jb)) { jb_armed = 0; printf("error %s\n", lasterr); fflush(stdout); continue; }
      if (d) { mj_deleteData(d); d = NULL; }
      if (m) { mj_deleteModel(m); m = NULL; }
      if (spec) { mj_deleteSpec(spec); spec = NULL; }
      for (size_t i = 6; i < L; i++) if (line[i] == '|') line[i] = '\n';
      FILE* f = fmemopen(line + 6, L - 6, "r");
      char err[1024];
      m = mjb_compile(f, &spec, err, sizeof err);
      fclose(f);
      for (char* c = err; *c; c++) if (*c == '\n' || *c == '\r') *c = ' ';
      if (!m) printf("error %s\n", err);
      else {
        d = mj_makeData(m);
        int fixedcams = 1;
        for (int i = 0; i < m->ncam; i++) if (m->cam_mode[i] != mjCAMLIGHT_FIXED) fixedcams = 0;
        printf("ok nq %d nv %d nbody %d njnt %d ngeom %d nsite %d ncam %d nmocap %d fixedcams %d", (int)m->nq, (int)m->nv,
               (int)m->nbody, (int)m->njnt, (int)m->ngeom, (int)m->nsite, (int)m->ncam, (int)m->nmocap, fixedcams);
        pivec("jnt_type", m->jnt_type, (int)m->njnt);   // lets the generator verify its joint order (bodies are renumbered depth-first)
        printf("\n");
      }
      jb_armed = 0;
      fflush(stdout);
      continue;
    }
    int n = 0; char* save; char* t = strtok_r(line, " \t\r\n", &save);
    while (t && n < (1 << 18)) { tok[n++] = t; t = strtok_r(NULL, " \t\r\n", &save); }
    if (!n || !m || !d) { printf("bad-op\n"); fflush(stdout); continue; }
    const char* op = tok[0];
    int nv = (int)m->nv, nq = (int)m->nq, nb = (int)m->nbody, nj = (int)m->njnt;
    jb_armed = 1;
    if (setjmp(jb)) { jb_armed = 0; printf("error %s\n", lasterr); fflush(stdout); continue; }
    if (!strcmp(op, "set") && n >= 2) {
      double* dst = NULL; int cnt = 0;
      if (!strcmp(tok[1], "qpos")) { dst = d->qpos; cnt = nq; }
      else if (!strcmp(tok[1], "qvel")) { dst = d->qvel; cnt = nv; }
      else if (!strcmp(tok[1], "mocap_pos")) { dst = d->mocap_pos; cnt = 3 * (int)m->nmocap; }
      else if (!strcmp(tok[1], "mocap_quat")) { dst = d->mocap_quat; cnt = 4 * (int)m->nmocap; }
      if (!dst || n - 2 != cnt) printf("bad-op\n");
      else {
        double* tmp = buf(cnt);
        if (!getv(tok + 2, cnt, tmp)) printf("bad-op\n");
        else { memcpy(dst, tmp, sizeof(double) * cnt); printf("ok\n"); }
        free(tmp);
      }
    } else if (!strcmp(op, "kin") && n == 1) {
      op_kin();
    } else if (!strcmp(op, "integ") && n == 2 + nv) {
      double dt; double* v = buf(nv);
      if (!getf(tok[1], &dt) || !getv(tok + 2, nv, v)) printf("bad-op\n");
      else {
        printf("INTEG"); pivec("jnt_type", m->jnt_type, nj); pvec("qpos", d->qpos, nq); pvec("qvel", v, nv); pvec("dt", &dt, 1);
        mj_integratePos(m, d->qpos, v, dt);
        printf(" ->"); for (int i = 0; i < nq; i++) pbits(d->qpos[i]); printf("\n");
      }
      free(v);
    } else if (!strcmp(op, "diff") && n == 2 + 2 * nq) {
      double dt; double* q = buf(2 * nq); double* v = buf(nv);
      if (!getf(tok[1], &dt) || !getv(tok + 2, 2 * nq, q)) printf("bad-op\n");
      else {
        printf("DIFF"); pivec("jnt_type", m->jnt_type, nj); pvec("qpos1", q, nq); pvec("qpos2", q + nq, nq); pvec("dt", &dt, 1);
        mj_differentiatePos(m, v, dt, q, q + nq);
        printf(" ->"); for (int i = 0; i < nv; i++) pbits(v[i]); printf("\n");
      }
      free(q); free(v);
    } else if (!strcmp(op, "diffint") && n == 2 + nv) {
      double dt; double* v = buf(nv); double* w = buf(nv); double* q2 = buf(nq); double* q3 = buf(nq);
      if (!getf(tok[1], &dt) || !getv(tok + 2, nv, v)) printf("bad-op\n");
      else {
        memcpy(q2, d->qpos, sizeof(double) * nq);
        mj_integratePos(m, q2, v, dt);
        mj_differentiatePos(m, w, dt, d->qpos, q2);
        memcpy(q3, d->qpos, sizeof(double) * nq);
        mj_integratePos(m, q3, w, dt);
        printf("diffint"); pvec("q2", q2, nq); pvec("w", w, nv); pvec("q3", q3, nq); printf("\n");
      }
      free(v); free(w); free(q2); free(q3);
    } else if (!strcmp(op, "info") && n == 1) {
      printf("info");
      pivec("body_parentid", m->body_parentid, nb); pivec("body_rootid", m->body_rootid, nb);
      pivec("body_weldid", m->body_weldid, nb); pivec("body_dofnum", m->body_dofnum, nb);
      pivec("body_dofadr", m->body_dofadr, nb); pivec("dof_bodyid", m->dof_bodyid, nv); pivec("dof_jntid", m->dof_jntid, nv);
      pivec("dof_parentid", m->dof_parentid, nv); pivec("jnt_type", m->jnt_type, nj); pivec("jnt_dofadr", m->jnt_dofadr, nj);
      pivec("jnt_qposadr", m->jnt_qposadr, nj);
      pivec("jnt_bodyid", m->jnt_bodyid, nj); pivec("geom_bodyid", m->geom_bodyid, (int)m->ngeom);
      pivec("site_bodyid", m->site_bodyid, (int)m->nsite); pivec("cam_bodyid", m->cam_bodyid, (int)m->ncam);
      pvec("body_mass", m->body_mass, nb); pvec("body_subtreemass", m->body_subtreemass, nb);
      pvec("geom_quat", m->geom_quat, 4 * (int)m->ngeom); pvec("site_quat", m->site_quat, 4 * (int)m->nsite);
      pvec("cam_quat", m->cam_quat, 4 * (int)m->ncam); pvec("body_iquat", m->body_iquat, 4 * nb);
      pbvec("geom_sameframe", m->geom_sameframe, (int)m->ngeom); pbvec("site_sameframe", m->site_sameframe, (int)m->nsite);
      pbvec("body_sameframe", m->body_sameframe, nb);
      pvec("body_ipos", m->body_ipos, 3 * nb); pvec("geom_pos", m->geom_pos, 3 * (int)m->ngeom);
      pvec("site_pos", m->site_pos, 3 * (int)m->nsite); pvec("cam_pos", m->cam_pos, 3 * (int)m->ncam);
      printf("\n");
    } else if (!strcmp(op, "com") && n == 1) {
      printf("com"); pvec("subtree_com", d->subtree_com, 3 * nb); pvec("cdof", d->cdof, 6 * nv); printf("\n");
    } else if (!strcmp(op, "pts") && n >= 2) {
      int k = atoi(tok[1]);
      if (k < 0 || k > 4096 || n != 2 + 4 * k) printf("bad-op\n");
      else {
        double* out = buf(3 * k); int ok = 1;
        for (int i = 0; i < k && ok; i++) {
          int b = atoi(tok[2 + 4 * i]); double r[3];
          if (b < 0 || b >= nb || !getv(tok + 3 + 4 * i, 3, r)) { ok = 0; break; }
          mj_local2Global(d, out + 3 * i, NULL, r, NULL, b, 0);
        }
        if (!ok) printf("bad-op\n"); else { printf("pts"); pvec("pts", out, 3 * k); printf("\n"); }
        free(out);
      }
    } else if (!strcmp(op, "jacs") && n == 1) {
      double* jp = buf(3 * nv); double* jr = buf(3 * nv);
      printf("jacs");
      for (int b = 0; b < nb; b++) {
        mj_jacBody(m, d, jp, jr, b); pjac("jb", b, "p", jp, 3 * nv); pjac("jb", b, "r", jr, 3 * nv);
        mj_jacBodyCom(m, d, jp, jr, b); pjac("jc", b, "p", jp, 3 * nv); pjac("jc", b, "r", jr, 3 * nv);
        mj_jacSubtreeCom(m, d, jp, b); pjac("js", b, "p", jp, 3 * nv);
      }
      for (int g = 0; g < m->ngeom; g++) { mj_jacGeom(m, d, jp, jr, g); pjac("jg", g, "p", jp, 3 * nv); pjac("jg", g, "r", jr, 3 * nv); }
      for (int s = 0; s < m->nsite; s++) { mj_jacSite(m, d, jp, jr, s); pjac("jt", s, "p", jp, 3 * nv); pjac("jt", s, "r", jr, 3 * nv); }
      printf("\n");
      free(jp); free(jr);
    } else if ((!strcmp(op, "jacpt") || !strcmp(op, "jacdot")) && n == 5) {
      int b = atoi(tok[1]); double r[3], p[3];
      if (b < 0 || b >= nb || !getv(tok + 2, 3, r)) printf("bad-op\n");
      else {
        double* jp = buf(3 * nv); double* jr = buf(3 * nv);
        mj_local2Global(d, p, NULL, r, NULL, b, 0);
        if (!strcmp(op, "jacpt")) mj_jac(m, d, jp, jr, p, b); else mj_jacDot(m, d, jp, jr, p, b);
        printf("%s", op); pvec("point", p, 3); pvec("jacp", jp, 3 * nv); pvec("jacr", jr, 3 * nv); printf("\n");
        free(jp); free(jr);
      }
    } else if (!strcmp(op, "jacsparse") && n == 2) {
      int b = atoi(tok[1]);
      if (b < 0 || b >= nb) printf("bad-op\n");
      else {
        int* chain = (int*)calloc(nv + 1, sizeof(int));
        int NV = mj_bodyChain(m, b, chain);
        double* jp = buf(3 * NV); double* jr = buf(3 * NV);
        if (NV > 0) mj_jacSparse(m, d, jp, jr, d->xipos + 3 * b, b, NV, chain, 0);
        printf("jacsparse"); pivec("chain", chain, NV); pvec("jacp", jp, 3 * NV); pvec("jacr", jr, 3 * NV); printf("\n");
        free(chain); free(jp); free(jr);
      }
    } else if (!strcmp(op, "vel") && n == 1) {
      mj_comVel(m, d);
      printf("vel"); pvec("cvel", d->cvel, 6 * nb);
      for (int b = 0; b < nb; b++) { pobjvel("ob", mjOBJ_BODY, b); pobjvel("ox", mjOBJ_XBODY, b); }
      for (int g = 0; g < m->ngeom; g++) pobjvel("og", mjOBJ_GEOM, g);
      for (int s = 0; s < m->nsite; s++) pobjvel("os", mjOBJ_SITE, s);
      for (int c = 0; c < m->ncam; c++) pobjvel("oc", mjOBJ_CAMERA, c);
      printf("\n");
    } else {
      printf("bad-op\n");
    }
    jb_armed = 0;
    fflush(stdout);
  }
  return 0;
}
