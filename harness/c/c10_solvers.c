// c10_solvers.c — implementation side of C10 (DESIGN.md §5.C10).
// Runs the real constraint solvers of the tree (mj_forward with Newton / CG / PGS, islands on/off) and dumps what the
// Lean certificate checker (lean/Drivers/C10.lean) needs; runs the real static PrimalSearch / PrimalPrepare / PrimalEval of
// engine_solver.c (reached by including that file) on synthetic one-dof line problems.
//
//   model ... end                         build a model (harness/mjbuild.h)                      -> ok nq nv nbody | error ..
//   state <field> v...                    remembered state field: qpos qvel act ctrl qfrc_applied xfrc_applied mocap_pos
//                                         mocap_quat warm (= qacc_warmstart)                      -> ok
//   solve <solver> <cone> <jacobian> <noisland> <iterations> <tolerance> <nowarm> <ls_iterations> <impratio> <noslip>
//                                         reset, load the remembered state, set the options, mj_forward, dump     -> {json}
//   settle <n>                            load the remembered state, run n mj_step with the model's own options, then
//                                         remember the reached state (incl. qacc_warmstart)        -> ok ncon nefc
//   ls <tol> <lsiter> <scale> <v> <M> <Ma> <qfs> <ne> <nf> <nrows> {D R floss Jaref J}*nrows       (floats = 16 hex digits)
//                                         real PrimalSearch on an mjPrimalContext with nv = 1     -> alpha improvement LSresult LSiter LSslope
#include <math.h>
#include <setjmp.h>
#include <stdint.h>
#include <stdio.h>
#include <stdlib.h>
#include <string.h>
#include <mujoco/mujoco.h>
#include "mjbuild.h"
#include "engine/engine_solver.c"   // static PrimalSearch, mjPrimalContext

static jmp_buf jb;
static int jb_armed = 0;
static char lasterr[1024];
static void on_error(const char* msg) {
  snprintf(lasterr, sizeof lasterr, "%s", msg);
  for (char* c = lasterr; *c; c++) if (*c == '\n') *c = ' ';
  if (jb_armed) longjmp(jb, 1);
  fprintf(stderr, "unguarded mju_error: %s\n", msg);
  exit(3);
}
static int nwarn_ls = 0;
static void on_warning(const char* msg) { if (strstr(msg, "not convex")) nwarn_ls++; }

static int parse_hex(const char* s, double* out) {
  if (!strcmp(s, "nan")) { *out = NAN; return 1; }
  if (strlen(s) != 16) return 0;
  uint64_t u = 0;
  for (int i = 0; i < 16; i++) {
    char c = s[i]; int d;
    if (c >= '0' && c <= '9') d = c - '0';
    else if (c >= 'a' && c <= 'f') d = c - 'a' + 10;
    else return 0;
    u = (u << 4) | (uint64_t)d;
  }
  memcpy(out, &u, 8);
  return 1;
}
static int parse_nat(const char* s, long* out) {
  if (!*s || strlen(s) > 9) return 0;
  for (const char* c = s; *c; c++) if (*c < '0' || *c > '9') return 0;
  *out = strtol(s, NULL, 10);
  return 1;
}
static void put_hex(double x) {
  if (x != x) { printf("nan"); return; }
  uint64_t u; memcpy(&u, &x, 8);
  printf("%016llx", (unsigned long long)u);
}
static void put_num(double x) {
  if (x != x) printf("NaN");
  else if (isinf(x)) printf(x > 0 ? "Infinity" : "-Infinity");
  else printf("%.17g", x);
}
static void put_nums(const char* key, const double* v, long n, int last) {
  printf("\"%s\":[", key);
  for (long i = 0; i < n; i++) { if (i) printf(","); put_num(v[i]); }
  printf(last ? "]" : "],");
}
static void put_ints(const char* key, const int* v, long n, int last) {
  printf("\"%s\":[", key);
  for (long i = 0; i < n; i++) printf(i ? ",%d" : "%d", v[i]);
  printf(last ? "]" : "],");
}

// ---------------------------------------------------------------- ls: PrimalSearch on a one-dof context
static void op_ls(char** tok, int n) {
  double tol, scale, v, M, Ma, qfs; long lsiter, ne, nf, nr;
  if (n < 11 || !parse_hex(tok[1], &tol) || !parse_nat(tok[2], &lsiter) || !parse_hex(tok[3], &scale) || !parse_hex(tok[4], &v) ||
      !parse_hex(tok[5], &M) || !parse_hex(tok[6], &Ma) || !parse_hex(tok[7], &qfs) || !parse_nat(tok[8], &ne) ||
      !parse_nat(tok[9], &nf) || !parse_nat(tok[10], &nr) || n != 11 + 5 * nr || ne + nf > nr || nr > 4096) { printf("bad-op\n"); return; }
  double* D = calloc(nr + 1, 8); double* R = calloc(nr + 1, 8); double* fl = calloc(nr + 1, 8); double* jaref = calloc(nr + 1, 8);
  double* J = calloc(nr + 1, 8); double* Jv = calloc(nr + 1, 8); double* quad = calloc(3 * nr + 9, 8);
  int* type = calloc(nr + 1, sizeof(int)); int* id = calloc(nr + 1, sizeof(int));
  int bad = 0;
  for (long i = 0; i < nr && !bad; i++) {
    char** t = tok + 11 + 5 * i;
    if (!parse_hex(t[0], D + i) || !parse_hex(t[1], R + i) || !parse_hex(t[2], fl + i) || !parse_hex(t[3], jaref + i) || !parse_hex(t[4], J + i)) bad = 1;
    type[i] = i < ne ? mjCNSTR_EQUALITY : i < ne + nf ? mjCNSTR_FRICTION_DOF : mjCNSTR_LIMIT_JOINT;
  }
  if (bad) { printf("bad-op\n"); goto done; }
  mjPrimalContext ctx;
  memset(&ctx, 0, sizeof ctx);
  int rownnz = 1, rowadr = 0, colind = 0;
  double search = v, Mv = 0, MaA = Ma, qfsA = qfs, Mval = M;
  ctx.is_sparse = 0; ctx.island = -1; ctx.nv = 1; ctx.ne = (int)ne; ctx.nf = (int)nf; ctx.nefc = (int)nr;
  ctx.qfrc_smooth = &qfsA; ctx.M_rownnz = &rownnz; ctx.M_rowadr = &rowadr; ctx.M_colind = &colind; ctx.M = &Mval;
  ctx.efc_D = D; ctx.efc_R = R; ctx.efc_frictionloss = fl; ctx.efc_id = id; ctx.efc_type = type;
  ctx.J = J; ctx.Jaref = jaref; ctx.Jv = Jv; ctx.Ma = &MaA; ctx.Mv = &Mv; ctx.search = &search; ctx.quad = quad;
  ctx.scale = scale; ctx.flg_flex = 0;
  mjtNum improvement = NAN;
  nwarn_ls = 0;
  mjtNum alpha = PrimalSearch(&ctx, tol, (mjtNum)lsiter, &improvement);
  put_hex(alpha); printf(" "); put_hex(improvement); printf(" %d %d ", ctx.LSresult, ctx.LSiter); put_hex(ctx.LSslope); printf("\n");
done:
  free(D); free(R); free(fl); free(jaref); free(J); free(Jv); free(quad); free(type); free(id);
}

// ---------------------------------------------------------------- engine ops
static mjModel* m = NULL;
static mjSpec* spec = NULL;
static mjData* d = NULL;
typedef struct { const char* name; double* buf; long cnt; } Field;
static Field F[9];
static int have_warm = 0;
static mjOption opt0;   // the compiled options (restored by settle so that a replay does not depend on earlier solve ops)

static long field_size(const char* f) {
  if (!strcmp(f, "qpos")) return m->nq;
  if (!strcmp(f, "qvel") || !strcmp(f, "qfrc_applied") || !strcmp(f, "warm")) return m->nv;
  if (!strcmp(f, "act")) return m->na;
  if (!strcmp(f, "ctrl")) return m->nu;
  if (!strcmp(f, "xfrc_applied")) return 6 * m->nbody;
  if (!strcmp(f, "mocap_pos")) return 3 * m->nmocap;
  if (!strcmp(f, "mocap_quat")) return 4 * m->nmocap;
  return -1;
}
static const char* FNAMES[9] = {"qpos", "qvel", "act", "ctrl", "qfrc_applied", "xfrc_applied", "mocap_pos", "mocap_quat", "warm"};

static void alloc_fields(void) {
  for (int i = 0; i < 9; i++) {
    free(F[i].buf);
    F[i].name = FNAMES[i]; F[i].cnt = field_size(FNAMES[i]); F[i].buf = calloc(F[i].cnt + 1, 8);
  }
  memcpy(F[0].buf, m->qpos0, 8 * m->nq);
  for (int b = 0; b < m->nmocap; b++) { F[7].buf[4 * b] = 1; }
  for (int b = 0; b < m->nbody; b++) if (m->body_mocapid[b] >= 0) {
    memcpy(F[6].buf + 3 * m->body_mocapid[b], m->body_pos + 3 * b, 24);
    memcpy(F[7].buf + 4 * m->body_mocapid[b], m->body_quat + 4 * b, 32);
  }
  have_warm = 0;
}

static void load_state(void) {
  mj_resetData(m, d);
  memcpy(d->qpos, F[0].buf, 8 * m->nq); memcpy(d->qvel, F[1].buf, 8 * m->nv); memcpy(d->act, F[2].buf, 8 * m->na);
  memcpy(d->ctrl, F[3].buf, 8 * m->nu); memcpy(d->qfrc_applied, F[4].buf, 8 * m->nv); memcpy(d->xfrc_applied, F[5].buf, 48 * m->nbody);
  memcpy(d->mocap_pos, F[6].buf, 24 * m->nmocap); memcpy(d->mocap_quat, F[7].buf, 32 * m->nmocap);
  if (have_warm) memcpy(d->qacc_warmstart, F[8].buf, 8 * m->nv);
}

static void op_settle(int n) {
  m->opt = opt0;
  load_state();
  for (int i = 0; i < n; i++) mj_step(m, d);
  memcpy(F[0].buf, d->qpos, 8 * m->nq); memcpy(F[1].buf, d->qvel, 8 * m->nv); memcpy(F[2].buf, d->act, 8 * m->na);
  memcpy(F[8].buf, d->qacc_warmstart, 8 * m->nv);
  have_warm = 1;
  mj_forward(m, d);
  printf("ok %d %d\n", d->ncon, d->nefc);
}

static void dense_J(double* J) {
  int nv = m->nv;
  memset(J, 0, sizeof(double) * ((size_t)d->nefc * nv + 1));
  if (mj_isSparse(m)) {
    for (int r = 0; r < d->nefc; r++)
      for (int k = 0; k < d->efc_J_rownnz[r]; k++)
        J[(size_t)r * nv + d->efc_J_colind[d->efc_J_rowadr[r] + k]] = d->efc_J[d->efc_J_rowadr[r] + k];
  } else {
    memcpy(J, d->efc_J, sizeof(double) * (size_t)d->nefc * nv);
  }
}

static void op_solve(char** tok) {
  load_state();
  int solver = atoi(tok[1]), cone = atoi(tok[2]), jac = atoi(tok[3]), noisland = atoi(tok[4]), iters = atoi(tok[5]);
  double tolr = strtod(tok[6], NULL); int nowarm = atoi(tok[7]), lsit = atoi(tok[8]); double impratio = strtod(tok[9], NULL);
  int noslip = atoi(tok[10]);
  m->opt.solver = solver; m->opt.cone = cone; m->opt.jacobian = jac; m->opt.iterations = iters; m->opt.tolerance = tolr;
  m->opt.ls_iterations = lsit; m->opt.impratio = impratio; m->opt.noslip_iterations = noslip;
  m->opt.disableflags &= ~(mjDSBL_ISLAND | mjDSBL_WARMSTART);
  if (noisland) m->opt.disableflags |= mjDSBL_ISLAND;
  if (nowarm) m->opt.disableflags |= mjDSBL_WARMSTART;
  m->opt.enableflags &= ~(mjENBL_SLEEP | mjENBL_FWDINV);
  int nv = m->nv;
  double* warm_in = malloc(8 * (nv + 1));
  memcpy(warm_in, d->qacc_warmstart, 8 * nv);
  mj_forward(m, d);
  int nefc = d->nefc;
  printf("{\"nv\":%d,\"nefc\":%d,\"ne\":%d,\"nf\":%d,\"ncon\":%d,\"nisland\":%d,\"sparse\":%d,\"solver\":%d,\"cone\":%d,\"noisland\":%d,\"nowarm\":%d,\"iterations\":%d,",
         nv, nefc, d->ne, d->nf, d->ncon, d->nisland, mj_isSparse(m), solver, cone, noisland, nowarm, iters);
  printf("\"meaninertia\":"); put_num(m->stat.meaninertia); printf(",\"tolerance\":"); put_num(tolr); printf(",");
  put_ints("niter", d->solver_niter, mjNISLAND, 0);
  // last recorded statistics per island (improvement, gradient)
  printf("\"last\":[");
  int nst = d->nisland > 0 && !noisland ? (d->nisland < mjNISLAND ? d->nisland : mjNISLAND) : 1;
  for (int i = 0; i < nst; i++) {
    int k = d->solver_niter[i]; if (k > mjNSOLVER) k = mjNSOLVER;
    printf(i ? ",[" : "[");
    if (k > 0) { put_num(d->solver[i * mjNSOLVER + k - 1].improvement); printf(","); put_num(d->solver[i * mjNSOLVER + k - 1].gradient); }
    printf("]");
  }
  printf("],");
  double* full = malloc(8 * ((size_t)nv * nv + 1));
  mj_fullM(m, d, full);
  put_nums("M", full, (long)nv * nv, 0);
  put_nums("qacc", d->qacc, nv, 0); put_nums("qacc_smooth", d->qacc_smooth, nv, 0); put_nums("qacc_warmstart", warm_in, nv, 0);
  put_nums("qfrc_smooth", d->qfrc_smooth, nv, 0); put_nums("qfrc_constraint", d->qfrc_constraint, nv, 0);
  double* J = malloc(8 * ((size_t)nefc * nv + 1));
  if (nefc) dense_J(J);
  put_nums("J", J, (long)nefc * nv, 0);
  put_nums("aref", d->efc_aref, nefc, 0); put_nums("D", d->efc_D, nefc, 0); put_nums("R", d->efc_R, nefc, 0);
  put_nums("floss", d->efc_frictionloss, nefc, 0); put_nums("force", d->efc_force, nefc, 0);
  put_ints("type", d->efc_type, nefc, 0); put_ints("id", d->efc_id, nefc, 0); put_ints("state", d->efc_state, nefc, 0);
  if (d->nisland > 0 && nefc) put_ints("efc_island", d->efc_island, nefc, 0);
  if (d->nisland > 0) put_ints("dof_island", d->dof_island, nv, 0);
  put_ints("dof_treeid", m->dof_treeid, nv, 0);
  printf("\"contacts\":[");
  for (int i = 0; i < d->ncon; i++) {
    mjContact* c = d->contact + i;
    printf(i ? ",{" : "{");
    printf("\"dim\":%d,\"adr\":%d,\"mu\":", c->dim, c->efc_address); put_num(c->mu); printf(",");
    put_nums("friction", c->friction, 5, 1);
    printf("}");
  }
  printf("],");
  // the real constraint update at the final acceleration: cost of the constraint part and forces
  double ccost = 0;
  if (nefc) {
    double* jar = malloc(8 * (nefc + 1));
    mj_mulJacVec(m, d, jar, d->qacc);
    for (int i = 0; i < nefc; i++) jar[i] -= d->efc_aref[i];
    mj_constraintUpdate(m, d, jar, &ccost, 0);
    put_nums("force_update", d->efc_force, nefc, 0);
    free(jar);
  }
  printf("\"cost_constraint\":"); put_num(ccost);
  printf(",\"warn\":%d}\n", d->warning[mjWARN_BADQACC].number + d->warning[mjWARN_CNSTRFULL].number + d->warning[mjWARN_CONTACTFULL].number);
  free(full); free(J); free(warm_in);
}

int main(void) {
  mju_user_error = on_error;
  mju_user_warning = on_warning;
  static char line[1 << 22];
  static char* tok[1 << 18];
  while (fgets(line, sizeof line, stdin)) {
    int n = 0; char* save; char* t = strtok_r(line, " \t\r\n", &save);
    while (t && n < (1 << 18)) { tok[n++] = t; t = strtok_r(NULL, " \t\r\n", &save); }
    if (!n) { printf("bad-op\n"); fflush(stdout); continue; }
    const char* op = tok[0];
    jb_armed = 1;
    if (setjmp(jb)) { jb_armed = 0; printf("error %s\n", lasterr); fflush(stdout); continue; }
    if (!strcmp(op, "ls")) op_ls(tok, n);
    else if (!strcmp(op, "model")) {
      if (d) { mj_deleteData(d); d = NULL; }
      if (m) { mj_deleteModel(m); m = NULL; }
      if (spec) { mj_deleteSpec(spec); spec = NULL; }
      char err[1024];
      m = mjb_compile(stdin, &spec, err, sizeof err);
      if (m) d = mj_makeData(m);
      if (!m || !d) printf("error %s\n", m ? "makeData" : err);
      else { opt0 = m->opt; alloc_fields(); printf("ok %d %d %d\n", (int)m->nq, (int)m->nv, (int)m->nbody); }
    } else if (strcmp(op, "state") && strcmp(op, "solve") && strcmp(op, "settle")) {
      printf("bad-op\n");
    } else if (!m || !d) {
      printf("error no model\n");
    } else if (!strcmp(op, "state") && n >= 2) {
      int k = -1;
      for (int i = 0; i < 9; i++) if (!strcmp(tok[1], FNAMES[i])) k = i;
      if (k < 0 || n - 2 > F[k].cnt) printf("bad-op\n");
      else {
        for (int i = 0; i < n - 2; i++) F[k].buf[i] = strtod(tok[2 + i], NULL);
        if (k == 8) have_warm = 1;
        printf("ok\n");
      }
    } else if (!strcmp(op, "solve") && n == 11) op_solve(tok);
    else if (!strcmp(op, "settle") && n == 2) op_settle(atoi(tok[1]));
    else printf("bad-op\n");
    jb_armed = 0;
    fflush(stdout);
  }
  return 0;
}
