// C24 oracle harness: calls the REAL exported mju_*/mjd_* functions of the tree build on token lines and prints
// their raw outputs (IEEE bit patterns).  No quaternion arithmetic is re-implemented here: compositions are
// compositions of calls into the library; the finite differences use only mju_quatIntegrate / mju_subQuat
// (same scheme as test/engine/engine_derivative_test.cc, but central).  The identities are judged in
// checks/c24.py.
//
// line:  OP tok tok ...      float token = 16 hex digits of the IEEE-754 bits ("nan" for NaN)
//   Q a(4) b(4) c(4) v(3)            quaternion / rotation / matrix identities
//   A axis(3) angle v(3) dt          axis-angle
//   I q(4) vel(3) h eps              quatIntegrate, subQuat round trip, mjd_quatIntegrate + FD
//   S qa(4) qb(4) eps                subQuat, reconstruction, mjd_subQuat + FD
//   P p1(3) q1(4) p2(3) q2(4) p3(3) q3(4) v(3)   poses
//   N3 v(3) | N4 q(4)                normalisation (applied twice)
//   Z v(3)                           quatZ2Vec
//   E e(3) seq                       euler2Quat and the product of axis rotations built from real functions
//   R q(4)                           mat2Rot on the matrix of q, started from the identity
#include <math.h>
#include <setjmp.h>
#include <stdint.h>
#include <stdio.h>
#include <stdlib.h>
#include <string.h>

#include <mujoco/mujoco.h>

static jmp_buf errjmp;
static void on_error(const char* msg) { (void)msg; longjmp(errjmp, 1); }
static void on_warning(const char* msg) { (void)msg; }

static int first;
static void putf(double x) {
  uint64_t u;
  memcpy(&u, &x, 8);
  if (x != x) printf(first ? "nan" : " nan");
  else printf(first ? "%016llx" : " %016llx", (unsigned long long)u);
  first = 0;
}
static void putv(const double* x, int n) { for (int i = 0; i < n; i++) putf(x[i]); }
static int getf(const char* t, double* x) {
  if (!strcmp(t, "nan")) { *x = NAN; return 1; }
  if (strlen(t) != 16) return 0;
  char* e;
  uint64_t u = strtoull(t, &e, 16);
  if (*e) return 0;
  memcpy(x, &u, 8);
  return 1;
}
static int getv(char** tok, int n, double* x) {
  for (int i = 0; i < n; i++) if (!getf(tok[i], &x[i])) return 0;
  return 1;
}

static void opQ(const double* in) {
  const double *a = in, *b = in + 4, *c = in + 8, *v = in + 12;
  double ab[4], abc1[4], bc[4], abc2[4], na[4], a_na[4], na_a[4];
  mju_mulQuat(ab, a, b);
  mju_mulQuat(abc1, ab, c);
  mju_mulQuat(bc, b, c);
  mju_mulQuat(abc2, a, bc);
  mju_negQuat(na, a);
  mju_mulQuat(a_na, a, na);
  mju_mulQuat(na_a, na, a);
  double rva[3], rvb[3], rvab[3], rvba[3], rback[3], rvna[3];
  mju_rotVecQuat(rva, v, a);
  mju_rotVecQuat(rvb, v, b);
  mju_rotVecQuat(rvab, v, ab);
  mju_rotVecQuat(rvba, rvb, a);
  mju_rotVecQuat(rback, rva, na);
  mju_rotVecQuat(rvna, v, na);
  double Ma[9], Mb[9], Mab[9], Mav[3], MaTv[3], m2q[4];
  mju_quat2Mat(Ma, a);
  mju_quat2Mat(Mb, b);
  mju_quat2Mat(Mab, ab);
  mju_mulMatVec3(Mav, Ma, v);
  mju_mulMatTVec3(MaTv, Ma, v);
  mju_mat2Quat(m2q, Ma);
  putv(ab, 4); putv(abc1, 4); putv(abc2, 4); putv(na, 4); putv(a_na, 4); putv(na_a, 4);
  putv(rva, 3); putv(rvb, 3); putv(rvab, 3); putv(rvba, 3); putv(rback, 3);
  putv(Ma, 9); putv(Mb, 9); putv(Mab, 9); putv(Mav, 3); putv(MaTv, 3); putv(rvna, 3); putv(m2q, 4);
}

static void opA(const double* in) {
  const double *axis = in, *v = in + 4;
  double angle = in[3], dt = in[7];
  double q[4], rax[3], rv[3], vel[3];
  mju_axisAngle2Quat(q, axis, angle);
  mju_rotVecQuat(rax, axis, q);
  mju_rotVecQuat(rv, v, q);
  mju_quat2Vel(vel, q, dt);
  putv(q, 4); putv(rax, 3); putv(rv, 3); putv(vel, 3);
}

// tangent-space nudge of a quaternion: q (+) eps*e_i, through the real mju_quatIntegrate
static void nudge(double out[4], const double q[4], int i, double eps) {
  double dx[3] = {0, 0, 0};
  dx[i] = 1.0;
  mju_copy4(out, q);
  mju_quatIntegrate(out, dx, eps);
}

static void opI(const double* in) {
  const double* vel = in + 4;
  double h = in[7], eps = in[8];
  double qn[4], y[4], sub[3];
  mju_copy4(qn, in);
  mju_normalize4(qn);
  mju_copy4(y, in);
  mju_quatIntegrate(y, vel, h);
  mju_subQuat(sub, y, qn);
  double Dquat[9], Dvel[9], Dscale[3];
  mjd_quatIntegrate(vel, h, Dquat, Dvel, Dscale);
  // also the entry points with NULL outputs must agree
  double Dquat2[9], Dscale2[3];
  mjd_quatIntegrate(vel, h, Dquat2, NULL, NULL);
  mjd_quatIntegrate(vel, h, NULL, NULL, Dscale2);
  double FDq[9], FDs[9], FDh[3], dq[4], dyp[3], dym[3];
  for (int i = 0; i < 3; i++) {
    // d y / d quat (tangent)
    nudge(dq, qn, i, eps);  mju_quatIntegrate(dq, vel, h); mju_subQuat(dyp, dq, y);
    nudge(dq, qn, i, -eps); mju_quatIntegrate(dq, vel, h); mju_subQuat(dym, dq, y);
    for (int r = 0; r < 3; r++) FDq[3 * r + i] = (dyp[r] - dym[r]) / (2 * eps);
    // d y / d (scaled velocity)
    double sv[3] = {vel[0] * h, vel[1] * h, vel[2] * h};
    sv[i] += eps;
    mju_copy4(dq, qn); mju_quatIntegrate(dq, sv, 1.0); mju_subQuat(dyp, dq, y);
    sv[i] -= 2 * eps;
    mju_copy4(dq, qn); mju_quatIntegrate(dq, sv, 1.0); mju_subQuat(dym, dq, y);
    for (int r = 0; r < 3; r++) FDs[3 * r + i] = (dyp[r] - dym[r]) / (2 * eps);
  }
  mju_copy4(dq, qn); mju_quatIntegrate(dq, vel, h + eps); mju_subQuat(dyp, dq, y);
  mju_copy4(dq, qn); mju_quatIntegrate(dq, vel, h - eps); mju_subQuat(dym, dq, y);
  for (int r = 0; r < 3; r++) FDh[r] = (dyp[r] - dym[r]) / (2 * eps);
  putv(qn, 4); putv(y, 4); putv(sub, 3); putv(Dquat, 9); putv(Dvel, 9); putv(Dscale, 3);
  putv(FDq, 9); putv(FDs, 9); putv(FDh, 3); putv(Dquat2, 9); putv(Dscale2, 3);
}

static void opS(const double* in) {
  const double *qa = in, *qb = in + 4;
  double eps = in[8];
  double y[3], rec[4];
  mju_subQuat(y, qa, qb);
  mju_copy4(rec, qb);
  mju_quatIntegrate(rec, y, 1.0);
  double Da[9], Db[9], Da2[9], Db2[9];
  mjd_subQuat(qa, qb, Da, Db);
  mjd_subQuat(qa, qb, Da2, NULL);
  mjd_subQuat(qa, qb, NULL, Db2);
  double FDa[9], FDb[9], dq[4], dyp[3], dym[3];
  for (int i = 0; i < 3; i++) {
    nudge(dq, qa, i, eps);  mju_subQuat(dyp, dq, qb);
    nudge(dq, qa, i, -eps); mju_subQuat(dym, dq, qb);
    for (int r = 0; r < 3; r++) FDa[3 * r + i] = (dyp[r] - dym[r]) / (2 * eps);
    nudge(dq, qb, i, eps);  mju_subQuat(dyp, qa, dq);
    nudge(dq, qb, i, -eps); mju_subQuat(dym, qa, dq);
    for (int r = 0; r < 3; r++) FDb[3 * r + i] = (dyp[r] - dym[r]) / (2 * eps);
  }
  putv(y, 3); putv(rec, 4); putv(Da, 9); putv(Db, 9); putv(FDa, 9); putv(FDb, 9); putv(Da2, 9); putv(Db2, 9);
}

static void opP(const double* in) {
  const double *p1 = in, *q1 = in + 3, *p2 = in + 7, *q2 = in + 10, *p3 = in + 14, *q3 = in + 17, *v = in + 21;
  double a[7], b[7], c[7], d[7], n1[7], e[7], f[7];
  mju_mulPose(a, a + 3, p1, q1, p2, q2);              // P1*P2
  mju_mulPose(b, b + 3, a, a + 3, p3, q3);            // (P1*P2)*P3
  mju_mulPose(c, c + 3, p2, q2, p3, q3);              // P2*P3
  mju_mulPose(d, d + 3, p1, q1, c, c + 3);            // P1*(P2*P3)
  mju_negPose(n1, n1 + 3, p1, q1);
  mju_mulPose(e, e + 3, p1, q1, n1, n1 + 3);
  mju_mulPose(f, f + 3, n1, n1 + 3, p1, q1);
  double t2v[3], t1t2v[3], t12v[3], t1v[3], tn1t1v[3];
  mju_trnVecPose(t2v, p2, q2, v);
  mju_trnVecPose(t1t2v, p1, q1, t2v);
  mju_trnVecPose(t12v, a, a + 3, v);
  mju_trnVecPose(t1v, p1, q1, v);
  mju_trnVecPose(tn1t1v, n1, n1 + 3, t1v);
  putv(a, 7); putv(b, 7); putv(d, 7); putv(n1, 7); putv(e, 7); putv(f, 7);
  putv(t1t2v, 3); putv(t12v, 3); putv(tn1t1v, 3); putv(t1v, 3);
}

static void opN3(const double* in) {
  double v[3] = {in[0], in[1], in[2]};
  double n1 = mju_normalize3(v);
  double w[3] = {v[0], v[1], v[2]};
  double n2 = mju_normalize3(w);
  putf(n1); putv(v, 3); putf(n2); putv(w, 3);
}

static void opN4(const double* in) {
  double v[4] = {in[0], in[1], in[2], in[3]};
  double n1 = mju_normalize4(v);
  double w[4] = {v[0], v[1], v[2], v[3]};
  double n2 = mju_normalize4(w);
  putf(n1); putv(v, 4); putf(n2); putv(w, 4);
}

static void opZ(const double* in) {
  double q[4], z[3] = {0, 0, 1}, r[3];
  mju_quatZ2Vec(q, in);
  mju_rotVecQuat(r, z, q);
  putv(q, 4); putv(r, 3);
}

static void opE(const double* e, const char* seq) {
  double q[4];
  mju_euler2Quat(q, e, seq);
  // the same product assembled from mju_axisAngle2Quat and mju_mulQuat
  double acc[4] = {1, 0, 0, 0};
  for (int i = 0; i < 3; i++) {
    char ch = seq[i];
    double axis[3] = {0, 0, 0}, r[4];
    axis[(ch == 'x' || ch == 'X') ? 0 : (ch == 'y' || ch == 'Y') ? 1 : 2] = 1;
    mju_axisAngle2Quat(r, axis, e[i]);
    if (ch == 'x' || ch == 'y' || ch == 'z') mju_mulQuat(acc, acc, r);
    else mju_mulQuat(acc, r, acc);
  }
  double M[9];
  mju_quat2Mat(M, q);
  putv(q, 4); putv(acc, 4); putv(M, 9);
}

static void opR(const double* q) {
  double M[9], r[4] = {1, 0, 0, 0}, Mr[9];
  mju_quat2Mat(M, q);
  int it = mju_mat2Rot(r, M);
  mju_quat2Mat(Mr, r);
  putf((double)it); putv(r, 4); putv(M, 9); putv(Mr, 9);
}

static void run(char** tok, int n) {
  static const struct { const char* name; int nin; void (*f)(const double*); } ops[] = {
    {"Q", 15, opQ}, {"A", 8, opA}, {"I", 9, opI}, {"S", 9, opS}, {"P", 24, opP},
    {"N3", 3, opN3}, {"N4", 4, opN4}, {"Z", 3, opZ}, {"R", 4, opR},
  };
  double in[32];
  first = 1;
  if (n < 1) { printf("bad-op\n"); return; }
  if (!strcmp(tok[0], "E")) {
    if (n != 5 || strlen(tok[4]) != 3 || strspn(tok[4], "xyzXYZ") != 3 || !getv(tok + 1, 3, in)) {
      printf("bad-op\n");
      return;
    }
    if (setjmp(errjmp)) { printf("error\n"); return; }
    opE(in, tok[4]);
    printf("\n");
    return;
  }
  for (unsigned k = 0; k < sizeof ops / sizeof ops[0]; k++) {
    if (!strcmp(tok[0], ops[k].name)) {
      if (n != 1 + ops[k].nin || !getv(tok + 1, ops[k].nin, in)) { printf("bad-op\n"); return; }
      if (setjmp(errjmp)) { printf("error\n"); return; }
      ops[k].f(in);
      printf("\n");
      return;
    }
  }
  printf("bad-op\n");
}

int main(void) {
  mju_user_error = on_error;
  mju_user_warning = on_warning;
  static char line[1 << 14];
  char* tok[256];
  while (fgets(line, sizeof line, stdin)) {
    int n = 0;
    char* save;
    for (char* t = strtok_r(line, " \t\r\n", &save); t && n < 256; t = strtok_r(NULL, " \t\r\n", &save)) tok[n++] = t;
    run(tok, n);
    fflush(stdout);
  }
  return 0;
}
