// c11_constraint.c — implementation side of C11/C12 (DESIGN.md §5.C11, §5.C12).
// Calls the real code of the tree: the exported mj_constraintUpdate_impl, mju_mulMatTVec,
// mju_decodePyramid, mju_encodePyramid, mj_contactForce, mj_forward, and the static projectCone of
// engine_solver.c (reached by including that file into this translation unit).
//
// Synthetic ops (same line protocol as lean/Drivers/C11.lean; floats = 16 hex digits of the IEEE bits):
//   upd <ne> <nf> <flgH> <nefc> <ncon> {D R floss jar type id}*nefc {dim mu f0..f4}*ncon
//   jtv <nr> <nc> mat*(nr*nc) vec*nr | dec <dim> pyr.. mu*5 | enc <dim> force*dim mu*5 | pc <ell> <dim> force*dim mu*5
//   qcqp <dim> <fn> Ac*(dim-1)^2 bc*(dim-1) mu*5      (static solveQCQP; implementation-only op for the oracle)
//   imp <nefnf> <impratio> <nefc> <ncon> {diagA imp type id}*nefc {dim f0..f4}*ncon
//        the real mj_makeImpedance on an mjData assembled from the op (flat solimp = imp, so that getimpedance
//        returns exactly imp; checked on efc_KBIP)  -> R efc_R*nefc | D efc_D*nefc | m {contact.mu|-}*ncon
// Engine ops (oracle side only; numbers printed with %.17g as one JSON object per line):
//   model ... end                          build an mjModel through harness/mjbuild.h      -> ok nq nv ngeom | error ..
//   opt <solver> <cone> <jacobian> <iterations> <tolerance> <impratio> <noslip_iterations>      -> ok
//   adhesion v*ngeom                       m->geom_adhesion (and flg_adhesion)               -> ok
//   set <qpos|qvel|act|ctrl|qfrc_applied|xfrc_applied|mocap_pos|mocap_quat> v...           -> ok
//   reset | step <n>                                                                       -> ok
//   fwd                                    mj_forward, then dump constraint data           -> {json}
//   fwdq                                   mj_forward only                                 -> ok <nefc> <ncon>
//   updline <flgH>                         `upd` op line built from the engine's own efc arrays, jar = J*qacc - aref
//   impline                                `imp` op line built from the engine's own efc arrays, followed by ` => ` and the
//                                          efc_R / efc_D / contact.mu that the real mj_makeImpedance(m, d) computes from them
//   islandline                             island-ordered parameter copies (iefc_type/id/frictionloss/D/R), the efc<->iefc maps and
//                                          the per-island counts next to the global arrays (C12: the copies are the gather)
// Call histories on one mjData (C11: the admissibility / J'f clauses hold after EVERY forward call, whatever the calls before):
//   flags <disableflags> <enableflags>     m->opt.disableflags / enableflags (user-settable between calls)       -> ok
//   eqactive b*neq                         d->eq_active                                                          -> ok
//   refwd <hex>                            requires a preceding fwd on the same state: overwrites the outputs of
//                                          mj_fwdConstraint that C11 observes (qfrc_constraint, efc_force and their island
//                                          copies ifrc_constraint / iefc_force) with the given value, re-runs the real
//                                          mj_fwdConstraint(m, d) and dumps like fwd (mj_forward is NOT re-run)  -> {json}
#include <math.h>
#include <setjmp.h>
#include <stdint.h>
#include <stdio.h>
#include <stdlib.h>
#include <string.h>
#include <mujoco/mujoco.h>
#include "mjbuild.h"
#include "engine/engine_solver.c"   // static projectCone / projectEllipsoid

static jmp_buf jb;
static int jb_armed = 0;
static char lasterr[1024];
static void on_error(const char* msg) {
  snprintf(lasterr, sizeof lasterr, "%s", msg);
  for (char* c = lasterr; *c; c++) if (*c == '\n') *c = ' ';
  if (jb_armed) longjmp(jb, 1);
  fprintf(stderr, "unguarded mju_error: %s\n", msg);
  exit(3);
}
static void on_warning(const char* msg) { (void)msg; }

// ---------------------------------------------------------------- token helpers
static int parse_hex(const char* s, double* out) {
  if (!strcmp(s, "nan")) { *out = NAN; return 1; }
  if (strlen(s) != 16) return 0;
  uint64_t u = 0;
  for (int i = 0; i < 16; i++) {
    char c = s[i]; int d;
    if (c >= '0' && c <= '9') d = c - '0';
    else if (c >= 'a' && c <= 'f') d = c - 'a' + 10;
    else return 0;
    u = (u << 4) | (uint64_t)d;
  }
  memcpy(out, &u, 8);
  return 1;
}
static int parse_nat(const char* s, long* out) {
  if (!*s) return 0;
  for (const char* c = s; *c; c++) if (*c < '0' || *c > '9') return 0;
  if (strlen(s) > 9) return 0;
  *out = strtol(s, NULL, 10);
  return 1;
}
static void put_hex(double x) {
  if (x != x) { printf("nan"); return; }
  uint64_t u; memcpy(&u, &x, 8);
  printf("%016llx", (unsigned long long)u);
}
static void put_hexes(const double* v, int n) {
  for (int i = 0; i < n; i++) { if (i) printf(" "); put_hex(v[i]); }
}
static void put_num(double x) {
  if (x != x) printf("NaN");
  else if (isinf(x)) printf(x > 0 ? "Infinity" : "-Infinity");
  else printf("%.17g", x);
}
static void put_nums(const char* key, const double* v, long n, int last) {
  printf("\"%s\":[", key);
  for (long i = 0; i < n; i++) { if (i) printf(","); put_num(v[i]); }
  printf(last ? "]" : "],");
}
static void put_ints(const char* key, const int* v, long n, int last) {
  printf("\"%s\":[", key);
  for (long i = 0; i < n; i++) printf(i ? ",%d" : "%d", v[i]);
  printf(last ? "]" : "],");
}

// ---------------------------------------------------------------- synthetic ops
static void op_upd(char** tok, int n) {
  long ne, nf, flg, nefc, ncon;
  if (n < 6 || !parse_nat(tok[1], &ne) || !parse_nat(tok[2], &nf) || !parse_nat(tok[3], &flg) || flg > 1 ||
      !parse_nat(tok[4], &nefc) || !parse_nat(tok[5], &ncon) || n - 6 != 6 * nefc + 7 * ncon || nefc < ne + nf) {
    printf("bad-op\n"); return;
  }
  double* D = calloc(nefc + 1, 8); double* R = calloc(nefc + 1, 8); double* fl = calloc(nefc + 1, 8);
  double* jar = calloc(nefc + 1, 8); double* force = calloc(nefc + 1, 8);
  int* type = calloc(nefc + 1, 4); int* id = calloc(nefc + 1, 4); int* state = calloc(nefc + 1, 4);
  mjContact* con = calloc(ncon + 1, sizeof(mjContact));
  int bad = 0;
  char** t = tok + 6;
  for (long i = 0; i < nefc && !bad; i++, t += 6) {
    long ty, k;
    if (!parse_hex(t[0], D + i) || !parse_hex(t[1], R + i) || !parse_hex(t[2], fl + i) || !parse_hex(t[3], jar + i) ||
        !parse_nat(t[4], &ty) || !parse_nat(t[5], &k)) bad = 1;
    else { type[i] = (int)ty; id[i] = (int)k; }
  }
  for (long c = 0; c < ncon && !bad; c++, t += 7) {
    long dim;
    if (!parse_nat(t[0], &dim) || !parse_hex(t[1], &con[c].mu)) bad = 1;
    else {
      con[c].dim = (int)dim;
      for (int j = 0; j < 5; j++) if (!parse_hex(t[2 + j], &con[c].friction[j])) bad = 1;
      memset(con[c].H, 0xff, sizeof con[c].H);   // NaN pattern: "not written"
    }
  }
  if (bad) { printf("bad-op\n"); goto done; }
  // refuse inputs on which the function would index outside the arrays handed to it
  for (long i = ne + nf; i < nefc; ) {
    if (type[i] != mjCNSTR_CONTACT_ELLIPTIC) { i++; continue; }
    if (id[i] >= ncon) { printf("oob\n"); goto done; }
    int dim = con[id[i]].dim;
    if (dim < 1 || dim > 6 || i + dim > nefc) { printf("oob\n"); goto done; }
    i += dim;
  }
  for (long i = 0; i < nefc; i++) { state[i] = -1; force[i] = NAN; }
  double cost = NAN;
  mj_constraintUpdate_impl((int)ne, (int)nf, (int)nefc, D, R, fl, jar, type, id, con, state, force, &cost, (int)flg);
  printf("c "); put_hex(cost);
  printf(" | f "); put_hexes(force, (int)nefc);
  printf(" | s ");
  for (long i = 0; i < nefc; i++) printf(i ? " %d" : "%d", state[i]);
  printf(" | h ");
  for (long c = 0; c < ncon; c++) {
    if (c) printf(" ; ");
    int dd = con[c].dim * con[c].dim, written = 0;
    if (con[c].dim >= 1 && con[c].dim <= 6) {
      unsigned char* p = (unsigned char*)con[c].H;
      for (size_t b = 0; b < sizeof con[c].H; b++) if (p[b] != 0xff) written = 1;
    }
    if (written) put_hexes(con[c].H, dd); else printf("-");
  }
  printf("\n");
done:
  free(D); free(R); free(fl); free(jar); free(force); free(type); free(id); free(state); free(con);
}

static int parse_hexes(char** tok, int n, double* out) {
  for (int i = 0; i < n; i++) if (!parse_hex(tok[i], out + i)) return 0;
  return 1;
}

static void op_jtv(char** tok, int n) {
  long nr, nc;
  if (n < 3 || !parse_nat(tok[1], &nr) || !parse_nat(tok[2], &nc) || nc == 0 || n - 3 != nr * nc + nr) { printf("bad-op\n"); return; }
  double* x = calloc(nr * nc + nr + 1, 8); double* res = calloc(nc, 8);
  if (!parse_hexes(tok + 3, n - 3, x)) { printf("bad-op\n"); free(x); free(res); return; }
  for (long i = 0; i < nc; i++) res[i] = NAN;
  mju_mulMatTVec(res, x, x + nr * nc, (int)nr, (int)nc);
  put_hexes(res, (int)nc); printf("\n");
  free(x); free(res);
}

static void op_dec(char** tok, int n, int enc) {
  long dim; double x[32], out[16];
  if (n < 2 || !parse_nat(tok[1], &dim) || dim < (enc ? 2 : 1) || dim > 6) { printf("bad-op\n"); return; }
  int np = enc ? (int)dim : (dim == 1 ? 1 : 2 * ((int)dim - 1));
  if (n - 2 != np + 5 || !parse_hexes(tok + 2, n - 2, x)) { printf("bad-op\n"); return; }
  for (int i = 0; i < 16; i++) out[i] = NAN;
  if (enc) { mju_encodePyramid(out, x, x + np, (int)dim); put_hexes(out, 2 * ((int)dim - 1)); }
  else { mju_decodePyramid(out, x, x + np, (int)dim); put_hexes(out, (int)dim); }
  printf("\n");
}

static void op_pc(char** tok, int n) {
  long ell, dim; double x[16];
  if (n < 3 || !parse_nat(tok[1], &ell) || ell > 1 || !parse_nat(tok[2], &dim) || dim < 1 || dim > 6 ||
      n - 3 != dim + 5 || !parse_hexes(tok + 3, n - 3, x)) { printf("bad-op\n"); return; }
  projectCone(x, x + dim, (int)dim, ell ? mjCNSTR_CONTACT_ELLIPTIC : mjCNSTR_CONTACT_PYRAMIDAL);
  put_hexes(x, (int)dim); printf("\n");
}

// solveQCQP (static, engine_solver.c): the friction update of one elliptic contact in PGS and in the noslip
// solver.  qcqp <dim> <fn> Ac*(dim-1)^2 bc*(dim-1) mu*5  ->  friction*(dim-1)   (oracle only; no Lean model)
static void op_qcqp(char** tok, int n) {
  long dim; double x[64], force[6];
  if (n < 2 || !parse_nat(tok[1], &dim) || dim < 3 || dim > 6) { printf("bad-op\n"); return; }
  int k = (int)dim - 1;
  if (n - 2 != 1 + k * k + k + 5 || !parse_hexes(tok + 2, n - 2, x)) { printf("bad-op\n"); return; }
  force[0] = x[0];
  for (int j = 1; j < 6; j++) force[j] = 0;
  solveQCQP(force, 0, (int)dim, x + 1, x + 1 + k * k, x + 1 + k * k + k);
  put_hexes(force + 1, k); printf("\n");
}

// ---------------------------------------------------------------- mj_makeImpedance on assembled data
// The function reads: m->opt.{impratio,timestep,disableflags}, the per-object solref/solimp arrays of the model
// (for non-contact rows), d->{ne,nf,nefc,efc_type,efc_id,efc_pos,efc_margin,efc_diagA,contact}; it writes
// efc_R, efc_KBIP, efc_D, efc_diagA, contact.mu.  Every row gets its own model object (id = row index) so that its
// impedance can be chosen per row; contact rows use the contacts of the op.
static void put_imp_out(const double* R, const double* D, int nefc, const mjContact* con, int ncon, const unsigned char* written) {
  printf("R "); put_hexes(R, nefc);
  printf(" | D "); put_hexes(D, nefc);
  printf(" | m");
  for (int c = 0; c < ncon; c++) { printf(" "); if (written[c]) put_hex(con[c].mu); else printf("-"); }
  printf("\n");
}

static void op_imp(char** tok, int n) {
  long nefnf, nefc, ncon; double impratio;
  if (n < 5 || !parse_nat(tok[1], &nefnf) || !parse_hex(tok[2], &impratio) || !parse_nat(tok[3], &nefc) ||
      !parse_nat(tok[4], &ncon) || n - 5 != 4 * nefc + 6 * ncon || nefc < nefnf) { printf("bad-op\n"); return; }
  double* diagA = calloc(nefc + 1, 8); double* imp = calloc(nefc + 1, 8);
  double* R = calloc(nefc + 2, 8); double* D = calloc(nefc + 2, 8); double* KBIP = calloc(4 * nefc + 4, 8);
  double* zeros = calloc(nefc + 1, 8);
  double* solref = calloc(2 * nefc + 2, 8); double* solimp = calloc(5 * nefc + 5, 8);
  int* type = calloc(nefc + 1, 4); int* id = calloc(nefc + 1, 4); int* eqtype = calloc(nefc + 1, 4);
  mjContact* con = calloc(ncon + nefc + 1, sizeof(mjContact));
  unsigned char* written = calloc(ncon + 1, 1); unsigned char* used = calloc(ncon + 1, 1);
  static mjModel fm; static mjData fd;
  int bad = 0;
  char** t = tok + 5;
  for (long i = 0; i < nefc && !bad; i++, t += 4) {
    long ty, k;
    if (!parse_hex(t[0], diagA + i) || !parse_hex(t[1], imp + i) || !parse_nat(t[2], &ty) || !parse_nat(t[3], &k) || ty > 7) bad = 1;
    else { type[i] = (int)ty; id[i] = (int)k; }
  }
  for (long c = 0; c < ncon && !bad; c++, t += 6) {
    long dim;
    if (!parse_nat(t[0], &dim)) bad = 1;
    else {
      con[c].dim = (int)dim;
      for (int j = 0; j < 5; j++) if (!parse_hex(t[1 + j], &con[c].friction[j])) bad = 1;
    }
  }
  for (long i = 0; i < nefnf && !bad; i++)
    if (type[i] == mjCNSTR_CONTACT_PYRAMIDAL || type[i] == mjCNSTR_CONTACT_ELLIPTIC) bad = 1;
  if (bad) { printf("bad-op\n"); goto done; }
  // refuse inputs on which the function would index outside the arrays handed to it (or loop forever)
  for (long i = nefnf; i < nefc; ) {
    if (type[i] != mjCNSTR_CONTACT_PYRAMIDAL && type[i] != mjCNSTR_CONTACT_ELLIPTIC) { i++; continue; }
    if (id[i] >= ncon) { printf("oob\n"); goto done; }
    int dim = con[id[i]].dim;
    int nrows = type[i] == mjCNSTR_CONTACT_ELLIPTIC ? dim : 2 * (dim - 1);
    if (dim < 2 || dim > 6 || i + nrows > nefc) { printf("oob\n"); goto done; }
    // the rows of a block share the contact's impedance: the contact's flat solimp is the imp of the block's first row
    if (!used[id[i]]) {
      used[id[i]] = 1;
      con[id[i]].solimp[0] = con[id[i]].solimp[1] = imp[i];
      con[id[i]].solimp[2] = 0.001; con[id[i]].solimp[3] = 0.5; con[id[i]].solimp[4] = 2;
      con[id[i]].solref[0] = 0.02; con[id[i]].solref[1] = 1;
    }
    i += nrows;
  }
  memset(&fm, 0, sizeof fm); memset(&fd, 0, sizeof fd);
  fm.opt.impratio = impratio; fm.opt.timestep = 0.002;
  fm.eq_solref = fm.jnt_solref = fm.dof_solref = fm.tendon_solref_lim = fm.tendon_solref_fri = solref;
  fm.eq_solimp = fm.jnt_solimp = fm.dof_solimp = fm.tendon_solimp_lim = fm.tendon_solimp_fri = solimp;
  fm.eq_type = eqtype;
  for (long i = 0; i < nefc; i++) {
    eqtype[i] = mjEQ_JOINT;
    solref[2 * i] = 0.02; solref[2 * i + 1] = 1;
    solimp[5 * i] = solimp[5 * i + 1] = imp[i]; solimp[5 * i + 2] = 0.001; solimp[5 * i + 3] = 0.5; solimp[5 * i + 4] = 2;
    R[i] = D[i] = NAN;
  }
  int* efc_id = calloc(nefc + 1, 4);
  for (long i = 0; i < nefc; i++) {
    if (type[i] == mjCNSTR_CONTACT_PYRAMIDAL || type[i] == mjCNSTR_CONTACT_ELLIPTIC) efc_id[i] = id[i];
    else if (type[i] == mjCNSTR_CONTACT_FRICTIONLESS) {
      // a private contact per frictionless row
      mjContact* c = con + ncon + i;
      c->dim = 1; c->solimp[0] = c->solimp[1] = imp[i]; c->solimp[2] = 0.001; c->solimp[3] = 0.5; c->solimp[4] = 2;
      c->solref[0] = 0.02; c->solref[1] = 1;
      efc_id[i] = (int)(ncon + i);
    } else efc_id[i] = (int)i;
  }
  for (long c = 0; c < ncon; c++) memset(&con[c].mu, 0xff, 8);   // "not written"
  fd.ne = 0; fd.nf = (int)nefnf; fd.nefc = (int)nefc; fd.ncon = (int)ncon;
  fd.efc_type = type; fd.efc_id = efc_id; fd.efc_pos = zeros; fd.efc_margin = zeros; fd.efc_diagA = diagA;
  fd.efc_R = R; fd.efc_D = D; fd.efc_KBIP = KBIP; fd.contact = con;
  mj_makeImpedance(&fm, &fd);
  free(efc_id);
  for (long i = 0; i < nefc; i++)
    if (memcmp(KBIP + 4 * i + 2, imp + i, 8)) { printf("imp-mismatch row %ld\n", i); goto done; }
  for (long c = 0; c < ncon; c++) {
    unsigned char* p = (unsigned char*)&con[c].mu;
    for (int b = 0; b < 8; b++) if (p[b] != 0xff) written[c] = 1;
  }
  put_imp_out(R, D, (int)nefc, con, (int)ncon, written);
done:
  free(diagA); free(imp); free(R); free(D); free(KBIP); free(zeros); free(solref); free(solimp);
  free(type); free(id); free(eqtype); free(con); free(written); free(used);
}

// ---------------------------------------------------------------- engine ops
static mjModel* m = NULL;
static mjSpec* spec = NULL;
static mjData* d = NULL;

static void dense_J(double* J) {
  int nv = m->nv;
  memset(J, 0, sizeof(double) * (size_t)d->nefc * nv);
  if (mj_isSparse(m)) {
    for (int r = 0; r < d->nefc; r++)
      for (int k = 0; k < d->efc_J_rownnz[r]; k++)
        J[(size_t)r * nv + d->efc_J_colind[d->efc_J_rowadr[r] + k]] = d->efc_J[d->efc_J_rowadr[r] + k];
  } else {
    memcpy(J, d->efc_J, sizeof(double) * (size_t)d->nefc * nv);
  }
}

static void dump_constraint(void) {
  int nefc = d->nefc, nv = m->nv;
  printf("{\"nisland\":%d,\"nidof\":%d,\"disableflags\":%d,", d->nisland, d->nisland > 0 ? d->nidof : 0, m->opt.disableflags);
  printf("\"nv\":%d,\"ne\":%d,\"nf\":%d,\"nefc\":%d,\"ncon\":%d,\"sparse\":%d,\"pyramidal\":%d,\"solver\":%d,\"niter\":%d,\"impratio\":",
         nv, d->ne, d->nf, nefc, d->ncon, mj_isSparse(m), mj_isPyramidal(m), m->opt.solver, d->solver_niter[0]);
  put_num(m->opt.impratio); printf(",");
  put_ints("type", d->efc_type, nefc, 0); put_ints("id", d->efc_id, nefc, 0); put_ints("state", d->efc_state, nefc, 0);
  put_nums("force", d->efc_force, nefc, 0); put_nums("D", d->efc_D, nefc, 0); put_nums("R", d->efc_R, nefc, 0);
  put_nums("floss", d->efc_frictionloss, nefc, 0); put_nums("aref", d->efc_aref, nefc, 0);
  double* J = malloc(sizeof(double) * ((size_t)nefc * nv + 1));
  double* jar = malloc(sizeof(double) * (nefc + 1));
  if (nefc) { dense_J(J); mj_mulJacVec(m, d, jar, d->qacc); for (int i = 0; i < nefc; i++) jar[i] -= d->efc_aref[i]; }
  put_nums("J", J, (long)nefc * nv, 0); put_nums("jar", jar, nefc, 0);
  put_nums("qfrc_constraint", d->qfrc_constraint, nv, 0);
  put_ints("idof2dof", d->map_idof2dof, (nefc && d->nisland > 0 && d->map_idof2dof) ? d->nidof : 0, 0);
  printf("\"contacts\":[");
  for (int i = 0; i < d->ncon; i++) {
    mjContact* c = d->contact + i;
    double cf[6];
    mj_contactForce(m, d, i, cf);
    printf(i ? ",{" : "{");
    printf("\"dim\":%d,\"adr\":%d,\"exclude\":%d,\"mu\":", c->dim, c->efc_address, c->exclude); put_num(c->mu);
    printf(",\"adhesion\":"); put_num(c->adhesion); printf(",");
    put_nums("friction", c->friction, 5, 0); put_nums("cf", cf, 6, 1);
    printf("}");
  }
  printf("]}\n");
  free(J); free(jar);
}

static void op_fwd(void) {
  mj_forward(m, d);
  dump_constraint();
}

// re-run of mj_fwdConstraint on the post-forward mjData with its C11-observable outputs overwritten by `poison`
static void op_refwd(double poison) {
  int nv = m->nv, nefc = d->nefc;
  for (int i = 0; i < nv; i++) d->qfrc_constraint[i] = poison;
  if (nefc && d->efc_force) for (int i = 0; i < nefc; i++) d->efc_force[i] = poison;
  if (nefc && d->nisland > 0) {
    if (d->ifrc_constraint) for (int i = 0; i < d->nidof; i++) d->ifrc_constraint[i] = poison;
    if (d->iefc_force) for (int i = 0; i < nefc; i++) d->iefc_force[i] = poison;
  }
  mj_fwdConstraint(m, d);
  dump_constraint();
}

static void op_updline(int flg) {
  int nefc = d->nefc;
  double* jar = malloc(sizeof(double) * (nefc + 1));
  if (nefc) { mj_mulJacVec(m, d, jar, d->qacc); for (int i = 0; i < nefc; i++) jar[i] -= d->efc_aref[i]; }
  printf("upd %d %d %d %d %d", d->ne, d->nf, flg, nefc, d->ncon);
  for (int i = 0; i < nefc; i++) {
    printf(" "); put_hex(d->efc_D[i]); printf(" "); put_hex(d->efc_R[i]); printf(" "); put_hex(d->efc_frictionloss[i]);
    printf(" "); put_hex(jar[i]);
    // efc_id of non-contact rows may be any object id: irrelevant to the function, printed as 0 unless elliptic
    printf(" %d %d", d->efc_type[i], d->efc_type[i] == mjCNSTR_CONTACT_ELLIPTIC ? d->efc_id[i] : 0);
  }
  for (int c = 0; c < d->ncon; c++) {
    int dim = d->contact[c].dim;
    printf(" %d ", dim); put_hex(d->contact[c].mu);
    for (int j = 0; j < 5; j++) { printf(" "); put_hex(d->contact[c].friction[j]); }
  }
  printf("\n");
  free(jar);
}

// the real mj_makeImpedance(m, d) re-run on the engine's own constraint rows (efc_diagA as mj_forward left it); the
// arrays it writes are saved and restored, so the state of d is unchanged
static void op_impline(void) {
  int nefc = d->nefc, ncon = d->ncon;
  double* sR = malloc(8 * (nefc + 1)); double* sD = malloc(8 * (nefc + 1)); double* sK = malloc(32 * (nefc + 1));
  double* sA = malloc(8 * (nefc + 1)); double* smu = malloc(8 * (ncon + 1));
  unsigned char* written = calloc(ncon + 1, 1);
  memcpy(sR, d->efc_R, 8 * nefc); memcpy(sD, d->efc_D, 8 * nefc); memcpy(sK, d->efc_KBIP, 32 * nefc);
  memcpy(sA, d->efc_diagA, 8 * nefc);
  for (int c = 0; c < ncon; c++) { smu[c] = d->contact[c].mu; memset(&d->contact[c].mu, 0xff, 8); }
  mj_makeImpedance(m, d);
  printf("imp %d ", d->ne + d->nf); put_hex(m->opt.impratio); printf(" %d %d", nefc, ncon);
  for (int i = 0; i < nefc; i++) {
    int fric = d->efc_type[i] == mjCNSTR_CONTACT_PYRAMIDAL || d->efc_type[i] == mjCNSTR_CONTACT_ELLIPTIC;
    printf(" "); put_hex(sA[i]); printf(" "); put_hex(d->efc_KBIP[4 * i + 2]);
    printf(" %d %d", d->efc_type[i], fric ? d->efc_id[i] : 0);
  }
  for (int c = 0; c < ncon; c++) {
    printf(" %d", d->contact[c].dim);
    for (int j = 0; j < 5; j++) { printf(" "); put_hex(d->contact[c].friction[j]); }
  }
  printf(" => ");
  for (int c = 0; c < ncon; c++) {
    unsigned char* p = (unsigned char*)&d->contact[c].mu;
    for (int b = 0; b < 8; b++) if (p[b] != 0xff) written[c] = 1;
  }
  put_imp_out(d->efc_R, d->efc_D, nefc, d->contact, ncon, written);
  memcpy(d->efc_R, sR, 8 * nefc); memcpy(d->efc_D, sD, 8 * nefc); memcpy(d->efc_KBIP, sK, 32 * nefc);
  memcpy(d->efc_diagA, sA, 8 * nefc);
  for (int c = 0; c < ncon; c++) d->contact[c].mu = smu[c];
  free(sR); free(sD); free(sK); free(sA); free(smu); free(written);
}

// island-ordered copies of the constraint parameters (what the per-island solvers hand to mj_constraintUpdate_impl)
// next to the global arrays and the maps, after a forward call:
//   isl <nisland> <nefc> | a island_iefcadr* | n island_nefc* | e island_ne* | f island_nf* | i2e map_iefc2efc* | e2i map_efc2iefc*
//       | E {type id floss D R}*nefc (global order) | I {type id floss D R}*nefc (island order)
static void op_islandline(void) {
  int nefc = d->nefc, ni = d->nisland;
  if (!nefc || ni <= 0 || !d->iefc_D || !d->map_iefc2efc) { printf("isl 0 %d\n", nefc); return; }
  printf("isl %d %d | a", ni, nefc);
  for (int i = 0; i < ni; i++) printf(" %d", d->island_iefcadr[i]);
  printf(" | n"); for (int i = 0; i < ni; i++) printf(" %d", d->island_nefc[i]);
  printf(" | e"); for (int i = 0; i < ni; i++) printf(" %d", d->island_ne[i]);
  printf(" | f"); for (int i = 0; i < ni; i++) printf(" %d", d->island_nf[i]);
  printf(" | i2e"); for (int i = 0; i < nefc; i++) printf(" %d", d->map_iefc2efc[i]);
  printf(" | e2i"); for (int i = 0; i < nefc; i++) printf(" %d", d->map_efc2iefc[i]);
  printf(" | E");
  for (int i = 0; i < nefc; i++) {
    printf(" %d %d ", d->efc_type[i], d->efc_id[i]); put_hex(d->efc_frictionloss[i]);
    printf(" "); put_hex(d->efc_D[i]); printf(" "); put_hex(d->efc_R[i]);
  }
  printf(" | I");
  for (int i = 0; i < nefc; i++) {
    printf(" %d %d ", d->iefc_type[i], d->iefc_id[i]); put_hex(d->iefc_frictionloss[i]);
    printf(" "); put_hex(d->iefc_D[i]); printf(" "); put_hex(d->iefc_R[i]);
  }
  printf("\n");
}

typedef struct { const char* name; int which; } SetField;

static void op_set(char** tok, int n) {
  double* p = NULL; long cnt = 0;
  const char* f = tok[1];
  if (!strcmp(f, "qpos")) { p = d->qpos; cnt = m->nq; }
  else if (!strcmp(f, "qvel")) { p = d->qvel; cnt = m->nv; }
  else if (!strcmp(f, "act")) { p = d->act; cnt = m->na; }
  else if (!strcmp(f, "ctrl")) { p = d->ctrl; cnt = m->nu; }
  else if (!strcmp(f, "qfrc_applied")) { p = d->qfrc_applied; cnt = m->nv; }
  else if (!strcmp(f, "xfrc_applied")) { p = d->xfrc_applied; cnt = 6 * m->nbody; }
  else if (!strcmp(f, "mocap_pos")) { p = d->mocap_pos; cnt = 3 * m->nmocap; }
  else if (!strcmp(f, "mocap_quat")) { p = d->mocap_quat; cnt = 4 * m->nmocap; }
  if (!p && cnt == 0 && n == 2) { printf("ok\n"); return; }
  if (n - 2 > cnt) { printf("bad-op\n"); return; }
  for (int i = 0; i < n - 2; i++) p[i] = strtod(tok[2 + i], NULL);
  printf("ok\n");
}

int main(void) {
  mju_user_error = on_error;
  mju_user_warning = on_warning;
  static char line[1 << 22];
  static char* tok[1 << 18];
  while (fgets(line, sizeof line, stdin)) {
    int n = 0; char* save; char* t = strtok_r(line, " \t\r\n", &save);
    while (t && n < (1 << 18)) { tok[n++] = t; t = strtok_r(NULL, " \t\r\n", &save); }
    if (!n) { printf("bad-op\n"); fflush(stdout); continue; }
    const char* op = tok[0];
    jb_armed = 1;
    if (setjmp(jb)) { jb_armed = 0; printf("error %s\n", lasterr); fflush(stdout); continue; }
    if (!strcmp(op, "upd")) op_upd(tok, n);
    else if (!strcmp(op, "jtv")) op_jtv(tok, n);
    else if (!strcmp(op, "dec")) op_dec(tok, n, 0);
    else if (!strcmp(op, "enc")) op_dec(tok, n, 1);
    else if (!strcmp(op, "pc")) op_pc(tok, n);
    else if (!strcmp(op, "qcqp")) op_qcqp(tok, n);
    else if (!strcmp(op, "imp")) op_imp(tok, n);
    else if (!strcmp(op, "model")) {
      if (d) { mj_deleteData(d); d = NULL; }
      if (m) { mj_deleteModel(m); m = NULL; }
      if (spec) { mj_deleteSpec(spec); spec = NULL; }
      char err[1024];
      m = mjb_compile(stdin, &spec, err, sizeof err);
      if (m) d = mj_makeData(m);
      if (!m || !d) printf("error %s\n", m ? "makeData" : err);
      else printf("ok %d %d %d\n", (int)m->nq, (int)m->nv, (int)m->ngeom);
    } else if (strcmp(op, "opt") && strcmp(op, "adhesion") && strcmp(op, "set") && strcmp(op, "reset") &&
               strcmp(op, "step") && strcmp(op, "fwd") && strcmp(op, "fwdq") && strcmp(op, "updline") && strcmp(op, "impline") &&
               strcmp(op, "flags") && strcmp(op, "eqactive") && strcmp(op, "refwd") && strcmp(op, "islandline")) {
      printf("bad-op\n");
    } else if (!m || !d) {
      printf("error no model\n");
    } else if (!strcmp(op, "opt") && n == 8) {
      m->opt.solver = atoi(tok[1]); m->opt.cone = atoi(tok[2]); m->opt.jacobian = atoi(tok[3]);
      m->opt.iterations = atoi(tok[4]); m->opt.tolerance = strtod(tok[5], NULL);
      m->opt.impratio = strtod(tok[6], NULL); m->opt.noslip_iterations = atoi(tok[7]);
      printf("ok\n");
    } else if (!strcmp(op, "adhesion") && n == 1 + m->ngeom) {
      int any = 0;
      for (int i = 0; i < m->ngeom; i++) { m->geom_adhesion[i] = strtod(tok[1 + i], NULL); if (m->geom_adhesion[i]) any = 1; }
      m->flg_adhesion = any;
      printf("ok\n");
    } else if (!strcmp(op, "set") && n >= 2) op_set(tok, n);
    else if (!strcmp(op, "reset")) { mj_resetData(m, d); printf("ok\n"); }
    else if (!strcmp(op, "step") && n == 2) { int k = atoi(tok[1]); for (int i = 0; i < k; i++) mj_step(m, d); printf("ok\n"); }
    else if (!strcmp(op, "fwd")) op_fwd();
    else if (!strcmp(op, "fwdq")) { mj_forward(m, d); printf("ok %d %d\n", d->nefc, d->ncon); }
    else if (!strcmp(op, "updline") && n == 2) op_updline(atoi(tok[1]) ? 1 : 0);
    else if (!strcmp(op, "impline") && n == 1) op_impline();
    else if (!strcmp(op, "islandline") && n == 1) op_islandline();
    else if (!strcmp(op, "flags") && n == 3) {
      m->opt.disableflags = atoi(tok[1]); m->opt.enableflags = atoi(tok[2]);
      printf("ok\n");
    } else if (!strcmp(op, "eqactive") && n - 1 <= m->neq) {
      for (int i = 0; i < n - 1; i++) d->eq_active[i] = atoi(tok[1 + i]) ? 1 : 0;
      printf("ok\n");
    } else if (!strcmp(op, "refwd") && n == 2) {
      double poison;
      if (!parse_hex(tok[1], &poison)) printf("bad-op\n"); else op_refwd(poison);
    }
    else printf("bad-op\n");
    jb_armed = 0;
    fflush(stdout);
  }
  return 0;
}
