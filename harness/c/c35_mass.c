// C35 implementation-side driver: compiles bodies through the mjSpec C API of the tree build and prints the
// compiled mass properties (body_mass, body_ipos, body_iquat, body_inertia of body 1).  Same line protocol as
// lean/Drivers/C35.lean for `vol`, `inert`, `body`; in addition (oracle only, no model counterpart):
//   mesh <density> <inertia> sx sy sz  rx ry rz  qw qx qy qz  builtin <kind> p...    procedural mesh (mjs_makeMesh)
//   mesh <density> <inertia> sx sy sz  rx ry rz  qw qx qy qz  user <nv> <nf> v(3nv floats, decimal) f(3nf ints)
//        one non-colliding mesh geom (contype = conaffinity = 0: no convex hull needed) on a static body;
//        output: mass ipos[3] iquat[4] inertia[3] as IEEE bits, or `error <msg>`
//   ibody bm bi <balance> <fromgeom 0|1|2> <glo> <ghi> stm <explicit> mass <hasipos> ipos[3] iquat[4] diag[3] <hasfull> full[6]
//         <n> { <group> + 14 geom tokens }*n     (model counterpart: bodyCompile / applyTotalmass)
//        one static body with default frame, an (optionally explicit) inertial clause and n geoms, compiled with
//        compiler.boundmass / boundinertia / balanceinertia / inertiafromgeom / inertiagrouprange / settotalmass
//   redit <api 0|1> <k> <n> { 27 fixed ibody tokens + n x (<group> + 14 geom tokens) }*k   (model: bodyCompileState)
//        ONE spec: stage 1 builds body + n geoms and compiles; each later stage overwrites every mass-relevant field
//        of the same mjsBody / mjsGeom / compiler in place and compiles the same spec again (api 0: mj_compile,
//        api 1: mj_recompile on the previous model when there is one); output: the k results joined by ` | `
// Doubles are the 16 hex digits of their IEEE bits (`nan` for NaN) unless stated otherwise.
#include <math.h>
#include <stdint.h>
#include <stdio.h>
#include <stdlib.h>
#include <string.h>
#include <mujoco/mujoco.h>

static int getf(const char* t, double* x) {
  if (!strcmp(t, "nan")) { *x = NAN; return 1; }
  if (strlen(t) != 16) return 0;
  char* e; uint64_t u = strtoull(t, &e, 16);
  if (*e) return 0;
  for (const char* c = t; *c; c++) if (!((*c >= '0' && *c <= '9') || (*c >= 'a' && *c <= 'f'))) return 0;
  memcpy(x, &u, 8); return 1;
}
static void putf(double x, int first) {
  uint64_t u; memcpy(&u, &x, 8);
  if (x != x) printf(first ? "nan" : " nan"); else printf(first ? "%016llx" : " %016llx", (unsigned long long)u);
}
static int geti(const char* t, int* x) {
  char* e; long v = strtol(t, &e, 10);
  if (*e || e == t || t[0] == '+') return 0;
  *x = (int)v; return 1;
}
static int gtype(const char* t, int* ty) {
  int c; if (!geti(t, &c)) return 0;
  if (c != mjGEOM_SPHERE && c != mjGEOM_CAPSULE && c != mjGEOM_ELLIPSOID && c != mjGEOM_CYLINDER && c != mjGEOM_BOX) return 0;
  *ty = c; return 1;
}
static int b01(const char* t, int* b) { if (!strcmp(t, "0")) { *b = 0; return 1; } if (!strcmp(t, "1")) { *b = 1; return 1; } return 0; }

static void print_body(const mjModel* m) {
  putf(m->body_mass[1], 1);
  for (int i = 0; i < 3; i++) putf(m->body_ipos[3 + i], 0);
  for (int i = 0; i < 4; i++) putf(m->body_iquat[4 + i], 0);
  for (int i = 0; i < 3; i++) putf(m->body_inertia[3 + i], 0);
  printf("\n");
}

// one static body (no joint) below the world; returns the body
static mjsBody* newbody(mjSpec* s) {
  mjsBody* w = mjs_findBody(s, "world");
  return mjs_addBody(w, NULL);
}

static mjsGeom* addgeom(mjsBody* b, int type, int shell, const double* size) {
  mjsGeom* g = mjs_addGeom(b, NULL);
  g->type = (mjtGeom)type;
  g->typeinertia = shell ? mjINERTIA_SHELL : mjINERTIA_VOLUME;
  g->size[0] = size[0]; g->size[1] = size[1]; g->size[2] = size[2];
  g->contype = 0; g->conaffinity = 0;
  return g;
}

static void op_vol(char** tok, int n) {
  int ty, sh; double s[3];
  if (n != 5 || !gtype(tok[0], &ty) || !b01(tok[1], &sh) || !getf(tok[2], s) || !getf(tok[3], s + 1) || !getf(tok[4], s + 2)) { printf("bad-op\n"); return; }
  if (ty == mjGEOM_ELLIPSOID && sh) { printf("unsupported\n"); return; }   // declared scope of the model (std::pow)
  mjSpec* sp = mj_makeSpec();
  mjsGeom* g = addgeom(newbody(sp), ty, sh, s);
  g->density = 1.0;   // mass_ = 1.0 * GetVolume(): exactly the volume
  mjModel* m = mj_compile(sp, NULL);
  if (!m) printf("error %s\n", mjs_getError(sp)); else { putf(m->body_mass[1], 1); printf("\n"); mj_deleteModel(m); }
  mj_deleteSpec(sp);
}

static void op_inert(char** tok, int n) {
  int ty, sh; double mass, s[3];
  if (n != 6 || !gtype(tok[0], &ty) || !b01(tok[1], &sh) || !getf(tok[2], &mass) || !getf(tok[3], s) || !getf(tok[4], s + 1) || !getf(tok[5], s + 2)) { printf("bad-op\n"); return; }
  mjSpec* sp = mj_makeSpec();
  mjsGeom* g = addgeom(newbody(sp), ty, sh, s);
  g->mass = mass;
  mjModel* m = mj_compile(sp, NULL);
  if (!m) printf("error\n");
  else {
    if (m->body_mass[1] != mass) printf("mass-not-applied\n");
    else { putf(m->body_inertia[3], 1); putf(m->body_inertia[4], 0); putf(m->body_inertia[5], 0); printf("\n"); }
    mj_deleteModel(m);
  }
  mj_deleteSpec(sp);
}

static void op_body(char** tok, int n) {
  int ng;
  if (n < 1 || !geti(tok[0], &ng) || ng < 1 || ng > 64 || n != 1 + 14 * ng) { printf("bad-op\n"); return; }
  // validate everything before building
  int unsupported = 0;
  for (int k = 0; k < ng; k++) {
    char** t = tok + 1 + 14 * k; int ty, sh, um; double x;
    if (!gtype(t[0], &ty) || !b01(t[1], &sh) || !b01(t[2], &um)) { printf("bad-op\n"); return; }
    for (int j = 3; j < 14; j++) if (!getf(t[j], &x)) { printf("bad-op\n"); return; }
    if (ty == mjGEOM_ELLIPSOID && sh) unsupported = 1;
  }
  if (unsupported) { printf("unsupported\n"); return; }
  mjSpec* sp = mj_makeSpec();
  mjsBody* b = newbody(sp);
  for (int k = 0; k < ng; k++) {
    char** t = tok + 1 + 14 * k; int ty, sh, um; double v[11];
    gtype(t[0], &ty); b01(t[1], &sh); b01(t[2], &um);
    for (int j = 0; j < 11; j++) getf(t[3 + j], v + j);
    mjsGeom* g = addgeom(b, ty, sh, v + 1);
    if (um) g->mass = v[0]; else g->density = v[0];
    g->pos[0] = v[4]; g->pos[1] = v[5]; g->pos[2] = v[6];
    g->quat[0] = v[7]; g->quat[1] = v[8]; g->quat[2] = v[9]; g->quat[3] = v[10];
  }
  mjModel* m = mj_compile(sp, NULL);
  if (!m) printf("error\n"); else { print_body(m); mj_deleteModel(m); }
  mj_deleteSpec(sp);
}

static void op_ibody(char** tok, int n) {
  if (n < 28) { printf("bad-op\n"); return; }
  double bm, bi, stm, mass, ipos[3], iquat[4], diag[3], full[6];
  int bal, ifg, glo, ghi, expl, hasipos, hasfull, ng;
  int ok = getf(tok[0], &bm) && getf(tok[1], &bi) && b01(tok[2], &bal) && geti(tok[3], &ifg) && ifg >= 0 && ifg <= 2 &&
           strlen(tok[3]) == 1 && geti(tok[4], &glo) && geti(tok[5], &ghi) && getf(tok[6], &stm) && b01(tok[7], &expl) &&
           getf(tok[8], &mass) && b01(tok[9], &hasipos) && b01(tok[20], &hasfull) && geti(tok[27], &ng) && tok[27][0] != '-';
  for (int i = 0; ok && i < 3; i++) ok = getf(tok[10 + i], ipos + i) && getf(tok[17 + i], diag + i);
  for (int i = 0; ok && i < 4; i++) ok = getf(tok[13 + i], iquat + i);
  for (int i = 0; ok && i < 6; i++) ok = getf(tok[21 + i], full + i);
  if (!ok || ng < 0 || ng > 64 || n != 28 + 15 * ng) { printf("bad-op\n"); return; }
  int unsupported = 0;
  for (int k = 0; k < ng; k++) {
    char** t = tok + 28 + 15 * k; int grp, ty, sh, um; double x;
    if (!geti(t[0], &grp) || !gtype(t[1], &ty) || !b01(t[2], &sh) || !b01(t[3], &um)) { printf("bad-op\n"); return; }
    for (int j = 4; j < 15; j++) if (!getf(t[j], &x)) { printf("bad-op\n"); return; }
    if (ty == mjGEOM_ELLIPSOID && sh) unsupported = 1;
  }
  if (unsupported) { printf("unsupported\n"); return; }
  mjSpec* sp = mj_makeSpec();
  sp->compiler.boundmass = bm;
  sp->compiler.boundinertia = bi;
  sp->compiler.balanceinertia = bal;
  sp->compiler.inertiafromgeom = ifg == 0 ? mjINERTIAFROMGEOM_FALSE : ifg == 1 ? mjINERTIAFROMGEOM_TRUE : mjINERTIAFROMGEOM_AUTO;
  sp->compiler.inertiagrouprange[0] = glo;
  sp->compiler.inertiagrouprange[1] = ghi;
  sp->compiler.settotalmass = stm;
  mjsBody* b = newbody(sp);
  b->explicitinertial = expl;
  b->mass = mass;
  if (hasipos) { b->ipos[0] = ipos[0]; b->ipos[1] = ipos[1]; b->ipos[2] = ipos[2]; }
  for (int i = 0; i < 4; i++) b->iquat[i] = iquat[i];
  for (int i = 0; i < 3; i++) b->inertia[i] = diag[i];
  if (hasfull) for (int i = 0; i < 6; i++) b->fullinertia[i] = full[i];
  for (int k = 0; k < ng; k++) {
    char** t = tok + 28 + 15 * k; int grp, ty, sh, um; double v[11];
    geti(t[0], &grp); gtype(t[1], &ty); b01(t[2], &sh); b01(t[3], &um);
    for (int j = 0; j < 11; j++) getf(t[4 + j], v + j);
    mjsGeom* g = addgeom(b, ty, sh, v + 1);
    g->group = grp;
    if (um) g->mass = v[0]; else g->density = v[0];
    g->pos[0] = v[4]; g->pos[1] = v[5]; g->pos[2] = v[6];
    g->quat[0] = v[7]; g->quat[1] = v[8]; g->quat[2] = v[9]; g->quat[3] = v[10];
  }
  mjModel* m = mj_compile(sp, NULL);
  if (!m) printf("error\n"); else { print_body(m); mj_deleteModel(m); }
  mj_deleteSpec(sp);
}

// ---- edit-then-recompile sequences on one spec
typedef struct {
  double bm, bi, stm, mass, ipos[3], iquat[4], diag[3], full[6];
  int bal, ifg, glo, ghi, expl, hasipos, hasfull;
} StageFixed;

static int parse_fixed(char** tok, StageFixed* f) {
  int ok = getf(tok[0], &f->bm) && getf(tok[1], &f->bi) && b01(tok[2], &f->bal) && geti(tok[3], &f->ifg) && f->ifg >= 0 &&
           f->ifg <= 2 && strlen(tok[3]) == 1 && geti(tok[4], &f->glo) && geti(tok[5], &f->ghi) && getf(tok[6], &f->stm) &&
           b01(tok[7], &f->expl) && getf(tok[8], &f->mass) && b01(tok[9], &f->hasipos) && b01(tok[20], &f->hasfull);
  for (int i = 0; ok && i < 3; i++) ok = getf(tok[10 + i], f->ipos + i) && getf(tok[17 + i], f->diag + i);
  for (int i = 0; ok && i < 4; i++) ok = getf(tok[13 + i], f->iquat + i);
  for (int i = 0; ok && i < 6; i++) ok = getf(tok[21 + i], f->full + i);
  return ok;
}

// returns 0 malformed, 1 fine, 2 ellipsoid shell
static int check_geom15(char** t) {
  int grp, ty, sh, um; double x;
  if (!geti(t[0], &grp) || !gtype(t[1], &ty) || !b01(t[2], &sh) || !b01(t[3], &um)) return 0;
  for (int j = 4; j < 15; j++) if (!getf(t[j], &x)) return 0;
  return (ty == mjGEOM_ELLIPSOID && sh) ? 2 : 1;
}

// overwrite every mass-relevant field (the values a fresh spec would have, defaults included)
static void set_fixed(mjSpec* sp, mjsBody* b, const StageFixed* f) {
  sp->compiler.boundmass = f->bm;
  sp->compiler.boundinertia = f->bi;
  sp->compiler.balanceinertia = f->bal;
  sp->compiler.inertiafromgeom = f->ifg == 0 ? mjINERTIAFROMGEOM_FALSE : f->ifg == 1 ? mjINERTIAFROMGEOM_TRUE : mjINERTIAFROMGEOM_AUTO;
  sp->compiler.inertiagrouprange[0] = f->glo;
  sp->compiler.inertiagrouprange[1] = f->ghi;
  sp->compiler.settotalmass = f->stm;
  b->explicitinertial = f->expl;
  b->mass = f->mass;
  if (f->hasipos) { b->ipos[0] = f->ipos[0]; b->ipos[1] = f->ipos[1]; b->ipos[2] = f->ipos[2]; }
  else { b->ipos[0] = NAN; b->ipos[1] = 0; b->ipos[2] = 0; }
  for (int i = 0; i < 4; i++) b->iquat[i] = f->iquat[i];
  for (int i = 0; i < 3; i++) b->inertia[i] = f->diag[i];
  if (f->hasfull) for (int i = 0; i < 6; i++) b->fullinertia[i] = f->full[i];
  else { b->fullinertia[0] = NAN; for (int i = 1; i < 6; i++) b->fullinertia[i] = 0; }
}

static void set_geom15(mjsGeom* g, char** t) {
  int grp, ty, sh, um; double v[11];
  geti(t[0], &grp); gtype(t[1], &ty); b01(t[2], &sh); b01(t[3], &um);
  for (int j = 0; j < 11; j++) getf(t[4 + j], v + j);
  g->type = (mjtGeom)ty;
  g->typeinertia = sh ? mjINERTIA_SHELL : mjINERTIA_VOLUME;
  g->size[0] = v[1]; g->size[1] = v[2]; g->size[2] = v[3];
  g->contype = 0; g->conaffinity = 0;
  g->group = grp;
  if (um) { g->mass = v[0]; g->density = 1000; } else { g->mass = NAN; g->density = v[0]; }
  g->pos[0] = v[4]; g->pos[1] = v[5]; g->pos[2] = v[6];
  g->quat[0] = v[7]; g->quat[1] = v[8]; g->quat[2] = v[9]; g->quat[3] = v[10];
}

static void op_redit(char** tok, int n) {
  int api, k, ng;
  if (n < 3 || !b01(tok[0], &api) || !geti(tok[1], &k) || !geti(tok[2], &ng) || tok[1][0] == '-' || tok[2][0] == '-' ||
      k < 1 || k > 16 || ng < 0 || ng > 64 || n != 3 + k * (27 + 15 * ng)) { printf("bad-op\n"); return; }
  int w = 27 + 15 * ng, unsupported = 0;
  StageFixed f;
  for (int s = 0; s < k; s++) {
    char** t = tok + 3 + s * w;
    if (!parse_fixed(t, &f)) { printf("bad-op\n"); return; }
    for (int g = 0; g < ng; g++) {
      int r = check_geom15(t + 27 + 15 * g);
      if (!r) { printf("bad-op\n"); return; }
      if (r == 2) unsupported = 1;
    }
  }
  if (unsupported) { printf("unsupported\n"); return; }
  mjSpec* sp = mj_makeSpec();
  mjsBody* b = newbody(sp);
  mjsGeom* gs[64];
  for (int g = 0; g < ng; g++) gs[g] = mjs_addGeom(b, NULL);
  mjModel* m = NULL;
  for (int s = 0; s < k; s++) {
    char** t = tok + 3 + s * w;
    parse_fixed(t, &f);
    set_fixed(sp, b, &f);
    for (int g = 0; g < ng; g++) set_geom15(gs[g], t + 27 + 15 * g);
    if (api && m) {
      if (mj_recompile(sp, NULL, m, NULL) != 0) m = NULL;   // the old model is freed by a failed recompile
    } else {
      if (m) mj_deleteModel(m);
      m = mj_compile(sp, NULL);
    }
    if (s) printf(" | ");
    if (!m) printf("error");
    else {
      putf(m->body_mass[1], 1);
      for (int i = 0; i < 3; i++) putf(m->body_ipos[3 + i], 0);
      for (int i = 0; i < 4; i++) putf(m->body_iquat[4 + i], 0);
      for (int i = 0; i < 3; i++) putf(m->body_inertia[3 + i], 0);
    }
  }
  printf("\n");
  if (m) mj_deleteModel(m);
  mj_deleteSpec(sp);
}

static void op_mesh(char** tok, int n) {
  if (n < 13) { printf("bad-op\n"); return; }
  double density = strtod(tok[0], NULL);
  int inertia; if (!geti(tok[1], &inertia)) { printf("bad-op\n"); return; }
  double v[10];
  for (int i = 0; i < 10; i++) v[i] = strtod(tok[2 + i], NULL);
  mjSpec* sp = mj_makeSpec();
  mjsMesh* me = mjs_addMesh(sp, NULL);
  mjs_setName(me->element, "msh");
  me->inertia = (mjtMeshInertia)inertia;
  for (int i = 0; i < 3; i++) { me->scale[i] = v[i]; me->refpos[i] = v[3 + i]; }
  for (int i = 0; i < 4; i++) me->refquat[i] = v[6 + i];
  if (!strcmp(tok[12], "builtin")) {
    if (n < 14) { printf("bad-op\n"); mj_deleteSpec(sp); return; }
    int kind; if (!geti(tok[13], &kind)) { printf("bad-op\n"); mj_deleteSpec(sp); return; }
    double prm[16]; int np = 0;
    for (int i = 14; i < n && np < 16; i++) prm[np++] = strtod(tok[i], NULL);
    if (mjs_makeMesh(me, (mjtMeshBuiltin)kind, prm, np)) { printf("error makemesh %s\n", mjs_getError(sp)); mj_deleteSpec(sp); return; }
  } else if (!strcmp(tok[12], "user")) {
    int nv, nf;
    if (n < 15 || !geti(tok[13], &nv) || !geti(tok[14], &nf) || nv < 4 || nf < 0 || n != 15 + 3 * nv + 3 * nf) { printf("bad-op\n"); mj_deleteSpec(sp); return; }
    float* vert = (float*)malloc(sizeof(float) * 3 * nv);
    int* face = (int*)malloc(sizeof(int) * 3 * (nf ? nf : 1));
    for (int i = 0; i < 3 * nv; i++) vert[i] = (float)strtod(tok[15 + i], NULL);
    for (int i = 0; i < 3 * nf; i++) face[i] = atoi(tok[15 + 3 * nv + i]);
    mjs_setFloat(me->uservert, vert, 3 * nv);
    mjs_setInt(me->userface, face, 3 * nf);
    free(vert); free(face);
  } else { printf("bad-op\n"); mj_deleteSpec(sp); return; }
  mjsBody* b = newbody(sp);
  mjsGeom* g = mjs_addGeom(b, NULL);
  g->type = mjGEOM_MESH;
  mjs_setString(g->meshname, "msh");
  g->contype = 0; g->conaffinity = 0;
  g->density = density;
  mjModel* m = mj_compile(sp, NULL);
  if (!m) {
    // one output line per op: compiler messages may span several lines
    printf("error ");
    for (const char* e = mjs_getError(sp); e && *e; e++) putchar(*e == '\n' || *e == '\r' ? ' ' : *e);
    printf("\n");
  } else { print_body(m); mj_deleteModel(m); }
  mj_deleteSpec(sp);
}

int main(void) {
  char* line = NULL; size_t cap = 0; ssize_t len;
  size_t tcap = 1024; char** tok = (char**)malloc(tcap * sizeof(char*));
  while ((len = getline(&line, &cap, stdin)) >= 0) {
    int n = 0; char* save; char* t = strtok_r(line, " \t\r\n", &save);
    while (t) {
      if ((size_t)n == tcap) { tcap *= 2; tok = (char**)realloc(tok, tcap * sizeof(char*)); }
      tok[n++] = t; t = strtok_r(NULL, " \t\r\n", &save);
    }
    if (!n) { printf("bad-op\n"); continue; }
    if (!strcmp(tok[0], "vol")) op_vol(tok + 1, n - 1);
    else if (!strcmp(tok[0], "inert")) op_inert(tok + 1, n - 1);
    else if (!strcmp(tok[0], "body")) op_body(tok + 1, n - 1);
    else if (!strcmp(tok[0], "ibody")) op_ibody(tok + 1, n - 1);
    else if (!strcmp(tok[0], "redit")) op_redit(tok + 1, n - 1);
    else if (!strcmp(tok[0], "mesh")) op_mesh(tok + 1, n - 1);
    else printf("bad-op\n");
    fflush(stdout);
  }
  return 0;
}
